(* Model/ReparseIR.v -- a small deep-embedded expression / statement language, just large enough for the bodies of
     pydoctor/stanutils.py : html2stan
     pydoctor/extensions/deprecate.py : deprecatedToUsefulText (from the point where name, package, version and
                                        replacement are known: what precedes is AST plumbing, not string handling)
   and its interpreter.  Gen/ReparseCode.v (written by harness/gen/gen_c10_code.py on every run, fail-closed) holds those
   bodies translated from the CURRENT source; Proofs/ReparseIRProofs.v proves that interpreting them is
   Model/Html2Stan.v resp. Model/DeprecateText.v, for all inputs.   Definitions only.

   Data: text = list of code points; str and bytes are told apart (isinstance) but hold the same text (every pattern the
   bodies use is ASCII and UTF-8 never uses ASCII bytes inside a multi-byte sequence; lone surrogates excluded).

   Primitive (not translated; their modelled meaning is the stated assumption):
     s.encode('utf8')                    the same text as bytes
     REGEX.sub(lambda m: ..., data)      for a compiled one-byte character class: the translator evaluates the class and
                                         the lambda on every member and emits the table; ESubst applies it byte-wise
     data.startswith(const)              Model/DocutilsEsc.starts
     XMLString(data).load()[0]           Model/Html2Stan.xml_load (expat + twisted's _ToStan, modelled by Spec/Xml.v and
                                         validated against expat by the harness); a parse failure raises SAXParseException
     isinstance(x, Tag), x.tagName       on the stan value; == between two str values is text equality
     s.split() / SEP.join(list)          Model/DocutilsEsc.py_split (str.isspace table) / join, also composed
     s.replace(a, b) with one-character a           Model/Stan.replace1
     SEP.join(s.split())                            Model/DocutilsEsc.join / py_split (str.isspace table)
     all(p.isidentifier() for p in s.split(c))      Model/DeprecateText.isidentifier (XID tables) over split_on
     str.format / % / f-strings / + on strings      expanded by the translator into concatenations *)
From Coq Require Import ZArith NArith List Bool.
From PydoctorVerif Require Import Base.Sexp Gen.TablesC10 Model.Stan Model.DocutilsEsc Model.Html2Stan Model.DeprecateText.
Import ListNotations.
Local Open Scope N_scope.

Inductive ival : Type :=
| VNone
| VBool (b : bool)
| VStr (t : text)
| VBytes (t : text)
| VList (l : list text)
| VStan (s : stan)
| VPair (a b : ival).

Definition var := nat.

Inductive iexpr : Type :=
| EConst (v : ival)
| EVar (x : var)
| ELet (x : var) (e body : iexpr)            (* an inlined helper: its parameter / local bound to e in body *)
| EIf (c a b : iexpr)                        (* a if c else b ; also  if c: return a  ... return b  of a helper *)
| ENot (e : iexpr) | EAnd (a b : iexpr) | EOr (a b : iexpr)
| EIsNone (e : iexpr)
| EPair (a b : iexpr)
| EConcat (a b : iexpr)                      (* + , f-string, % and .format after expansion *)
| EReplace1 (a : N) (b : text) (e : iexpr)   (* e.replace(chr a, b) *)
| ESplitJoin (sep : text) (e : iexpr)        (* sep.join(e.split()) *)
| ESplitWs (e : iexpr)                       (* e.split() : the list of white-space separated words *)
| EJoin (sep : text) (e : iexpr)             (* sep.join(e) for a list e *)
| ESplitOn (c : N) (e : iexpr)               (* e.split(chr c) *)
| EAllIdent (e : iexpr)                      (* all(p.isidentifier() for p in e) *)
| EIsStr (e : iexpr)                         (* isinstance(e, str) *)
| EEncode (e : iexpr)                        (* e.encode('utf8') *)
| ESubst (tbl : list (N * text)) (e : iexpr) (* CLASS_REGEX.sub(lambda m: tbl[m.group()], e) *)
| EStartsWith (e : iexpr) (p : text)         (* e.startswith(p) *)
| EXmlLoad (e : iexpr)                       (* XMLString(e).load()[0] *)
| EIsTag (e : iexpr)                         (* isinstance(e, Tag) *)
| ETagNameIs (e : iexpr) (n : text)          (* e.tagName == n *)
| ETagName (e : iexpr)                       (* e.tagName *)
| EEqStr (a b : iexpr).                      (* a == b on two str (or two bytes) values *)

Inductive istmt : Type :=
| SSkip
| SSeq (a b : istmt)
| SAssign (x : var) (e : iexpr)
| SIf (c : iexpr) (a b : istmt)
| SReturn (e : iexpr)
| SRaise (ex : N)
| SAssert (e : iexpr)
| SSetTagName (x : var) (n : text).          (* x.tagName = n *)

(* exception classes *)
Definition ExValueError : N := 1.
Definition ExSAXParse : N := 2.
Definition ExAssertion : N := 3.

Definition env := var -> option ival.
Definition env0 : env := fun _ => None.
Definition setv (en : env) (x : var) (v : ival) : env := fun y => if Nat.eqb x y then Some v else en y.

Definition truthy (v : ival) : bool :=
  match v with
  | VNone => false
  | VBool b => b
  | VStr t | VBytes t => negb (is_nil t)
  | VList l => negb (is_nil l)
  | VStan _ => true
  | VPair _ _ => true
  end.

(* the primitives, kept as named functions so that symbolic execution does not unfold them *)
Definition all_identifiers (l : list text) : bool := forallb isidentifier l.
Definition subst_bytes (tbl : list (N * text)) (t : text) : text :=
  flat_map (fun c => match assoc_N c tbl with Some r => r | None => [c] end) t.

(* evaluation result: a value, a raised exception, or a type error / unbound variable *)
Inductive eres : Type := EVal (v : ival) | EExn (ex : N) | EBad.

Definition ebind (r : eres) (k : ival -> eres) : eres :=
  match r with EVal v => k v | EExn ex => EExn ex | EBad => EBad end.

Fixpoint eval (en : env) (e : iexpr) : eres :=
  match e with
  | EConst v => EVal v
  | EVar x => match en x with Some v => EVal v | None => EBad end
  | ELet x a body => ebind (eval en a) (fun v => eval (setv en x v) body)
  | EIf c a b => ebind (eval en c) (fun v => if truthy v then eval en a else eval en b)
  | ENot a => ebind (eval en a) (fun v => EVal (VBool (negb (truthy v))))
  | EAnd a b => ebind (eval en a) (fun v => if truthy v then eval en b else EVal v)
  | EOr a b => ebind (eval en a) (fun v => if truthy v then EVal v else eval en b)
  | EIsNone a => ebind (eval en a) (fun v => EVal (VBool (match v with VNone => true | _ => false end)))
  | EPair a b => ebind (eval en a) (fun x => ebind (eval en b) (fun y => EVal (VPair x y)))
  | EConcat a b =>
    ebind (eval en a) (fun x => ebind (eval en b) (fun y =>
      match x, y with
      | VStr s, VStr t => EVal (VStr (s ++ t))
      | VBytes s, VBytes t => EVal (VBytes (s ++ t))
      | _, _ => EBad
      end))
  | EReplace1 a b x =>
    ebind (eval en x) (fun v => match v with
                                | VStr t => EVal (VStr (replace1 a b t))
                                | VBytes t => EVal (VBytes (replace1 a b t))
                                | _ => EBad
                                end)
  | ESplitJoin sep x =>
    ebind (eval en x) (fun v => match v with VStr t => EVal (VStr (join sep (py_split t))) | _ => EBad end)
  | ESplitWs x =>
    ebind (eval en x) (fun v => match v with VStr t => EVal (VList (py_split t)) | _ => EBad end)
  | EJoin sep x =>
    ebind (eval en x) (fun v => match v with VList l => EVal (VStr (join sep l)) | _ => EBad end)
  | ESplitOn c x =>
    ebind (eval en x) (fun v => match v with VStr t => EVal (VList (split_on c t)) | _ => EBad end)
  | EAllIdent x =>
    ebind (eval en x) (fun v => match v with VList l => EVal (VBool (all_identifiers l)) | _ => EBad end)
  | EIsStr x => ebind (eval en x) (fun v => EVal (VBool (match v with VStr _ => true | _ => false end)))
  | EEncode x => ebind (eval en x) (fun v => match v with VStr t => EVal (VBytes t) | _ => EBad end)
  | ESubst tbl x =>
    ebind (eval en x) (fun v => match v with VBytes t => EVal (VBytes (subst_bytes tbl t)) | _ => EBad end)
  | EStartsWith x p =>
    ebind (eval en x) (fun v => match v with
                                | VBytes t | VStr t => EVal (VBool (starts p t))
                                | _ => EBad
                                end)
  | EXmlLoad x =>
    ebind (eval en x) (fun v => match v with
                                | VBytes t | VStr t => match xml_load t with
                                                       | Some s => EVal (VStan s)
                                                       | None => EExn ExSAXParse
                                                       end
                                | _ => EBad
                                end)
  | EIsTag x =>
    ebind (eval en x) (fun v => EVal (VBool (match v with VStan (STag _ _ _) => true | _ => false end)))
  | ETagNameIs x n =>
    ebind (eval en x) (fun v => match v with
                                | VStan (STag n' _ _) => EVal (VBool (text_eq n' n))
                                | _ => EBad
                                end)
  | ETagName x =>
    ebind (eval en x) (fun v => match v with VStan (STag n' _ _) => EVal (VStr n') | _ => EBad end)
  | EEqStr a b =>
    ebind (eval en a) (fun x => ebind (eval en b) (fun y =>
      match x, y with
      | VStr s, VStr t | VBytes s, VBytes t => EVal (VBool (text_eq s t))
      | _, _ => EBad
      end))
  end.

Inductive res : Type :=
| RNormal (en : env)
| RReturn (v : ival)
| RRaise (ex : N)
| RBad.

Fixpoint exec (en : env) (s : istmt) : res :=
  match s with
  | SSkip => RNormal en
  | SSeq a b => match exec en a with RNormal en' => exec en' b | r => r end
  | SAssign x e => match eval en e with EVal v => RNormal (setv en x v) | EExn ex => RRaise ex | EBad => RBad end
  | SIf c a b =>
    match eval en c with
    | EVal v => if truthy v then exec en a else exec en b
    | EExn ex => RRaise ex
    | EBad => RBad
    end
  | SReturn e => match eval en e with EVal v => RReturn v | EExn ex => RRaise ex | EBad => RBad end
  | SRaise ex => RRaise ex
  | SAssert e =>
    match eval en e with
    | EVal v => if truthy v then RNormal en else RRaise ExAssertion
    | EExn ex => RRaise ex
    | EBad => RBad
    end
  | SSetTagName x n =>
    match en x with
    | Some (VStan (STag _ a k)) => RNormal (setv en x (VStan (STag n a k)))
    | _ => RBad
    end
  end.

(* a function body: falling off the end returns None *)
Definition run_body (en : env) (s : istmt) : res :=
  match exec en s with RNormal _ => RReturn VNone | r => r end.

(* ---- the calling conventions of the two translated functions -------------------------------------------- *)
(* html2stan(html): parameter = variable 0 *)
Definition run_html2stan (code : istmt) (html : text) : res :=
  run_body (setv env0 0%nat (VStr html)) code.

(* deprecatedToUsefulText, tail: name = 0, package = 1, version = 2, replacement = 3 *)
Definition deprecate_env (name package version : text) (replacement : option text) : env :=
  setv (setv (setv (setv env0 0%nat (VStr name)) 1%nat (VStr package)) 2%nat (VStr version)) 3%nat
       (match replacement with Some r => VStr r | None => VNone end).

Definition run_deprecate (code : istmt) (name package version : text) (replacement : option text) : res :=
  run_body (deprecate_env name package version replacement) code.

(* what the hand-written models say, in the vocabulary of the interpreter *)
Definition res_of_h2s (r : h2s_result) : res :=
  match r with
  | H2Ok s => RReturn (VStan s)
  | H2ParseError => RRaise ExSAXParse
  | H2Document => RBad
  end.

Definition res_of_deprecation (version : text) (o : option text) : res :=
  match o with
  | Some t => RReturn (VPair (VStr version) (VStr t))
  | None => RRaise ExValueError
  end.
