(* Model/StackIR.v -- statement language for pydoctor/astbuilder.py : ASTBuilder.push / pop (the scope stack that C19's
   `builder stack restored` clause is about), its interpreter, and the hand model push_m / pop_m.
   Gen/StackCode.v (harness/gen/gen_c19_stack.py, fail-closed, rewritten on every run) holds the two bodies translated from the
   CURRENT source; Proofs/StackIRProofs.v proves interpretation = model and relates the model to Model.BuilderStack.stack_run.
   Definitions only.

   State: `_stack` (head = most recently appended), `current`, `currentMod`, and the `parentMod` attribute of every object.
   Primitive: `isinstance(obj, model.Module)` is the section variable is_module; `obj.setLineNumber(lineno)` has no effect on the
   modelled state; a failing `assert` and `list.pop()` on an empty list are the outcome None. *)
From Coq Require Import NArith List Bool.
Import ListNotations.

Record bstate := {
  b_stack : list (option N);
  b_current : option N;
  b_mod : option N;
  b_pmod : N -> option N
}.

Inductive sexpr :=
| KNone | KObj | KCurrent | KCurrentMod | KObjParentMod
| KIsNone (a : sexpr) | KIsNotNone (a : sexpr)
| KIs (a b : sexpr) | KIsNot (a b : sexpr)
| KObjIsModule
| KNot (a : sexpr) | KLineno.

Inductive sstmt :=
| KSkip
| KSeq (a b : sstmt)
| KAppendCurrent                  (* self._stack.append(self.current) *)
| KSetCurrent (e : sexpr)         (* self.current = e *)
| KSetCurrentPop                  (* self.current = self._stack.pop() *)
| KSetCurrentMod (e : sexpr)      (* self.currentMod = e *)
| KSetObjParentMod (e : sexpr)    (* obj.parentMod = e *)
| KAssert (e : sexpr)
| KIf (e : sexpr) (a b : sstmt).

Section Exec.
  Variable is_module : N -> bool.
  Variable obj : N.
  Variable lineno_truthy : bool.

  (* values: None | an object | a boolean *)
  Inductive sval := WNone | WObj (n : N) | WBool (b : bool).
  Definition of_opt (o : option N) : sval := match o with Some n => WObj n | None => WNone end.
  Definition sval_is (a b : sval) : bool :=
    match a, b with
    | WNone, WNone => true
    | WObj x, WObj y => N.eqb x y
    | WBool x, WBool y => Bool.eqb x y
    | _, _ => false
    end.
  Definition struthy (v : sval) : bool := match v with WNone => false | WObj _ => true | WBool b => b end.

  Fixpoint seval (s : bstate) (e : sexpr) : sval :=
    match e with
    | KNone => WNone
    | KObj => WObj obj
    | KCurrent => of_opt (b_current s)
    | KCurrentMod => of_opt (b_mod s)
    | KObjParentMod => of_opt (b_pmod s obj)
    | KIsNone a => WBool (sval_is (seval s a) WNone)
    | KIsNotNone a => WBool (negb (sval_is (seval s a) WNone))
    | KIs a b => WBool (sval_is (seval s a) (seval s b))
    | KIsNot a b => WBool (negb (sval_is (seval s a) (seval s b)))
    | KObjIsModule => WBool (is_module obj)
    | KNot a => WBool (negb (struthy (seval s a)))
    | KLineno => WBool lineno_truthy
    end.

  Definition to_opt (v : sval) : option N := match v with WObj n => Some n | _ => None end.

  Fixpoint sexec (c : sstmt) (s : bstate) : option bstate :=
    match c with
    | KSkip => Some s
    | KSeq a b => match sexec a s with Some s1 => sexec b s1 | None => None end
    | KAppendCurrent => Some {| b_stack := b_current s :: b_stack s; b_current := b_current s; b_mod := b_mod s; b_pmod := b_pmod s |}
    | KSetCurrent e => Some {| b_stack := b_stack s; b_current := to_opt (seval s e); b_mod := b_mod s; b_pmod := b_pmod s |}
    | KSetCurrentPop =>
        match b_stack s with
        | top :: rest => Some {| b_stack := rest; b_current := top; b_mod := b_mod s; b_pmod := b_pmod s |}
        | [] => None
        end
    | KSetCurrentMod e => Some {| b_stack := b_stack s; b_current := b_current s; b_mod := to_opt (seval s e); b_pmod := b_pmod s |}
    | KSetObjParentMod e =>
        let v := to_opt (seval s e) in
        Some {| b_stack := b_stack s; b_current := b_current s; b_mod := b_mod s;
                b_pmod := fun x => if N.eqb x obj then v else b_pmod s x |}
    | KAssert e => if struthy (seval s e) then Some s else None
    | KIf e a b => if struthy (seval s e) then sexec a s else sexec b s
    end.

  (* ---- the hand model ---- *)
  Definition push_m (s : bstate) : option bstate :=
    let s1 := {| b_stack := b_current s :: b_stack s; b_current := Some obj; b_mod := b_mod s; b_pmod := b_pmod s |} in
    if is_module obj then
      match b_mod s with
      | None => Some {| b_stack := b_stack s1; b_current := Some obj; b_mod := Some obj;
                        b_pmod := fun x => if N.eqb x obj then Some obj else b_pmod s x |}
      | Some _ => None
      end
    else
      match b_mod s with
      | Some m =>
          match b_pmod s obj with
          | Some pm => if N.eqb pm m then Some s1 else None
          | None => Some {| b_stack := b_stack s1; b_current := Some obj; b_mod := b_mod s;
                            b_pmod := fun x => if N.eqb x obj then Some m else b_pmod s x |}
          end
      | None => match b_pmod s obj with None => Some s1 | Some _ => None end
      end.

  Definition pop_m (s : bstate) : option bstate :=
    match b_current s with
    | Some c =>
        if N.eqb c obj then
          match b_stack s with
          | top :: rest => Some {| b_stack := rest; b_current := top;
                                   b_mod := if is_module obj then None else b_mod s; b_pmod := b_pmod s |}
          | [] => None
          end
        else None
    | None => None
    end.
End Exec.

Record stack_code := { sc_push : sstmt; sc_pop : sstmt }.

(* what stack_run sees: the objects entered and not yet left, innermost first *)
Definition scopes (s : bstate) : list N :=
  flat_map (fun o => match o with Some n => [n] | None => [] end) (b_current s :: b_stack s).
