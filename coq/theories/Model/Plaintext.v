(* Model/Plaintext.v -- pydoctor/epydoc/markup/plaintext.py : ParsedPlaintextDocstring.to_stan, and what
   epydoc2stan.format_docstring builds around it (unwrap_docstring_stan, _wrap_in_paragraph, the empty field
   table).  Definitions only.  A stan tree is a Tag (name, attributes, children) or a str. *)
From Coq Require Import NArith List Bool.
From PydoctorVerif Require Import Base.Sexp.
Import ListNotations.

Inductive pstan := PText (t : text) | PTag (name : text) (attrs : list (text * text)) (kids : list pstan).

Definition t_p : text := [112%N].
Definition t_div : text := [100; 105; 118]%N.
Definition t_class : text := [99; 108; 97; 115; 115]%N.
Definition t_pre : text := [112; 114; 101]%N.

(* tags.p(self._text, class_='pre') *)
Definition plaintext_to_stan (docstring : text) : pstan := PTag t_p [(t_class, t_pre)] [PText docstring].

Definition tag_name (s : pstan) : text := match s with PTag n _ _ => n | PText _ => [] end.
Definition is_p (s : pstan) : bool :=
  match s with PTag [112%N] _ _ => true | _ => false end.

(* _wrap_in_paragraph: only the first element of the body is looked at *)
Definition wrap_in_paragraph (body : list pstan) : bool :=
  match body with
  | [] => false
  | e :: _ => negb (is_p e)
  end.

(* unwrap_docstring_stan *)
Definition unwrap_docstring_stan (s : pstan) : list pstan :=
  match s with
  | PTag (_ :: _) _ _ => [s]
  | PTag [] _ body => if wrap_in_paragraph body then [PTag t_p [] body] else body
  | PText _ => [s]
  end.

(* format_docstring for a documented object without fields: div(unwrap(stan), tags.transparent) *)
Definition format_docstring_plain (docstring : text) : pstan :=
  PTag t_div [] (unwrap_docstring_stan (plaintext_to_stan docstring) ++ [PTag [] [] []]).

(* the character data of a tree, in document order *)
Fixpoint text_content (s : pstan) : text :=
  match s with
  | PText t => t
  | PTag _ _ kids => flat_map text_content kids
  end.

(* the elements named n, in document order *)
Fixpoint elements (n : text) (s : pstan) : list pstan :=
  match s with
  | PText _ => []
  | PTag m _ kids =>
    (if (fix eqb (a b : text) : bool :=
           match a, b with
           | [], [] => true
           | x :: a', y :: b' => N.eqb x y && eqb a' b'
           | _, _ => false
           end) m n then [s] else []) ++ flat_map (elements n) kids
  end.
