(* Model/Wrap.v -- pydoctor/epydoc/markup/_pyval_repr.py : the output side of PyvalColorizer.
     _ColorizerState (result, charpos, lineno, linebreakok), mark()/restore()
     PyvalColorizer._output          line state, LINEWRAP insertion, _Maxlines / _Linebreak
     _OperatorDelimiter.__exit__     ( ... ) put around what the body produced, also when the body raised
     _multiline                      first try on one line, fall back to line breaks after commas
     _insert_comma, _colorize_iter's indent, _colorize_str
     PyvalColorizer.colorize         the tail: ellipsis marker, _trim_result, is_complete
   The colouriser is a tree of such calls; `cmd` is that tree (built from an expression by Model/ExprPrint.v),
   `exec` runs it on a state.  Exceptions are values: exec returns the state reached and the exception, if any.
   Definitions only. *)
From Coq Require Import ZArith NArith List Bool.
From PydoctorVerif Require Import Base.Sexp Model.StrEsc.
Import ListNotations.
Local Open Scope N_scope.

(* ---- docutils nodes as far as the colouriser and node2stan.gettext distinguish them ---- *)
Inductive nkind :=
| NText        (* nodes.Text *)
| NQuote       (* inline, class variable-quote *)
| NString      (* inline, class variable-string *)
| NEllTag      (* inline, class variable-ellipsis produced by _output for the constant ... *)
| NRef         (* obj_reference (link=True) *)
| NWbr         (* WORD_BREAK_OPPORTUNITY *)
| NLinewrap    (* the shared LINEWRAP node *)
| NEllipsis    (* the shared ELLIPSIS node: the truncation marker *)
| NUnknown
| NOther.

Record node := Nd { nk : nkind; ntext : text }.

Definition nkind_idx (k : nkind) : N :=
  match k with NText => 0 | NQuote => 1 | NString => 2 | NEllTag => 3 | NRef => 4 | NWbr => 5
             | NLinewrap => 6 | NEllipsis => 7 | NUnknown => 8 | NOther => 9 end.

Definition is_linewrap (n : node) : bool := match nk n with NLinewrap => true | _ => false end.
Definition is_ellipsis (n : node) : bool := match nk n with NEllipsis => true | _ => false end.

Definition LINEWRAP : node := Nd NLinewrap [8629].
Definition NEWLINE : node := Nd NText [NL].
Definition ELLIPSIS : node := Nd NEllipsis [46; 46; 46].
Definition WBR : node := Nd NWbr [].

(* ---- colouriser parameters and state ---- *)
Record params := Params {
  linelen : N;        (* 0 = None (PyvalColorizer.__init__: linelen if linelen != 0 else None) *)
  maxlines : N;       (* 0 = float(inf) *)
  lbparam : bool      (* self.linebreakok *)
}.

Record st := St { res : list node; charpos : N; lineno : N; lbok : bool }.

Inductive exn := Maxlines | Linebreak | OutOfFuel.   (* OutOfFuel: never produced, see Proofs/WrapProofs.out_seg_fuel *)

Definition outcome := (st * option exn)%type.

Definition push (s : st) (ns : list node) : st :=
  St (res s ++ ns) (charpos s) (lineno s) (lbok s).
Definition with_charpos (s : st) (c : N) : st := St (res s) c (lineno s) (lbok s).
Definition with_lbok (s : st) (b : bool) : st := St (res s) (charpos s) (lineno s) b.

Definition andthen (r : outcome) (k : st -> outcome) : outcome :=
  match r with
  | (s, None) => k s
  | (s, Some e) => (s, Some e)
  end.

(* _MarkedColorizerState *)
Record mark := Mk { m_len : nat; m_charpos : N; m_lineno : N; m_lbok : bool }.
Definition mark_of (s : st) : mark := Mk (length (res s)) (charpos s) (lineno s) (lbok s).
(* restore(): returns (state, trimmed) *)
Definition restore (s : st) (m : mark) : st * list node :=
  (St (firstn (m_len m) (res s)) (m_charpos m) (m_lineno m) (m_lbok m), skipn (m_len m) (res s)).

(* ---- _output ---- *)
Definition nowrap_kind (k : nkind) : bool :=
  match k with NRef | NQuote => true | _ => false end.     (* link is True or css_class in (variable-quote,) *)

(* the `if i > 0:` block at the top of the loop body *)
Definition newline_step (p : params) (s : st) : outcome :=
  if negb (N.eqb (maxlines p) 0) && (maxlines p <? lineno s + 1) then (s, Some Maxlines)
  else if negb (lbok s) then (s, Some Linebreak)
  else (St (res s ++ [NEWLINE]) 0 (lineno s + 1) (lbok s), None).

Definition fits (p : params) (k : nkind) (s : st) (seg : text) : bool :=
  N.eqb (linelen p) 0 || (charpos s + N.of_nat (length seg) <=? linelen p) || nowrap_kind k.

(* segment[:split], segment[split:] with split = linelen - charpos, which is negative when charpos > linelen
   (links and quotes are never wrapped, so a line may already be longer than linelen) *)
Definition py_split_at (p : params) (s : st) (seg : text) : text * text :=
  if charpos s <=? linelen p
  then let k := N.to_nat (linelen p - charpos s) in (firstn k seg, skipn k seg)
  else let d := N.to_nat (charpos s - linelen p) in
       let k := (length seg - d)%nat in (firstn k seg, skipn k seg).

(* one element of `segments`, including the remainders that the else-branch inserts right after it *)
Fixpoint out_seg (fuel : nat) (p : params) (k : nkind) (seg : text) (s : st) : outcome :=
  if fits p k s seg
  then (St (res s ++ [Nd k seg]) (charpos s + N.of_nat (length seg)) (lineno s) (lbok s), None)
  else match fuel with
       | O => (s, Some OutOfFuel)
       | S fuel' =>
         let '(hd, tl) := py_split_at p s seg in
         let s1 := push s [Nd k hd; LINEWRAP] in
         andthen (newline_step p s1) (out_seg fuel' p k tl)
       end.

Definition seg_fuel (seg : text) : nat := S (S (length seg)).

Fixpoint out_segs (p : params) (k : nkind) (first : bool) (segs : list text) (s : st) : outcome :=
  match segs with
  | [] => (s, None)
  | seg :: rest =>
    andthen (if first then (s, None) else newline_step p s)
            (fun s1 => andthen (out_seg (seg_fuel seg) p k seg s1) (out_segs p k false rest))
  end.

Definition output (p : params) (t : text) (k : nkind) (s : st) : outcome :=
  out_segs p k true (split_nl t) s.

(* ---- the tree of calls ---- *)
Inductive cmd :=
| COut (t : text) (k : nkind)          (* self._output(t, tag, state, link) *)
| CStr (isbytes : bool) (raw : text)   (* self._colorize_str(pyval, state, prefix, escape_fcn) *)
| CWbr                                 (* state.result.append(self.WORD_BREAK_OPPORTUNITY) *)
| CSeq (cs : list cmd)
| CDelim (paren : bool) (c : cmd)      (* with _OperatorDelimiter(...): c      paren = not discard *)
| CMulti (c : cmd)                     (* self._multiline(func, ...) where func does c *)
| CIndent (c : cmd)                    (* indent = state.charpos; c *)
| CComma.                              (* self._insert_comma(indent, state) *)

Definition spaces (n : N) : text := repeat 32 (N.to_nat n).

Definition insert_comma (p : params) (indent : N) (s : st) : outcome :=
  if lbok s
  then andthen (output p [44] NText s) (output p (NL :: spaces indent) NText)
  else output p [44; 32] NText s.

Definition SQ3 : text := [SQ; SQ; SQ].

Fixpoint str_lines (p : params) (esc : text -> text) (first : bool) (lines : list text) (s : st) : outcome :=
  match lines with
  | [] => (s, None)
  | l :: rest =>
    andthen (if first then (s, None) else output p [NL] NText s)
            (fun s1 => andthen (output p (esc l) NString s1) (str_lines p esc false rest))
  end.

Definition exec_str (p : params) (isbytes : bool) (raw : text) (s : st) : outcome :=
  let quote := if has_nl raw && lbok s then SQ3 else [SQ] in
  let esc := if isbytes then bytes_escape else str_escape in
  let lines := if lbok s then split_nl raw else [raw] in
  andthen (output p (if isbytes then [98] else []) NText s) (fun s1 =>
  andthen (output p quote NQuote s1) (fun s2 =>
  andthen (str_lines p esc true lines s2) (fun s3 =>
  output p quote NQuote s3))).

(* _OperatorDelimiter.__exit__ when parentheses are needed; r is how the body ended (the exception, if any,
   goes on after __exit__ returns None, unless __exit__ itself raises) *)
Definition delim_exit (p : params) (m : mark) (body : outcome) : outcome :=
  let '(s1, r) := body in
  let '(s2, trimmed) := restore s1 m in
  match output p [40] NText s2 with
  | (s3, Some e) => (s3, Some e)
  | (s3, None) =>
    match output p [41] NText (push s3 trimmed) with
    | (s5, Some e) => (s5, Some e)
    | (s5, None) => (s5, r)
    end
  end.

Fixpoint exec (p : params) (indent : N) (c : cmd) (s : st) {struct c} : outcome :=
  match c with
  | COut t k => output p t k s
  | CStr b raw => exec_str p b raw s
  | CWbr => (push s [WBR], None)
  | CSeq cs =>
    (fix go (cs : list cmd) (s : st) : outcome :=
       match cs with
       | [] => (s, None)
       | c1 :: cs' => andthen (exec p indent c1 s) (go cs')
       end) cs s
  | CDelim paren c1 =>
    let m := mark_of s in
    let body := exec p indent c1 s in
    if paren then delim_exit p m body else body
  | CMulti c1 =>
    let linebreakok := lbok s in
    let m := mark_of s in
    match exec p indent c1 (with_lbok s false) with
    | (s1, None) => (with_lbok s1 linebreakok, None)
    | (s1, Some Linebreak) =>
      if negb linebreakok then (s1, Some Linebreak)
      else exec p indent c1 (fst (restore s1 m))
    | (s1, Some e) => (s1, Some e)
    end
  | CIndent c1 => exec p (charpos s) c1 s
  | CComma => insert_comma p indent s
  end.

(* ---- colorize(): the tail ---- *)
(* _trim_result(result, num_chars), on the reversed result.  `dead`: a LINEWRAP node has already lost its character --
   the real code writes into the one shared class-level node, so every other occurrence of LINEWRAP in the result is
   empty from then on (and is popped without using up any of num_chars).  Second component of the result: dead. *)
Fixpoint trim_rev (num : nat) (dead : bool) (rl : list node) : list node * bool :=
  match num with
  | O => (rl, dead)
  | S _ =>
    match rl with
    | [] => ([], dead)
    | n :: rest =>
      let len := if dead && is_linewrap n then O else length (ntext n) in
      match len with
      | O => trim_rev num dead rest
      | S _ =>
        let t := Nat.min num len in
        let dead' := dead || is_linewrap n in
        if Nat.eqb t len
        then trim_rev (num - t) dead' rest
        else (Nd (nk n) (firstn (len - t) (ntext n)) :: rest, dead')
      end
    end
  end.

Definition init_st (p : params) : st := St [] 0 1 (lbparam p).

Record colorized := Col { c_nodes : list node; c_complete : bool; c_lw_mutated : bool; c_fuel_ok : bool }.

Definition blank_linewraps (ns : list node) : list node :=
  map (fun n => if is_linewrap n then Nd NLinewrap [] else n) ns.

Definition colorize (p : params) (c : cmd) : colorized :=
  match exec p 0 c (init_st p) with
  | (s, None) => Col (res s) true false true
  | (s, Some e) =>
    let fuel_ok := match e with OutOfFuel => false | _ => true end in
    if lbparam p
    then Col (res s ++ [NEWLINE; ELLIPSIS]) false false fuel_ok
    else
      let rl := rev (res s) in
      let rl1 := match rl with n :: rest => if is_linewrap n then rest else rl | [] => rl end in
      let '(rl2, hit) := trim_rev 3 false rl1 in
      let ns := rev rl2 in
      Col ((if hit then blank_linewraps ns else ns) ++ [ELLIPSIS]) false hit fuel_ok
  end.

(* ---- the text when nothing is wrapped and no line break is allowed (reference for the theorems) ---- *)
Fixpoint flat (c : cmd) : text :=
  match c with
  | COut t _ => t
  | CStr b raw => (if b then [98] else []) ++ [SQ] ++ (if b then bytes_escape raw else str_escape raw) ++ [SQ]
  | CWbr => []
  | CSeq cs => (fix go (cs : list cmd) : text := match cs with [] => [] | c1 :: cs' => flat c1 ++ go cs' end) cs
  | CDelim paren c1 => if paren then [40] ++ flat c1 ++ [41] else flat c1
  | CMulti c1 => flat c1
  | CIndent c1 => flat c1
  | CComma => [44; 32]
  end.

Definition nodes_text (ns : list node) : text := flat_map ntext ns.
