(* Model/Proc.v -- the module work-list machine of pydoctor/model.py:
     System.process / processModule / getProcessedModule     and the exit status of driver.main.
   Definitions only.

   A project is a list of modules (id, parse_ok, imports) where `imports` is the sequence of
   getProcessedModule(target) calls the AST visitor makes while walking that module (targets that are
   not modules of the project are the `allobjects.get(...) is None / not a Module` case).
   The re-entrancy is real: processModule -> visitor -> getProcessedModule -> processModule ...
   It is modelled on explicit fuel; running out of fuel and a failing `assert` are explicit outcomes
   that the theorems exclude. *)
From Coq Require Import ZArith NArith List Bool.
From PydoctorVerif Require Import Base.Sexp.
Import ListNotations.

Inductive pstate := UNPROCESSED | PROCESSING | PROCESSED.

Record modinfo := { parse_ok : bool; imports : list N }.
Definition project := list (N * modinfo).

Inductive pev := PEnter (m : N) | PLeave (m : N) | PReport (m : N).

Record state := {
  st : N -> pstate;             (* Module.state *)
  unproc : list N;              (* System.unprocessed_modules (ordered) *)
  stack : list N;               (* System.processing_modules *)
  reports : list N;             (* "cannot parse file" reports, in order *)
  trace : list pev              (* observable events, newest first *)
}.

Inductive outcome :=
| Ok (s : state)
| OutOfFuel
| AssertFail (which : N).       (* 1: state is UNPROCESSED, 2: mod in unprocessed_modules, 3: head == fullName,
                                   4: state in (PROCESSING, PROCESSED) after getProcessedModule *)

Definition pstate_eqb (a b : pstate) : bool :=
  match a, b with
  | UNPROCESSED, UNPROCESSED | PROCESSING, PROCESSING | PROCESSED, PROCESSED => true
  | _, _ => false
  end.

Definition upd (f : N -> pstate) (k : N) (v : pstate) : N -> pstate :=
  fun x => if N.eqb x k then v else f x.

Fixpoint lookup (p : project) (m : N) : option modinfo :=
  match p with
  | [] => None
  | (k, i) :: p' => if N.eqb k m then Some i else lookup p' m
  end.

Fixpoint mem (m : N) (l : list N) : bool :=
  match l with [] => false | x :: l' => N.eqb x m || mem m l' end.

(* list.remove(x): removes the first occurrence *)
Fixpoint remove1 (m : N) (l : list N) : list N :=
  match l with [] => [] | x :: l' => if N.eqb x m then l' else x :: remove1 m l' end.

Section WithProject.
  Variable p : project.

  (* processModule(mod) ; get_processed is getProcessedModule(modname) *)
  Fixpoint process_module (fuel : nat) (s : state) (m : N) : outcome :=
    match fuel with
    | O => OutOfFuel
    | S f =>
      if negb (pstate_eqb (st s m) UNPROCESSED) then AssertFail 1
      else if negb (mem m (unproc s)) then AssertFail 2
      else
        let s1 := {| st := upd (st s) m PROCESSING; unproc := remove1 m (unproc s);
                     stack := stack s; reports := reports s; trace := trace s |} in
        match lookup p m with
        | None => AssertFail 2
        | Some info =>
          if parse_ok info then
            let s2 := {| st := st s1; unproc := unproc s1; stack := m :: stack s1;
                         reports := reports s1; trace := PEnter m :: trace s1 |} in
            let walk :=
              (fix walk (ts : list N) (s : state) : outcome :=
                 match ts with
                 | [] => Ok s
                 | t :: ts' =>
                   let r :=
                     match lookup p t with
                     | None => Ok s                                     (* unknown name / not a module *)
                     | Some _ =>
                       match st s t with
                       | UNPROCESSED => process_module f s t
                       | _ => Ok s
                       end
                     end in
                   match r with
                   | Ok s' =>
                     match lookup p t with
                     | Some _ => if pstate_eqb (st s' t) UNPROCESSED then AssertFail 4 else walk ts' s'
                     | None => walk ts' s'
                     end
                   | bad => bad
                   end
                 end) in
            match walk (imports info) s2 with
            | Ok s3 =>
              match stack s3 with
              | h :: rest =>
                if N.eqb h m then
                  Ok {| st := upd (st s3) m PROCESSED; unproc := unproc s3; stack := rest;
                        reports := reports s3; trace := PLeave m :: trace s3 |}
                else AssertFail 3
              | [] => AssertFail 3
              end
            | bad => bad
            end
          else
            (* parse failed: reported against the module, state stays PROCESSING *)
            Ok {| st := st s1; unproc := unproc s1; stack := stack s1;
                  reports := m :: reports s1; trace := PReport m :: trace s1 |}
        end
    end.

  (* System.process: while self.unprocessed_modules: processModule(next(iter(...))) *)
  Fixpoint process (rounds fuel : nat) (s : state) : outcome :=
    match unproc s with
    | [] => Ok s
    | m :: _ =>
      match rounds with
      | O => OutOfFuel
      | S r =>
        match process_module fuel s m with
        | Ok s' => process r fuel s'
        | bad => bad
        end
      end
    end.

  Definition init_state (order : list N) : state :=
    {| st := fun m => UNPROCESSED; unproc := order; stack := []; reports := []; trace := [] |}.
End WithProject.

Definition run_project (p : project) (order : list N) : outcome :=
  process p (S (length order)) (S (length order)) (init_state order).

(* ---- driver.main: exit status ---- *)
Definition exit_status (docstring_errs other_errs violations : N) (warnings_as_errors : bool) : Z :=
  let code := if N.ltb 0 docstring_errs then 2%Z
              else if N.ltb 0 other_errs then 2%Z else 0%Z in
  if N.ltb 0 violations && warnings_as_errors then 3%Z else code.

(* ---- wire ----
   input  := ( 0 mods order )   mods := list of ( id parse_ok ( target ... ) ) ; order := list of ids
          |  ( 1 docstring_errs other_errs violations warnings_as_errors )
   output := ( kind payload )   kind 0 Ok: payload = ( states reports trace unproc stack )
                                states := list of ( id st ) for the ids of mods, st: 0 UNPROCESSED 1 PROCESSING 2 PROCESSED
                                trace := oldest first, list of ( tag id ) tag: 0 enter 1 leave 2 report
                                kind 1 OutOfFuel ; kind 2 AssertFail n
          |  status *)
Definition mod_of_sexp (s : sexp) : N * modinfo :=
  (to_N (nth_s 0 s), {| parse_ok := to_bool (nth_s 1 s); imports := map to_N (to_list (nth_s 2 s)) |}).

Definition pstate_code (x : pstate) : Z := match x with UNPROCESSED => 0 | PROCESSING => 1 | PROCESSED => 2 end.
Definition pev_sexp (e : pev) : sexp :=
  match e with
  | PEnter m => L [A 0; of_N m] | PLeave m => L [A 1; of_N m] | PReport m => L [A 2; of_N m]
  end.

Definition run (s : sexp) : sexp :=
  match to_Z (nth_s 0 s) with
  | 0%Z =>
    let p := map mod_of_sexp (to_list (nth_s 1 s)) in
    let order := map to_N (to_list (nth_s 2 s)) in
    match run_project p order with
    | Ok s' =>
      L [A 0; L [L (map (fun mi => L [of_N (fst mi); A (pstate_code (st s' (fst mi)))]) p);
                 L (map of_N (rev (reports s')));
                 L (map pev_sexp (rev (trace s')));
                 L (map of_N (unproc s'));
                 L (map of_N (stack s'))]]
    | OutOfFuel => L [A 1; L []]
    | AssertFail n => L [A 2; of_N n]
    end
  | _ =>
    A (exit_status (to_N (nth_s 1 s)) (to_N (nth_s 2 s)) (to_N (nth_s 3 s)) (to_bool (nth_s 4 s)))
  end.
