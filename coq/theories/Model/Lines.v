(* Model/Lines.v -- where a reported line number comes from.
     pydoctor/astutils.py   : extract_docstring_linenum, extract_docstring
     pydoctor/model.py      : Documentable.setDocstring, Documentable.report
     pydoctor/epydoc/markup/__init__.py : ParseError.linenum (zero-based store, one-based getter)
     pydoctor/epydoc2stan.py: reportErrors, Field.report, extract_fields (attribute line)
     pydoctor/linker.py     : _EpydocLinker._resolve_identifier_xref (report with lineno)
   and the composition of one reported problem with driver.main's exit status (Model/Msg.v).
   Definitions only.

   A docstring is the VALUE of the string literal (`node.value`), a text; `node.lineno` is the
   physical line on which the literal opens (CPython >= 3.8).  Line j (0-based, split on '\n') of
   the value sits on physical line `phys_line node_lineno j` as long as the literal contains no
   '\n' escape and no backslash-newline continuation (the generator of the check never emits those;
   in a raw string an escape is two ordinary characters).

   inspect.cleandoc is external: Spec/CleanDoc.v. *)
From Coq Require Import ZArith NArith List Bool.
From PydoctorVerif Require Import Base.Sexp Spec.CleanDoc Model.Msg.
Import ListNotations.
Local Open Scope Z_scope.

Definition phys_line (node_lineno : Z) (j : nat) : Z := node_lineno + Z.of_nat j.

(* ---- astutils.extract_docstring_linenum ------------------------------------------------------
       lineno = node.lineno
       if _string_lineno_is_end:            # CPython < 3.8 only
           lineno -= doc.count('\n')
       for ch in doc:
           if ch == '\n': lineno += 1
           elif not ch.isspace(): break
       return lineno                                                                            *)
Fixpoint count_nl (doc : text) : Z :=
  match doc with
  | [] => 0
  | ch :: r => (if is_nl ch then 1 else 0) + count_nl r
  end.

Fixpoint skip_blank (lineno : Z) (doc : text) : Z :=
  match doc with
  | [] => lineno
  | ch :: r =>
    if is_nl ch then skip_blank (lineno + 1) r
    else if negb (isspace ch) then lineno
    else skip_blank lineno r
  end.

Definition linenum_of_docstring (string_lineno_is_end : bool) (node_lineno : Z) (doc : text) : Z :=
  let lineno := if string_lineno_is_end then node_lineno - count_nl doc else node_lineno in
  skip_blank lineno doc.

(* astutils.extract_docstring: (lineno, inspect.cleandoc(value)) *)
Definition extract_docstring (is_end : bool) (node_lineno : Z) (doc : text) : Z * text :=
  (linenum_of_docstring is_end node_lineno doc, cleandoc doc).

(* ---- the part of a Documentable that report() reads ------------------------------------------- *)
Record obj := {
  o_description : text;      (* str(source_path) or the module's full name *)
  o_fullname : text;
  o_docstring_lineno : Z;    (* 0 = never set *)
  o_linenumber : Z;          (* 0 = never set *)
  o_is_module : bool         (* self.module is self *)
}.

(* Documentable.description -- the <file> in front of every report:
        source_path = self.source_path                      # the object's OWN source path: an object that is
        return self.module.fullName() if source_path is None else str(source_path)
   re-exported through __all__ is reparented (self.module changes) but keeps the path of the defining file *)
Definition description (own_source_path : option text) (module_fullname : text) : text :=
  match own_source_path with None => module_fullname | Some p => p end.

(* Documentable.setDocstring *)
Definition set_docstring (o : obj) (is_end : bool) (node_lineno : Z) (doc : text) : obj * text :=
  let '(ln, d) := extract_docstring is_end node_lineno doc in
  ({| o_description := o_description o; o_fullname := o_fullname o; o_docstring_lineno := ln;
      o_linenumber := o_linenumber o; o_is_module := o_is_module o |}, d).

(* ---- Documentable.report --------------------------------------------------------------------------
        if section in ('docstring', 'resolve_identifier_xref'):
            linenumber = self.docstring_lineno or self.linenumber
        else:
            linenumber = self.linenumber
        if linenumber: linenumber += lineno_offset
        elif lineno_offset and self.module is self: linenumber = lineno_offset
        else: linenumber = '???'
        self.system.msg(section, f'{self.description}:{linenumber}: {descr}', thresh=thresh)         *)
Inductive lineno_val := Num (z : Z) | Unknown.

Definition sec_xref : text :=
  [114;101;115;111;108;118;101;95;105;100;101;110;116;105;102;105;101;114;95;120;114;101;102]%N.
    (* "resolve_identifier_xref" *)

Definition uses_docstring_base (section : text) : bool :=
  text_eqb section sec_docstring || text_eqb section sec_xref.

Definition report_line (section : text) (docstring_lineno linenumber lineno_offset : Z) (is_module : bool)
  : lineno_val :=
  let base :=
    if uses_docstring_base section
    then (if docstring_lineno =? 0 then linenumber else docstring_lineno)
    else linenumber in
  if negb (base =? 0) then Num (base + lineno_offset)
  else if negb (lineno_offset =? 0) && is_module then Num lineno_offset
  else Unknown.

(* str(int) *)
Fixpoint digits_of_uint (u : Decimal.uint) : text :=
  match u with
  | Decimal.Nil => []
  | Decimal.D0 r => 48%N :: digits_of_uint r
  | Decimal.D1 r => 49%N :: digits_of_uint r
  | Decimal.D2 r => 50%N :: digits_of_uint r
  | Decimal.D3 r => 51%N :: digits_of_uint r
  | Decimal.D4 r => 52%N :: digits_of_uint r
  | Decimal.D5 r => 53%N :: digits_of_uint r
  | Decimal.D6 r => 54%N :: digits_of_uint r
  | Decimal.D7 r => 55%N :: digits_of_uint r
  | Decimal.D8 r => 56%N :: digits_of_uint r
  | Decimal.D9 r => 57%N :: digits_of_uint r
  end.

Definition show_Z (z : Z) : text :=
  match z with
  | Z0 => [48%N]
  | Zpos p => digits_of_uint (Pos.to_uint p)
  | Zneg p => 45%N :: digits_of_uint (Pos.to_uint p)
  end.

Definition show_lineno (l : lineno_val) : text :=
  match l with Num z => show_Z z | Unknown => [63;63;63]%N end.

Definition report_text (description : text) (l : lineno_val) (descr : text) : text :=
  description ++ [58%N] ++ show_lineno l ++ [58;32]%N ++ descr.

Definition report_call (o : obj) (descr section : text) (lineno_offset thresh : Z) : call :=
  {| c_section := section;
     c_msg := report_text (o_description o)
                (report_line section (o_docstring_lineno o) (o_linenumber o) lineno_offset (o_is_module o)) descr;
     c_thresh := thresh; c_topthresh := 100; c_once := false |}.

Definition report (verbosity : Z) (st : sys_state) (o : obj) (descr section : text) (lineno_offset thresh : Z)
  : sys_state :=
  msg verbosity st (report_call o descr section lineno_offset thresh).

(* ---- markup.ParseError and epydoc2stan.reportErrors -------------------------------------------------
     ParseError(descr, linenum): "The linenum of the first line is 0" ; linenum() returns _linenum + 1
        errors = obj.system.parse_errors[section]
        if obj.fullName() not in errors:
            errors.add(obj.fullName())
            for err in errs:
                obj.report(f'bad {section}: ' + err.descr(),
                           lineno_offset=(err.linenum() or 1) - 1, section=section)                     *)
Record perr := { pe_descr : text; pe_stored : option Z }.

Definition perr_linenum (e : perr) : option Z := option_map (fun z => z + 1) (pe_stored e).

Definition perr_offset (e : perr) : Z :=
  (match perr_linenum e with
   | Some v => if v =? 0 then 1 else v
   | None => 1
   end) - 1.

(* restructuredtext._EpydocReader.report (the observer attached to docutils' reporter), as repaired by the
   `fix:` commit 105813f:
        linenum: Optional[int] = error.get('line')          # docutils: 1-based line of the block
        if linenum is not None:
            linenum -= 1                                    # ParseError counts from 0
        msg = ''.join(c.astext() for c in error)
        self._errors.append(ParseError(msg, linenum, is_fatal))                                        *)
Definition rst_reader_perr (msg : text) (docutils_line : option Z) : perr :=
  {| pe_descr := msg; pe_stored := option_map (fun l => l - 1) docutils_line |}.

(* the reader before the repair (kept for the _old_refuted witness): the 1-based docutils line was stored
   where ParseError documents a 0-based one *)
Definition rst_reader_perr_old (msg : text) (docutils_line : option Z) : perr :=
  {| pe_descr := msg; pe_stored := docutils_line |}.

(* restructuredtext._SplitFieldsTranslator.visit_field, a consolidated field that cannot be split:
        self._errors.append(ParseError(estr, node.line, is_fatal=False))
   node.line is docutils' 1-based line of the field; it is still stored unchanged
   (pydoctor/test/epydoc/restructuredtext.doctest pins the resulting "Line 4"). *)
Definition rst_consolidated_perr (msg : text) (node_line : Z) : perr :=
  {| pe_descr := msg; pe_stored := Some node_line |}.

(* epytext: StructuringError / ColorizingError (descr, token.startline) -- startline is the 0-based index of the
   first line of the paragraph / list item / field / heading token in the cleaned docstring *)
Definition epytext_perr (msg : text) (token_startline : Z) : perr :=
  {| pe_descr := msg; pe_stored := Some token_startline |}.

Definition bad_prefix (section : text) : text := [98;97;100;32]%N ++ section ++ [58;32]%N.   (* 'bad <section>: ' *)

Definition report_errors (verbosity : Z) (st : sys_state) (pe : parse_errors) (o : obj)
           (errs : list perr) (section : text) : sys_state * parse_errors :=
  match errs with
  | [] => (st, pe)
  | _ =>
    if existsb (text_eqb (o_fullname o)) (pe_lookup section pe) then (st, pe)
    else
      (fold_left (fun s e => report verbosity s o (bad_prefix section ++ pe_descr e) section (perr_offset e) (-1))
                 errs st,
       pe_add section (o_fullname o) pe)
  end.

(* epydoc2stan.parse_docstring(obj, doc, source): `source` is the object on which the docstring is defined
   (it differs from `obj` when the docstring is inherited):
        if errs: reportErrors(source, errs, section=section)                                        *)
Definition parse_docstring_report (verbosity : Z) (st : sys_state) (pe : parse_errors) (o source : obj)
           (errs : list perr) (section : text) : sys_state * parse_errors :=
  report_errors verbosity st pe source errs section.

(* epydoc2stan.Field.report: self.source.report(message, lineno_offset=self.lineno, section='docstring') *)
Definition field_report (verbosity : Z) (st : sys_state) (source : obj) (message : text) (field_lineno : Z)
  : sys_state :=
  report verbosity st source message sec_docstring field_lineno (-1).

(* epydoc2stan.extract_fields: the line of an attribute documented by @ivar/@cvar/@var/@type *)
Definition field_attr_lineno (docstring_lineno field_lineno : Z) : Z := docstring_lineno + field_lineno.

(* restructuredtext._SplitFieldsTranslator._add_field(tagname, arg, fbody, lineno):
        self.fields.append(Field(tagname, arg, field_parsed_doc, lineno - 1))
   lineno is docutils' 1-based line: node.line of the field (visit_field), fbody[0].line of a bullet-list item or
   item[0].line of a definition-list term of a consolidated field; the @newfield of an unsplittable consolidated
   field gets node.line - 1 as well. *)
Definition rst_field_lineno (docutils_line : Z) : Z := docutils_line - 1.

(* epytext: Element('field', lineno=str(bullet_token.startline)) ... Field(tag, arg, doc, int(field.attribs['lineno'])) *)
Definition epytext_field_lineno (bullet_startline : nat) : Z := Z.of_nat bullet_startline.

(* pydoctor.epydoc.docutils.get_lineno(node) for a title_reference:
        if node.line: line = node.line
        else: line = get_first_parent_lineno(node.parent)
   get_first_parent_lineno walks up to the first ancestor with a (truthy) line:
        line = _node.line - 1 (+ the number of '\n' in the ancestor's rawsource before the node's rawsource, when both
        rawsources exist and one contains the other) ; no such ancestor: 0.
   node_line = 0 stands for None/0; `ancestor` = (line of that ancestor, newlines counted). *)
Definition get_lineno (node_line : Z) (ancestor : option (Z * Z)) : Z :=
  if negb (node_line =? 0) then node_line
  else match ancestor with Some (pl, nl) => pl - 1 + nl | None => 0 end.

(* get_lineno on concrete nodes: a docutils node is seen through its `line` (0 stands for None / 0: only its truth value
   is used) and its `rawsource`; `ancs` are the ancestors, innermost first.  Python string primitives:
     find_sub sub s   = s.find(sub) as an option (sub in s <-> Some; s.index(sub) = that index)
     count_nl (firstn i s) = s[:i].count('\n') = s.count('\n', 0, i)   for 0 <= i                                    *)
Record dnode := { n_line : Z; n_raw : text }.

Fixpoint prefix_eqb (p s : text) : bool :=
  match p, s with
  | [], _ => true
  | x :: p', y :: s' => N.eqb x y && prefix_eqb p' s'
  | _ :: _, [] => false
  end.

Fixpoint find_sub (sub s : text) : option nat :=
  if prefix_eqb sub s then Some O
  else match s with
       | [] => None
       | _ :: s' => option_map S (find_sub sub s')
       end.

Fixpoint first_with_line (ancs : list dnode) : option dnode :=
  match ancs with
  | [] => None
  | a :: r => if negb (n_line a =? 0) then Some a else first_with_line r
  end.

Definition newlines_before (anc_raw node_raw : text) : Z :=
  match anc_raw, node_raw with
  | _ :: _, _ :: _ =>
    match find_sub node_raw anc_raw with
    | Some i => count_nl (firstn i anc_raw)
    | None => 0
    end
  | _, _ => 0
  end.

Definition get_lineno_chain (node : dnode) (ancs : list dnode) : Z :=
  get_lineno (n_line node)
             (option_map (fun a => (n_line a, newlines_before (n_raw a) (n_raw node))) (first_with_line ancs)).

(* An attribute documented by a field (@ivar x: ...) of its class docstring: extract_fields stores the field body as the
   attribute's parsed_docstring.  When it is rendered, epydoc2stan.ensure_parsed_docstring picks the object whose line base
   the reports use:
        doc, source = model.get_docstring(obj)          # the attribute's OWN docstring, if it has one
        if source is None and parsed_doc is not None:   # "a split field is documented by its parent"
            source = obj.parent
   so the base is the class docstring only when the attribute has no docstring of its own (0 = none). *)
Definition split_field_source_lineno (attr_own_docstring_lineno class_docstring_lineno : Z) : Z :=
  if attr_own_docstring_lineno =? 0 then class_docstring_lineno else attr_own_docstring_lineno.

(* linker._EpydocLinker._resolve_identifier_xref: reporting_obj.report(message, 'resolve_identifier_xref', lineno) *)
Definition xref_report (verbosity : Z) (st : sys_state) (reporting_obj : obj) (message : text) (lineno : Z)
  : sys_state :=
  report verbosity st reporting_obj message sec_xref lineno (-1).

(* ---- one planted problem, from the AST node to the exit status ---------------------------------- *)
Inductive problem :=
| PParse (descr : text) (stored : option Z)     (* a ParseError of the docstring's parser *)
| PField (message : text) (field_lineno : Z)    (* unknown field / parameter that does not exist *)
| PXref (message : text) (lineno : Z).          (* unresolvable cross-reference *)

Definition report_problem (verbosity : Z) (st : sys_state) (pe : parse_errors) (o : obj) (p : problem)
  : sys_state * parse_errors :=
  match p with
  | PParse d stored => report_errors verbosity st pe o [{| pe_descr := d; pe_stored := stored |}] sec_docstring
  | PField m l => (field_report verbosity st o m l, pe)
  | PXref m l => (xref_report verbosity st o m l, pe)
  end.

Definition run_problems (verbosity : Z) (o : obj) (ps : list problem) : sys_state * parse_errors :=
  fold_left (fun sp p => report_problem verbosity (fst sp) (snd sp) o p) ps (init_state, []).

Definition one_run (verbosity : Z) (wae : bool) (header : text) (o : obj) (ps : list problem) : Z * sys_state :=
  let '(st, pe) := run_problems verbosity o ps in
  main_tail verbosity wae header st pe.

(* ---- wire ---------------------------------------------------------------------------------------
   input := ( op args... )
     0 is_end node_lineno doc                  -> ( lineno cleandoc leading_ws_fit has_content overshoot )
     1 doc                                     -> ( cleandoc expandtabs )
     2 lo hi                                   -> ( code points c, lo <= c < hi, with isspace c )
     3 verbosity section ds ln off is_module description descr thresh
                                               -> ( violations ( printed ... ) )
     4 verbosity ( (section msg thresh topthresh once) ... )
                                               -> ( violations ( printed ... ) )
     5 verbosity section obj preexisting-names ( (descr stored-opt) ... )
            obj := ( description fullname ds ln is_module )
                                               -> ( violations ( printed ... ) ( names of parse_errors[section] ) )
     6 verbosity wae header violations ( (section (name ...)) ... )
                                               -> ( code violations number-of-printed-lines )
     8 docutils-line-opt                       -> ( stored-opt offset )      (rst_reader_perr)
    13 ( (line rawsource) ... )  node first, then its ancestors innermost first   -> get_lineno_chain
    12 docutils-line                           -> rst_field_lineno
    11 node-line ancestor-opt                  -> get_lineno        ancestor-opt := () | ( (line newlines) )
    10 own-source-path-opt module-fullname     -> description
     9 node-line                               -> ( stored-opt offset )      (rst_consolidated_perr)
     7 verbosity wae header description fullname is_module linenumber has_doc node_lineno doc ( problem ... )
            problem := ( 0 descr stored-opt ) | ( 1 message field_lineno ) | ( 2 message lineno )
                                               -> ( docstring_lineno cleandoc code violations ( printed ... ) )   *)
Definition to_optZ (s : sexp) : option Z := to_option to_Z s.

Definition obj_of_sexp (s : sexp) : obj :=
  {| o_description := to_text (nth_s 0 s); o_fullname := to_text (nth_s 1 s);
     o_docstring_lineno := to_Z (nth_s 2 s); o_linenumber := to_Z (nth_s 3 s);
     o_is_module := to_bool (nth_s 4 s) |}.

Definition call_of_sexp (s : sexp) : call :=
  {| c_section := to_text (nth_s 0 s); c_msg := to_text (nth_s 1 s); c_thresh := to_Z (nth_s 2 s);
     c_topthresh := to_Z (nth_s 3 s); c_once := to_bool (nth_s 4 s) |}.

Definition problem_of_sexp (s : sexp) : problem :=
  match to_Z (nth_s 0 s) with
  | 0 => PParse (to_text (nth_s 1 s)) (to_optZ (nth_s 2 s))
  | 1 => PField (to_text (nth_s 1 s)) (to_Z (nth_s 2 s))
  | _ => PXref (to_text (nth_s 1 s)) (to_Z (nth_s 2 s))
  end.

Definition state_sexp (st : sys_state) : list sexp :=
  [of_N (violations st); of_list of_text (printed st)].

Fixpoint spaces_in (lo : N) (n : nat) : list N :=
  match n with
  | O => []
  | S n' => (if isspace lo then [lo] else []) ++ spaces_in (lo + 1)%N n'
  end.

Definition run (s : sexp) : sexp :=
  match to_Z (nth_s 0 s) with
  | 0 =>
    let doc := to_text (nth_s 3 s) in
    let '(ln, d) := extract_docstring (to_bool (nth_s 1 s)) (to_Z (nth_s 2 s)) doc in
    L [A ln; of_text d; of_bool (leading_ws_fit doc); of_bool (has_content doc); of_nat (top_dropped doc - top_kept doc)]
  | 1 => L [of_text (cleandoc (to_text (nth_s 1 s))); of_text (expandtabs (to_text (nth_s 1 s)))]
  | 2 => of_list of_N (spaces_in (to_N (nth_s 1 s)) (N.to_nat (to_N (nth_s 2 s) - to_N (nth_s 1 s))))
  | 3 =>
    let o := {| o_description := to_text (nth_s 7 s); o_fullname := []; o_docstring_lineno := to_Z (nth_s 3 s);
                o_linenumber := to_Z (nth_s 4 s); o_is_module := to_bool (nth_s 6 s) |} in
    L (state_sexp (report (to_Z (nth_s 1 s)) init_state o (to_text (nth_s 8 s)) (to_text (nth_s 2 s))
                          (to_Z (nth_s 5 s)) (to_Z (nth_s 9 s))))
  | 4 => L (state_sexp (msgs (to_Z (nth_s 1 s)) init_state (map call_of_sexp (to_list (nth_s 2 s)))))
  | 5 =>
    let section := to_text (nth_s 2 s) in
    let pe0 : parse_errors :=
      match to_list (nth_s 4 s) with [] => [] | names => [(section, map to_text names)] end in
    let errs := map (fun e => {| pe_descr := to_text (nth_s 0 e); pe_stored := to_optZ (nth_s 1 e) |})
                    (to_list (nth_s 5 s)) in
    let '(st, pe) := report_errors (to_Z (nth_s 1 s)) init_state pe0 (obj_of_sexp (nth_s 3 s)) errs section in
    L (state_sexp st ++ [of_list of_text (pe_lookup section pe)])
  | 6 =>
    let st := {| once_msgs := []; violations := to_N (nth_s 4 s); printed := [] |} in
    let pe := map (fun e => (to_text (nth_s 0 e), map to_text (to_list (nth_s 1 e)))) (to_list (nth_s 5 s)) in
    let '(code, st1) := main_tail (to_Z (nth_s 1 s)) (to_bool (nth_s 2 s)) (to_text (nth_s 3 s)) st pe in
    L [A code; of_N (violations st1); of_nat (length (printed st1))]
  | 7 =>
    let o0 := {| o_description := to_text (nth_s 4 s); o_fullname := to_text (nth_s 5 s); o_docstring_lineno := 0;
                 o_linenumber := to_Z (nth_s 7 s); o_is_module := to_bool (nth_s 6 s) |} in
    let '(o, d) :=
      if to_bool (nth_s 8 s) then set_docstring o0 false (to_Z (nth_s 9 s)) (to_text (nth_s 10 s))
      else (o0, []) in
    let '(code, st) := one_run (to_Z (nth_s 1 s)) (to_bool (nth_s 2 s)) (to_text (nth_s 3 s)) o
                               (map problem_of_sexp (to_list (nth_s 11 s))) in
    L ([A (o_docstring_lineno o); of_text d; A code] ++ state_sexp st)
  | 8 =>
    let e := rst_reader_perr [] (to_optZ (nth_s 1 s)) in
    L [of_option A (pe_stored e); A (perr_offset e)]
  | 13 =>
    match map (fun p => {| n_line := to_Z (nth_s 0 p); n_raw := to_text (nth_s 1 p) |}) (to_list (nth_s 1 s)) with
    | node :: ancs => A (get_lineno_chain node ancs)
    | [] => bad_input
    end
  | 12 => A (rst_field_lineno (to_Z (nth_s 1 s)))
  | 11 => A (get_lineno (to_Z (nth_s 1 s))
                        (to_option (fun p => (to_Z (nth_s 0 p), to_Z (nth_s 1 p))) (nth_s 2 s)))
  | 10 => of_text (description (to_option to_text (nth_s 1 s)) (to_text (nth_s 2 s)))
  | 9 =>
    let e := rst_consolidated_perr [] (to_Z (nth_s 1 s)) in
    L [of_option A (pe_stored e); A (perr_offset e)]
  | _ => bad_input
  end.
