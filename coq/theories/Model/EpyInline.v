(* Model/EpyInline.v -- pydoctor/epydoc/markup/epytext.py : _colorize (the brace-matching inline coloriser run on
   the text of one paragraph token) and _colorize_link, and the text ParsedEpytextDocstring._to_node gives the tree.
   Definitions only.

   `_BRACE_RE.search(text, start)` is a scan for the next '{' or '}': the loop below reads the text character by
   character, `cur` holding (reversed) the characters since `start`.  An element is attached to its parent when
   its brace closes (the Python attaches it when it opens and patches `stack[-2].children[-1]` on closing; nothing
   else is appended to the parent in between).
   Regex ORACLES: target_split t = _TARGET_RE.match(t).groups();  link_target tag t = the cleaned-up target, None when
   "Bad link target".  Tables (_COLORIZING_TAGS, _ESCAPES, SYMBOL_TO_CODEPOINT) come from Gen/TablesC09.v. *)
From Coq Require Import ZArith NArith List Bool Arith.
From PydoctorVerif Require Import Base.Sexp Model.FieldTypes Gen.TablesC09.
Import ListNotations.

Inductive etag :=
| TgPara | TgCode | TgMath | TgItalic | TgBold | TgUri | TgLink | TgEscape | TgSymbol | TgUnknown | TgLitbrace
| TgName | TgTarget.

Inductive enode := NText (t : text) | NElem (tag : etag) (kids : list enode).

Definition etag_of (e : epy_elem) : etag :=
  match e with
  | ECode => TgCode | EMath => TgMath | EItalic => TgItalic | EBold => TgBold | EUri => TgUri | ELink => TgLink
  | EEscape => TgEscape | ESymbol => TgSymbol
  end.

Fixpoint assoc_N {X} (c : N) (l : list (N * X)) : option X :=
  match l with
  | [] => None
  | (k, v) :: l' => if N.eqb k c then Some v else assoc_N c l'
  end.

Fixpoint assoc_text {X} (t : text) (l : list (text * X)) : option X :=
  match l with
  | [] => None
  | (k, v) :: l' => if text_eqb k t then Some v else assoc_text t l'
  end.

Definition is_upper (c : N) : bool := N.leb 65 c && N.leb c 90.

Definition LB : N := 123%N.
Definition RB : N := 125%N.

Definition frame := (etag * list enode)%type.

(* error codes: 1 unknown tag  2 unbalanced '}'  3 invalid symbol  4 invalid escape  5 bad link/uri target
   6 bad link target (name)  7 unbalanced '{' *)
Definition err := (N * nat)%type.

Definition push_text (cur : text) (kids : list enode) : list enode :=
  match cur with [] => kids | _ => kids ++ [NText (rev cur)] end.

Section Colorize.
  Variable target_split : text -> option (text * text).
  Variable link_target : etag -> text -> option text.

  Definition last_is_text (kids : list enode) : option (list enode * text) :=
    match rev kids with
    | NText t :: r => Some (rev r, t)
    | _ => None
    end.

  (* _colorize_link: the new children of the link element, or an error *)
  Definition colorize_link (tag : etag) (kids : list enode) : list enode * option N :=
    match last_is_text kids with
    | None => (kids, Some 5%N)
    | Some (front, t) =>
      let found :=
        match target_split t with
        | Some (txt, tgt) => Some (front ++ [NText txt], tgt)
        | None => match front with [] => Some (kids, t) | _ => None end
        end in
      match found with
      | None => (kids, Some 5%N)
      | Some (variables, target) =>
        match link_target tag target with
        | None => (kids, Some 6%N)
        | Some tg => ([NElem TgName variables; NElem TgTarget [NText tg]], None)
        end
      end
    end.

  (* what closing an element of tag `tag` with children `kids` appends to the parent's children *)
  Definition close_elem (tag : etag) (kids : list enode) : list enode * option N :=
    match tag with
    | TgSymbol =>
      match kids with
      | [NText s] => match assoc_text s epy_symbols with
                     | Some _ => ([NElem TgSymbol [NText s]], None)
                     | None => ([NElem TgSymbol kids], Some 3%N)
                     end
      | _ => ([NElem TgSymbol kids], Some 3%N)
      end
    | TgEscape =>
      match kids with
      | [NText s] => match assoc_text s epy_escapes with
                     | Some c => ([NText [c]], None)
                     | None => match s with
                               | [_] => ([NText s], None)
                               | _ => ([NElem TgEscape kids], Some 4%N)
                               end
                     end
      | _ => ([NElem TgEscape kids], Some 4%N)
      end
    | TgLitbrace => ([NText [LB]] ++ kids ++ [NText [RB]], None)
    | TgLink | TgUri => let '(k, e) := colorize_link tag kids in ([NElem tag k], e)
    | _ => ([NElem tag kids], None)
    end.

  Fixpoint loop (rest : text) (pos : nat) (cur : text) (stack : list frame) (errs : list err) : list frame * text * list err :=
    match rest with
    | [] => (stack, cur, errs)
    | c :: rest' =>
      if N.eqb c LB then
        match stack with
        | [] => (stack, cur, errs)                       (* not reachable: the stack starts with one frame *)
        | (ptag, pkids) :: below =>
          match cur with
          | u :: cur' =>
            if is_upper u then
              let pkids' := push_text cur' pkids in
              match assoc_N u colorizing_tags with
              | Some e => loop rest' (S pos) [] ((etag_of e, []) :: (ptag, pkids') :: below) errs
              | None => loop rest' (S pos) [] ((TgUnknown, []) :: (ptag, pkids') :: below) (errs ++ [(1%N, pos - 1)])
              end
            else loop rest' (S pos) [] ((TgLitbrace, []) :: (ptag, push_text cur pkids) :: below) errs
          | [] => loop rest' (S pos) [] ((TgLitbrace, []) :: (ptag, pkids) :: below) errs
          end
        end
      else if N.eqb c RB then
        match stack with
        | (tag, kids) :: (ptag, pkids) :: below =>
          let kids' := push_text cur kids in
          let '(add, e) := close_elem tag kids' in
          loop rest' (S pos) [] ((ptag, pkids ++ add) :: below)
               (match e with Some code => errs ++ [(code, pos)] | None => errs end)
        | _ => loop rest' (S pos) [] stack (errs ++ [(2%N, pos)])      (* unbalanced '}': start = end + 1 *)
        end
      else loop rest' (S pos) (c :: cur) stack errs
    end.

  (* after the loop: the final text, the "Unbalanced '{'" check, return stack[0] with the open elements attached *)
  Fixpoint attach_open (stack : list frame) : list enode -> list enode :=
    (* stack is innermost first; returns the children of the bottom frame once every open element is attached *)
    fun inner =>
      match stack with
      | [] => inner
      | (tag, kids) :: rest =>
        match rest with
        | [] => kids ++ inner
        | _ => attach_open rest [NElem tag (kids ++ inner)]
        end
      end.

  Definition colorize (text : text) : enode * list err :=
    let '(stack, cur, errs) := loop text 0 [] [(TgPara, [])] [] in
    let stack' := match stack with
                  | (tag, kids) :: below => (tag, push_text cur kids) :: below
                  | [] => []
                  end in
    let errs' := match stack' with [_] => errs | _ => errs ++ [(7%N, 0)] end in
    (NElem TgPara (attach_open stack' []), errs').
End Colorize.

(* the text of the docutils node tree _to_node builds from an element tree (astext) *)
Fixpoint visible (n : enode) : text :=
  match n with
  | NText t => t
  | NElem TgSymbol [NText s] => match assoc_text s epy_symbols with Some c => [c] | None => s end
  | NElem TgTarget _ => []
  | NElem _ kids => flat_map visible kids
  end.

(* ---- wire ------------------------------------------------------------------------------------------------
   input  := ( text splits targets )
       splits  : list of ( queried-text matched txt tgt )     -- _TARGET_RE.match(queried-text)
       targets : list of ( tag target ok cleaned )            -- tag 0 link / 1 uri; ok = 0: "Bad link target"
   output := ( tree errors visible )     tree := ( 0 text ) | ( 1 tag kids... )    errors := list of ( code pos ) *)
Definition etag_code (t : etag) : Z :=
  match t with
  | TgPara => 0 | TgCode => 1 | TgMath => 2 | TgItalic => 3 | TgBold => 4 | TgUri => 5 | TgLink => 6 | TgEscape => 7
  | TgSymbol => 8 | TgUnknown => 9 | TgLitbrace => 10 | TgName => 11 | TgTarget => 12
  end%Z.

Fixpoint enode_sexp (n : enode) : sexp :=
  match n with
  | NText t => L [A 0; of_text t]
  | NElem tag kids => L (A 1 :: A (etag_code tag) :: map enode_sexp kids)
  end.

Definition run (x : sexp) : sexp :=
  let t := to_text (nth_s 0 x) in
  let splits := to_list (nth_s 1 x) in
  let targets := to_list (nth_s 2 x) in
  let target_split := fun q =>
    match find (fun e => text_eqb (to_text (nth_s 0 e)) q) splits with
    | Some e => if to_bool (nth_s 1 e) then Some (to_text (nth_s 2 e), to_text (nth_s 3 e)) else None
    | None => None
    end in
  let link_target := fun tag q =>
    let code := match tag with TgLink => 0%Z | _ => 1%Z end in
    match find (fun e => Z.eqb (to_Z (nth_s 0 e)) code && text_eqb (to_text (nth_s 1 e)) q) targets with
    | Some e => if to_bool (nth_s 2 e) then Some (to_text (nth_s 3 e)) else None
    | None => None
    end in
  let '(tree, errs) := colorize target_split link_target t in
  L [enode_sexp tree; L (map (fun e => L [of_N (fst e); of_nat (snd e)]) errs); of_text (visible tree)].
