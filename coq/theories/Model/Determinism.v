(* Model/Determinism.v -- C18: what feeds ORDER into pydoctor's output, as functions of
     (project on disk, command line, pi_fs = order in which each directory is listed,
      pi_set = iteration order of each Python set, prev_out = previous content of the output directory).
   Definitions only (no proofs).  Mirrors:
     model.System.addPackage / addModuleFromPath / analyzeModule / _addUnprocessedModule / _handleDuplicateModule,
     model.SystemBuilder.addModule (the `_added` set), driver.get_system (project-name guess),
     System.root_names and its four uses (Documentable.url, writer.writeSummaryPages, summary.summaryPages, linker),
     templatewriter.util.alphabetical_order_func / source_order_func / objects_order, summary._lckey,
     summary.IndexPage.rootkind, ChildTable.last_id / ExpandableItem.last_ExpandableItem_id,
     the write discipline of writer.py / sphinx.py (open(.., 'wb'), unlink + symlink_to).
   The sort-key tuples, DocumentableKind names, `_map_kind` and importlib's suffix lists come from the REGENERATED
   Gen/TablesC18.v: the model interprets what the code says now.

   Python `sorted` is a stable sort: `sort_by` (insertion from the right with <=).  Keys are tuples of ints and
   strings; a tuple is flattened to a `list Z` (an int is one element, a string its code points followed by -1, which
   is smaller than every code point) so that tuple comparison is lexicographic comparison of the flattening. *)
From Coq Require Import ZArith NArith List Bool.
From PydoctorVerif Require Import Base.Sexp Model.DetTypes Gen.TablesC18.
Import ListNotations.
Local Open Scope Z_scope.

(* ------------------------------------------------------------------ keys and the stable sort *)
Fixpoint lex_leb (a b : list Z) : bool :=
  match a, b with
  | [], _ => true
  | _ :: _, [] => false
  | x :: a', y :: b' => if x <? y then true else if y <? x then false else lex_leb a' b'
  end.

Definition enc_text (t : text) : list Z := map Z.of_N t ++ [-1].

Section Sort.
  Context {A : Type} (key : A -> list Z).
  Fixpoint insert_by (x : A) (l : list A) : list A :=
    match l with
    | [] => [x]
    | y :: r => if lex_leb (key x) (key y) then x :: y :: r else y :: insert_by x r
    end.
  Definition sort_by (l : list A) : list A := fold_right insert_by [] l.
End Sort.

(* ------------------------------------------------------------------ text helpers *)
Definition text_eqb (a b : text) : bool :=
  (fix go (a b : list N) : bool :=
     match a, b with
     | [], [] => true
     | x :: a', y :: b' => N.eqb x y && go a' b'
     | _, _ => false
     end) a b.

Definition mem_text (x : text) (l : list text) : bool := existsb (text_eqb x) l.

Fixpoint path_eqb (a b : list text) : bool :=
  match a, b with
  | [], [] => true
  | x :: a', y :: b' => text_eqb x y && path_eqb a' b'
  | _, _ => false
  end.

Fixpoint is_prefix (p q : list text) : bool :=
  match p, q with
  | [], _ => true
  | x :: p', y :: q' => text_eqb x y && is_prefix p' q'
  | _ :: _, [] => false
  end.

Fixpoint starts_with (s pre : text) : bool :=
  match pre, s with
  | [], _ => true
  | c :: pre', d :: s' => N.eqb c d && starts_with s' pre'
  | _ :: _, [] => false
  end.
Definition ends_with (s suf : text) : bool := starts_with (rev s) (rev suf).
Definition strip_suffix (s suf : text) : text := firstn (length s - length suf) s.

Fixpoint join (sep : text) (l : list text) : text :=
  match l with
  | [] => []
  | [x] => x
  | x :: r => x ++ sep ++ join sep r
  end.

Definition ascii_lower_c (c : N) : N := if (N.leb 65 c && N.leb c 90)%bool then (c + 32)%N else c.
Definition ascii_lower (t : text) : text := map ascii_lower_c t.

Definition init_py : text := [95; 95; 105; 110; 105; 116; 95; 95; 46; 112; 121]%N.   (* "__init__.py" *)
Definition dot : N := 46%N.
Definition dot_html : text := [46; 104; 116; 109; 108]%N.

(* ------------------------------------------------------------------ the project on disk and addPackage *)
Inductive fsnode : Type :=
| FFile (name : text)
| FDir (name : text) (entries : list fsnode).

Definition fs_name (n : fsnode) : text := match n with FFile x => x | FDir x _ => x end.
(* sorted(package_path.iterdir()): paths of one directory compare by their last component *)
Definition fs_key (n : fsnode) : list Z := enc_text (fs_name n).

(* a directory listing oracle: what iterdir() returns for the entries of a directory *)
Definition listing := list fsnode -> list fsnode.

Inductive event :=
| EvModule (parent : list text) (name : text) (is_pkg : bool)   (* System.analyzeModule(path, name, parent, is_pkg) *)
| EvError                                                      (* SystemBuildingError: the run stops *)
| EvOutOfFuel.

(* (path / '__init__.py').exists() *)
Definition has_init (es : list fsnode) : bool := existsb (fun e => text_eqb (fs_name e) init_py) es.
(* (path / '__init__.py').is_file() *)
Definition has_init_file (es : list fsnode) : bool :=
  existsb (fun e => match e with FFile n => text_eqb n init_py | FDir _ _ => false end) es.

Fixpoint first_suffix (sufs : list text) (name : text) : option text :=
  match sufs with
  | [] => None
  | s :: r => if ends_with name s then Some s else first_suffix r name
  end.

(* System.addModuleFromPath, with introspect_c_modules off (the default) *)
Definition add_module_from_path (parent : list text) (name : text) : list event :=
  match first_suffix all_suffixes name with
  | None => []
  | Some s =>
      if mem_text s extension_suffixes then []
      else if mem_text s source_suffixes then [EvModule parent (strip_suffix name s) false]
      else []
  end.

Section AddPackage.
  Variable pi : listing.

  (* System.addPackage(package_path, parentPackage) *)
  Fixpoint add_package (fuel : nat) (parent : list text) (name : text) (entries : list fsnode) : list event :=
    match fuel with
    | O => [EvOutOfFuel]
    | S f =>
        EvModule parent name true ::
        flat_map (fun e =>
                    match e with
                    | FDir n es => if has_init es then add_package f (parent ++ [name]) n es else []
                    | FFile n =>
                        if negb (text_eqb n init_py) && negb (starts_with n [dot])
                        then add_module_from_path (parent ++ [name]) n
                        else []
                    end)
                 (sort_by fs_key (pi entries))
    end.

  (* driver.get_system: for path in options.sourcepath: builder.addModule(path)
     roots carry a path identity (the `_added` set is only ever tested for membership) *)
  Fixpoint add_roots (fuel : nat) (added : list N) (roots : list (N * fsnode)) : list event :=
    match roots with
    | [] => []
    | (pid, n) :: r =>
        if existsb (N.eqb pid) added then add_roots fuel added r
        else match n with
             | FDir nm es =>
                 if has_init_file es then add_package fuel [] nm es ++ add_roots fuel (pid :: added) r
                 else [EvError]
             | FFile nm => add_module_from_path [] nm ++ add_roots fuel (pid :: added) r
             end
    end.
End AddPackage.

(* ------------------------------------------------------------------ the module registry after the events *)
Record modent := mkMod { m_path : list text; m_pkg : bool; m_id : N }.
Record rootent := mkRoot { ro_id : N; ro_name : text; ro_kind : Z }.
Record reg := mkReg { r_all : list modent;        (* System.allobjects (modules only, insertion order) *)
                      r_unproc : list modent;     (* System.unprocessed_modules *)
                      r_rootobjs : list rootent;  (* System.rootobjects *)
                      r_next : N }.
Definition r_roots (r : reg) : list text := map ro_name (r_rootobjs r).      (* [o.name for o in System.rootobjects] *)
Definition r_rootkinds (r : reg) : list Z := map ro_kind (r_rootobjs r).     (* [o.kind.value for o in System.rootobjects] *)

Fixpoint remove_id (i : N) (l : list modent) : list modent :=
  match l with
  | [] => []
  | m :: r => if N.eqb (m_id m) i then r else m :: remove_id i r
  end.

Fixpoint remove_root (i : N) (l : list rootent) : list rootent :=      (* list.remove: the first occurrence *)
  match l with
  | [] => []
  | o :: r => if N.eqb (ro_id o) i then r else o :: remove_root i r
  end.

Definition reg_append (r : reg) (parent : list text) (name : text) (is_pkg : bool)
           (all' unproc' : list modent) (roots' : list rootent) : reg :=
  let m := mkMod (parent ++ [name]) is_pkg (r_next r) in
  mkReg (all' ++ [m]) (unproc' ++ [m])
        (match parent with
         | [] => roots' ++ [mkRoot (r_next r) name (if is_pkg then kind_package else kind_module)]
         | _ => roots'
         end)
        (r_next r + 1)%N.

(* _addUnprocessedModule + _handleDuplicateModule (no C modules), as the code is since 3d2c96f / f6d4b31:
   when the last added module wins, the replaced one goes away WITH every module below it (allobjects via _remove,
   unprocessed_modules via its contents) and leaves rootobjects *)
Definition reg_add (r : reg) (parent : list text) (name : text) (is_pkg : bool) : reg :=
  let fn := parent ++ [name] in
  match find (fun m => path_eqb (m_path m) fn) (r_all r) with
  | Some first =>
      if m_pkg first && negb is_pkg
      then mkReg (r_all r) (r_unproc r) (r_rootobjs r) (r_next r + 1)%N            (* packages win *)
      else                                                                        (* the last added module wins *)
        let gone := map m_id (filter (fun m => is_prefix fn (m_path m)) (r_all r)) in
        reg_append r parent name is_pkg
                   (filter (fun m => negb (is_prefix fn (m_path m))) (r_all r))
                   (fold_left (fun u i => remove_id i u) gone (r_unproc r))
                   (remove_root (m_id first) (r_rootobjs r))
  | None => reg_append r parent name is_pkg (r_all r) (r_unproc r) (r_rootobjs r)
  end.

(* before 3d2c96f / f6d4b31: only `first` left unprocessed_modules (its sub-modules were still analysed) and it stayed
   in rootobjects *)
Definition reg_add_old (r : reg) (parent : list text) (name : text) (is_pkg : bool) : reg :=
  let fn := parent ++ [name] in
  match find (fun m => path_eqb (m_path m) fn) (r_all r) with
  | Some first =>
      if m_pkg first && negb is_pkg
      then mkReg (r_all r) (r_unproc r) (r_rootobjs r) (r_next r + 1)%N
      else reg_append r parent name is_pkg
                      (filter (fun m => negb (is_prefix fn (m_path m))) (r_all r))
                      (remove_id (m_id first) (r_unproc r)) (r_rootobjs r)
  | None => reg_append r parent name is_pkg (r_all r) (r_unproc r) (r_rootobjs r)
  end.

Definition reg_of_events (evs : list event) : reg :=
  fold_left (fun r e => match e with EvModule p n k => reg_add r p n k | _ => r end) evs (mkReg [] [] [] 0%N).

(* ------------------------------------------------------------------ System.root_names (a set) and its uses *)
Fixpoint dedup (l : list text) : list text :=
  match l with
  | [] => []
  | x :: r => if mem_text x r then dedup r else x :: dedup r
  end.

Definition set_order := list text -> list text.
(* iterating the set {obj.name for obj in rootobjects} *)
Definition root_names (pi : set_order) (roots : list text) : list text := pi (dedup roots).

Definition slash : text := [47%N].
(* driver.get_system, as it is now: '/'.join(obj.name for obj in system.rootobjects) *)
Definition guess_name (roots : list text) : text := join slash roots.
(* before 17874d0: '/'.join(system.root_names) *)
Definition guess_name_old (pi : set_order) (roots : list text) : text := join slash (root_names pi roots).
Definition project_name (opt : option text) (roots : list text) : text :=
  match opt with Some n => n | None => guess_name roots end.

(* Documentable.url: list(self.system.root_names) == [page_obj.fullName()] *)
Definition url_is_index (pi : set_order) (roots : list text) (fn : text) : bool :=
  path_eqb (root_names pi roots) [fn].
(* writer.writeSummaryPages: if len(root_names) == 1: p = list(root_names)[0] + '.html'; if p != 'index.html': relink p *)
Definition index_html : text := [105; 110; 100; 101; 120; 46; 104; 116; 109; 108]%N.
Definition symlink_of (pi : set_order) (roots : list text) : option text :=
  if Nat.eqb (length (root_names pi roots)) 1
  then let p := nth 0 (root_names pi roots) [] ++ dot_html in
       if negb (text_eqb p index_html) then Some p else None
  else None.
(* summary.summaryPages: len(system.root_names) > 1 *)
Definition has_index_page (pi : set_order) (roots : list text) : bool := Nat.ltb 1 (length (root_names pi roots)).
(* linker: fullID[:root_idx] not in root_names *)
Definition is_root (pi : set_order) (roots : list text) (x : text) : bool := mem_text x (root_names pi roots).

(* summary.IndexPage.rootkind: sorted(set([o.kind ...]), key=lambda k: k.name) *)
Fixpoint dedup_z (l : list Z) : list Z :=
  match l with
  | [] => []
  | x :: r => if existsb (Z.eqb x) r then dedup_z r else x :: dedup_z r
  end.
Definition kind_name (k : Z) : text :=
  match find (fun p => Z.eqb (fst p) k) kind_table with Some p => snd p | None => [] end.
Definition kind_name_key (k : Z) : list Z := enc_text (kind_name k).
Definition rootkinds (pi : list Z -> list Z) (kinds : list Z) : list Z := sort_by kind_name_key (pi (dedup_z kinds)).

(* everything of the run that is computed from the root modules, the directory listings and the two sets
   (root_names, the set of root kinds) before any page is rendered *)
Record view := mkView {
  v_events : list event; v_reg : reg; v_project : text; v_root_is_index : list bool;
  v_symlink : option text; v_index_page : bool; v_rootkinds : list Z }.

Definition build_view (pi_fs : listing) (pi_set : set_order) (pi_kinds : list Z -> list Z)
           (fuel : nat) (opt : option text) (roots : list (N * fsnode)) : view :=
  let evs := add_roots pi_fs fuel [] roots in
  let r := reg_of_events evs in
  mkView evs r (project_name opt (r_roots r))
         (map (url_is_index pi_set (r_roots r)) (r_roots r))
         (symlink_of pi_set (r_roots r)) (has_index_page pi_set (r_roots r))
         (rootkinds pi_kinds (r_rootkinds r)).

(* ------------------------------------------------------------------ member / index sort keys *)
Record obj := mkObj { o_priv : Z; o_kind : Z (* 0 = None *); o_full : text; o_line : Z; o_is_mod : bool }.

Definition map_kind (k : Z) : Z :=
  match find (fun p => Z.eqb (fst p) k) map_kind_table with Some p => snd p | None => k end.

Section Keys.
  Variable lower : text -> text.     (* str.lower *)

  Definition eval_comp (c : kcomp) (o : obj) : list Z :=
    match c with
    | KNegPrivacy => [- o_priv o]
    | KNegKindMapped => [if Z.eqb (o_kind o) 0 then 0 else - map_kind (o_kind o)]
    | KLowerFullName => enc_text (lower (o_full o))
    | KFullName => enc_text (o_full o)
    | KLineno => [o_line o]
    end.
  Definition key_of (def : list kcomp) (o : obj) : list Z := flat_map (fun c => eval_comp c o) def.

  Definition alphabetical_key : obj -> list Z := key_of alphabetical_def.
  Definition source_key (o : obj) : list Z :=
    if o_is_mod o then key_of source_module_def o else key_of source_other_def o.
  Definition lckey : obj -> list Z := key_of lckey_def.
  (* util.objects_order(order) *)
  Definition objects_order (source : bool) : obj -> list Z := if source then source_key else alphabetical_key.
End Keys.

(* a key definition that contains the full name distinguishes objects with distinct full names *)
Definition def_has_fullname (def : list kcomp) : bool := existsb (kcomp_eqb KFullName) def.

(* ------------------------------------------------------------------ process-global counters *)
(* ChildTable.__init__: ChildTable.last_id += 1; self._id = ChildTable.last_id   (n elements created in a row) *)
Definition assign_ids (last : N) (n : nat) : list N * N :=
  (map (fun i => (last + N.of_nat i)%N) (seq 1 n), (last + N.of_nat n)%N).

(* ------------------------------------------------------------------ build time
   System.__init__: buildtime = now(); driver.get_system then applies the sources in the order the code has them
   (as regenerated): SOURCE_DATE_EPOCH if set, then --buildtime if given. Parse errors abort the run (not modelled). *)
Definition apply_bt (env opt : option Z) (cur : Z) (s : bt_source) : Z :=
  match s with
  | BEnvEpoch => match env with Some e => e | None => cur end
  | BOption => match opt with Some t => t | None => cur end
  end.
Definition buildtime (env opt : option Z) (now : Z) : Z := fold_left (apply_bt env opt) buildtime_sources now.

(* ------------------------------------------------------------------ the output directory *)
Inductive entry := Bytes (content : N) | Symlink (target : text).
Definition fsmap := list (text * entry).

Fixpoint lookup (n : text) (d : fsmap) : option entry :=
  match d with
  | [] => None
  | (k, e) :: r => if text_eqb k n then Some e else lookup n r
  end.
Fixpoint del (n : text) (d : fsmap) : fsmap :=
  match d with
  | [] => []
  | (k, e) :: r => if text_eqb k n then del n r else (k, e) :: del n r
  end.
Definition set_entry (n : text) (e : entry) (d : fsmap) : fsmap := (n, e) :: del n d.

Inductive op :=
| Write (name : text) (content : N)      (* with path.open('wb') as f: f.write(..)   -- truncating; FOLLOWS a symlink
                                            (static files, summary pages, search index, inventory; pages before 5e9fb91) *)
| WritePage (name : text) (content : N)  (* writer._writeDocsFor since 5e9fb91: if path.is_symlink(): path.unlink(); then open('wb') *)
| Relink (name target : text).           (* try: path.unlink() except FileNotFoundError: pass; path.symlink_to(target) *)

Definition op_name (o : op) : text := match o with Write n _ => n | WritePage n _ => n | Relink n _ => n end.

Definition step (d : fsmap) (o : op) : fsmap :=
  match o with
  | Write n c =>
      match lookup n d with
      | Some (Symlink t) => set_entry t (Bytes c) d      (* open() follows the link (one level modelled) *)
      | _ => set_entry n (Bytes c) d
      end
  | WritePage n c => set_entry n (Bytes c) d             (* a link found there is removed first *)
  | Relink n t => set_entry n (Symlink t) d
  end.
Definition apply_ops (ops : list op) (d : fsmap) : fsmap := fold_left step ops d.

(* the names opened with a symlink-following open() *)
Definition write_names (ops : list op) : list text :=
  flat_map (fun o => match o with Write n _ => [n] | _ => [] end) ops.
Definition page_names (ops : list op) : list text :=
  flat_map (fun o => match o with WritePage n _ => [n] | _ => [] end) ops.
Definition relink_names (ops : list op) : list text :=
  flat_map (fun o => match o with Relink n _ => [n] | _ => [] end) ops.
(* the page writes as they were before 5e9fb91 *)
Definition old_pages (ops : list op) : list op :=
  map (fun o => match o with WritePage n c => Write n c | o => o end) ops.

(* ------------------------------------------------------------------ TemplateLookup.add_templatedir
   Template.fromdir yields the files of a template directory in the order sorted(path.iterdir(), key=lambda p: p.name)
   (since 16ec2bc; before: in LISTING order, `load_dir_old`);
   TemplateLookup.add_template keys them by lower-cased name: a later template with the same key replaces the CONTENT
   but keeps the NAME of the earlier one (static templates only; the HTML/static and directory clashes raise). *)
Definition tmpl := (text * N)%type.                       (* (file name, content) *)
Definition tlookup := list (text * tmpl).                 (* CaseInsensitiveDict: lower-cased key -> (name, content) *)
Definition tmpl_key (t : tmpl) : list Z := enc_text (fst t).

Section Templates.
  Variable lower : text -> text.
  Fixpoint tl_add (lk : tlookup) (t : tmpl) : tlookup :=
    match lk with
    | [] => [(lower (fst t), t)]
    | (k, old) :: r =>
        if text_eqb k (lower (fst t)) then (k, (fst old, snd t)) :: r else (k, old) :: tl_add r t
    end.
  Definition load_dir (pi : list tmpl -> list tmpl) (files : list tmpl) (base : tlookup) : tlookup :=
    fold_left tl_add (sort_by tmpl_key (pi files)) base.
  (* before 16ec2bc: for entry in path.iterdir() *)
  Definition load_dir_old (pi : list tmpl -> list tmpl) (files : list tmpl) (base : tlookup) : tlookup :=
    fold_left tl_add (pi files) base.
End Templates.
Fixpoint tl_lookup (k : text) (lk : tlookup) : option tmpl :=
  match lk with
  | [] => None
  | (k', v) :: r => if text_eqb k' k then Some v else tl_lookup k r
  end.
(* prepOutputDirectory: one truncating write per template, under the stored name *)
Definition static_ops (lk : tlookup) : list op := map (fun e => Write (fst (snd e)) (snd (snd e))) lk.

(* ------------------------------------------------------------------ wire codec
   input := ( fn ... )
     fn 0: ( 0 roots )            roots := list of ( pid node ) ; node := ( 0 name ) | ( 1 name node ... )
                                  children in LISTING order (the harness makes iterdir() return them in that order)
           -> ( events unproc rootobjects )   event := ( parentpath name is_pkg ) | ( -1 ) | ( -2 )
     fn 1: ( 1 which objs )       which: 0 alphabetical 1 source 2 _lckey ; obj := ( priv kind full line is_mod )
           -> indices of objs in sorted order
     fn 2: ( 2 roots perm optname fn kinds kperm )  perm/kperm = iteration order of the set as indices into dedup
           -> ( project_name old_guess url_is_index symlink has_index is_root rootkinds )
     fn 3: ( 3 ops prev )         op := ( 0 name content ) | ( 2 name content ) page | ( 1 name target ) ; prev := list of ( name 0 content ) | ( name 1 target )
           -> final directory sorted by name
     fn 4: ( 4 last n ) -> ( ids last' )
     fn 6: ( 6 env opt now )      env/opt := () | ( seconds ) -> build time in seconds
     fn 5: ( 5 files base )       files/base := list of ( name content ), files in LISTING order
           -> the template lookup as list of ( name content ) in dict order  *)
Fixpoint node_of_sexp (fuel : nat) (s : sexp) : fsnode :=
  match fuel with
  | O => FFile []
  | S f =>
      match to_list s with
      | tag :: name :: kids =>
          if Z.eqb (to_Z tag) 0 then FFile (to_text name) else FDir (to_text name) (map (node_of_sexp f) kids)
      | _ => FFile []
      end
  end.
Fixpoint sexp_depth (s : sexp) : nat :=
  match s with A _ => 1%nat | L l => S (fold_right (fun x acc => Nat.max (sexp_depth x) acc) 0%nat l) end.

Definition path_sexp (p : list text) : sexp := L (map of_text p).
Definition ev_sexp (e : event) : sexp :=
  match e with
  | EvModule p n k => L [path_sexp p; of_text n; of_bool k]
  | EvError => L [A (-1)]
  | EvOutOfFuel => L [A (-2)]
  end.
Definition mod_sexp (m : modent) : sexp := L [path_sexp (m_path m); of_bool (m_pkg m)].

Definition obj_of_sexp (s : sexp) : obj :=
  mkObj (to_Z (nth_s 0 s)) (to_Z (nth_s 1 s)) (to_text (nth_s 2 s)) (to_Z (nth_s 3 s)) (to_bool (nth_s 4 s)).

Fixpoint number {X} (i : nat) (l : list X) : list (nat * X) :=
  match l with [] => [] | x :: r => (i, x) :: number (S i) r end.

Definition apply_perm {X} (d : X) (idx : list nat) (l : list X) : list X := map (fun i => nth i l d) idx.

Definition entry_sexp (p : text * entry) : sexp :=
  match snd p with
  | Bytes c => L [of_text (fst p); A 0; of_N c]
  | Symlink t => L [of_text (fst p); A 1; of_text t]
  end.
Definition entry_of_sexp (s : sexp) : text * entry :=
  (to_text (nth_s 0 s),
   if Z.eqb (to_Z (nth_s 1 s)) 0 then Bytes (to_N (nth_s 2 s)) else Symlink (to_text (nth_s 2 s))).
Definition op_of_sexp (s : sexp) : op :=
  if Z.eqb (to_Z (nth_s 0 s)) 0 then Write (to_text (nth_s 1 s)) (to_N (nth_s 2 s))
  else if Z.eqb (to_Z (nth_s 0 s)) 2 then WritePage (to_text (nth_s 1 s)) (to_N (nth_s 2 s))
  else Relink (to_text (nth_s 1 s)) (to_text (nth_s 2 s)).

Definition run (s : sexp) : sexp :=
  match to_Z (nth_s 0 s) with
  | 0 =>
      let roots := map (fun r => (to_N (nth_s 0 r), node_of_sexp (sexp_depth r) (nth_s 1 r))) (to_list (nth_s 1 s)) in
      let evs := add_roots (fun l => l) (sexp_depth s) [] roots in
      let r := reg_of_events evs in
      L [L (map ev_sexp evs); L (map mod_sexp (r_unproc r)); L (map of_text (r_roots r)); L (map A (r_rootkinds r))]
  | 1 =>
      let which := to_Z (nth_s 1 s) in
      let objs := map obj_of_sexp (to_list (nth_s 2 s)) in
      let key := match which with
                 | 0 => alphabetical_key ascii_lower
                 | 1 => source_key ascii_lower
                 | _ => lckey ascii_lower
                 end in
      L (map (fun p => of_nat (fst p)) (sort_by (fun p => key (snd p)) (number 0 objs)))
  | 2 =>
      let roots := map to_text (to_list (nth_s 1 s)) in
      let perm := map to_nat (to_list (nth_s 2 s)) in
      let pi : set_order := apply_perm [] perm in
      let opt := to_option to_text (nth_s 3 s) in
      let fn := to_text (nth_s 4 s) in
      let kinds := map to_Z (to_list (nth_s 5 s)) in
      let kperm := map to_nat (to_list (nth_s 6 s)) in
      L [of_text (project_name opt roots); of_text (guess_name_old pi roots);
         of_bool (url_is_index pi roots fn); of_option of_text (symlink_of pi roots);
         of_bool (has_index_page pi roots); of_bool (is_root pi roots fn);
         L (map A (rootkinds (apply_perm 0 kperm) kinds))]
  | 3 =>
      let ops := map op_of_sexp (to_list (nth_s 1 s)) in
      let prev := map entry_of_sexp (to_list (nth_s 2 s)) in
      L (map entry_sexp (sort_by (fun p => enc_text (fst p)) (apply_ops ops prev)))
  | 4 =>
      let '(ids, last') := assign_ids (to_N (nth_s 1 s)) (to_nat (nth_s 2 s)) in
      L [L (map of_N ids); of_N last']
  | 5 =>
      let rd := fun x => (to_text (nth_s 0 x), to_N (nth_s 1 x)) in
      let files := map rd (to_list (nth_s 1 s)) in
      let base := fold_left (tl_add ascii_lower) (map rd (to_list (nth_s 2 s))) [] in
      L (map (fun e => L [of_text (fst (snd e)); of_N (snd (snd e))]) (load_dir ascii_lower (fun l => l) files base))
  | 6 => A (buildtime (to_option to_Z (nth_s 1 s)) (to_option to_Z (nth_s 2 s)) (to_Z (nth_s 3 s)))
  | _ => bad_input
  end.
