(* Model/StrEsc.v -- pydoctor/epydoc/markup/_pyval_repr.py : _str_escape, _bytes_escape.
   Definitions only.  Text is list N (code points); a bytes value is the list of its byte values. *)
From Coq Require Import ZArith NArith List Bool.
From PydoctorVerif Require Import Base.Sexp Gen.TablesC15.
Import ListNotations.
Local Open Scope N_scope.

Definition BSL : N := 92.   (* backslash *)
Definition SQ : N := 39.    (* single quote *)
Definition DQ : N := 34.    (* double quote *)
Definition NL : N := 10.

Fixpoint assoc_esc (tab : list (N * text)) (c : N) : option text :=
  match tab with
  | [] => None
  | (k, v) :: tab' => if N.eqb c k then Some v else assoc_esc tab' c
  end.

(* def enc(c): the if/elif chain, as regenerated into Gen/TablesC15.str_escape_tab *)
Definition enc (c : N) : text :=
  match assoc_esc str_escape_tab c with Some r => r | None => [c] end.

Definition hex_digit (d : N) : N := if d <? 10 then 48 + d else 87 + d.   (* lowercase *)

Definition is_surrogate (c : N) : bool := (55296 <=? c) && (c <=? 57343).

(* str.encode(utf-8, backslashreplace) on a lone surrogate: \udXXX  (4 lowercase hex digits) *)
Definition backslashreplace1 (c : N) : text :=
  if is_surrogate c
  then [BSL; 117; hex_digit (c / 4096); hex_digit ((c / 256) mod 16); hex_digit ((c / 16) mod 16); hex_digit (c mod 16)]
  else [c].

(* _str_escape: s = join(map(enc, s)); try: s.encode(utf-8) except UnicodeEncodeError: backslashreplace.
   utf-8 encoding fails exactly when a surrogate code point is present. *)
Definition str_escape (s : text) : text :=
  let t := flat_map enc s in
  if existsb is_surrogate t then flat_map backslashreplace1 t else t.

(* _bytes_escape(b) = repr(b)[2:-1].  CPython bytes_repr: the quote is the single quote unless the value contains
   a single quote and no double quote. *)
Definition bytes_quote (b : text) : N :=
  if existsb (N.eqb SQ) b && negb (existsb (N.eqb DQ) b) then DQ else SQ.

Definition bytes_repr1 (quote c : N) : text :=
  if N.eqb c quote || N.eqb c BSL then [BSL; c]
  else if N.eqb c 9 then [BSL; 116]
  else if N.eqb c 10 then [BSL; 110]
  else if N.eqb c 13 then [BSL; 114]
  else if (c <? 32) || (127 <=? c) then [BSL; 120; hex_digit (c / 16); hex_digit (c mod 16)]
  else [c].

(* body = repr(b)[2:-1]; if repr() used double quotes: body = body.replace(single quote, backslash + single quote)
   (fix: commit 69ea9c3) *)
Definition requote1 (c : N) : text := if N.eqb c SQ then [BSL; SQ] else [c].

Definition bytes_escape (b : text) : text :=
  let q := bytes_quote b in
  let body := flat_map (bytes_repr1 q) b in
  if N.eqb q DQ then flat_map requote1 body else body.

(* ---- the definitions before the fix: commits 69ea9c3 and e76b12d, kept for the _old_refuted witnesses ---- *)
Definition bytes_escape_old (b : text) : text := flat_map (bytes_repr1 (bytes_quote b)) b.

Definition str_escape_tab_old : list (N * text) :=
  [(39, [92; 39]); (9, [92; 116]); (13, [92; 114]); (10, [92; 110]); (12, [92; 102]); (11, [92; 118]); (92, [92; 92])].
Definition enc_old (c : N) : text :=
  match assoc_esc str_escape_tab_old c with Some r => r | None => [c] end.
Definition str_escape_old (s : text) : text :=
  let t := flat_map enc_old s in
  if existsb is_surrogate t then flat_map backslashreplace1 t else t.

(* str.split(NL) *)
Fixpoint split_nl (s : text) : list text :=
  match s with
  | [] => [[]]
  | c :: s' =>
    if N.eqb c NL then [] :: split_nl s'
    else match split_nl s' with
         | h :: t => (c :: h) :: t
         | [] => [[c]]
         end
  end.

Definition has_nl (s : text) : bool := existsb (N.eqb NL) s.
