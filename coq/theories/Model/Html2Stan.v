(* Model/Html2Stan.v -- pydoctor.stanutils.html2stan: control characters neutralised, the fragment
   wrapped in one element, parsed as XML, the wrapper made transparent.  Definitions only.

   The XML parser (twisted's XMLString = expat + _ToStan) is an external component: it is modelled by the
   reader of Spec/Xml.v preceded by end-of-line normalisation (XML 1.0 2.11) and followed by attribute-value
   normalisation of literal white space (3.3.3); that model is validated against expat by the harness on the
   same strings.  Domain: no namespace syntax (colon in names, xmlns attributes), no comments / CDATA /
   processing instructions, no white-space character references inside attribute values, input not
   starting with the XML declaration (pydoctor only passes fragments). *)
From Coq Require Import ZArith NArith List Bool.
From PydoctorVerif Require Import Base.Sexp Gen.TablesC10 Model.Stan Model.DocutilsEsc Spec.Xml.
Import ListNotations.
Local Open Scope N_scope.

(* _RE_CONTROL.sub(lambda m: b'\\x%02x' % ord(m.group()), html) *)
Definition neutralise_char (c : N) : text :=
  if memN c re_control
  then match assoc_N c re_control_repl with Some r => r | None => [c] end
  else [c].
Definition neutralise (h : text) : text := flat_map neutralise_char h.

(* XML 1.0 2.11: CR LF and lone CR become LF before parsing.  after_cr: the previous character was a CR *)
Fixpoint eol_from (after_cr : bool) (s : text) : text :=
  match s with
  | [] => []
  | c :: r =>
    if c =? 13 then 10 :: eol_from true r
    else if (c =? 10) && after_cr then eol_from false r
    else c :: eol_from false r
  end.
Definition eol_norm (s : text) : text := eol_from false s.

(* 3.3.3 on literal characters: tab / newline (CR is gone already) become a space *)
Definition attr_norm (v : text) : text :=
  map (fun c => if (c =? 9) || (c =? 10) || (c =? 13) then 32 else c) v.

Fixpoint stan_of_xnode (x : xnode) : stan :=
  match x with
  | XText t => SText t
  | XElem n a kids => STag n (map (fun kv => (fst kv, attr_norm (snd kv))) a) (map stan_of_xnode kids)
  end.

(* XMLString(s).load(): a document has exactly one root element *)
Definition xml_load (s : text) : option stan :=
  match read (eol_norm s) with
  | Some [XElem n a kids] => Some (stan_of_xnode (XElem n a kids))
  | _ => None
  end.

Inductive h2s_result : Type :=
| H2Ok (s : stan)
| H2ParseError            (* xml.sax.SAXParseException *)
| H2Document.             (* input starts with the XML declaration: whole-document path, not modelled *)

Definition wrap (h : text) : text := [60] ++ wrap_tag ++ [62] ++ h ++ [60; 47] ++ wrap_tag ++ [62].

Definition html2stan (html : text) : h2s_result :=
  let h := neutralise html in
  if starts xml_decl h then H2Document
  else match xml_load (wrap h) with
       | Some (STag _ a kids) => H2Ok (STag [] a kids)       (* stan.tagName = '' *)
       | _ => H2ParseError
       end.

(* html2stan with the control class as it was before the repair cc2b510 (FORM FEED exempted): kept for the
   _old_refuted witness only *)
Definition old_control : list N := filter (fun c => negb (c =? 12)) re_control.
Definition neutralise_old (h : text) : text :=
  flat_map (fun c => if memN c old_control
                     then match assoc_N c re_control_repl with Some r => r | None => [c] end
                     else [c]) h.
Definition html2stan_old (html : text) : h2s_result :=
  let h := neutralise_old html in
  if starts xml_decl h then H2Document
  else match xml_load (wrap h) with
       | Some (STag _ a kids) => H2Ok (STag [] a kids)
       | _ => H2ParseError
       end.
