(* Model/C20Run.v -- wire codec and dispatcher of the C20 models (extracted by Extract/XQuote.v).
   input  := ( fn payload... )
     0 text triple        -> ( dq sq triple_re quoted_re is_quoted (tag text) )      is_quoted / unquote_str
     1 text printables    -> ( py_repr dq_quote dq_quote_full )                     the quoting functions (Spec)
     2 text               -> ( tag text )                                           Spec.PyStrLit.py_str_literal_eval
     3 text               -> ( tag texts )                                          Spec.PyListLit.py_list_literal_eval
     4 split text         -> ini_res                                                IniConfigParser, one value
     5 secs               -> pres                                                   IniConfigParser.parse
     6 tomlv              -> pres                                                   TomlConfigParser.parse
     7 dict               -> ( dict warns )                                         ValidatorParser.parse
     8 files cli          -> run_res                                                options.parse_args
     9 name               -> texts                                                  parse_toml_section_name
    10 secs               -> pres | (3)                                             IniConfigParser.parse, TRANSLATED code (Gen/IniCode.v), (3) = stuck
    11 text triple        -> ( (tag b) (tag text) )                                 is_quoted / unquote_str, TRANSLATED code; tag 3 = stuck
   tags: 0 ok, 1 error, 2 unsupported.  cval := (0 text) | (1 texts).  dict := ((key cval) ...).
   tomlv := (0 text) | (1 z) | (2 b) | (3 (v...)) | (4 ((k v)...)) | (5 truthy text).
   file := ( (toml?) (ini?) ) with toml = tomlv table payload ((k v)...), ini = ((name ((k v)...)) ...), each wrapped as option.
   tok := (name) | (name value).   nsval := (0) | (1 text) | (2 z) | (3 b) | (4 texts) | (5 n).
   run_res := (0 ((dest nsval)...) (warn...)) | (1 code) | (2) | (3). *)
From Coq Require Import ZArith NArith List Bool.
From PydoctorVerif Require Import Base.Sexp Model.ReDeriv Model.OptTypes Gen.TablesC20 Spec.PyStrLit Spec.PyListLit
     Model.Quote Model.IniValue Model.TomlValue Model.Validator Model.Merge Model.Options.
From PydoctorVerif Require Model.IniIR Gen.IniCode.
Import ListNotations.
Local Open Scope Z_scope.

Definition of_texts (l : list text) : sexp := of_list of_text l.
Definition to_texts (s : sexp) : list text := map to_text (to_list s).

Definition of_cval (v : cval) : sexp :=
  match v with
  | VStr t => L [A 0; of_text t]
  | VList l => L [A 1; of_texts l]
  end.
Definition to_cval (s : sexp) : cval :=
  if Z.eqb (to_Z (nth_s 0 s)) 0 then VStr (to_text (nth_s 1 s)) else VList (to_texts (nth_s 1 s)).

Definition of_dict (d : list (text * cval)) : sexp :=
  of_list (fun kv => L [of_text (fst kv); of_cval (snd kv)]) d.
Definition to_dict (s : sexp) : list (text * cval) :=
  map (fun kv => (to_text (nth_s 0 kv), to_cval (nth_s 1 kv))) (to_list s).

Definition of_pres (p : pres) : sexp :=
  match p with
  | POk d => L [A 0; of_dict d]
  | PError => L [A 1]
  | PUnsup => L [A 2]
  end.

Fixpoint sexp_depth (s : sexp) : nat :=
  match s with A _ => 1%nat | L l => S (fold_right (fun x acc => Nat.max (sexp_depth x) acc) 0%nat l) end.

Fixpoint to_tomlv (fuel : nat) (s : sexp) : tomlv :=
  match fuel with
  | O => TOpaque false []
  | S f =>
      let tag := to_Z (nth_s 0 s) in
      if Z.eqb tag 0 then TStr (to_text (nth_s 1 s))
      else if Z.eqb tag 1 then TInt (to_Z (nth_s 1 s))
      else if Z.eqb tag 2 then TBool (to_bool (nth_s 1 s))
      else if Z.eqb tag 3 then TList (map (to_tomlv f) (to_list (nth_s 1 s)))
      else if Z.eqb tag 4 then
        TTable (map (fun kv => (to_text (nth_s 0 kv), to_tomlv f (nth_s 1 kv))) (to_list (nth_s 1 s)))
      else TOpaque (to_bool (nth_s 1 s)) (to_text (nth_s 2 s))
  end.

Definition to_table (s : sexp) : list (text * tomlv) :=
  match to_tomlv (S (S (sexp_depth s))) (L [A 4; s]) with
  | TTable kv => kv
  | _ => []
  end.

Definition to_ini (s : sexp) : list (text * list (text * text)) :=
  map (fun sec => (to_text (nth_s 0 sec),
                   map (fun kv => (to_text (nth_s 0 kv), to_text (nth_s 1 kv))) (to_list (nth_s 1 sec))))
      (to_list s).

Definition to_file (s : sexp) : file_view :=
  {| fv_toml := to_option to_table (nth_s 0 s); fv_ini := to_option to_ini (nth_s 1 s) |}.

Definition to_tok (s : sexp) : tok :=
  match to_list s with
  | [n] => {| t_name := to_text n; t_val := None |}
  | n :: v :: _ => {| t_name := to_text n; t_val := Some (to_text v) |}
  | [] => {| t_name := []; t_val := None |}
  end.

Definition of_nsval (v : nsval) : sexp :=
  match v with
  | NNone => L [A 0]
  | NStr t => L [A 1; of_text t]
  | NInt z => L [A 2; A z]
  | NBool b => L [A 3; of_bool b]
  | NList l => L [A 4; of_texts l]
  | NSentinel n => L [A 5; of_N n]
  end.

Definition of_run_res (r : run_res) : sexp :=
  match r with
  | RunOk ns ws => L [A 0; of_list (fun kv => L [of_text (fst kv); of_nsval (snd kv)]) ns; of_texts ws]
  | RunExit c => L [A 1; of_N c]
  | RunRaise => L [A 2]
  | RunUnsup => L [A 3]
  end.

Definition of_unq (u : unq) : sexp :=
  match u with
  | UOk t => L [A 0; of_text t]
  | UValueError => L [A 1; L []]
  | UUnsup => L [A 2; L []]
  end.

Definition of_res (u : res) : sexp :=
  match u with
  | ROk t => L [A 0; of_text t]
  | RErr => L [A 1; L []]
  | RUnsup => L [A 2; L []]
  end.

Definition of_lres (u : lres) : sexp :=
  match u with
  | LsOk l => L [A 0; of_texts l]
  | LsErr => L [A 1; L []]
  | LsUnsup => L [A 2; L []]
  end.

Definition of_ini_res (r : ini_res) : sexp :=
  match r with
  | ISkip => L [A 0]
  | IVal v => L [A 1; of_cval v]
  | IConfigError => L [A 2]
  | IUnsup => L [A 3]
  end.

Definition of_eres_ir (r : IniIR.eres) : sexp :=
  match r with
  | IniIR.EV (IniIR.VStr t) => L [A 0; of_text t]
  | IniIR.EV (IniIR.VBool b) => L [A 0; of_bool b]
  | IniIR.EV _ => L [A 3; L []]
  | IniIR.ERaise _ => L [A 1; L []]
  | IniIR.EUnsup => L [A 2; L []]
  | IniIR.EStuck => L [A 3; L []]
  end.

Definition run (s : sexp) : sexp :=
  let fn := to_Z (nth_s 0 s) in
  if Z.eqb fn 0 then
    let t := to_text (nth_s 1 s) in
    let triple := to_bool (nth_s 2 s) in
    L [of_bool (simple_rec 34 t); of_bool (simple_rec 39 t); of_bool (re_match triple_re t);
       of_bool (re_match quoted_re t); of_bool (is_quoted t triple); of_unq (unquote_str t triple)]
  else if Z.eqb fn 1 then
    let t := to_text (nth_s 1 s) in
    let pr := map to_N (to_list (nth_s 2 s)) in
    let printable := fun c => existsb (N.eqb c) pr in
    L [of_text (py_repr printable t); of_text (dq_quote t); of_text (dq_quote_full t)]
  else if Z.eqb fn 2 then of_res (py_str_literal_eval (to_text (nth_s 1 s)))
  else if Z.eqb fn 3 then of_lres (py_list_literal_eval (to_text (nth_s 1 s)))
  else if Z.eqb fn 4 then of_ini_res (ini_value (to_bool (nth_s 1 s)) (to_text (nth_s 2 s)))
  else if Z.eqb fn 5 then of_pres (ini_parse config_sections ini_split_ml (to_ini (nth_s 1 s)))
  else if Z.eqb fn 6 then of_pres (toml_parse config_sections (to_table (nth_s 1 s)))
  else if Z.eqb fn 7 then
    let (d, w) := validate option_table (to_dict (nth_s 1 s)) in L [of_dict d; of_texts w]
  else if Z.eqb fn 8 then
    of_run_res (pydoctor_parse_args (map to_file (to_list (nth_s 1 s))) (map to_tok (to_list (nth_s 2 s))))
  else if Z.eqb fn 9 then of_texts (parse_toml_section_name (to_text (nth_s 1 s)))
  else if Z.eqb fn 10 then
    match IniIR.ini_parse_ir IniCode.ini_code config_sections ini_split_ml (to_ini (nth_s 1 s)) with
    | Some p => of_pres p
    | None => L [A 3]
    end
  else if Z.eqb fn 11 then
    let t := IniIR.VStr (to_text (nth_s 1 s)) in
    let tr := IniIR.VBool (to_bool (nth_s 2 s)) in
    L [of_eres_ir (IniIR.is_quoted_ir IniCode.ini_code t tr); of_eres_ir (IniIR.unquote_str_ir IniCode.ini_code t tr)]
  else bad_input.
