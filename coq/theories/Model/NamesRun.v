(* Model/NamesRun.v -- wire codec and entry point for the C04 models (definitions only).

   request  (0 modules order queries)  modules = ((path is_pkg all body) ...), all = () | ((n ...))
            stmt = (0 target asname?) | (1 level modname ((orig asname?) ...)) | (2 level modname)
                 | (3 name base? body) | (4 name) | (5 target expr) ;  x? = () | (x)
            order = (path ...) ; queries = ((m qual dotted) ...)  -- ctx given by identity m ++ qual
   answer   (oof anomaly objs results leak all_closed)
            objs    = ((path id kind amap baseobj? state) ...)
            results = ((ctxpath expand resolved? spec? guard) ...), resolved = (path id kind), spec = (tag m q),
                      guard = trail_ok (the name is inside the guard of C04_expand_sound), code? = (path) result of
                      interpreting Gen/NamesCode.v code_expand_name
   request  (1 mpath is_pkg level modname)  ->  (model? spec?)   relative-import arithmetic only *)
From Coq Require Import ZArith NArith List Bool.
From PydoctorVerif Require Import Base.Sexp Base.ImportSyntax Model.Names Spec.PyImport Model.NamesIR Gen.NamesCode.
Import ListNotations.

Definition to_path (s : sexp) : path := map to_N (to_list s).
Definition of_path (p : path) : sexp := L (map of_N p).

Fixpoint stmt_of_sexp (fuel : nat) (s : sexp) : stmt :=
  match fuel with
  | O => SDef 0%N
  | S f =>
    match to_Z (nth_s 0 s) with
    | 0%Z => SImport (to_path (nth_s 1 s)) (to_option to_N (nth_s 2 s))
    | 1%Z => SFrom (to_nat (nth_s 1 s)) (to_path (nth_s 2 s))
                   (map (fun x => (to_N (nth_s 0 x), to_option to_N (nth_s 1 x))) (to_list (nth_s 3 s)))
    | 2%Z => SStar (to_nat (nth_s 1 s)) (to_path (nth_s 2 s))
    | 3%Z => SClass (to_N (nth_s 1 s)) (to_option to_path (nth_s 2 s))
                    (map (stmt_of_sexp f) (to_list (nth_s 3 s)))
    | 4%Z => SDef (to_N (nth_s 1 s))
    | _ => SAlias (to_N (nth_s 1 s)) (to_path (nth_s 2 s))
    end
  end.

Fixpoint sexp_depth (s : sexp) : nat :=
  match s with A _ => 1 | L l => S (fold_right (fun x acc => Nat.max (sexp_depth x) acc) 0 l) end.

Definition module_of_sexp (s : sexp) : module_src :=
  {| m_path := to_path (nth_s 0 s);
     m_pkg := to_bool (nth_s 1 s);
     m_all := to_option (fun x => map to_N (to_list x)) (nth_s 2 s);
     m_body := map (stmt_of_sexp (sexp_depth s)) (to_list (nth_s 3 s)) |}.

Definition kind_code (k : kind) : sexp := A (match k with KMod => 0 | KPkg => 1 | KClass => 2 | KFun => 3 end)%Z.
Definition state_code (s : pstate) : sexp := A (match s with Unprocessed => 0 | Processing => 1 | Processed => 2 end)%Z.

Definition obj_sexp (o : obj) : sexp :=
  L [of_path (o_path o); of_path (o_id o); kind_code (o_kind o);
     L (map (fun e => L [of_N (fst e); of_path (snd e)]) (o_amap o));
     of_option of_path (o_baseobj o); state_code (o_state o)].

Definition value_sexp (v : value) : sexp :=
  match v with
  | VMod m => L [A 0%Z; of_path m; L []]
  | VObj m q => L [A 1%Z; of_path m; of_path q]
  end.

Definition spec_fuel : nat := N.to_nat 150.

Definition run (s : sexp) : sexp :=
  match to_Z (nth_s 0 s) with
  | 0%Z =>
    let P := map module_of_sexp (to_list (nth_s 1 s)) in
    let order := map to_path (to_list (nth_s 2 s)) in
    let st := final_state P order in
    let results :=
      map (fun q =>
             let m := to_path (nth_s 0 q) in
             let qual := to_path (nth_s 1 q) in
             let dotted := to_path (nth_s 2 q) in
             let spec := of_option value_sexp (ev P spec_fuel (REval m qual dotted)) in
             match by_id st (m ++ qual) with
             | Some ctx =>
               L [of_path (o_path ctx); of_path (expand_name st ctx dotted);
                  of_option (fun o => L [of_path (o_path o); of_path (o_id o); kind_code (o_kind o)])
                            (resolve_name st ctx dotted);
                  spec; of_bool (trail_ok st ctx true dotted);
                  (* third leg: the body of expandName TRANSLATED from the source, interpreted *)
                  match run_body st ctx (VStr dotted) (l2f st) (fun o n => find_member (length (objs st)) st o n)
                            (fun _ => []) code_expand_name (S (length dotted)) with
                  | RReturn (VStr q) => L [of_path q]
                  | _ => L []
                  end]
             | None => L [L []; L []; L []; spec; of_bool false; L []]
             end) (to_list (nth_s 3 s)) in
    L [of_bool (oof st); of_bool (anomaly st); L (map obj_sexp (objs st)); L results; of_bool (leak st); of_bool (all_closed st)]
  | 1%Z =>
    let mpath := to_path (nth_s 1 s) in
    let is_pkg := to_bool (nth_s 2 s) in
    let level := to_nat (nth_s 3 s) in
    let modname := to_path (nth_s 4 s) in
    L [of_option of_path (import_base mpath is_pkg level modname);
       of_option of_path (resolve_relative mpath is_pkg level modname)]
  | _ => bad_input
  end.
