(* Model/ExtractFields.v -- pydoctor/epydoc2stan.py : extract_fields(obj): the @ivar / @cvar / @var / @type fields of a
   class or module docstring create or annotate attributes of obj.  Definitions only.

   obj.contents is an insertion-ordered dict name -> object: an association list whose keys are pairwise different.
   A field body is identified by the position of the field in parsed_doc.fields.  `xa_kind` is the kind extract_fields
   ASSIGNED (None: it left the kind alone).  The tag list and field_name_to_kind come from Gen/TablesC09.v. *)
From Coq Require Import ZArith NArith List Bool Arith.
From PydoctorVerif Require Import Base.Sexp Model.FieldTypes Gen.TablesC09 Model.Fields.
Import ListNotations.

Record xattr := { xa_name : text; xa_doc : option nat; xa_type : option nat; xa_kind : option N; xa_created : bool }.

Definition is_extract_tag (tag : text) : bool := existsb (text_eqb tag) extract_tags.

Fixpoint kind_of_tag (tag : text) (l : list (text * N)) : option N :=
  match l with
  | [] => None
  | (k, v) :: l' => if text_eqb k tag then Some v else kind_of_tag tag l'
  end.

(* attrobj.parsed_type = field.body()   /   attrobj.parsed_docstring = field.body(); attrobj.kind = field_name_to_kind[tag] *)
Definition annotate (tag : text) (i : nat) (a : xattr) : xattr :=
  if text_eqb tag extract_type_tag
  then {| xa_name := xa_name a; xa_doc := xa_doc a; xa_type := Some i; xa_kind := xa_kind a; xa_created := xa_created a |}
  else {| xa_name := xa_name a; xa_doc := Some i; xa_type := xa_type a; xa_kind := kind_of_tag tag extract_kinds;
          xa_created := xa_created a |}.

(* obj.contents.get(arg), creating the Attribute when there is none *)
Fixpoint upsert (name : text) (f : xattr -> xattr) (attrs : list xattr) : list xattr :=
  match attrs with
  | [] => [f {| xa_name := name; xa_doc := None; xa_type := None; xa_kind := None; xa_created := true |}]
  | a :: attrs' => if text_eqb (xa_name a) name then f a :: attrs' else a :: upsert name f attrs'
  end.

Definition xstep (i : nat) (f : field) (st : list xattr * list nat) : list xattr * list nat :=
  let '(attrs, reps) := st in
  if is_extract_tag (f_tag f) then
    match f_arg f with
    | None => (attrs, reps ++ [i])                       (* obj.report("Missing field name in @tag"); continue *)
    | Some a => (upsert a (annotate (f_tag f) i) attrs, reps)
    end
  else st.

Fixpoint xrun (i : nat) (fs : list field) (st : list xattr * list nat) : list xattr * list nat :=
  match fs with
  | [] => st
  | f :: fs' => xrun (S i) fs' (xstep i f st)
  end.

Definition existing_attr (n : text) : xattr :=
  {| xa_name := n; xa_doc := None; xa_type := None; xa_kind := None; xa_created := false |}.

Definition extract_fields (contents : list text) (fs : list field) : list xattr * list nat :=
  xrun 0 fs (map existing_attr contents, []).

(* ---- wire: input ( contents fields )  fields as in Model/Fields.v;  output ( attrs reports )
   attr := ( name doc? type? kind? created ) *)
Definition run (x : sexp) : sexp :=
  let contents := map to_text (to_list (nth_s 0 x)) in
  let fs := map field_of_sexp (to_list (nth_s 1 x)) in
  let '(attrs, reps) := extract_fields contents fs in
  L [L (map (fun a => L [of_text (xa_name a); of_option of_nat (xa_doc a); of_option of_nat (xa_type a);
                         of_option of_N (xa_kind a); of_bool (xa_created a)]) attrs);
     L (map of_nat reps)].
