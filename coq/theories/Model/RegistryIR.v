(* Model/RegistryIR.v -- a small deep-embedded statement language, large enough for the bodies of
     pydoctor/model.py : System.addObject, System.handleDuplicate (with its local function readd), System._remove,
                         Documentable.reparent, Documentable._handle_reparenting_pre / _handle_reparenting_post,
   and its interpreter over the states of Model/Registry.v.  Gen/RegistryCode.v (written by
   harness/gen/gen_c02_code.py on every run, fail-closed) holds those bodies translated statement by statement from
   the CURRENT source; Proofs/RegistryIRProofs.v proves that interpreting them is the hand-written model
   (Registry.add_object, handle_duplicate, remove_tree, readd_tree, reparent), for all states and arguments.
   Definitions only.

   What is primitive (not translated) -- each a stated assumption about the library / the rest of pydoctor:
     d[k], d[k] = v, del d[k], k in d, d.get(k), d.setdefault(k, v), d.values() on System.allobjects, Documentable.contents
         and _localNameToFullName_map: Python's insertion-ordered dict (Registry.aget / aset / adel_strict; setdefault and
         `d[k] = v` on a missing key append);  list(d.values()) is a snapshot, and the loops over d.values() do not
         change that dict (true of the bodies: they only change allobjects);
     list.append on System.rootobjects;
     obj.fullName()                       Registry.fullpath (the walk up `parent`, fuelled by the ghost depth bound);
     s + ' ' + str(i)                     Registry.dup_key / dup_name on structured names;
     isinstance(x, _ModuleT), isinstance(x, CanContainImportsDocumentable)   the class tags of the store;
     obj.report(...)                      does not touch the registry and does not raise;
     `self.parentMod = ...`               not part of the model (dropped by the translator);
     truthiness of a Documentable is True (it defines neither __bool__ nor __len__);
     `for x in _iter_subtree(root): body` (only when the source defines the module-level generator _iter_subtree, whose
         body the translator pins to the explicit-stack pre-order walk `pending = [root]; while pending: ob = pending.pop();
         yield ob; pending.extend(reversed(list(ob.contents.values())))`): the objects of Registry.subtree, in that
         order, with the fuel of Registry.subtree; the loop body does not change any `contents`.
   Ghost instrumentation (no Python counterpart): an assignment to `.parent` doubles the recursion-fuel bound depthb
   exactly as Registry.reparent does; handleDuplicate flags the renamed object `osup` (done by hd_ir, outside the code).
   Failures: every Python exception, running out of fuel, and a type error of the language itself (`stuck`, e.g. `.name`
   of None) are the single outcome None, as in Model/Registry.v. *)
From Coq Require Import ZArith NArith List Bool.
From PydoctorVerif Require Import Base.Sexp Model.Registry.
Import ListNotations.
Local Open Scope N_scope.

Inductive value :=
| VNone
| VObj (o : id)
| VInt (i : N)
| VPath (p : path)          (* a full name *)
| VName (n : name)          (* one component *)
| VList (l : list id).      (* a list / view of objects *)
Definition var := N.

Inductive expr :=
| EVar (x : var)
| ENone
| EInt (i : N)
| EParent (e : expr)                   (* e.parent *)
| ENameOf (e : expr)                   (* e.name *)
| EFullName (e : expr)                 (* e.fullName() *)
| ESuffix (e i : expr)                 (* e + ' ' + str(i), e a full name or a name *)
| EAllGet (k : expr)                   (* self.allobjects[k] : KeyError when missing *)
| EAllGetOpt (k : expr)                (* self.allobjects.get(k) *)
| EContGetOpt (o k : expr)             (* o.contents.get(k) *)
| EContentsValues (e : expr).          (* e.contents.values() / list(e.contents.values()) *)

Inductive cond :=
| CTruthy (e : expr)                   (* `if e:` for an object or None *)
| CIsModule (e : expr)                 (* isinstance(e, _ModuleT) *)
| CIsCCI (e : expr)                    (* isinstance(e, CanContainImportsDocumentable) *)
| CIs (a b : expr)                     (* a is b, on objects / None *)
| CInAll (k : expr)                    (* k in self.allobjects *)
| CNot (c : cond)
| CAnd (a b : cond).

(* the functions that can be called *)
Inductive fname :=
| FRemove                              (* System._remove(o) *)
| FReadd                               (* the local function readd(o) of handleDuplicate *)
| FPre | FPost                         (* Documentable._handle_reparenting_pre / _post *)
| FHandleDuplicate                     (* System.handleDuplicate(obj) *)
| FReport.                             (* obj.report(...) *)

Inductive stmt :=
| SSkip
| SSeq (a b : stmt)
| SAssign (x : var) (e : expr)
| SSetDefault (x : var) (k v : expr)   (* x = self.allobjects.setdefault(k, v) *)
| SAllSet (k v : expr)                 (* self.allobjects[k] = v *)
| SAllDel (k : expr)                   (* del self.allobjects[k] *)
| SContSet (o k v : expr)              (* o.contents[k] = v *)
| SContDel (o k : expr)                (* del o.contents[k] *)
| SRootsAppend (e : expr)              (* self.rootobjects.append(e) *)
| SSetName (o e : expr)                (* o.name = e *)
| SSetParent (o e : expr)              (* o.parent = e *)
| SAliasSet (o k v : expr)             (* o._localNameToFullName_map[k] = v *)
| SIncr (x : var)                      (* x += 1 *)
| SAssert (c : cond)
| SRaise                               (* raise <some exception> *)
| SIf (c : cond) (th el : stmt)
| SWhile (c : cond) (body : stmt)
| SFor (x : var) (e : expr) (body : stmt)
| SForSubtree (x : var) (root : expr) (body : stmt)   (* for x in _iter_subtree(root): body *)
| SCall (f : fname) (args : list expr).

Definition env := var -> value.
Definition env0 : env := fun _ => VNone.
Definition eset (e : env) (x : var) (v : value) : env := fun y => if N.eqb x y then v else e y.

(* ---- expressions ---- *)
Fixpoint eval (s : state) (e : env) (x : expr) : option value :=
  match x with
  | EVar v => Some (e v)
  | ENone => Some VNone
  | EInt i => Some (VInt i)
  | EParent a => match eval s e a with
                 | Some (VObj o) => Some (match oparent (store s o) with None => VNone | Some q => VObj q end)
                 | _ => None
                 end
  | ENameOf a => match eval s e a with Some (VObj o) => Some (VName (oname (store s o))) | _ => None end
  | EFullName a => match eval s e a with
                   | Some (VObj o) => match fullpath s o with Some p => Some (VPath p) | None => None end
                   | _ => None
                   end
  | ESuffix a i => match eval s e a, eval s e i with
                   | Some (VPath p), Some (VInt j) => Some (VPath (dup_key p j))
                   | Some (VName n), Some (VInt j) => Some (VName (dup_name n j))
                   | _, _ => None
                   end
  | EAllGet k => match eval s e k with
                 | Some (VPath p) => match rget p (allobj s) with Some o => Some (VObj o) | None => None end
                 | _ => None
                 end
  | EAllGetOpt k => match eval s e k with
                    | Some (VPath p) => Some (match rget p (allobj s) with Some o => VObj o | None => VNone end)
                    | _ => None
                    end
  | EContGetOpt a k => match eval s e a, eval s e k with
                       | Some (VObj o), Some (VName n) =>
                         Some (match cget n (ocont (store s o)) with Some c => VObj c | None => VNone end)
                       | _, _ => None
                       end
  | EContentsValues a => match eval s e a with
                         | Some (VObj o) => Some (VList (map snd (ocont (store s o))))
                         | _ => None
                         end
  end.

Definition same_ref (a b : value) : option bool :=
  match a, b with
  | VNone, VNone => Some true
  | VObj x, VObj y => Some (N.eqb x y)
  | VNone, VObj _ | VObj _, VNone => Some false
  | _, _ => None
  end.

Fixpoint evalc (s : state) (e : env) (c : cond) : option bool :=
  match c with
  | CTruthy a => match eval s e a with Some VNone => Some false | Some (VObj _) => Some true | _ => None end
  | CIsModule a => match eval s e a with
                   | Some (VObj o) => Some (is_module (ocl (store s o)))
                   | Some VNone => Some false
                   | _ => None
                   end
  | CIsCCI a => match eval s e a with
                | Some (VObj o) => Some (can_contain_imports (ocl (store s o)))
                | Some VNone => Some false
                | _ => None
                end
  | CIs a b => match eval s e a, eval s e b with Some x, Some y => same_ref x y | _, _ => None end
  | CInAll k => match eval s e k with Some (VPath p) => Some (key_in p (allobj s)) | _ => None end
  | CNot a => option_map negb (evalc s e a)
  | CAnd a b => match evalc s e a with
                | Some true => evalc s e b
                | Some false => Some false
                | None => None
                end
  end.

Fixpoint evals (s : state) (e : env) (l : list expr) : option (list value) :=
  match l with
  | [] => Some []
  | x :: t => match eval s e x, evals s e t with Some v, Some vs => Some (v :: vs) | _, _ => None end
  end.

(* ---- state updates (the same terms as in Model/Registry.v wherever the model has the statement) ---- *)
Definition st_set_store (s : state) (st : id -> obj) : state := set_store s st.
Definition st_cont (s : state) (o : id) (c : list (name * id)) : state :=
  set_store s (upd (store s) o (with_cont (store s o) c)).
Definition st_roots_append (s : state) (o : id) : state :=
  mkState (store s) (next s) (allobj s) (roots s ++ [o]) (depthb s) (unproc s).
Definition st_name (s : state) (o : id) (n : name) : state :=
  set_store s (upd (store s) o (with_name (store s o) n)).
(* ghost: the tree may get deeper, the fuel bound is doubled (as in Registry.reparent) *)
Definition st_parent (s : state) (o : id) (p : option id) : state :=
  mkState (upd (store s) o (with_parent (store s o) p)) (next s) (allobj s) (roots s) (S (depthb s + depthb s)) (unproc s).
Definition st_alias (s : state) (o : id) (k : name) (v : path) : state :=
  set_store s (upd (store s) o (with_alias (store s o) (aset name_eqb k v (oalias (store s o))))).

(* ---- loops, generic in the meaning of the condition and of the body ---- *)
Definition step_t := env -> state -> option (env * state).
(* while <test>: <body>, with an explicit iteration bound *)
Fixpoint while_loop (test : env -> state -> option bool) (body : step_t) (n : nat) (e : env) (s : state)
  : option (env * state) :=
  match n with
  | O => None
  | S n' => match test e s with
            | Some true => match body e s with Some (e1, s1) => while_loop test body n' e1 s1 | None => None end
            | Some false => Some (e, s)
            | None => None
            end
  end.
(* for x in <os>: <body> *)
Fixpoint for_loop (body : step_t) (x : var) (os : list id) (e : env) (s : state) : option (env * state) :=
  match os with
  | [] => Some (e, s)
  | o :: t => match body (eset e x (VObj o)) s with Some (e1, s1) => for_loop body x t e1 s1 | None => None end
  end.

Section Exec.
  Variable call_sem : fname -> list value -> state -> option state.

  Fixpoint exec (c : stmt) (e : env) (s : state) : option (env * state) :=
    match c with
    | SSkip => Some (e, s)
    | SSeq a b => match exec a e s with Some (e1, s1) => exec b e1 s1 | None => None end
    | SAssign x v => match eval s e v with Some w => Some (eset e x w, s) | None => None end
    | SSetDefault x k v =>
      match eval s e k, eval s e v with
      | Some (VPath p), Some (VObj o) =>
        match rget p (allobj s) with
        | Some first => Some (eset e x (VObj first), s)
        | None => Some (eset e x (VObj o), set_allobj s (rset p o (allobj s)))
        end
      | _, _ => None
      end
    | SAllSet k v =>
      match eval s e k, eval s e v with
      | Some (VPath p), Some (VObj o) => Some (e, set_allobj s (rset p o (allobj s)))
      | _, _ => None
      end
    | SAllDel k =>
      match eval s e k with
      | Some (VPath p) => match adel_strict path_eqb p (allobj s) with
                          | Some m => Some (e, set_allobj s m)
                          | None => None
                          end
      | _ => None
      end
    | SContSet a k v =>
      match eval s e a, eval s e k, eval s e v with
      | Some (VObj o), Some (VName n), Some (VObj c) => Some (e, st_cont s o (cset n c (ocont (store s o))))
      | _, _, _ => None
      end
    | SContDel a k =>
      match eval s e a, eval s e k with
      | Some (VObj o), Some (VName n) =>
        match adel_strict name_eqb n (ocont (store s o)) with
        | Some c => Some (e, st_cont s o c)
        | None => None
        end
      | _, _ => None
      end
    | SRootsAppend a => match eval s e a with Some (VObj o) => Some (e, st_roots_append s o) | _ => None end
    | SSetName a v =>
      match eval s e a, eval s e v with
      | Some (VObj o), Some (VName n) => Some (e, st_name s o n)
      | _, _ => None
      end
    | SSetParent a v =>
      match eval s e a, eval s e v with
      | Some (VObj o), Some (VObj p) => Some (e, st_parent s o (Some p))
      | Some (VObj o), Some VNone => Some (e, st_parent s o None)
      | _, _ => None
      end
    | SAliasSet a k v =>
      match eval s e a, eval s e k, eval s e v with
      | Some (VObj o), Some (VName n), Some (VPath p) => Some (e, st_alias s o n p)
      | _, _, _ => None
      end
    | SIncr x => match e x with VInt i => Some (eset e x (VInt (N.succ i)), s) | _ => None end
    | SAssert b => match evalc s e b with Some true => Some (e, s) | _ => None end
    | SRaise => None
    | SIf b th el => match evalc s e b with
                     | Some true => exec th e s
                     | Some false => exec el e s
                     | None => None
                     end
    | SWhile b body =>
      (* bounded by the size of the registry at loop entry, as Registry.find_free *)
      while_loop (fun e s => evalc s e b) (exec body) (S (length (allobj s))) e s
    | SFor x l body =>
      match eval s e l with
      | Some (VList os) => for_loop (exec body) x os e s
      | _ => None
      end
    | SForSubtree x r body =>
      match eval s e r with
      | Some (VObj o) => match subtree s o with
                         | Some T => for_loop (exec body) x T e s
                         | None => None
                         end
      | _ => None
      end
    | SCall f args =>
      match evals s e args with
      | Some vs => match call_sem f vs s with Some s1 => Some (e, s1) | None => None end
      | None => None
      end
    end.
End Exec.

(* ---- the translated functions ---- *)
Record fundef := { f_params : list var; f_body : stmt }.
Record code := {
  c_remove : fundef; c_readd : fundef; c_pre : fundef; c_post : fundef;       (* parameter: the object walked *)
  c_handleDuplicate : fundef;                                                  (* parameter: obj *)
  c_addObject : fundef;                                                        (* parameter: obj *)
  c_reparent : fundef                                                          (* parameters: self, new_parent, new_name *)
}.

Fixpoint bind_params (ps : list var) (vs : list value) (e : env) : option env :=
  match ps, vs with
  | [], [] => Some e
  | p :: ps', v :: vs' => bind_params ps' vs' (eset e p v)
  | _, _ => None
  end.
Definition run_fun (call_sem : fname -> list value -> state -> option state) (f : fundef) (vs : list value) (s : state)
  : option state :=
  match bind_params (f_params f) vs env0 with
  | Some e => match exec call_sem (f_body f) e s with Some (_, s1) => Some s1 | None => None end
  | None => None
  end.

Section Interp.
  Variable C : code.

  Definition walker (f : fname) : option fundef :=
    match f with
    | FRemove => Some (c_remove C) | FReadd => Some (c_readd C)
    | FPre => Some (c_pre C) | FPost => Some (c_post C)
    | _ => None
    end.

  (* the four recursive walks call each other / themselves with one unit of fuel less *)
  Fixpoint walker_ir (fuel : nat) (f : fname) (vs : list value) (s : state) : option state :=
    match fuel with
    | O => None
    | S n => match walker f with
             | Some d => run_fun (walker_ir n) d vs s
             | None => None
             end
    end.

  (* calls made by handleDuplicate and reparent: a walk starts with the fuel Registry.subtree has *)
  Definition call1 (f : fname) (vs : list value) (s : state) : option state :=
    match f with
    | FReport => Some s
    | FHandleDuplicate => None
    | _ => walker_ir (S (depthb s)) f vs s
    end.

  Definition mark_sup (s : state) (o : id) : state := set_store s (upd (store s) o (with_sup (store s o) true)).

  (* handleDuplicate(obj); ghost: the object found under obj's full name is flagged as superseded *)
  Definition hd_ir (s : state) (ob : id) : option state :=
    match fullpath s ob with
    | None => None
    | Some fn =>
      match rget fn (allobj s) with
      | None => None
      | Some prev => option_map (fun s1 => mark_sup s1 prev) (run_fun call1 (c_handleDuplicate C) [VObj ob] s)
      end
    end.

  Definition call2 (f : fname) (vs : list value) (s : state) : option state :=
    match f, vs with
    | FHandleDuplicate, [VObj ob] => hd_ir s ob
    | FHandleDuplicate, _ => None
    | _, _ => call1 f vs s
    end.

  Definition add_object_ir (s : state) (ob : id) : option state := run_fun call2 (c_addObject C) [VObj ob] s.
  Definition reparent_ir (s : state) (o np : id) (nn : name) : option state :=
    run_fun call1 (c_reparent C) [VObj o; VObj np; VName nn] s.
End Interp.
