(* Model/EpyLines.v -- pydoctor/epydoc/markup/epytext.py : _tokenize, _tokenize_para, _tokenize_listart,
   _tokenize_doctest, _tokenize_literal : which tokens are produced for the lines of a (cleaned) docstring and
   which `startline` each token gets.  Definitions only.

   A line is seen through what the tokenizer asks of it (an ORACLE on single lines -- the regexes and string
   tests are not modelled; the worker computes these features with the real _BULLET_RE / _HEADING_CHARS):
       l_len       len(line)
       l_indent    len(line) - len(line.lstrip())              (blank line  <=>  l_indent = l_len)
       l_bullet    _BULLET_RE.match(line, indent) is not None  (list bullet or @field:)
       l_doctest   line[indent:indent+4] == '>>> '
       l_dcolon    line.rstrip()[-2:] == '::'
       l_at        line[indent] == '@'
       l_striplen  len(line.strip())
       l_underline line.strip() is one of the _HEADING_CHARS repeated (>= 1 times)
       l_rest      (bullet lines) the text after the bullet is not blank
       l_rest_dcolon (bullet lines) the text after the bullet, stripped, ends with '::'

   Tokens come out grouped in BLOCKS (start, stop, tags): the lines [start, stop) one call of a _tokenize_* function
   consumed and the tags of the Token objects it appended, each with startline = start.
   Errors are (kind, line) pairs: TokenizationError(estr, linenum). *)
From Coq Require Import ZArith NArith List Bool Arith.
From PydoctorVerif Require Import Base.Sexp.
Import ListNotations.

Record eline := {
  l_len : nat; l_indent : nat; l_bullet : bool; l_doctest : bool; l_dcolon : bool; l_at : bool;
  l_striplen : nat; l_underline : bool; l_rest : bool; l_rest_dcolon : bool
}.

Definition blank (l : eline) : bool := (l_indent l =? l_len l)%nat.

Inductive tag := PARA | HEADING | BULLET | LBLOCK | DTBLOCK.
Record block := { b_start : nat; b_stop : nat; b_tags : list tag }.

Inductive ekind := MalformedField | HeadingTypo | DoctestIndent.
Definition eerr := (ekind * nat)%type.

(* ---- _tokenize_para: the `while linenum < len(lines)` loop; returns the number of further lines of the paragraph
        and the offsets (relative to start+1) of "Possible mal-formatted field item." errors
        while linenum < len(lines):
            if doublecolon: break
            if line.rstrip()[-2:] == '::': doublecolon = True
            if indent == len(line): break
            if indent != para_indent: break
            if _BULLET_RE.match(line, indent): break
            if line[indent] == '@': errors.append(TokenizationError(estr, linenum, is_fatal=False))
            linenum += 1                                                                                   *)
Fixpoint para_scan (para_indent : nat) (doublecolon : bool) (rest : list eline) : nat * list nat :=
  match rest with
  | [] => (0, [])
  | l :: r =>
    if doublecolon then (0, [])
    else if blank l then (0, [])
    else if negb (l_indent l =? para_indent) then (0, [])
    else if l_bullet l then (0, [])
    else let '(n, es) := para_scan para_indent (l_dcolon l) r in
         (S n, (if l_at l then [0] else []) ++ map S es)
  end.

(* ---- _tokenize_listart: returns the number of further lines and para_indent
        linenum = start + 1; para_indent = None; doublecolon = lines[start].rstrip()[-2:] == '::'
        while linenum < len(lines):
            if doublecolon: break
            if line.rstrip()[-2:] == '::': doublecolon = True
            if indent == len(line): break
            if indent < bullet_indent: break
            if _BULLET_RE.match(line, indent): break
            if para_indent is None: para_indent = indent
            if indent != para_indent: break
            linenum += 1                                                                                   *)
Fixpoint listart_scan (bullet_indent : nat) (para_indent : option nat) (doublecolon : bool) (rest : list eline)
  : nat * option nat :=
  match rest with
  | [] => (0, para_indent)
  | l :: r =>
    if doublecolon then (0, para_indent)
    else if blank l then (0, para_indent)
    else if (l_indent l <? bullet_indent)%nat then (0, para_indent)
    else if l_bullet l then (0, para_indent)
    else
      let pi := match para_indent with None => l_indent l | Some p => p end in
      if negb (l_indent l =? pi)%nat then (0, Some pi)
      else let '(n, pi') := listart_scan bullet_indent (Some pi) (l_dcolon l) r in (S n, pi')
  end.

(* ---- _tokenize_doctest: lines until a blank one; a dedent past block_indent is an error on that line *)
Fixpoint doctest_scan (block_indent : nat) (rest : list eline) : nat * list nat :=
  match rest with
  | [] => (0, [])
  | l :: r =>
    if blank l then (0, [])
    else let '(n, es) := doctest_scan block_indent r in
         (S n, (if (l_indent l <? block_indent)%nat then [0] else []) ++ map S es)
  end.

(* ---- _tokenize_literal(lines, start, block_indent): linenum = start + 1; a non-blank line with
        indent <= block_indent ends the block.  Returns linenum - start (>= 1 even past the end of `lines`). *)
Fixpoint literal_scan (block_indent : nat) (rest : list eline) : nat :=
  match rest with
  | [] => 0
  | l :: r =>
    if negb (blank l) && (l_indent l <=? block_indent)%nat then 0
    else S (literal_scan block_indent r)
  end.
Definition literal_len (block_indent : nat) (rest : list eline) : nat :=
  match rest with
  | [] => 1                          (* start = len(lines): the loop does not run, linenum = start + 1 *)
  | _ :: r => S (literal_scan block_indent r)
  end.

Definition last_dcolon (first : eline) (more : list eline) : bool := l_dcolon (last more first).

Definition absdiff (a b : nat) : nat := (a - b) + (b - a).

(* one iteration of the loop of _tokenize on a non-empty rest; returns the blocks, the errors and the number of
   lines consumed (>= 1) *)
Definition step (pos : nat) (l : eline) (r : list eline) : list block * list eerr * nat :=
  if blank l then ([], [], 1)
  else if l_doctest l then
    let '(n, es) := doctest_scan (l_indent l) r in
    ([{| b_start := pos; b_stop := pos + S n; b_tags := [DTBLOCK] |}],
     map (fun e => (DoctestIndent, pos + S e)) es, S n)
  else
    (* (blocks, errors, consumed, Some lit_indent when tokens[-1] is a PARA whose contents end with '::') *)
    let '(bs, errs, used, lit) :=
      if l_bullet l then
        let '(n, pi) := listart_scan (l_indent l) None (l_dcolon l) r in
        let has_para := l_rest l || negb (n =? 0)%nat in
        let ends_dc := if (n =? 0)%nat then l_rest_dcolon l else last_dcolon l (firstn n r) in
        let indent := match pi with Some p => if has_para then p else l_indent l | None => l_indent l end in
        ([{| b_start := pos; b_stop := pos + S n; b_tags := BULLET :: (if has_para then [PARA] else []) |}],
         [], S n, if has_para && ends_dc then Some indent else None)
      else
        let e0 := if l_at l then [(MalformedField, pos)] else [] in
        let '(n, es) := para_scan (l_indent l) false r in
        let es' := map (fun e => (MalformedField, pos + S e)) es in
        let looks_like_heading :=
          match r with
          | l1 :: _ => negb (n =? 0)%nat && l_underline l1 && (absdiff (l_striplen l) (l_striplen l1) <=? 5)%nat
          | [] => false
          end in
        let same_len := match r with l1 :: _ => (l_striplen l =? l_striplen l1)%nat | [] => false end in
        if looks_like_heading && same_len then
          ([{| b_start := pos; b_stop := pos + 2; b_tags := [HEADING] |}], e0 ++ es', 2, None)
        else
          ([{| b_start := pos; b_stop := pos + S n; b_tags := [PARA] |}],
           e0 ++ es' ++ (if looks_like_heading then [(HeadingTypo, pos)] else []), S n,
           if last_dcolon l (firstn n r) then Some (l_indent l) else None)
    in
    match lit with
    | Some indent =>
      let m := literal_len indent (skipn used (l :: r)) in
      (bs ++ [{| b_start := pos + used; b_stop := pos + used + m; b_tags := [LBLOCK] |}], errs, used + m)
    | None => (bs, errs, used)
    end.

(* the `while linenum < len(lines)` loop of _tokenize; None = out of fuel (excluded by the theorems) *)
Fixpoint tokenize_from (fuel : nat) (pos : nat) (rest : list eline) : option (list block * list eerr) :=
  match rest with
  | [] => Some ([], [])
  | l :: r =>
    match fuel with
    | O => None
    | S f =>
      let '(bs, es, used) := step pos l r in
      match tokenize_from f (pos + used) (skipn used rest) with
      | Some (bs', es') => Some (bs ++ bs', es ++ es')
      | None => None
      end
    end
  end.

Definition tokenize (lines : list eline) : option (list block * list eerr) :=
  tokenize_from (length lines) 0 lines.

(* the Token objects: (tag, startline) *)
Definition tokens_of (bs : list block) : list (tag * nat) :=
  flat_map (fun b => map (fun t => (t, b_start b)) (b_tags b)) bs.

(* ---- wire ------------------------------------------------------------------------------------------
   input  := ( line ... )    line := ( len indent bullet doctest dcolon at striplen underline rest rest_dcolon )
   output := ( ok ( (tag start) ... ) ( (kind line) ... ) )   tag: 0 para 1 heading 2 bullet 3 literalblock 4 doctestblock
                                                               kind: 0 malformed field 1 heading typo 2 doctest indent *)
Definition eline_of_sexp (s : sexp) : eline :=
  {| l_len := to_nat (nth_s 0 s); l_indent := to_nat (nth_s 1 s); l_bullet := to_bool (nth_s 2 s);
     l_doctest := to_bool (nth_s 3 s); l_dcolon := to_bool (nth_s 4 s); l_at := to_bool (nth_s 5 s);
     l_striplen := to_nat (nth_s 6 s); l_underline := to_bool (nth_s 7 s); l_rest := to_bool (nth_s 8 s);
     l_rest_dcolon := to_bool (nth_s 9 s) |}.

Definition tag_code (t : tag) : Z :=
  match t with PARA => 0 | HEADING => 1 | BULLET => 2 | LBLOCK => 3 | DTBLOCK => 4 end.
Definition ekind_code (k : ekind) : Z :=
  match k with MalformedField => 0 | HeadingTypo => 1 | DoctestIndent => 2 end.

Definition run (s : sexp) : sexp :=
  match tokenize (map eline_of_sexp (to_list s)) with
  | None => L [A 0; L []; L []]
  | Some (bs, es) =>
    L [A 1; L (map (fun p => L [A (tag_code (fst p)); of_nat (snd p)]) (tokens_of bs));
       L (map (fun e => L [A (ekind_code (fst e)); of_nat (snd e)]) es)]
  end.
