(* Model/RstFields.v -- pydoctor/epydoc/markup/restructuredtext.py : _SplitFieldsTranslator (visit_field, _add_field,
   handle_consolidated_field, handle_consolidated_bullet_list, handle_consolidated_definition_list) over an abstract
   docutils tree.  Definitions only.

   A node is a Text or an element with a tag name and children.  `raise ValueError` is the value Err; the loops are the
   two passes of the code (validate every item, then convert every item).  str.lower() is an ORACLE (`lower`).
   CONSOLIDATED_FIELDS / CONSOLIDATED_DEFLIST_FIELDS come from Gen/TablesC09.v.
   Assumed: field bodies contain no nested field list (docutils would hand those to visit_field as well). *)
From Coq Require Import ZArith NArith List Bool Arith.
From PydoctorVerif Require Import Base.Sexp Model.FieldTypes Gen.TablesC09 Model.Segments.
Import ListNotations.

Inductive rtag :=
| RPara | RTitleRef | RBulletList | RListItem | RDefList | RDefItem | RTerm | RClassifier | RDefinition | ROther (code : N).

Inductive rnode := RText (t : text) | RElem (tag : rtag) (kids : list rnode).

Definition rtag_eqb (a b : rtag) : bool :=
  match a, b with
  | RPara, RPara | RTitleRef, RTitleRef | RBulletList, RBulletList | RListItem, RListItem | RDefList, RDefList
  | RDefItem, RDefItem | RTerm, RTerm | RClassifier, RClassifier | RDefinition, RDefinition => true
  | ROther x, ROther y => N.eqb x y
  | _, _ => false
  end.

Definition tag_of (n : rnode) : option rtag := match n with RElem t _ => Some t | RText _ => None end.
Definition kids_of (n : rnode) : list rnode := match n with RElem _ k => k | RText _ => [] end.
Definition is_tag (t : rtag) (n : rnode) : bool := match n with RElem t' _ => rtag_eqb t t' | RText _ => false end.

(* astext() of an inline (TextElement) node: the texts of its leaves, concatenated *)
Fixpoint astext (n : rnode) : text :=
  match n with
  | RText t => t
  | RElem _ kids => flat_map astext kids
  end.

(* str.split(None, 1) *)
Definition lstrip_ws (t : text) : text := dropwhile is_py_space t.
Fixpoint take_word (t : text) : text * text :=
  match t with
  | [] => ([], [])
  | c :: t' => if is_py_space c then ([], t) else let '(w, r) := take_word t' in (c :: w, r)
  end.
Definition split_name (name : text) : text * option text :=
  let '(w, r) := take_word (lstrip_ws name) in
  match lstrip_ws r with
  | [] => (w, None)
  | rest => (w, Some rest)
  end.

Record ofield := { of_tag : text; of_arg : option text; of_body : list rnode; of_newfield : bool }.

(* ValueError messages: 1 not a single list | 2 bad child n | 3 item contains a definition list | 4 item not well formed
   | 5 not a bulleted list or definition list | 6 not a bulleted list | 7 bad definition list child | 8 deflist item not well formed *)
Inductive res (X : Type) := Good (x : X) | Err (code : N) (n : nat).
Arguments Good {X} x.
Arguments Err {X} code n.

Definition mem_text (t : text) (l : list text) : bool := existsb (text_eqb t) l.

(* ---- handle_consolidated_bullet_list ------------------------------------------------------------------------------ *)
(* first loop: every item is  list_item(paragraph(title_reference, ...), ...)  *)
Fixpoint check_bullet (n : nat) (items : list rnode) : option (N * nat) :=
  match items with
  | [] => None
  | item :: rest =>
    let n := S n in
    match item with
    | RElem RListItem (first :: _) =>
      match first with
      | RElem RPara pk =>
        match pk with
        | [] => Some (4%N, n)
        | p0 :: _ => if is_tag RTitleRef p0 then check_bullet n rest else Some (4%N, n)
        end
      | RElem RDefList _ => Some (3%N, n)
      | _ => Some (4%N, n)
      end
    | _ => Some (2%N, n)
    end
  end.

(* Remove the separating ":", if present:
     if text[:1] in ':-': Text(text[1:].lstrip())  elif text[:2] in (' -', ' :'): Text(text[2:].lstrip()) *)
Definition trim_separator (t : text) : text :=
  match t with
  | [] => []                                            (* '' in ':-' is True: text[1:].lstrip() of '' *)
  | c :: t1 =>
    if N.eqb c 58 || N.eqb c 45 then lstrip_ws t1
    else match t1 with
         | d :: t2 => if N.eqb c 32 && (N.eqb d 45 || N.eqb d 58) then lstrip_ws t2 else t
         | [] => t
         end
  end.

Definition strip_first_text (pk : list rnode) : list rnode :=
  match pk with
  | RText t :: r => RText (trim_separator t) :: r
  | _ => pk
  end.

(* second loop *)
Definition bullet_field (tagname : text) (item : rnode) : ofield :=
  match item with
  | RElem RListItem (RElem RPara (p0 :: prest) :: irest) =>
    {| of_tag := tagname; of_arg := Some (astext p0);
       of_body := RElem RPara (strip_first_text prest) :: irest; of_newfield := false |}
  | _ => {| of_tag := tagname; of_arg := None; of_body := []; of_newfield := false |}      (* excluded by the first loop *)
  end.

Definition consolidated_bullet (items : list rnode) (tagname : text) : res (list ofield) :=
  match check_bullet 0 items with
  | Some (c, n) => Err c n
  | None => Good (map (bullet_field tagname) items)
  end.

(* ---- handle_consolidated_definition_list -------------------------------------------------------------------------- *)
Fixpoint last_node (l : list rnode) : option rnode :=
  match l with [] => None | [x] => Some x | _ :: r => last_node r end.

Definition term_ok (term : rnode) : bool :=
  match kids_of term with
  | t0 :: trest =>
    (is_tag RTitleRef t0 || match t0 with RText _ => true | _ => false end) &&
    forallb (fun c => match astext c with [] => true | _ => false end) trest
  | [] => false                                         (* item[0][0] raises IndexError: not produced by docutils *)
  end.

Fixpoint check_deflist (n : nat) (items : list rnode) : option (N * nat) :=
  match items with
  | [] => None
  | item :: rest =>
    let n := S n in
    match item with
    | RElem RDefItem kids =>
      if Nat.ltb (length kids) 2 then Some (7%N, n)
      else match last_node kids with
           | Some l =>
             if negb (is_tag RDefinition l) then Some (7%N, n)
             else if Nat.ltb 3 (length kids) then Some (8%N, n)
             else match kids with
                  | [_; RText _; _] => Some (8%N, n)   (* never built by docutils (the classifier is an element); Python
                                                          would iterate over the characters of the str *)
                  | term :: _ => if term_ok term then check_deflist n rest else Some (8%N, n)
                  | [] => Some (7%N, n)
                  end
           | None => Some (7%N, n)
           end
    | _ => Some (7%N, n)
    end
  end.

Definition deflist_fields (tagname : text) (item : rnode) : list ofield :=
  match item with
  | RElem RDefItem (term :: more) =>
    let arg := match kids_of term with t0 :: _ => astext t0 | [] => [] end in
    let body := match last_node more with Some d => kids_of d | None => [] end in
    {| of_tag := tagname; of_arg := Some arg; of_body := body; of_newfield := false |} ::
    match more with
    | [cls; _] => [{| of_tag := extract_type_tag; of_arg := Some arg; of_body := kids_of cls; of_newfield := false |}]
    | _ => []
    end
  | _ => []
  end.

Definition consolidated_deflist (items : list rnode) (tagname : text) : res (list ofield) :=
  match check_deflist 0 items with
  | Some (c, n) => Err c n
  | None => Good (flat_map (deflist_fields tagname) items)
  end.

(* ---- handle_consolidated_field -------------------------------------------------------------------------------------- *)
Definition consolidated_field (body : list rnode) (entry : text) : res (list ofield) :=
  match body with
  | [b] =>
    if is_tag RBulletList b then consolidated_bullet (kids_of b) entry
    else if is_tag RDefList b && mem_text entry consolidated_deflist_fields then consolidated_deflist (kids_of b) entry
    else if mem_text entry consolidated_deflist_fields then Err 5 0
    else Err 6 0
  | _ => Err 1 0
  end.

Fixpoint assoc_text' (t : text) (l : list (text * text)) : option text :=
  match l with
  | [] => None
  | (k, v) :: l' => if text_eqb k t then Some v else assoc_text' t l'
  end.

(* ---- visit_field ------------------------------------------------------------------------------------------------------ *)
Record rstate := { rs_fields : list ofield; rs_errors : list (N * nat); rs_newfields : list text }.

Section Split.
  Variable lower : text -> text.

  Definition plain_field (tagname : text) (arg : option text) (body : list rnode) : ofield :=
    {| of_tag := tagname; of_arg := arg; of_body := body; of_newfield := false |}.

  Definition visit_field (name : text) (body : list rnode) (st : rstate) : rstate :=
    let '(tagname, arg) := split_name name in
    match arg with
    | Some _ => {| rs_fields := rs_fields st ++ [plain_field tagname arg body]; rs_errors := rs_errors st;
                   rs_newfields := rs_newfields st |}
    | None =>
      match assoc_text' (lower tagname) consolidated_fields with
      | Some entry =>
        match consolidated_field body entry with
        | Good fs => {| rs_fields := rs_fields st ++ fs; rs_errors := rs_errors st; rs_newfields := rs_newfields st |}
        | Err c n =>
          let seen := mem_text (lower tagname) (rs_newfields st) in
          {| rs_fields := rs_fields st ++
                          (if seen then [] else [{| of_tag := [110; 101; 119; 102; 105; 101; 108; 100]%N;
                                                    of_arg := Some (lower tagname); of_body := [RText tagname];
                                                    of_newfield := true |}]) ++
                          [plain_field tagname None body];
             rs_errors := rs_errors st ++ [(c, n)];
             rs_newfields := if seen then rs_newfields st else rs_newfields st ++ [lower tagname] |}
        end
      | None => {| rs_fields := rs_fields st ++ [plain_field tagname None body]; rs_errors := rs_errors st;
                   rs_newfields := rs_newfields st |}
      end
    end.

  Definition split_fields (fields : list (text * list rnode)) : rstate :=
    fold_left (fun st f => visit_field (fst f) (snd f) st) fields
              {| rs_fields := []; rs_errors := []; rs_newfields := [] |}.
End Split.

(* ---- wire --------------------------------------------------------------------------------------------------------------
   node := ( 0 text ) | ( 1 tagcode kids... )   tagcode: 0 paragraph 1 title_reference 2 bullet_list 3 list_item
           4 definition_list 5 definition_list_item 6 term 7 classifier 8 definition, >= 10 anything else
   input  := ( fields lowers )   fields := list of ( name (body nodes) ) ; lowers := list of ( text lowered )
   output := ( fields errors )   field := ( tag arg? (body nodes) newfield ) ; error := ( code n ) *)
Definition rtag_of_Z (z : Z) : rtag :=
  match z with
  | 0%Z => RPara | 1%Z => RTitleRef | 2%Z => RBulletList | 3%Z => RListItem | 4%Z => RDefList | 5%Z => RDefItem
  | 6%Z => RTerm | 7%Z => RClassifier | 8%Z => RDefinition | _ => ROther (Z.to_N z)
  end.
Definition rtag_code (t : rtag) : Z :=
  match t with
  | RPara => 0 | RTitleRef => 1 | RBulletList => 2 | RListItem => 3 | RDefList => 4 | RDefItem => 5 | RTerm => 6
  | RClassifier => 7 | RDefinition => 8 | ROther c => Z.of_N c
  end%Z.

Fixpoint rnode_of_sexp (fuel : nat) (s : sexp) : rnode :=
  match fuel with
  | O => RText []
  | S f =>
    match s with
    | L (A 0%Z :: t :: _) => RText (to_text t)
    | L (A _ :: A c :: kids) => RElem (rtag_of_Z c) (map (rnode_of_sexp f) kids)
    | _ => RText []
    end
  end.
Fixpoint sdepth (s : sexp) : nat := match s with A _ => 1 | L l => S (fold_right (fun x a => Nat.max (sdepth x) a) 0 l) end.
Fixpoint rnode_sexp (n : rnode) : sexp :=
  match n with
  | RText t => L [A 0; of_text t]
  | RElem tag kids => L (A 1 :: A (rtag_code tag) :: map rnode_sexp kids)
  end.

Definition run (x : sexp) : sexp :=
  let fields := map (fun f => (to_text (nth_s 0 f), map (fun n => rnode_of_sexp (sdepth n) n) (to_list (nth_s 1 f))))
                    (to_list (nth_s 0 x)) in
  let lowers := map (fun e => (to_text (nth_s 0 e), to_text (nth_s 1 e))) (to_list (nth_s 1 x)) in
  let lower := fun t => match assoc_text' t lowers with Some l => l | None => t end in
  let st := split_fields lower fields in
  L [L (map (fun f => L [of_text (of_tag f); of_option of_text (of_arg f); L (map rnode_sexp (of_body f)); of_bool (of_newfield f)])
            (rs_fields st));
     L (map (fun e => L [of_N (fst e); of_nat (snd e)]) (rs_errors st))].
