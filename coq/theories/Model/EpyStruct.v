(* Model/EpyStruct.v -- pydoctor/epydoc/markup/epytext.py : the block structurer `parse` over the token list that
   _tokenize returns: _pop_completed_blocks, _add_para, _add_section, _add_list and the "fields last" check.
   Definitions only.

   _tokenize (regular expressions over lines) is an ORACLE: the model takes its tokens.  The two parallel stacks
   (DOM elements / indentations) are one stack of open frames; an element is attached to its parent when its frame is
   popped (Python attaches it when it is created; nothing is appended to the parent while the frame is open, so the
   order of children is the same).  The bottom frame is the 'epytext' document; below it Python keeps (None, -1).
   Comparing an int with None (`indent < indent_stack[-2]` when that is None) raises TypeError: outcome Crash. *)
From Coq Require Import ZArith NArith List Bool Arith.
From PydoctorVerif Require Import Base.Sexp Model.FieldTypes.
Import ListNotations.

Inductive tktag := TkPara | TkHeading | TkLBlock | TkDTBlock | TkBullet.
Inductive bkind := BkUlist | BkOlist | BkField.       (* contents[-1] : '-' | '.' | ':' *)

Record token := {
  tk_tag : tktag; tk_indent : option nat; tk_level : nat; tk_bullet : bkind;
  tk_comps : list text;       (* olist: contents.split('.')[:-1] *)
  tk_last : Z;                (* olist: int(of the last component) *)
  tk_startline : nat }.

Inductive stag := SDoc | SSection | SUlist | SOlist | SFieldlist | SLi | SField.
Inductive leafkind := LPara | LHeading | LLiteral | LDoctest.

(* tok: the index of the token the node was made from (li / field: its bullet) *)
Inductive snode :=
| SLeaf (k : leafkind) (tok : nat)
| SNode (tag : stag) (tok : option nat) (comps : list text) (last : Z) (kids : list snode).

Record frame := { fr_tag : stag; fr_indent : option nat; fr_tok : option nat; fr_comps : list text; fr_last : Z;
                  fr_kids : list snode }.

Definition stag_eqb (a b : stag) : bool :=
  match a, b with
  | SDoc, SDoc | SSection, SSection | SUlist, SUlist | SOlist, SOlist | SFieldlist, SFieldlist | SLi, SLi | SField, SField => true
  | _, _ => false
  end.

Definition node_of (f : frame) : snode := SNode (fr_tag f) (fr_tok f) (fr_comps f) (fr_last f) (fr_kids f).

Definition add_kid (n : snode) (f : frame) : frame :=
  {| fr_tag := fr_tag f; fr_indent := fr_indent f; fr_tok := fr_tok f; fr_comps := fr_comps f; fr_last := fr_last f;
     fr_kids := fr_kids f ++ [n] |}.
Definition set_indent (i : option nat) (f : frame) : frame :=
  {| fr_tag := fr_tag f; fr_indent := i; fr_tok := fr_tok f; fr_comps := fr_comps f; fr_last := fr_last f; fr_kids := fr_kids f |}.

(* stack.pop(): the popped element is (already, in Python) a child of the new top *)
Definition pop1 (stack : list frame) : list frame :=
  match stack with
  | f :: p :: rest => add_kid (node_of f) p :: rest
  | _ => stack
  end.
Fixpoint popn (n : nat) (stack : list frame) : list frame :=
  match n with O => stack | S n' => popn n' (pop1 stack) end.

(* errors: 1 Improper paragraph indentation | 2 Improper heading indentation | 3 Headings must occur at the top level
   | 4 Wrong underline character | 5 Lists must be indented | 6 Fields must be at the top level | 7 Fields must be final *)
Definition serr := (N * nat)%type.       (* code, startline *)

Inductive outcome := Done (stack : list frame) (errs : list serr) (seen_field : bool) | Crash (code : N).

Definition opt_nat_eqb (a b : option nat) : bool :=
  match a, b with Some x, Some y => Nat.eqb x y | None, None => true | _, _ => false end.

Definition is_list_tag (t : stag) : bool := match t with SUlist | SOlist | SFieldlist => true | _ => false end.

(* _pop_completed_blocks: None = TypeError *)
Fixpoint pop_completed (fuel : nat) (tk : token) (stack : list frame) : option (list frame) :=
  match tk_indent tk with
  | None => Some stack
  | Some indent =>
    match fuel with
    | O => Some stack
    | S fuel' =>
      match stack with
      | top :: nxt :: rest =>            (* len(stack) > 2: a frame above the document *)
        let is_bullet := match tk_tag tk with TkBullet => true | _ => false end in
        let is_field := match tk_bullet tk with BkField => true | _ => false end in
        let decide : option bool :=
          match fr_indent top with
          | Some ti => if Nat.ltb indent ti then Some true
                       else Some ((is_bullet && opt_nat_eqb (Some indent) (fr_indent nxt) &&
                                   (stag_eqb (fr_tag top) SLi || stag_eqb (fr_tag top) SField))
                                  || ((stag_eqb (fr_tag top) SUlist || stag_eqb (fr_tag top) SOlist) &&
                                      (negb is_bullet || is_field)))
          | None =>
            match fr_indent nxt with
            | None => None                                          (* indent < None *)
            | Some ni => if Nat.ltb indent ni then Some true
                         else Some ((is_bullet && Nat.eqb indent ni &&
                                     (stag_eqb (fr_tag top) SLi || stag_eqb (fr_tag top) SField))
                                    || ((stag_eqb (fr_tag top) SUlist || stag_eqb (fr_tag top) SOlist) &&
                                        (negb is_bullet || is_field)))
            end
          end in
        match decide with
        | None => None
        | Some true => pop_completed fuel' tk (pop1 stack)
        | Some false => Some stack
        end
      | _ => Some stack
      end
    end
  end.

Definition add_para (i : nat) (tk : token) (stack : list frame) (errs : list serr) : list frame * list serr :=
  match stack with
  | top :: rest =>
    let top := match fr_indent top with None => set_indent (tk_indent tk) top | Some _ => top end in
    if opt_nat_eqb (tk_indent tk) (fr_indent top) then (add_kid (SLeaf LPara i) top :: rest, errs)
    else (top :: rest, errs ++ [(1%N, tk_startline tk)])
  | [] => (stack, errs)
  end.

Definition above_doc (stack : list frame) : list frame := removelast stack.

Definition add_section (i : nat) (tk : token) (stack : list frame) (errs : list serr) : list frame * list serr :=
  match stack with
  | top :: rest =>
    let '(top, errs) :=
      match fr_indent top with
      | None => (set_indent (tk_indent tk) top, errs)
      | Some _ => if opt_nat_eqb (fr_indent top) (tk_indent tk) then (top, errs) else (top, errs ++ [(2%N, tk_startline tk)])
      end in
    let stack := top :: rest in
    let errs := if forallb (fun f => stag_eqb (fr_tag f) SSection) (above_doc stack) then errs
                else errs ++ [(3%N, tk_startline tk)] in
    let index := tk_level tk + 2 in
    let len := S (length stack) in                    (* the dummy None below the document counts *)
    let errs := if Nat.ltb len index then errs ++ [(4%N, tk_startline tk)] else errs in
    let stack := popn (len - index) stack in          (* stack[index:] = [] *)
    ({| fr_tag := SSection; fr_indent := None; fr_tok := None; fr_comps := []; fr_last := 0%Z;
        fr_kids := [SLeaf LHeading i] |} :: stack, errs)
  | [] => (stack, errs)
  end.

Definition list_tag (b : bkind) : stag := match b with BkUlist => SUlist | BkOlist => SOlist | BkField => SFieldlist end.

Fixpoint texts_eqb (a b : list text) : bool :=
  match a, b with
  | [], [] => true
  | x :: a', y :: b' => text_eqb x y && texts_eqb a' b'
  | _, _ => false
  end.

(* the bullet of the last item of the list on top of the stack *)
Definition last_item_bullet (f : frame) : option (list text * Z) :=
  match rev (fr_kids f) with
  | SNode _ _ comps last _ :: _ => Some (comps, last)
  | _ => None
  end.

Definition add_list (i : nat) (tk : token) (stack : list frame) (errs : list serr) : option (list frame * list serr) :=
  match stack with
  | top :: rest =>
    let lt := list_tag (tk_bullet tk) in
    let newlist : option bool :=
      if negb (stag_eqb (fr_tag top) lt) then Some true
      else match tk_bullet tk with
           | BkOlist =>
             match last_item_bullet top with
             | Some (ocomps, olast) =>
               Some (negb (texts_eqb (removelast (tk_comps tk)) (removelast ocomps)) || negb (Z.eqb (tk_last tk) (olast + 1)))
             | None => None                         (* stack[-1].children[-1] : IndexError *)
             end
           | _ => Some false
           end in
    match newlist with
    | None => None
    | Some false =>
      Some ({| fr_tag := match tk_bullet tk with BkField => SField | _ => SLi end; fr_indent := None; fr_tok := Some i;
               fr_comps := tk_comps tk; fr_last := tk_last tk; fr_kids := [] |} :: stack, errs)
    | Some true =>
      let errs := if stag_eqb (fr_tag top) SFieldlist then errs ++ [(5%N, tk_startline tk)] else errs in
      let stack := if is_list_tag (fr_tag top) then pop1 stack else stack in
      match stack with
      | top' :: _ =>
        let errs :=
          match tk_bullet tk, fr_indent top' with
          | BkField, _ => errs
          | _, Some ti => if opt_nat_eqb (tk_indent tk) (Some ti) &&
                             (negb (Nat.eqb (tk_startline tk) 1) || negb (opt_nat_eqb (tk_indent tk) (Some 0)))
                          then errs ++ [(5%N, tk_startline tk)] else errs
          | _, None => errs
          end in
        let '(stack, errs) :=
          match tk_bullet tk with
          | BkField =>
            (popn (length stack - 1) stack,
             if forallb (fun f => stag_eqb (fr_tag f) SSection) (above_doc stack) then errs else errs ++ [(6%N, tk_startline tk)])
          | _ => (stack, errs)
          end in
        let lst := {| fr_tag := lt; fr_indent := tk_indent tk; fr_tok := None; fr_comps := []; fr_last := 0%Z; fr_kids := [] |} in
        let li := {| fr_tag := match tk_bullet tk with BkField => SField | _ => SLi end; fr_indent := None; fr_tok := Some i;
                     fr_comps := tk_comps tk; fr_last := tk_last tk; fr_kids := [] |} in
        Some (li :: lst :: stack, errs)
      | [] => None
      end
    end
  | [] => None
  end.

Definition step (i : nat) (tk : token) (o : outcome) : outcome :=
  match o with
  | Crash c => Crash c
  | Done stack errs seen =>
    match pop_completed (length stack) tk stack with
    | None => Crash 1
    | Some stack =>
      let r : option (list frame * list serr) :=
        match tk_tag tk with
        | TkPara => Some (add_para i tk stack errs)
        | TkHeading => Some (add_section i tk stack errs)
        | TkLBlock => match stack with top :: rest => Some (add_kid (SLeaf LLiteral i) top :: rest, errs) | [] => None end
        | TkDTBlock => match stack with top :: rest => Some (add_kid (SLeaf LDoctest i) top :: rest, errs) | [] => None end
        | TkBullet => add_list i tk stack errs
        end in
      match r with
      | None => Crash 2
      | Some (stack, errs) =>
        match stack with
        | top :: _ =>
          if stag_eqb (fr_tag top) SField then Done stack errs true
          else if seen && Nat.leb (length stack) 2           (* len(stack) <= 3 with the dummy *)
               then Done stack (errs ++ [(7%N, tk_startline tk)]) seen
               else Done stack errs seen
        | [] => Crash 2
        end
      end
    end
  end.

Fixpoint steps (i : nat) (tks : list token) (o : outcome) : outcome :=
  match tks with
  | [] => o
  | tk :: tks' => steps (S i) tks' (step i tk o)
  end.

Definition doc_frame : frame := {| fr_tag := SDoc; fr_indent := None; fr_tok := None; fr_comps := []; fr_last := 0%Z; fr_kids := [] |}.

Definition parse (tks : list token) : outcome := steps 0 tks (Done [doc_frame] [] false).

(* the document once every open frame is closed *)
Definition final_tree (stack : list frame) : option snode :=
  match popn (length stack - 1) stack with
  | [d] => Some (node_of d)
  | _ => None
  end.

(* the tokens of a tree, in document order *)
Fixpoint tree_tokens (n : snode) : list nat :=
  match n with
  | SLeaf _ t => [t]
  | SNode _ tok _ _ kids => (match tok with Some t => [t] | None => [] end) ++ flat_map tree_tokens kids
  end.

(* ---- wire ------------------------------------------------------------------------------------------------------------
   token := ( tag indent? level bullet comps last startline )  tag: 0 para 1 heading 2 literalblock 3 doctestblock 4 bullet
            bullet: 0 '-' 1 '.' 2 ':'
   output := ( status tree errors )  status 0 ok / 1 crash;  tree := ( 0 kind tok ) | ( 1 tag kids... )
            tag: 0 epytext 1 section 2 ulist 3 olist 4 fieldlist 5 li 6 field; kind: 0 para 1 heading 2 literalblock 3 doctestblock *)
Definition token_of_sexp (x : sexp) : token :=
  {| tk_tag := match to_Z (nth_s 0 x) with 0%Z => TkPara | 1%Z => TkHeading | 2%Z => TkLBlock | 3%Z => TkDTBlock | _ => TkBullet end;
     tk_indent := to_option to_nat (nth_s 1 x); tk_level := to_nat (nth_s 2 x);
     tk_bullet := match to_Z (nth_s 3 x) with 0%Z => BkUlist | 1%Z => BkOlist | _ => BkField end;
     tk_comps := map to_text (to_list (nth_s 4 x)); tk_last := to_Z (nth_s 5 x); tk_startline := to_nat (nth_s 6 x) |}.

Definition stag_code (t : stag) : Z :=
  match t with SDoc => 0 | SSection => 1 | SUlist => 2 | SOlist => 3 | SFieldlist => 4 | SLi => 5 | SField => 6 end%Z.
Definition leaf_code (k : leafkind) : Z := match k with LPara => 0 | LHeading => 1 | LLiteral => 2 | LDoctest => 3 end%Z.

Fixpoint snode_sexp (n : snode) : sexp :=
  match n with
  | SLeaf k t => L [A 0; A (leaf_code k); of_nat t]
  | SNode tag tok _ _ kids => L (A 1 :: A (stag_code tag) :: of_option of_nat tok :: map snode_sexp kids)
  end.

Definition run (x : sexp) : sexp :=
  let tks := map token_of_sexp (to_list x) in
  match parse tks with
  | Crash c => L [A 1; L []; L [of_N c]]
  | Done stack errs _ =>
    match final_tree stack with
    | Some t => L [A 0; snode_sexp t; L (map (fun e => L [of_N (fst e); of_nat (snd e)]) errs)]
    | None => L [A 1; L []; L [A 9]]
    end
  end.
