(* Model/PrivacyIR.v -- a small deep-embedded imperative language, large enough for the body of
   pydoctor/model.py : System.privacyClass (cache lookup, kind test, default rule, the two rule loops -- also when they
   live in a helper function that privacyClass calls --, cache store), and its interpreter.
   Gen/PrivacyCode.v (written by harness/gen/gen_c13_privacy.py on every run, fail-closed) holds that body translated
   statement by statement from the CURRENT source; Proofs/PrivacyIRProofs.v proves that interpreting it is the
   hand-written Model/Privacy.v : system_privacyClass, for every rule list, cache and object.  Definitions only.

   Primitives (stated assumptions about what the Python expressions mean; the real function is exercised against the
   model by the correspondence check):
     ob.fullName()  ob.name  ob.kind            inputs (the record `obj` of Model/Privacy.v)
     self.options.privacy                       the rule list, in command-line order
     self._privacyClassCache.get(k) / [k] = v   the association list `cache` of Model/Privacy.v
     qnmatch.qnmatch(a, b)                      Model.QnMatch.qnmatch (may raise)
     s.startswith(c) / s.endswith(c), ==, is None, is not None, and / or / not, PrivacyClass.X,
     the conditional expression `a if t else b`
   A `for a, b in reversed(rules)` loop is structural recursion over the reversed list: no fuel. *)
From Coq Require Import NArith List Bool.
From PydoctorVerif Require Import Base.Sexp Spec.ReFrag Spec.PrivacySpec Model.QnMatch Model.Privacy.
Import ListNotations.
Local Open Scope N_scope.

Definition pvar := N.

Inductive pval : Type :=
| PLevel (p : priv)
| PStr (s : text)
| PBool (b : bool)
| PNone
| PObj                       (* some object that is not None (a DocumentableKind) *)
| PRules (l : list rule).

Inductive pexpr : Type :=
| XLevel (p : priv)          (* PrivacyClass.HIDDEN / PRIVATE / PUBLIC / VISIBLE *)
| XBool (b : bool)
| XNone
| XVar (x : pvar)
| XFullName                  (* ob.fullName() *)
| XName                      (* ob.name *)
| XKind                      (* ob.kind *)
| XRules                     (* self.options.privacy *)
| XCacheGet (k : pexpr)      (* self._privacyClassCache.get(k) *)
| XIsNone (a : pexpr)
| XIsNotNone (a : pexpr)
| XNot (a : pexpr)
| XAnd (a b : pexpr)
| XOr (a b : pexpr)
| XEq (a b : pexpr)          (* == on strs *)
| XStartsWith (a : pexpr) (c : text)
| XEndsWith (a : pexpr) (c : text)
| XQnMatch (a b : pexpr)     (* qnmatch.qnmatch(a, b) *)
| XIf (t a b : pexpr).       (* a if t else b : t is evaluated first, then exactly one of a, b *)

Inductive pstmt : Type :=
| PSkip
| PSeq (a b : pstmt)
| PAssign (x : pvar) (e : pexpr)
| PIf (c : pexpr) (th el : pstmt)
| PForRev (x1 x2 : pvar) (rules : pexpr) (body orelse : pstmt)   (* for x1, x2 in reversed(rules): body  else: orelse *)
| PBreak
| PReturn (e : pexpr)
| PCacheSet (k v : pexpr)                                         (* self._privacyClassCache[k] = v *)
| PAssignCall (x : pvar) (params : list pvar) (body : pstmt) (args : list pexpr).
                                                                 (* x = f(args) for a translated module-level function f *)

Definition penv := pvar -> option pval.
Definition penv0 : penv := fun _ => None.
Definition pset (e : penv) (x : pvar) (v : pval) : penv := fun y => if N.eqb x y then Some v else e y.

Definition pstuck {X} : outcome X := Err Unsupported.
Definition p_str (v : pval) : outcome text := match v with PStr s => Ok s | _ => pstuck end.
Definition p_bool (v : pval) : outcome bool := match v with PBool b => Ok b | _ => pstuck end.

Section Interp.
  Variable opts : list rule.
  Variable o : obj.

  Fixpoint peval (c : cache) (e : penv) (x : pexpr) : outcome pval :=
    match x with
    | XLevel p => Ok (PLevel p)
    | XBool b => Ok (PBool b)
    | XNone => Ok PNone
    | XVar v => match e v with Some w => Ok w | None => pstuck end
    | XFullName => Ok (PStr (o_full o))
    | XName => Ok (PStr (o_name o))
    | XKind => Ok (if o_has_kind o then PObj else PNone)
    | XRules => Ok (PRules opts)
    | XCacheGet k =>
      bind (peval c e k) (fun v => bind (p_str v) (fun s =>
      Ok (match cache_get c s with Some p => PLevel p | None => PNone end)))
    | XIsNone a => bind (peval c e a) (fun v => Ok (PBool (match v with PNone => true | _ => false end)))
    | XIsNotNone a => bind (peval c e a) (fun v => Ok (PBool (match v with PNone => false | _ => true end)))
    | XNot a => bind (peval c e a) (fun v => bind (p_bool v) (fun b => Ok (PBool (negb b))))
    | XAnd a b =>
      bind (peval c e a) (fun v => bind (p_bool v) (fun x =>
      if x then bind (peval c e b) (fun w => bind (p_bool w) (fun y => Ok (PBool y))) else Ok (PBool false)))
    | XOr a b =>
      bind (peval c e a) (fun v => bind (p_bool v) (fun x =>
      if x then Ok (PBool true) else bind (peval c e b) (fun w => bind (p_bool w) (fun y => Ok (PBool y)))))
    | XEq a b =>
      bind (peval c e a) (fun v => bind (p_str v) (fun s =>
      bind (peval c e b) (fun w => bind (p_str w) (fun t => Ok (PBool (text_eqb s t))))))
    | XStartsWith a pre => bind (peval c e a) (fun v => bind (p_str v) (fun s => Ok (PBool (starts_with pre s))))
    | XEndsWith a suf => bind (peval c e a) (fun v => bind (p_str v) (fun s => Ok (PBool (ends_with suf s))))
    | XQnMatch a b =>
      bind (peval c e a) (fun v => bind (p_str v) (fun s =>
      bind (peval c e b) (fun w => bind (p_str w) (fun t =>
      bind (qnmatch s t) (fun r => Ok (PBool r))))))
    | XIf t a b =>
      bind (peval c e t) (fun v => bind (p_bool v) (fun x => if x then peval c e a else peval c e b))
    end.

  Inductive presult : Type :=
  | QNormal (e : penv) (c : cache)
  | QBreak (e : penv) (c : cache)
  | QReturn (v : pval) (c : cache)
  | QErr (x : err) (c : cache).

  (* for x1, x2 in l: body   else: orelse *)
  Fixpoint for_loop (body orelse : penv -> cache -> presult) (x1 x2 : pvar) (l : list rule) (e : penv) (c : cache) : presult :=
    match l with
    | [] => orelse e c
    | (p, m) :: r =>
      match body (pset (pset e x1 (PLevel p)) x2 (PStr m)) c with
      | QNormal e' c' => for_loop body orelse x1 x2 r e' c'
      | QBreak e' c' => QNormal e' c'                 (* leaves the loop, skips the else clause *)
      | res => res
      end
    end.

  Fixpoint pevals (c : cache) (e : penv) (l : list pexpr) : outcome (list pval) :=
    match l with
    | [] => Ok []
    | a :: r => bind (peval c e a) (fun v => bind (pevals c e r) (fun vs => Ok (v :: vs)))
    end.

  Fixpoint bind_params (e : penv) (ps : list pvar) (vs : list pval) : option penv :=
    match ps, vs with
    | [], [] => Some e
    | x :: ps', v :: vs' => bind_params (pset e x v) ps' vs'
    | _, _ => None
    end.

  Fixpoint pexec (s : pstmt) (e : penv) (c : cache) : presult :=
    match s with
    | PSkip => QNormal e c
    | PSeq a b =>
      match pexec a e c with
      | QNormal e' c' => pexec b e' c'
      | r => r
      end
    | PAssign x a =>
      match peval c e a with
      | Ok v => QNormal (pset e x v) c
      | Err z => QErr z c
      end
    | PIf t th el =>
      match bind (peval c e t) p_bool with
      | Ok true => pexec th e c
      | Ok false => pexec el e c
      | Err z => QErr z c
      end
    | PForRev x1 x2 rs body orelse =>
      match peval c e rs with
      | Ok (PRules l) => for_loop (pexec body) (pexec orelse) x1 x2 (rev l) e c
      | Ok _ => QErr Unsupported c
      | Err z => QErr z c
      end
    | PBreak => QBreak e c
    | PReturn a =>
      match peval c e a with
      | Ok v => QReturn v c
      | Err z => QErr z c
      end
    | PCacheSet k v =>
      match peval c e k, peval c e v with
      | Ok (PStr s), Ok (PLevel p) => QNormal e ((s, p) :: c)
      | Err z, _ => QErr z c
      | _, Err z => QErr z c
      | _, _ => QErr Unsupported c
      end
    | PAssignCall x params body args =>
      match pevals c e args with
      | Err z => QErr z c
      | Ok vs =>
        match bind_params penv0 params vs with
        | None => QErr Unsupported c
        | Some e0 =>
          match pexec body e0 c with
          | QReturn v c' => QNormal (pset e x v) c'
          | QErr z c' => QErr z c'
          | _ => QErr Unsupported c                  (* falls off the end (None), or break outside a loop *)
          end
        end
      end
    end.

  (* System.privacyClass(ob): result and the cache afterwards *)
  Definition run_privacyClass (body : pstmt) (c : cache) : outcome priv * cache :=
    match pexec body penv0 c with
    | QReturn (PLevel p) c' => (Ok p, c')
    | QErr x c' => (Err x, c')
    | QReturn _ c' => (Err Unsupported, c')
    | QNormal _ c' | QBreak _ c' => (Err Unsupported, c')
    end.
End Interp.
