(* Model/Names.v -- pydoctor's name binding and name resolution (C04).  Definitions only, no proofs.

   Mirrors, branch by branch:
     astbuilder.ModuleVistor.visit_Import / visit_ImportFrom (relative-level arithmetic) / _importNames /
       _importAll / _getCurrentModuleExports / _handleReExport / visit_ClassDef (base resolution) /
       _handleFunctionDef (registration only) / _handleAliasing,
     model.Documentable.expandName / resolveName / reparent, Module._localNameToFullName,
       Class._localNameToFullName / Class.find, System.objForFullName / getProcessedModule /
       processModule / process, compute_mro.init_finalbaseobjects (re-resolution of unresolved bases).

   State.  System.allobjects is a flat list of objects keyed by their CURRENT full name (a path);
   `contents` of an object = the registered objects one level below it (the registry invariant of C02;
   duplicates -- two definitions under one full name -- are outside C04's quantifier and set the
   `anomaly` flag instead of being modelled).  Every object carries its identity `o_id` = the full
   name it was created under (reparent changes o_path, never o_id), so that "the same object" can be
   compared with CPython's (__module__, __qualname__).
   Classes have at most one base (multiple inheritance / C3 is C05's subject); Class.find is then the
   walk along the base chain.
   Loops: statement lists by structural recursion; processModule <-> getProcessedModule recursion by
   fuel (out of fuel sets `oof`, which the correspondence check requires to stay false). *)
From Coq Require Import ZArith NArith List Bool.
From PydoctorVerif Require Import Base.Sexp Base.ImportSyntax.
Import ListNotations.

Inductive kind := KMod | KPkg | KClass | KFun.
Inductive pstate := Unprocessed | Processing | Processed.

Definition kind_eqb (a b : kind) : bool :=
  match a, b with KMod, KMod | KPkg, KPkg | KClass, KClass | KFun, KFun => true | _, _ => false end.

Record obj := {
  o_path : path;                        (* fullName() now *)
  o_id : path;                          (* fullName() at creation = identity *)
  o_kind : kind;
  o_amap : list (name * path);          (* _localNameToFullName_map (modules and classes) *)
  o_rawbase : option path;              (* rawbases[0][0] split at '.' *)
  o_initbase : option path;             (* _initialbases[0] *)
  o_baseobj : option path;              (* baseobjects[0], by identity; None = unresolved or no base *)
  o_state : pstate;                     (* ProcessingState of a module.  GHOST for a class: Processing while its body is
                                           being visited, Processed afterwards (no counterpart in pydoctor) *)
  o_mod : path                          (* GHOST: identity of the module whose source text contains the definition *)
}.

(* `leak` is GHOST (no counterpart in pydoctor, never read by the model's control flow): it records that some
   expansion performed DURING the run (right-hand side of an alias assignment, base-class expression, star import)
   was outside the guard under which expandName is proved sound -- i.e. that the run took one of the fallbacks of
   the _refuted theorems, or star-imported from a module that was not PROCESSED -- or that _handleReExport moved an
   object (after which names imported from the defining module go stale: C04_direct_import_resolves_refuted).  Theorems about whole runs carry
   the hypothesis leak = false; the correspondence check reports how many generated projects satisfy it. *)
Record state := { objs : list obj; oof : bool; anomaly : bool; leak : bool }.

Definition is_modkind (k : kind) : bool := match k with KMod | KPkg => true | _ => false end.

(* ---------------------------------------------------------------- registry *)
(* System.objForFullName *)
Definition obj_for (st : state) (q : path) : option obj :=
  find (fun o => path_eqb (o_path o) q) (objs st).

Definition by_id (st : state) (i : path) : option obj :=
  find (fun o => path_eqb (o_id o) i) (objs st).

Definition upd_obj (st : state) (i : path) (f : obj -> obj) : state :=
  {| objs := map (fun o => if path_eqb (o_id o) i then f o else o) (objs st);
     oof := oof st; anomaly := anomaly st; leak := leak st |}.

Definition add_obj (st : state) (o : obj) : state :=
  {| objs := objs st ++ [o]; oof := oof st; anomaly := anomaly st; leak := leak st |}.

Definition flag_anomaly (st : state) : state := {| objs := objs st; oof := oof st; anomaly := true; leak := leak st |}.
Definition flag_oof (st : state) : state := {| objs := objs st; oof := true; anomaly := anomaly st; leak := leak st |}.
Definition flag_leak (b : bool) (st : state) : state :=
  {| objs := objs st; oof := oof st; anomaly := anomaly st; leak := leak st || b |}.

Definition set_amap (n : name) (q : path) (o : obj) : obj :=
  {| o_path := o_path o; o_id := o_id o; o_kind := o_kind o; o_amap := set_assoc n q (o_amap o);
     o_rawbase := o_rawbase o; o_initbase := o_initbase o; o_baseobj := o_baseobj o; o_state := o_state o; o_mod := o_mod o |}.
Definition set_state (s : pstate) (o : obj) : obj :=
  {| o_path := o_path o; o_id := o_id o; o_kind := o_kind o; o_amap := o_amap o;
     o_rawbase := o_rawbase o; o_initbase := o_initbase o; o_baseobj := o_baseobj o; o_state := s; o_mod := o_mod o |}.
Definition set_path (p : path) (o : obj) : obj :=
  {| o_path := p; o_id := o_id o; o_kind := o_kind o; o_amap := o_amap o;
     o_rawbase := o_rawbase o; o_initbase := o_initbase o; o_baseobj := o_baseobj o; o_state := o_state o; o_mod := o_mod o |}.
Definition set_baseobj (b : option path) (o : obj) : obj :=
  {| o_path := o_path o; o_id := o_id o; o_kind := o_kind o; o_amap := o_amap o;
     o_rawbase := o_rawbase o; o_initbase := o_initbase o; o_baseobj := b; o_state := o_state o; o_mod := o_mod o |}.

(* `name in self.contents` / self.contents.get(name) *)
Definition child (st : state) (o : obj) (n : name) : option obj := obj_for st (o_path o ++ [n]).

(* obj.parent *)
Definition parent_path (q : path) : option path :=
  match removelast q with [] => None | r => Some r end.
Definition parent_of (st : state) (o : obj) : option obj :=
  match parent_path (o_path o) with None => None | Some r => obj_for st r end.

(* ---------------------------------------------------------------- name expansion *)
(* Module._localNameToFullName / Class._localNameToFullName ; fuel = nesting depth of the class *)
Fixpoint local_to_full (fuel : nat) (st : state) (o : obj) (n : name) : path :=
  match child st o n with
  | Some c => o_path c
  | None =>
    match assoc n (o_amap o) with
    | Some q => q
    | None =>
      match o_kind o with
      | KClass =>
        match fuel with
        | O => [n]
        | S f => match parent_of st o with
                 | Some p => local_to_full f st p n
                 | None => [n]
                 end
        end
      | _ => [n]
      end
    end
  end.

Definition l2f (st : state) (o : obj) (n : name) : path := local_to_full (length (o_path o)) st o n.

(* Class.find : own contents, then the base chain *)
Fixpoint find_member (fuel : nat) (st : state) (c : obj) (n : name) : option obj :=
  match child st c n with
  | Some m => Some m
  | None =>
    match fuel with
    | O => None
    | S f => match o_baseobj c with
             | Some b => match by_id st b with
                         | Some bo => find_member f st bo n
                         | None => None
                         end
             | None => None
             end
    end
  end.

Definition find_for (st : state) (o : obj) (n : name) : option obj :=
  match o_kind o with
  | KClass => find_member (length (objs st)) st o n
  | _ => None
  end.

(* Documentable.expandName: the loop `for i, p in enumerate(parts)`; [first] is (i == 0). *)
Fixpoint expand_from (st : state) (o : obj) (first : bool) (parts : list name) : path :=
  match parts with
  | [] => []
  | p :: rest =>
    let fn := l2f st o p in
    let notfound := path_eqb fn [p] && negb first in
    let fn1 :=
      if notfound then
        match find_for st o p with                       (* `if isinstance(obj, Class): inherited = obj.find(p)` *)
        | Some inh => o_path inh
        | None => fn
        end
      else fn in
    if notfound && path_eqb fn1 [p] then (o_path o ++ [p]) ++ rest      (* break *)
    else
      match rest with
      | [] => fn1
      | _ => match obj_for st fn1 with
             | None => fn1 ++ rest                                         (* break *)
             | Some nxt => expand_from st nxt false rest
             end
      end
  end.

Definition expand_name (st : state) (ctx : obj) (dotted : path) : path := expand_from st ctx true dotted.
Definition resolve_name (st : state) (ctx : obj) (dotted : path) : option obj :=
  obj_for st (expand_name st ctx dotted).

(* ---------------------------------------------------------------- the guard of the soundness theorem *)
Definition is_some {A} (o : option A) : bool := match o with Some _ => true | None => false end.
Definition is_processed (s : pstate) : bool := match s with Processed => true | _ => false end.

(* the object knows the name itself: `name in self.contents` or `name in self._localNameToFullName_map` *)
Definition own (st : state) (o : obj) (n : name) : bool :=
  is_some (child st o n) || is_some (assoc n (o_amap o)).

(* Class.find walks only through classes whose body has been visited completely and whose alias map does not know the
   name (Class.find looks at `contents` only: an alias `n = other` in an intermediate base class is skipped by
   pydoctor but wins in Python -- C04_find_skips_alias_refuted) *)
Fixpoint find_closed (fuel : nat) (st : state) (c : obj) (n : name) : bool :=
  match child st c n with
  | Some _ => true
  | None =>
    is_processed (o_state c) && negb (is_some (assoc n (o_amap c))) &&
    match fuel with
    | O => true
    | S f => match o_baseobj c with
             | Some b => match by_id st b with
                         | Some bo => find_closed f st bo n
                         | None => true
                         end
             | None => true
             end
    end
  end.

(* the part of expandName's walk that C04 vouches for: the first part is bound in the context itself, and no
   later part is found by falling back from a class to its enclosing scope (see the _refuted theorems) *)
Fixpoint trail_ok (st : state) (o : obj) (first : bool) (parts : list name) : bool :=
  match parts with
  | [] => true
  | p :: rest =>
    let fn := l2f st o p in
    let fm := find_for st o p in
    let here :=
      if first then own st o p
      else match o_kind o with
           | KClass => if own st o p then negb (path_eqb fn [p]) || negb (is_some fm)
                       else path_eqb fn [p] && (negb (is_some fm) || find_closed (length (objs st)) st o p)
           | _ => true
           end in
    let notfound := path_eqb fn [p] && negb first in
    let fn1 := if notfound then match fm with Some inh => o_path inh | None => fn end else fn in
    here &&
    (if notfound && path_eqb fn1 [p] then true
     else match rest with
          | [] => true
          | _ => match obj_for st fn1 with
                 | None => true
                 | Some nxt => trail_ok st nxt false rest
                 end
          end)
  end.

(* the namespace object in which the class -> parent -> ... chain of _localNameToFullName finds the name *)
Fixpoint landing (fuel : nat) (st : state) (o : obj) (n : name) : option obj :=
  if own st o n then Some o
  else match o_kind o with
       | KClass => match fuel with
                   | O => None
                   | S f => match parent_of st o with
                            | Some par => landing f st par n
                            | None => None
                            end
                   end
       | _ => None
       end.

(* ---------------------------------------------------------------- relative imports *)
(* visit_ImportFrom: `parent = ctx.parentMod; if package: level -= 1; for _ in range(level): parent = parent.parent` *)
Fixpoint walk_up (steps : nat) (p : option path) : option path :=
  match steps with
  | O => p
  | S s => match p with None => None | Some q => walk_up s (parent_path q) end
  end.

(* None = "relative import level too high" (the statement is then ignored) *)
Definition import_base (mpath : path) (is_pkg : bool) (level : nat) (modname : path) : option path :=
  match level with
  | O => Some modname
  | S l' =>
    match walk_up (if is_pkg then l' else level) (Some mpath) with
    | None => None
    | Some par => Some (par ++ modname)
    end
  end.

(* ---------------------------------------------------------------- reparent *)
Fixpoint strip_prefix (pre q : path) : option path :=
  match pre, q with
  | [], _ => Some q
  | x :: pre', y :: q' => if N.eqb x y then strip_prefix pre' q' else None
  | _ :: _, [] => None
  end.

(* Documentable.reparent(new_parent, new_name): the object and everything below it changes its key *)
Definition reparent (st : state) (ob : obj) (newpar : obj) (newname : name) : state :=
  let oldp := o_path ob in
  let newp := o_path newpar ++ [newname] in
  match parent_of st ob with
  | None => flag_anomaly st        (* assert isinstance(old_parent, CanContainImportsDocumentable) *)
  | Some oldpar =>
    let clash := match obj_for st newp with Some _ => true | None => false end in
    let oldname := last oldp 0%N in
    let moved := map (fun o => match strip_prefix oldp (o_path o) with
                               | Some rest => set_path (newp ++ rest) o
                               | None => o
                               end) (objs st) in
    let st1 := {| objs := moved; oof := oof st; anomaly := anomaly st || clash; leak := leak st |} in
    upd_obj st1 (o_id oldpar) (set_amap oldname newp)
  end.

(* ---------------------------------------------------------------- the visitor *)
Definition def_or {A} (o : option A) (d : A) : A := match o with Some x => x | None => d end.

Definition cur_path (st : state) (i : path) : path :=
  match by_id st i with Some o => o_path o | None => i end.

Section Exec.
  Variable P : project.
  (* System.getProcessedModule: processes the module if need be; returns the Module object (by identity) *)
  Variable gpm : state -> path -> state * option path.

  (* GHOST guards (see `leak`).  The body of the scope of [ctx] in the source text does not bind n: *)
  Definition py_unbound (ctx : obj) (n : name) : bool :=
    match strip_prefix (o_mod ctx) (o_id ctx) with
    | Some qual => match scope_body P (o_mod ctx) qual with
                   | Some body => negb (is_some (binder_of body n))
                   | None => false
                   end
    | None => false
    end.

  (* expandName(parts) in ctx stays inside the guard: the first part is known to ctx itself, or ctx is a class whose body
     does not bind it, no ENCLOSING CLASS knows it, and the module does; the rest of the walk is trail_ok *)
  Definition expand_ok (st : state) (ctx : obj) (parts : list name) : bool :=
    match parts with
    | [] => false
    | p :: _ =>
      match landing (length (o_path ctx)) st ctx p with
      | None => false
      | Some land => (own st ctx p || (is_modkind (o_kind land) && py_unbound ctx p)) && trail_ok st land true parts
      end
    end.

  (* _getCurrentModuleExports *)
  Definition exports_of (st : state) (cid : path) : list name :=
    match by_id st cid with
    | Some c => if is_modkind (o_kind c) then
                  match find_module P (o_id c) with
                  | Some m => def_or (m_all m) []
                  | None => []
                  end
                else []
    | None => []
    end.

  Definition all_of (modid : path) : option (list name) :=
    match find_module P modid with Some m => m_all m | None => None end.

  (* _handleReExport; returns (state, moved?) *)
  Definition handle_reexport (st : state) (cid : path) (exports : list name)
             (orig asn : name) (modid : path) : state * bool :=
    if mem_name asn exports then
      match by_id st modid with
      | None => (st, false)
      | Some mo =>
        let ob := match child st mo orig with
                  | Some c => Some c
                  | None => resolve_name st mo [orig]
                  end in
        match ob with
        | None => (st, false)                                   (* "cannot resolve re-exported name" *)
        | Some ob =>
          let in_all := match all_of modid with None => false | Some l => mem_name orig l end in
          if match parent_path (o_path ob) with None => true | Some _ => false end
          then (st, false)                                       (* `if ob.parent is None`: a root module is not moved *)
          else if in_all then (st, false)
          else match by_id st cid with
               | Some cur => (reparent (flag_leak true st) ob cur asn, true)   (* ghost: a re-export move fired *)
               | None => (st, false)
               end
        end
      end
    else (st, false).

  (* the `for al in names` loop of _importNames *)
  Fixpoint import_names_loop (st : state) (cid : path) (exports : list name) (modname : path)
           (modo : option path) (is_package : bool) (names : list (name * option name)) : state :=
    match names with
    | [] => st
    | (orig, asname) :: rest =>
      let asn := def_or asname orig in
      let st1 := if is_package then fst (gpm st (modname ++ [orig])) else st in
      let '(st2, moved) :=
        match modo with
        | Some modid => handle_reexport st1 cid exports orig asn modid
        | None => (st1, false)
        end in
      let st3 := if moved then st2 else upd_obj st2 cid (set_amap asn (modname ++ [orig])) in
      import_names_loop st3 cid exports modname modo is_package rest
    end.

  Definition import_names (st : state) (cid : path) (modname : path) (names : list (name * option name)) : state :=
    let '(st1, modo) := gpm st modname in
    let exports := exports_of st1 cid in
    let is_package := match modo with
                      | Some modid => match by_id st1 modid with
                                      | Some mo => kind_eqb (o_kind mo) KPkg
                                      | None => false
                                      end
                      | None => false
                      end in
    import_names_loop st1 cid exports modname modo is_package names.

  (* names of `import *` when the module has no __all__: contents keys then alias-map keys, public only *)
  Definition star_names (st : state) (mo : obj) : list name :=
    let kids := flat_map (fun o => match strip_prefix (o_path mo) (o_path o) with
                                   | Some [n] => [n]
                                   | _ => []
                                   end) (objs st) in
    filter (fun n => negb (is_private n)) (kids ++ map fst (o_amap mo)).

  Fixpoint import_all_loop (st : state) (cid : path) (exports : list name) (modid : path) (names : list name) : state :=
    match names with
    | [] => st
    | n :: rest =>
      let '(st1, moved) := handle_reexport st cid exports n n modid in
      let st2 := if moved then st1
                 else match by_id st1 modid with
                      | Some mo => upd_obj st1 cid (set_amap n (expand_name st1 mo [n]))
                      | None => st1
                      end in
      import_all_loop st2 cid exports modid rest
    end.

  Definition import_all (st : state) (cid : path) (modname : path) : state :=
    let '(st1, modo) := gpm st modname in
    match modo with
    | None => st1                                                (* import * from unknown module *)
    | Some modid =>
      match by_id st1 modid with
      | None => st1
      | Some mo =>
        let names := match all_of modid with Some l => l | None => star_names st1 mo end in
        import_all_loop (flag_leak (negb (is_processed (o_state mo))) st1) cid (exports_of st1 cid) modid names
      end
    end.

  (* visit_Import: the `for al in node.names` loop has one element here *)
  Definition visit_import (st : state) (cid : path) (target : path) (asname : option name) : state :=
    match asname with
    | None => match target with
              | [] => st
              | a :: _ => upd_obj st cid (set_amap a [a])
              end
    | Some c => upd_obj st cid (set_amap c target)
    end.

  (* identity of a new definition = identity of its lexical parent ++ [name] (CPython's __module__.__qualname__);
     its full name = CURRENT full name of the parent ++ [name] (they differ when the parent has been moved by a
     re-export while its body was still being visited) *)
  Definition new_obj (p i : path) (k : kind) (mid : path) : obj :=
    {| o_path := p; o_id := i; o_kind := k; o_amap := []; o_rawbase := None; o_initbase := None;
       o_baseobj := None; o_state := Processed; o_mod := mid |}.

  (* addObject: a second object under the same full name is outside the model (handleDuplicate) *)
  Definition register (st : state) (o : obj) : state :=
    match obj_for st (o_path o) with
    | Some _ => flag_anomaly st
    | None => add_obj st o
    end.

  (* mid = identity of the module being processed (ctx.parentMod / ctx.module), cid = builder.current *)
  Fixpoint exec_stmt (mid cid : path) (st : state) (s : stmt) {struct s} : state :=
    match s with
    | SImport target asname => visit_import st cid target asname
    | SFrom level modname names =>
      let is_pkg := match by_id st mid with Some m => kind_eqb (o_kind m) KPkg | None => false end in
      match import_base (cur_path st mid) is_pkg level modname with
      | None => st                                               (* relative import level too high *)
      | Some mn => import_names st cid mn names
      end
    | SStar level modname =>
      let is_pkg := match by_id st mid with Some m => kind_eqb (o_kind m) KPkg | None => false end in
      match import_base (cur_path st mid) is_pkg level modname with
      | None => st
      | Some mn => import_all st cid mn
      end
    | SClass n base body =>
      match by_id st cid with
      | None => st
      | Some par =>
        let expandbase := match base with Some b => Some (expand_name st par b) | None => None end in
        let baseobj := match expandbase with
                       | Some q => match obj_for st q with
                                   | Some bo => if kind_eqb (o_kind bo) KClass then Some (o_id bo) else None
                                   | None => None
                                   end
                       | None => None
                       end in
        let p := o_path par ++ [n] in
        let i := o_id par ++ [n] in
        let c := {| o_path := p; o_id := i; o_kind := KClass; o_amap := []; o_rawbase := base;
                    o_initbase := expandbase; o_baseobj := baseobj; o_state := Processing; o_mod := mid |} in
        let bad := match base with
                   | Some b => is_some baseobj && negb (expand_ok st par b)
                   | None => false
                   end in
        let st1 := register (flag_leak bad st) c in
        let st2 := fold_left (exec_stmt mid i) body st1 in
        upd_obj st2 i (set_state Processed)                     (* ghost: the class body has been visited *)
      end
    | SDef n =>
      match by_id st cid with
      | None => st
      | Some par => register st (new_obj (o_path par ++ [n]) (o_id par ++ [n]) KFun mid)
      end
    | SAlias target expr =>
      match by_id st cid with
      | None => st
      | Some ctx =>
        match child st ctx target with
        | Some _ => st                                           (* `if target in ctx.contents: return False` *)
        | None => upd_obj (flag_leak (negb (expand_ok st ctx expr)) st) cid (set_amap target (expand_name st ctx expr))
        end
      end
    end.
End Exec.

(* processModule / getProcessedModule *)
Fixpoint process_module (fuel : nat) (P : project) (st : state) (mid : path) : state :=
  match fuel with
  | O => flag_oof st
  | S f =>
    let gpm := fun (s : state) (q : path) =>
      match obj_for s q with
      | None => (s, None)
      | Some mo =>
        if is_modkind (o_kind mo) then
          match o_state mo with
          | Unprocessed => (process_module f P s (o_id mo), Some (o_id mo))
          | _ => (s, Some (o_id mo))
          end
        else (s, None)
      end in
    match find_module P mid with
    | None => st
    | Some m =>
      let st1 := upd_obj st mid (set_state Processing) in
      let st2 := fold_left (exec_stmt P gpm mid mid) (m_body m) st1 in
      upd_obj st2 mid (set_state Processed)
    end
  end.

(* System.process: `while unprocessed_modules: processModule(next(iter(unprocessed_modules)))` *)
Definition process_all (P : project) (order : list path) (st : state) : state :=
  fold_left (fun s mid =>
               match by_id s mid with
               | Some mo => match o_state mo with
                            | Unprocessed => process_module (S (length P)) P s mid
                            | _ => s
                            end
               | None => s
               end) order st.

(* defaultPostProcess -> compute_mro.init_finalbaseobjects: an unresolved base is resolved again *)
Definition final_base (st : state) (o : obj) : obj :=
  match o_kind o, o_rawbase o, o_baseobj o with
  | KClass, Some raw, None =>
    match parent_of st o with
    | Some par =>
      match resolve_name st par raw with
      | Some bo => if kind_eqb (o_kind bo) KClass then set_baseobj (Some (o_id bo)) o else o
      | None => o
      end
    | None => o
    end
  | _, _, _ => o
  end.

(* ghost: the re-resolution of this class's base was outside the guard *)
Definition final_base_bad (P : project) (st : state) (o : obj) : bool :=
  match o_kind o, o_rawbase o, o_baseobj o with
  | KClass, Some raw, None =>
    match parent_of st o with
    | Some par => is_some (o_baseobj (final_base st o)) && negb (expand_ok P st par raw)
    | None => false
    end
  | _, _, _ => false
  end.

Definition finalize_bases (P : project) (st : state) : state :=
  {| objs := map (final_base st) (objs st);
     oof := oof st; anomaly := anomaly st;
     leak := leak st || existsb (final_base_bad P st) (objs st) |}.

(* System.addPackage / addModuleFromPath: every module is registered before anything is processed *)
Definition init_state (P : project) : state :=
  {| objs := map (fun m => {| o_path := m_path m; o_id := m_path m;
                              o_kind := if m_pkg m then KPkg else KMod; o_amap := [];
                              o_rawbase := None; o_initbase := None; o_baseobj := None;
                              o_state := Unprocessed; o_mod := m_path m |}) P;
     oof := false; anomaly := false; leak := false |}.

Definition final_state (P : project) (order : list path) : state :=
  finalize_bases P (process_all P order (init_state P)).

(* every module has been processed and every class body visited (no fuel exhaustion, every module in the order) *)
Definition all_closed (st : state) : bool := forallb (fun o => is_processed (o_state o)) (objs st).

(* ctx.resolveName(dotted) in the final state, ctx given by its current full name *)
Definition resolve_in (st : state) (ctx dotted : path) : option obj :=
  match obj_for st ctx with
  | Some c => resolve_name st c dotted
  | None => None
  end.
