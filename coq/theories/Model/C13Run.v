(* Model/C13Run.v -- the wire entry point of the C13 models: Model.Privacy.run, plus the interpretation of the
   code translated from the CURRENT pydoctor/qnmatch.py (Gen/QnMatchCode.v) as a further leg of the correspondence.
     11 pat             run_translate translate_code pat          -> outcome text   (= op 0 by C13_code_translate_is_model)
     12 rules objects   ob.privacyClass for each object in turn, System.privacyClass being the interpretation of
                        Gen/PrivacyCode.v (one cache)                 -> list of outcome level
                                                                       (= op 5 by C13_code_privacyClass_is_model) *)
From Coq Require Import ZArith NArith List Bool.
From PydoctorVerif Require Import Base.Sexp Spec.ReFrag Spec.PrivacySpec Model.QnMatch Model.QnMatchIR Model.Privacy
  Model.PrivacyIR Gen.QnMatchCode Gen.PrivacyCode.
Import ListNotations.

(* Documentable/Module.privacyClass on top of the translated System.privacyClass *)
Fixpoint run_code_queries (opts : list rule) (c : cache) (qs : list obj) : list (outcome priv) :=
  match qs with
  | [] => []
  | o :: r =>
    let '(x, c') := if o_is_module o && text_eqb (o_name o) main_name then (Ok PRIVATE, c)
                    else run_privacyClass opts o privacy_code c in
    x :: run_code_queries opts c' r
  end.

Definition run (s : sexp) : sexp :=
  match to_Z (nth_s 0 s) with
  | 11%Z => of_outcome of_text (run_translate translate_code (to_text (nth_s 1 s)))
  | 12%Z => L (map (of_outcome of_priv)
                 (run_code_queries (map rule_of_sexp (to_list (nth_s 1 s))) [] (map obj_of_sexp (to_list (nth_s 2 s)))))
  | _ => run_base s
  end.
