(* Model/Fields.v -- pydoctor/epydoc2stan.py : FieldHandler (every handle_* method, handle, resolve_types,
   format) as format_docstring() drives it:

       fh = FieldHandler(obj)
       if isinstance(obj, model.Function): fh.set_param_types_from_annotations(obj.annotations)
       for field in obj.parsed_docstring.fields: fh.handle(Field.from_epydoc(field, source))
       if isinstance(obj, model.Function): fh.resolve_types()
       ret(fh.format())

   Definitions only (no proofs).  A field body is opaque: it is identified by the position of the field
   in the list (`field.format()` of field i is the stan "body i").  Reports (`field.report(...)`) are
   outputs.  Python dicts are insertion ordered association lists; assigning to an existing key keeps
   the key object and its position.  VariableArgument / KeywordArgument are str subclasses: they compare
   and hash like their text, `isinstance` sees the class (`star`).
   Assumed (and arranged by the harness): the docstring is not inherited (field.source is self.obj). *)
From Coq Require Import ZArith NArith List Bool Arith.
From PydoctorVerif Require Import Base.Sexp Model.FieldTypes Gen.TablesC09.
Import ListNotations.

Inductive star := SNone | SVar | SKw.            (* str | VariableArgument | KeywordArgument *)
Record pname := { pn_text : text; pn_star : star }.

Inductive fkind := FFunction | FMethod | FClassMethod | FStaticMethod.
Inductive objkind := OFunction (k : fkind) | OClass | OModule | OAttribute.

Record field := { f_tag : text; f_arg : option text }.

Inductive origin := FromAst | FromDoc.            (* FieldOrigin *)

(* what a "type" cell holds *)
Inductive tyref :=
| TyAnn (n : text)          (* the colorized annotation of parameter n ("return" for the return annotation) *)
| TyField (i : nat)         (* field i .format() *)
| TyLink (n : text)         (* self._linker.link_to(n, n) *)
| TyUnknownExc.             (* span(class_='undocumented')("Unknown exception") *)

Record pdesc := {                                  (* ParamDesc / KeywordDesc *)
  pd_name : pname; pd_kw : bool; pd_body : option nat; pd_type : option tyref; pd_origin : option origin }.
Record rdesc := { r_type : option tyref; r_body : option nat; r_origin : option origin }.   (* ReturnDesc *)
Record ydesc := { y_type : option tyref; y_body : option nat }.                               (* FieldDesc *)

Inductive rkind :=
| RUnexpectedArg     (* Unexpected argument in <tag> field *)
| RNameMissing       (* Parameter name missing *)
| RNotExist          (* Documented parameter "<name>" does not exist [+ hint, variant 1: "Keyword Arguments" section, 2: "keyword" field] *)
| RAlreadyDoc        (* Parameter "<name>" was already documented *)
| RAsKeyword         (* Parameter "<name>" is documented as keyword *)
| RExcMissing        (* Exception type missing *)
| RUnknownField      (* Unknown field '<tag>' *)
| RVarName.          (* Field in variable docstring should not include a name *)
Record report := { rp_field : nat; rp_kind : rkind; rp_name : text; rp_variant : N }.

Record state := {
  st_types : list (pname * option (tyref * origin));       (* self.types *)
  st_pdescs : list pdesc;                                   (* self.parameter_descs *)
  st_ret : option rdesc;                                    (* self.return_desc *)
  st_yld : option ydesc;                                    (* self.yields_desc *)
  st_raises : list (tyref * nat);                           (* self.raise_descs *)
  st_warns : list (option tyref * nat);                     (* self.warns_desc *)
  st_seealsos : list nat; st_notes : list nat; st_authors : list nat; st_sinces : list nat;
  st_unknowns : list (text * list (option text * nat));     (* self.unknowns *)
  st_reports : list report;
  st_attr_type : option nat                                 (* self.obj.parsed_type = field.body *)
}.

Record env := {
  e_obj : objkind;
  e_sig : list (pname * bool);      (* obj.annotations without 'return': parameter, has an annotation *)
  e_ret : N;                        (* 0 no return annotation | 1 the literal None | 2 anything else *)
  e_ctor : list pname;              (* keys of obj.constructor_params (Class) *)
  e_unknown_base : bool;            (* None in obj.baseobjects (Class) *)
  e_gn : bool                       (* _get_docformat(obj) in ('google', 'numpy') *)
}.

Definition t_return : text := [114; 101; 116; 117; 114; 110]%N.
Definition t_self : text := [115; 101; 108; 102]%N.
Definition t_cls : text := [99; 108; 115]%N.

(* ---- setters ------------------------------------------------------------------------------------ *)
Definition set_types v st := {| st_types := v; st_pdescs := st_pdescs st; st_ret := st_ret st; st_yld := st_yld st;
  st_raises := st_raises st; st_warns := st_warns st; st_seealsos := st_seealsos st; st_notes := st_notes st;
  st_authors := st_authors st; st_sinces := st_sinces st; st_unknowns := st_unknowns st;
  st_reports := st_reports st; st_attr_type := st_attr_type st |}.
Definition set_pdescs v st := {| st_types := st_types st; st_pdescs := v; st_ret := st_ret st; st_yld := st_yld st;
  st_raises := st_raises st; st_warns := st_warns st; st_seealsos := st_seealsos st; st_notes := st_notes st;
  st_authors := st_authors st; st_sinces := st_sinces st; st_unknowns := st_unknowns st;
  st_reports := st_reports st; st_attr_type := st_attr_type st |}.
Definition set_ret v st := {| st_types := st_types st; st_pdescs := st_pdescs st; st_ret := v; st_yld := st_yld st;
  st_raises := st_raises st; st_warns := st_warns st; st_seealsos := st_seealsos st; st_notes := st_notes st;
  st_authors := st_authors st; st_sinces := st_sinces st; st_unknowns := st_unknowns st;
  st_reports := st_reports st; st_attr_type := st_attr_type st |}.
Definition set_yld v st := {| st_types := st_types st; st_pdescs := st_pdescs st; st_ret := st_ret st; st_yld := v;
  st_raises := st_raises st; st_warns := st_warns st; st_seealsos := st_seealsos st; st_notes := st_notes st;
  st_authors := st_authors st; st_sinces := st_sinces st; st_unknowns := st_unknowns st;
  st_reports := st_reports st; st_attr_type := st_attr_type st |}.
Definition set_raises v st := {| st_types := st_types st; st_pdescs := st_pdescs st; st_ret := st_ret st; st_yld := st_yld st;
  st_raises := v; st_warns := st_warns st; st_seealsos := st_seealsos st; st_notes := st_notes st;
  st_authors := st_authors st; st_sinces := st_sinces st; st_unknowns := st_unknowns st;
  st_reports := st_reports st; st_attr_type := st_attr_type st |}.
Definition set_warns v st := {| st_types := st_types st; st_pdescs := st_pdescs st; st_ret := st_ret st; st_yld := st_yld st;
  st_raises := st_raises st; st_warns := v; st_seealsos := st_seealsos st; st_notes := st_notes st;
  st_authors := st_authors st; st_sinces := st_sinces st; st_unknowns := st_unknowns st;
  st_reports := st_reports st; st_attr_type := st_attr_type st |}.
Definition set_seealsos v st := {| st_types := st_types st; st_pdescs := st_pdescs st; st_ret := st_ret st; st_yld := st_yld st;
  st_raises := st_raises st; st_warns := st_warns st; st_seealsos := v; st_notes := st_notes st;
  st_authors := st_authors st; st_sinces := st_sinces st; st_unknowns := st_unknowns st;
  st_reports := st_reports st; st_attr_type := st_attr_type st |}.
Definition set_notes v st := {| st_types := st_types st; st_pdescs := st_pdescs st; st_ret := st_ret st; st_yld := st_yld st;
  st_raises := st_raises st; st_warns := st_warns st; st_seealsos := st_seealsos st; st_notes := v;
  st_authors := st_authors st; st_sinces := st_sinces st; st_unknowns := st_unknowns st;
  st_reports := st_reports st; st_attr_type := st_attr_type st |}.
Definition set_authors v st := {| st_types := st_types st; st_pdescs := st_pdescs st; st_ret := st_ret st; st_yld := st_yld st;
  st_raises := st_raises st; st_warns := st_warns st; st_seealsos := st_seealsos st; st_notes := st_notes st;
  st_authors := v; st_sinces := st_sinces st; st_unknowns := st_unknowns st;
  st_reports := st_reports st; st_attr_type := st_attr_type st |}.
Definition set_sinces v st := {| st_types := st_types st; st_pdescs := st_pdescs st; st_ret := st_ret st; st_yld := st_yld st;
  st_raises := st_raises st; st_warns := st_warns st; st_seealsos := st_seealsos st; st_notes := st_notes st;
  st_authors := st_authors st; st_sinces := v; st_unknowns := st_unknowns st;
  st_reports := st_reports st; st_attr_type := st_attr_type st |}.
Definition set_unknowns v st := {| st_types := st_types st; st_pdescs := st_pdescs st; st_ret := st_ret st; st_yld := st_yld st;
  st_raises := st_raises st; st_warns := st_warns st; st_seealsos := st_seealsos st; st_notes := st_notes st;
  st_authors := st_authors st; st_sinces := st_sinces st; st_unknowns := v;
  st_reports := st_reports st; st_attr_type := st_attr_type st |}.
Definition set_reports v st := {| st_types := st_types st; st_pdescs := st_pdescs st; st_ret := st_ret st; st_yld := st_yld st;
  st_raises := st_raises st; st_warns := st_warns st; st_seealsos := st_seealsos st; st_notes := st_notes st;
  st_authors := st_authors st; st_sinces := st_sinces st; st_unknowns := st_unknowns st;
  st_reports := v; st_attr_type := st_attr_type st |}.
Definition set_attr_type v st := {| st_types := st_types st; st_pdescs := st_pdescs st; st_ret := st_ret st; st_yld := st_yld st;
  st_raises := st_raises st; st_warns := st_warns st; st_seealsos := st_seealsos st; st_notes := st_notes st;
  st_authors := st_authors st; st_sinces := st_sinces st; st_unknowns := st_unknowns st;
  st_reports := st_reports st; st_attr_type := v |}.

Definition add_report (i : nat) (k : rkind) (n : text) (v : N) (st : state) : state :=
  set_reports (st_reports st ++ [{| rp_field := i; rp_kind := k; rp_name := n; rp_variant := v |}]) st.

(* ---- dict helpers (keys compare by text) -------------------------------------------------------- *)
Definition has_key {V} (k : text) (d : list (pname * V)) : bool :=
  existsb (fun e => text_eqb (pn_text (fst e)) k) d.

(* d[k] = v : an existing key keeps its key object and position *)
Fixpoint dict_set {V} (k : pname) (v : V) (d : list (pname * V)) : list (pname * V) :=
  match d with
  | [] => [(k, v)]
  | (k', v') :: d' => if text_eqb (pn_text k') (pn_text k) then (k', v) :: d' else (k', v') :: dict_set k v d'
  end.

(* d.pop(k) *)
Fixpoint dict_pop {V} (k : text) (d : list (pname * V)) : option (V * list (pname * V)) :=
  match d with
  | [] => None
  | (k', v') :: d' =>
    if text_eqb (pn_text k') k then Some (v', d')
    else match dict_pop k d' with
         | Some (v, r) => Some (v, (k', v') :: r)
         | None => None
         end
  end.

(* name.lstrip('*') *)
Fixpoint lstrip_star (t : text) : text :=
  match t with
  | 42%N :: t' => lstrip_star t'
  | _ => t
  end.

Section WithEnv.
  Variable E : env.

  Definition init_state : state :=
    let types : list (pname * option (tyref * origin)) :=
      match e_obj E with
      | OFunction _ => map (fun p : pname * bool => (fst p, if snd p then Some (TyAnn (pn_text (fst p)), FromAst) else None)) (e_sig E)
      | _ => []
      end in
    let ret : option rdesc :=
      match e_obj E with
      | OFunction _ => if N.eqb (e_ret E) 2 then Some {| r_type := Some (TyAnn t_return); r_body := None; r_origin := Some FromAst |}
                       else None
      | _ => None
      end in
    {| st_types := types; st_pdescs := []; st_ret := ret; st_yld := None; st_raises := []; st_warns := [];
       st_seealsos := []; st_notes := []; st_authors := []; st_sinces := []; st_unknowns := [];
       st_reports := []; st_attr_type := None |}.

  (* _report_unexpected_argument *)
  Definition unexpected_arg (i : nat) (f : field) (st : state) : state :=
    match f_arg f with
    | Some _ => add_report i RUnexpectedArg (f_tag f) 0 st
    | None => st
    end.

  Definition ret_or_new (st : state) : rdesc :=
    match st_ret st with Some r => r | None => {| r_type := None; r_body := None; r_origin := None |} end.
  Definition yld_or_new (st : state) : ydesc :=
    match st_yld st with Some y => y | None => {| y_type := None; y_body := None |} end.

  Definition handle_return (i : nat) (f : field) (st : state) : state :=
    let st := unexpected_arg i f st in
    let r := ret_or_new st in
    set_ret (Some {| r_type := r_type r; r_body := Some i; r_origin := r_origin r |}) st.

  Definition handle_yield (i : nat) (f : field) (st : state) : state :=
    let st := unexpected_arg i f st in
    let y := yld_or_new st in
    set_yld (Some {| y_type := y_type y; y_body := Some i |}) st.

  Definition handle_returntype (i : nat) (f : field) (st : state) : state :=
    let st := unexpected_arg i f st in
    let r := ret_or_new st in
    set_ret (Some {| r_type := Some (TyField i); r_body := r_body r; r_origin := Some FromDoc |}) st.

  Definition handle_yieldtype (i : nat) (f : field) (st : state) : state :=
    let st := unexpected_arg i f st in
    let y := yld_or_new st in
    set_yld (Some {| y_type := Some (TyField i); y_body := y_body y |}) st.

  (* _handle_param_name *)
  Definition annotations_of_source : option (list pname) :=
    match e_obj E with
    | OFunction _ => Some (map fst (e_sig E))
    | OClass => Some (e_ctor E)
    | _ => None
    end.

  (* for param_name, _ in annotations.items(): if param_name == name: name = param_name
     (a key that compares equal replaces the name: the str subclass of the key is what matters afterwards) *)
  Definition canon_name (anns : list pname) (n : pname) : pname :=
    fold_left (fun acc p => if text_eqb (pn_text p) (pn_text acc) then p else acc) anns n.

  Definition handle_param_name (i : nat) (f : field) (st : state) : option pname * state :=
    match f_arg f with
    | None => (None, add_report i RNameMissing [] 0 st)
    | Some a =>
      let plain := {| pn_text := lstrip_star a; pn_star := SNone |} in
      match annotations_of_source with
      | Some anns => (Some (canon_name anns plain), st)
      | None => (Some plain, st)
      end
    end.

  (* _handle_param_not_found *)
  Definition handle_param_not_found (i : nat) (name : pname) (st : state) : state :=
    let skip :=
      match e_obj E with
      | OClass => e_unknown_base E || existsb (fun p => text_eqb (pn_text p) (pn_text name)) (e_ctor E)
      | _ => false
      end in
    if skip then st
    else
      let variant :=
        if existsb (fun e => match pn_star (fst e) with SKw => true | _ => false end) (st_types st)
        then (if e_gn E then 1%N else 2%N) else 0%N in
      add_report i RNotExist (pn_text name) variant st.

  Definition pdesc_named (n : text) (st : state) : bool :=
    existsb (fun d => text_eqb (pn_text (pd_name d)) n) (st_pdescs st).

  Definition handle_type (i : nat) (f : field) (st : state) : state :=
    match e_obj E with
    | OAttribute =>
      let st := match f_arg f with Some _ => add_report i RVarName [] 0 st | None => st end in
      set_attr_type (Some i) st
    | OFunction _ =>
      let '(name, st) := handle_param_name i f st in
      match name with
      | Some n =>
        let st := if negb (has_key (pn_text n) (st_types st)) && negb (pdesc_named (pn_text n) st)
                  then handle_param_not_found i n st else st in
        set_types (dict_set n (Some (TyField i, FromDoc)) (st_types st)) st
      | None => st
      end
    | _ =>
      match f_arg f with
      | Some a => set_types (dict_set {| pn_text := a; pn_star := SNone |} (Some (TyField i, FromDoc)) (st_types st)) st
      | None => st
      end
    end.

  Definition handle_param (i : nat) (f : field) (st : state) : state :=
    let '(name, st) := handle_param_name i f st in
    match name with
    | Some n =>
      let st := if pdesc_named (pn_text n) st then add_report i RAlreadyDoc (pn_text n) 0 st else st in
      let st := set_pdescs (st_pdescs st ++ [{| pd_name := n; pd_kw := false; pd_body := Some i;
                                                pd_type := None; pd_origin := None |}]) st in
      if negb (has_key (pn_text n) (st_types st)) then handle_param_not_found i n st else st
    | None => st
    end.

  Definition handle_keyword (i : nat) (f : field) (st : state) : state :=
    let '(name, st) := handle_param_name i f st in
    match name with
    | Some n =>
      let st := set_pdescs (st_pdescs st ++ [{| pd_name := n; pd_kw := true; pd_body := Some i;
                                                pd_type := None; pd_origin := None |}]) st in
      if has_key (pn_text n) (st_types st) then add_report i RAsKeyword (pn_text n) 0 st else st
    | None => st
    end.

  Definition handle_raises (i : nat) (f : field) (st : state) : state :=
    match f_arg f with
    | None => let st := add_report i RExcMissing [] 0 st in set_raises (st_raises st ++ [(TyUnknownExc, i)]) st
    | Some a => set_raises (st_raises st ++ [(TyLink a, i)]) st
    end.

  Definition handle_warns (i : nat) (f : field) (st : state) : state :=
    set_warns (st_warns st ++ [(option_map TyLink (f_arg f), i)]) st.

  (* self.unknowns[name].append(...) on a defaultdict(list) *)
  Fixpoint unknowns_add (tag : text) (v : option text * nat) (d : list (text * list (option text * nat)))
    : list (text * list (option text * nat)) :=
    match d with
    | [] => [(tag, [v])]
    | (k, l) :: d' => if text_eqb k tag then (k, l ++ [v]) :: d' else (k, l) :: unknowns_add tag v d'
    end.

  Definition handle_unknown (i : nat) (f : field) (st : state) : state :=
    let st := add_report i RUnknownField (f_tag f) 0 st in
    set_unknowns (unknowns_add (f_tag f) (f_arg f, i) (st_unknowns st)) st.

  Fixpoint lookup_handler (tag : text) (tbl : list (text * handler)) : option handler :=
    match tbl with
    | [] => None
    | (k, h) :: tbl' => if text_eqb k tag then Some h else lookup_handler tag tbl'
    end.

  (* FieldHandler.handle: getattr(self, 'handle_' + field.tag, self.handleUnknownField)(field) *)
  Definition handle (i : nat) (f : field) (st : state) : state :=
    match lookup_handler (f_tag f) handler_table with
    | Some HReturn => handle_return i f st
    | Some HYield => handle_yield i f st
    | Some HReturnType => handle_returntype i f st
    | Some HYieldType => handle_yieldtype i f st
    | Some HType => handle_type i f st
    | Some HParam => handle_param i f st
    | Some HKeyword => handle_keyword i f st
    | Some HElsewhere => st
    | Some HRaises => handle_raises i f st
    | Some HWarns => handle_warns i f st
    | Some HSeeAlso => set_seealsos (st_seealsos st ++ [i]) st
    | Some HNote => set_notes (st_notes st ++ [i]) st
    | Some HAuthor => set_authors (st_authors st ++ [i]) st
    | Some HSince => set_sinces (st_sinces st ++ [i]) st
    | None => handle_unknown i f st
    end.

  Fixpoint handle_all (i : nat) (fs : list field) (st : state) : state :=
    match fs with
    | [] => st
    | f :: fs' => handle_all (S i) fs' (handle i f st)
    end.

  (* ---- resolve_types ------------------------------------------------------------------------------ *)
  (* params = {param.name: param for param in self.parameter_descs} *)
  Definition params_dict (ds : list pdesc) : list (pname * pdesc) :=
    fold_left (fun d p => dict_set (pd_name p) p d) ds [].

  Definition strip_first (name : pname) : bool :=
    match e_obj E with
    | OFunction FMethod => text_eqb (pn_text name) t_self
    | OFunction FClassMethod => text_eqb (pn_text name) t_cls
    | _ => false
    end.

  Fixpoint rt_loop (index : nat) (types : list (pname * option (tyref * origin))) (params : list (pname * pdesc))
           (any_info : bool) : list pdesc * list (pname * pdesc) * bool :=
    match types with
    | [] => ([], params, any_info)
    | (name, pty) :: rest =>
      match dict_pop (pn_text name) params with
      | Some (p, params') =>
        let p' := {| pd_name := pd_name p; pd_kw := pd_kw p; pd_body := pd_body p;
                     pd_type := option_map fst pty; pd_origin := option_map snd pty |} in
        let '(new, lft, ai) := rt_loop (S index) rest params' any_info in
        (p' :: new, lft, ai)
      | None =>
        if Nat.eqb index 0 && strip_first name then rt_loop (S index) rest params any_info
        else
          let p := {| pd_name := name; pd_kw := false; pd_body := None;
                      pd_type := option_map fst pty; pd_origin := option_map snd pty |} in
          let '(new, lft, ai) := rt_loop (S index) rest params
                                          (any_info || match pty with Some _ => true | None => false end) in
          (p :: new, lft, ai)
      end
    end.

  Definition opt_eqb {X} (eqb : X -> X -> bool) (a b : option X) : bool :=
    match a, b with
    | None, None => true
    | Some x, Some y => eqb x y
    | _, _ => false
    end.
  Definition tyref_eqb (a b : tyref) : bool :=
    match a, b with
    | TyAnn x, TyAnn y => text_eqb x y
    | TyField i, TyField j => Nat.eqb i j
    | TyLink x, TyLink y => text_eqb x y   (* never stored in a ParamDesc; list.remove finds the element itself first *)
    | TyUnknownExc, TyUnknownExc => true
    | _, _ => false
    end.
  Definition origin_eqb (a b : origin) : bool :=
    match a, b with FromAst, FromAst | FromDoc, FromDoc => true | _, _ => false end.
  (* attrs-generated __eq__: same class and equal (name, type, body, type_origin) *)
  Definition pdesc_eqb (a b : pdesc) : bool :=
    Bool.eqb (pd_kw a) (pd_kw b) && text_eqb (pn_text (pd_name a)) (pn_text (pd_name b)) &&
    opt_eqb tyref_eqb (pd_type a) (pd_type b) && opt_eqb Nat.eqb (pd_body a) (pd_body b) &&
    opt_eqb origin_eqb (pd_origin a) (pd_origin b).

  (* list.remove(x): first element equal to x *)
  Fixpoint remove_first (x : pdesc) (l : list pdesc) : list pdesc :=
    match l with
    | [] => []
    | y :: l' => if pdesc_eqb y x then l' else y :: remove_first x l'
    end.

  Definition is_kw_name (p : pdesc) : bool := match pn_star (pd_name p) with SKw => true | _ => false end.

  Definition pdesc_documented (p : pdesc) : bool :=
    match pd_body p with Some _ => true | None => match pd_origin p with Some FromDoc => true | _ => false end end.

  Definition resolve_types (st : state) : state :=
    let params := params_dict (st_pdescs st) in
    let any_info := match params with [] => false | _ => true end in
    let '(new, lft, any_info) := rt_loop 0 (st_types st) params any_info in
    let new := new ++ map snd lft in
    let descs := if any_info then new else st_pdescs st in
    (* kwargs = last entry whose name is a KeywordArgument; has_keywords = some other entry is a KeywordDesc *)
    let kwargs := fold_left (fun acc p => if is_kw_name p then Some p else acc) descs None in
    let has_keywords := existsb (fun p => negb (is_kw_name p) && pd_kw p) descs in
    let descs :=
      match kwargs with
      | Some k =>
        let d := remove_first k descs in
        if negb has_keywords || pdesc_documented k then d ++ [k] else d
      | None => descs
      end in
    set_pdescs descs st.

  (* ---- format -------------------------------------------------------------------------------------- *)
  Record row := { row_name : option pname; row_type : option tyref; row_body : option nat }.
  Record section := { sec_label : text; sec_rows : list row }.

  (* FieldDesc.format: `if self.name:` -- an empty name is not shown *)
  Definition shown_name (n : pname) : option pname := match pn_text n with [] => None | _ => Some n end.

  Definition pdesc_row (p : pdesc) : row :=
    {| row_name := shown_name (pd_name p); row_type := pd_type p; row_body := pd_body p |}.

  Definition desc_rows (b : bucket) (st : state) : list row :=
    match b with
    | BParams => map pdesc_row (st_pdescs st)
    | BReturn => match st_ret st with
                 | Some r => [{| row_name := None; row_type := r_type r; row_body := r_body r |}]
                 | None => []
                 end
    | BYield => match st_yld st with
                | Some y => [{| row_name := None; row_type := y_type y; row_body := y_body y |}]
                | None => []
                end
    | BRaises => map (fun e => {| row_name := None; row_type := Some (fst e); row_body := Some (snd e) |}) (st_raises st)
    | BWarns => map (fun e => {| row_name := None; row_type := fst e; row_body := Some (snd e) |}) (st_warns st)
    | BAuthors => map (fun i => {| row_name := None; row_type := None; row_body := Some i |}) (st_authors st)
    | BSeeAlso => map (fun i => {| row_name := None; row_type := None; row_body := Some i |}) (st_seealsos st)
    | BSinces => map (fun i => {| row_name := None; row_type := None; row_body := Some i |}) (st_sinces st)
    | BNotes => map (fun i => {| row_name := None; row_type := None; row_body := Some i |}) (st_notes st)
    | BUnknowns => []
    end.

  Definition unknown_row (e : option text * nat) : row :=
    {| row_name := match fst e with Some a => shown_name {| pn_text := a; pn_star := SNone |} | None => None end;
       row_type := None; row_body := Some (snd e) |}.

  Definition ret_documented (r : rdesc) : bool :=
    match r_body r with Some _ => true | None => match r_origin r with Some FromDoc => true | _ => false end end.

  (* format_desc_list / format_field_list yield nothing for an empty list *)
  Definition sec (label : text) (rows : list row) : list section :=
    match rows with [] => [] | _ => [{| sec_label := label; sec_rows := rows |}] end.

  Definition emit (pe : plan_entry) (st : state) (include_params : bool) : list section * bool :=
    match pe_kind pe with
    | EParams =>
      if existsb pdesc_documented (st_pdescs st)
      then (sec (pe_label pe) (desc_rows (pe_bucket pe) st), true)
      else ([], include_params)
    | EReturn =>
      match st_ret st with
      | Some r => if include_params || ret_documented r then (sec (pe_label pe) (desc_rows (pe_bucket pe) st), include_params)
                  else ([], include_params)
      | None => ([], include_params)
      end
    | EYield => (sec (pe_label pe) (desc_rows (pe_bucket pe) st), include_params)
    | EDescList => (sec (pe_label pe) (desc_rows (pe_bucket pe) st), include_params)
    | EFieldList =>
      let rows := desc_rows (pe_bucket pe) st in
      (sec (match rows with [_] => pe_label pe | _ => pe_plural pe end) rows, include_params)
    | EUnknowns =>
      (flat_map (fun e => sec (pe_label pe ++ fst e) (map unknown_row (snd e))) (st_unknowns st), include_params)
    end.

  Fixpoint format_plan_run (plan : list plan_entry) (st : state) (include_params : bool) : list section :=
    match plan with
    | [] => []
    | pe :: plan' =>
      let '(secs, ip) := emit pe st include_params in
      secs ++ format_plan_run plan' st ip
    end.

  Definition format (st : state) : list section := format_plan_run format_plan st false.

  (* format_docstring's use of FieldHandler *)
  Definition final_state (fs : list field) : state :=
    let st := handle_all 0 fs init_state in
    match e_obj E with
    | OFunction _ => resolve_types st
    | _ => st
    end.

  Definition render (fs : list field) : list section * list report * option nat :=
    let st := final_state fs in
    (format st, st_reports st, st_attr_type st).
End WithEnv.

(* ---- wire ------------------------------------------------------------------------------------------
   input  := ( obj sig ret ctor unknown_base gn fields )
      obj    : 0 function 1 method 2 classmethod 3 staticmethod 4 class 5 module 6 attribute
      sig    : list of ( name star has_annotation )    star: 0 plain 1 * 2 **
      ctor   : list of ( name star )
      fields : list of ( tag has_arg arg )
   output := ( sections reports attr_type )
      sections : list of ( label ( row ... ) )   row := ( name? type? body? )
          name? := () | ( (text star) )      type? := () | ( (code text/index) )   body? := () | ( index )
          type code: 0 annotation of <text> | 1 field <index> | 2 link <text> | 3 unknown exception
      reports : list of ( field kind name variant )   kind: 0..7 in the order of `rkind`
      attr_type : () | ( index ) *)
Definition star_of_Z (z : Z) : star := match z with 1%Z => SVar | 2%Z => SKw | _ => SNone end.
Definition star_code (s : star) : Z := match s with SNone => 0 | SVar => 1 | SKw => 2 end%Z.
Definition obj_of_Z (z : Z) : objkind :=
  match z with
  | 0%Z => OFunction FFunction | 1%Z => OFunction FMethod | 2%Z => OFunction FClassMethod
  | 3%Z => OFunction FStaticMethod | 4%Z => OClass | 5%Z => OModule | _ => OAttribute
  end.
Definition pname_of_sexp (x : sexp) : pname :=
  {| pn_text := to_text (nth_s 0 x); pn_star := star_of_Z (to_Z (nth_s 1 x)) |}.
Definition field_of_sexp (x : sexp) : field :=
  {| f_tag := to_text (nth_s 0 x); f_arg := if to_bool (nth_s 1 x) then Some (to_text (nth_s 2 x)) else None |}.
Definition rkind_code (k : rkind) : Z :=
  match k with
  | RUnexpectedArg => 0 | RNameMissing => 1 | RNotExist => 2 | RAlreadyDoc => 3 | RAsKeyword => 4
  | RExcMissing => 5 | RUnknownField => 6 | RVarName => 7
  end%Z.
Definition pname_sexp (p : pname) : sexp := L [of_text (pn_text p); A (star_code (pn_star p))].
Definition tyref_sexp (t : tyref) : sexp :=
  match t with
  | TyAnn n => L [A 0; of_text n]
  | TyField i => L [A 1; of_nat i]
  | TyLink n => L [A 2; of_text n]
  | TyUnknownExc => L [A 3; L []]
  end.
Definition row_sexp (r : row) : sexp :=
  L [of_option pname_sexp (row_name r); of_option tyref_sexp (row_type r); of_option of_nat (row_body r)].
Definition section_sexp (s : section) : sexp := L [of_text (sec_label s); L (map row_sexp (sec_rows s))].
Definition report_sexp (r : report) : sexp :=
  L [of_nat (rp_field r); A (rkind_code (rp_kind r)); of_text (rp_name r); of_N (rp_variant r)].

Definition run (x : sexp) : sexp :=
  let E := {| e_obj := obj_of_Z (to_Z (nth_s 0 x));
              e_sig := map (fun p => (pname_of_sexp p, to_bool (nth_s 2 p))) (to_list (nth_s 1 x));
              e_ret := to_N (nth_s 2 x);
              e_ctor := map pname_of_sexp (to_list (nth_s 3 x));
              e_unknown_base := to_bool (nth_s 4 x);
              e_gn := to_bool (nth_s 5 x) |} in
  let fs := map field_of_sexp (to_list (nth_s 6 x)) in
  let '(secs, reps, at_) := render E fs in
  L [L (map section_sexp secs); L (map report_sexp reps); of_option of_nat at_].
