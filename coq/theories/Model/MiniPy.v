(* Model/MiniPy.v -- the statement language shared by Model/Builder.v (what pydoctor's AST builder
   documents) and Spec/PyBind.v (what CPython binds).  Definitions only.

   A MiniPy program is the abstract syntax of one Python module restricted to the statement forms
   that astbuilder.ModuleVistor looks at.  harness/c03.py pretty-prints it to real source text.

   Text is `list N` (code points), names are text. *)
From Coq Require Import ZArith NArith List Bool.
From PydoctorVerif Require Import Base.Sexp.
Import ListNotations.

Definition name := text.

Fixpoint text_eqb (a b : text) : bool :=
  match a, b with
  | [], [] => true
  | x :: a', y :: b' => N.eqb x y && text_eqb a' b'
  | _, _ => false
  end.

Definition mem (n : name) (l : list name) : bool := existsb (text_eqb n) l.

(* ASCII strings as text, for the few names the builder tests for *)
Definition t_staticmethod : text := [115;116;97;116;105;99;109;101;116;104;111;100]%N.
Definition t_classmethod : text := [99;108;97;115;115;109;101;116;104;111;100]%N.
Definition t_property : text := [112;114;111;112;101;114;116;121]%N.
Definition t_Property : text := [80;114;111;112;101;114;116;121]%N.
Definition t_setter : text := [115;101;116;116;101;114]%N.
Definition t_deleter : text := [100;101;108;101;116;101;114]%N.
Definition t_all : text := [95;95;97;108;108;95;95]%N.                                  (* __all__ *)
Definition t_docformat : text := [95;95;100;111;99;102;111;114;109;97;116;95;95]%N.    (* __docformat__ *)
Definition t_doc : text := [95;95;100;111;99;95;95]%N.                                  (* __doc__ *)
Definition t_dot : N := 46%N.

(* ---- literal values (what ast.literal_eval returns on the subset) ------------------------- *)
Inductive value : Type :=
| LInt (z : Z)
| LBool (b : bool)
| LStr (s : text)
| LBytes (s : text)
| LFloat (repr : text)
| LNone
| LList (l : list value)
| LTuple (l : list value)
| LSet (l : list value)
| LDict (ks vs : list value).          (* parallel lists, pairwise distinct keys *)

(* ---- annotation expressions: explicit `x: int` names and what astutils._annotation_for_value can build ---- *)
Inductive annot : Type :=
| AName (n : text)                    (* n *)
| ASub1 (c e : text)                  (* c[e] *)
| ATupleOf (e : text)                 (* tuple[e, ...] *)
| ADict (k v : text).                 (* dict[k, v] *)

(* ---- right-hand sides -------------------------------------------------------------------- *)
Inductive rhs : Type :=
| RLit (v : value)                      (* a literal expression *)
| RName (n : name)                      (* a bare name: the builder treats it as an alias *)
| RCall (f : name) (args : list name)   (* f(a1, ..., an) with name arguments: staticmethod(x), dict() ... *)
| ROther.                               (* any other expression; not literal_eval-able, not a name, not a call *)

Inductive target : Type :=
| TName (n : name)
| TTuple (ns : list name)               (* a, b = ... *)
| TSelf (attr : name).                  (* self.attr = ... *)

Inductive deco : Type :=
| DName (dotted : list name)            (* @a.b.c *)
| DCall (dotted : list name).           (* @a.b.c(...) *)

Inductive iftest := TMain | TTrue | TFalse.   (* __name__ == '__main__' | true at import time | false at import time *)

(* what an import statement binds a name to, as far as the analysis of THIS module needs to know it (a resolved-bases
   oracle: the harness computes it from the model's result for the imported module, which is analysed first):
   a class with its exception flag and the members it has or inherits, a module with the classes it defines, anything else *)
Inductive msum := MNonAttr | MAttr (ivar : bool).      (* a function or class | a variable (an instance variable?) *)
Definition members_t := list (name * msum).
Inductive impinfo : Type :=
| IOther
| IClass (exc : bool) (members : members_t)
| IModule (classes : list (name * (bool * members_t))).

Inductive stmt : Type :=
| Def (nm : name) (decos : list deco) (async : bool) (body : list stmt)
| Class (nm : name) (bases : list (list name)) (cdecos : list deco) (body : list stmt)    (* bases: dotted names *)
| Assign (targets : list target) (r : rhs)
| AnnAssign (t : target) (ann : name) (r : option rhs)
| AugAssign (t : target) (r : rhs)
| ExprStr (s : text)                     (* an expression statement that is a string constant *)
| If (test : iftest) (body orelse : list stmt)
| Try (body handlers orelse final : list stmt)
| With (body : list stmt)
| For (tgt : name) (body orelse : list stmt)
| While (body orelse : list stmt)
| Import (names : list (name * impinfo))  (* the local names an import statement binds, and to what *)
| Other.                                 (* pass, a call, return ... : binds nothing, has no body *)

(* The first-statement string of a suite (ast.get_docstring / compiler rule, before cleaning) *)
Definition docstring_of (body : list stmt) : option text :=
  match body with
  | ExprStr s :: _ => Some s
  | _ => None
  end.

(* ---- wire decoding ------------------------------------------------------------------------
   value : (0 z) (1 b) (2 text) (3 text) (4 text) (5) (6 v..) (7 v..) (8 v..) (9 (k..) (v..))
   rhs   : (0 value) (1 name) (2 f (args)) (3)
   target: (0 name) (1 (names)) (2 attr)
   deco  : (0 (dotted)) (1 (dotted))
   stmt  : (0 name (decos) async (body)) (1 name (bases) (body)) (2 (targets) rhs) (3 target ann optrhs)
           (4 target rhs) (5 text) (6 test (body) (orelse)) (7 (body) (handlers) (orelse) (final))
           (8 (body)) (9 tgt (body) (orelse)) (10 (body) (orelse)) (11 ((name info)..)) (12)
   info  : (0) | (1 exc ((name tag)..)) | (2 ((name exc ((name tag)..))..))      tag: 0 function/class 1 variable 2 instance variable *)
Fixpoint sexp_depth (s : sexp) : nat :=
  match s with A _ => 1 | L l => S (fold_right (fun x acc => Nat.max (sexp_depth x) acc) 0 l) end.

Definition tail_s (s : sexp) : list sexp := tl (to_list s).

Fixpoint value_of_sexp (fuel : nat) (s : sexp) : value :=
  match fuel with
  | O => LNone
  | S f =>
    match to_Z (nth_s 0 s) with
    | 0%Z => LInt (to_Z (nth_s 1 s))
    | 1%Z => LBool (to_bool (nth_s 1 s))
    | 2%Z => LStr (to_text (nth_s 1 s))
    | 3%Z => LBytes (to_text (nth_s 1 s))
    | 4%Z => LFloat (to_text (nth_s 1 s))
    | 6%Z => LList (map (value_of_sexp f) (tail_s s))
    | 7%Z => LTuple (map (value_of_sexp f) (tail_s s))
    | 8%Z => LSet (map (value_of_sexp f) (tail_s s))
    | 9%Z => LDict (map (value_of_sexp f) (to_list (nth_s 1 s))) (map (value_of_sexp f) (to_list (nth_s 2 s)))
    | _ => LNone
    end
  end.

Definition names_of_sexp (s : sexp) : list name := map to_text (to_list s).

Definition rhs_of_sexp (s : sexp) : rhs :=
  match to_Z (nth_s 0 s) with
  | 0%Z => RLit (value_of_sexp (sexp_depth s) (nth_s 1 s))
  | 1%Z => RName (to_text (nth_s 1 s))
  | 2%Z => RCall (to_text (nth_s 1 s)) (names_of_sexp (nth_s 2 s))
  | _ => ROther
  end.

Definition target_of_sexp (s : sexp) : target :=
  match to_Z (nth_s 0 s) with
  | 0%Z => TName (to_text (nth_s 1 s))
  | 1%Z => TTuple (names_of_sexp (nth_s 1 s))
  | _ => TSelf (to_text (nth_s 1 s))
  end.

Definition deco_of_sexp (s : sexp) : deco :=
  match to_Z (nth_s 0 s) with
  | 0%Z => DName (names_of_sexp (nth_s 1 s))
  | _ => DCall (names_of_sexp (nth_s 1 s))
  end.

Definition iftest_of_Z (z : Z) : iftest :=
  match z with 0%Z => TMain | 1%Z => TTrue | _ => TFalse end.

Definition msum_of_Z (z : Z) : msum := match z with 0%Z => MNonAttr | 2%Z => MAttr true | _ => MAttr false end.
Definition members_of_sexp (s : sexp) : members_t :=
  map (fun m => (to_text (nth_s 0 m), msum_of_Z (to_Z (nth_s 1 m)))) (to_list s).
Definition impinfo_of_sexp (s : sexp) : impinfo :=
  match to_Z (nth_s 0 s) with
  | 1%Z => IClass (to_bool (nth_s 1 s)) (members_of_sexp (nth_s 2 s))
  | 2%Z => IModule (map (fun c => (to_text (nth_s 0 c), (to_bool (nth_s 1 c), members_of_sexp (nth_s 2 c)))) (to_list (nth_s 1 s)))
  | _ => IOther
  end.

Fixpoint stmt_of_sexp (fuel : nat) (s : sexp) : stmt :=
  match fuel with
  | O => Other
  | S f =>
    let body k := map (stmt_of_sexp f) (to_list (nth_s k s)) in
    match to_Z (nth_s 0 s) with
    | 0%Z => Def (to_text (nth_s 1 s)) (map deco_of_sexp (to_list (nth_s 2 s))) (to_bool (nth_s 3 s)) (body 4%nat)
    | 1%Z => Class (to_text (nth_s 1 s)) (map names_of_sexp (to_list (nth_s 2 s))) (map deco_of_sexp (to_list (nth_s 4 s))) (body 3%nat)
    | 2%Z => Assign (map target_of_sexp (to_list (nth_s 1 s))) (rhs_of_sexp (nth_s 2 s))
    | 3%Z => AnnAssign (target_of_sexp (nth_s 1 s)) (to_text (nth_s 2 s)) (to_option rhs_of_sexp (nth_s 3 s))
    | 4%Z => AugAssign (target_of_sexp (nth_s 1 s)) (rhs_of_sexp (nth_s 2 s))
    | 5%Z => ExprStr (to_text (nth_s 1 s))
    | 6%Z => If (iftest_of_Z (to_Z (nth_s 1 s))) (body 2%nat) (body 3%nat)
    | 7%Z => Try (body 1%nat) (body 2%nat) (body 3%nat) (body 4%nat)
    | 8%Z => With (body 1%nat)
    | 9%Z => For (to_text (nth_s 1 s)) (body 2%nat) (body 3%nat)
    | 10%Z => While (body 1%nat) (body 2%nat)
    | 11%Z => Import (map (fun p => (to_text (nth_s 0 p), impinfo_of_sexp (nth_s 1 p))) (to_list (nth_s 1 s)))
    | _ => Other
    end
  end.

Definition prog_of_sexp (s : sexp) : list stmt := map (stmt_of_sexp (sexp_depth s)) (to_list s).
