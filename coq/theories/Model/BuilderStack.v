(* Model/BuilderStack.v -- astbuilder.ASTBuilder.push / pop as driven by the main visitor's events.
   visit_Module / visit_ClassDef / _handleFunctionDef either push the new scope or raise SkipNode
   (class or function nested in a function, property, overload after the primary function);
   depart_Module / depart_ClassDef / depart_FunctionDef pop with `assert self.current is obj`.
   A failed assert or a pop of the empty stack is None. *)
From Coq Require Import NArith List Bool.
From PydoctorVerif Require Import Base.Sexp Model.Visitor.
Import ListNotations.

Fixpoint stack_run (pushes pops : N -> bool) (tr : list event) (st : list N) : option (list N) :=
  match tr with
  | [] => Some st
  | e :: tr' =>
    match edir e with
    | Enter => stack_run pushes pops tr' (if pushes (enode e) then enode e :: st else st)
    | Leave =>
      if pops (enode e) then
        match st with
        | top :: st' => if N.eqb top (enode e) then stack_run pushes pops tr' st' else None
        | [] => None
        end
      else stack_run pushes pops tr' st
    end
  end.

(* ---- the push / pop / pruning sites of astbuilder.ModuleVistor, regenerated into Gen/SkipSites.v ---- *)
From Coq Require Import String.
Inductive site_ev := EvPush | EvPop | EvSkipNode | EvSkipChildren | EvSkipSiblings | EvSkipDeparture.

Definition is_push (e : site_ev) : bool := match e with EvPush => true | _ => false end.
Definition is_pop (e : site_ev) : bool := match e with EvPop => true | _ => false end.
Definition skips_departure (e : site_ev) : bool :=
  match e with EvSkipNode | EvSkipDeparture => true | _ => false end.

(* a visit_* method: once it has pushed a scope it must not raise an exception that suppresses its
   depart_* (which is where the pop happens); it pushes at most ... lexically any number of alternative
   push sites is fine.  A depart_* method: pops, never pushes, never prunes. *)
Fixpoint no_skip_after_push (pushed : bool) (l : list site_ev) : bool :=
  match l with
  | [] => true
  | e :: l' =>
    if pushed && skips_departure e then false
    else no_skip_after_push (pushed || is_push e) l'
  end.

Definition is_depart (name : string) : bool := String.prefix "depart_" name.

Definition site_ok (s : string * list site_ev) : bool :=
  let (name, evs) := s in
  if is_depart name then forallb is_pop evs && negb (match evs with [] => true | _ => false end)
  else forallb (fun e => negb (is_pop e)) evs && no_skip_after_push false evs.
