(* Model/BuilderStack.v -- astbuilder.ASTBuilder.push / pop as driven by the main visitor's events.
   visit_Module / visit_ClassDef / _handleFunctionDef either push the new scope or raise SkipNode
   (class or function nested in a function, property, overload after the primary function);
   depart_Module / depart_ClassDef / depart_FunctionDef pop with `assert self.current is obj`.
   A failed assert or a pop of the empty stack is None. *)
From Coq Require Import NArith List Bool.
From PydoctorVerif Require Import Base.Sexp Model.Visitor.
Import ListNotations.

Fixpoint stack_run (pushes pops : N -> bool) (tr : list event) (st : list N) : option (list N) :=
  match tr with
  | [] => Some st
  | e :: tr' =>
    match edir e with
    | Enter => stack_run pushes pops tr' (if pushes (enode e) then enode e :: st else st)
    | Leave =>
      if pops (enode e) then
        match st with
        | top :: st' => if N.eqb top (enode e) then stack_run pushes pops tr' st' else None
        | [] => None
        end
      else stack_run pushes pops tr' st
    end
  end.
