(* Model/Sig.v -- pydoctor's construction and display of function signatures. Definitions only.

   pydoctor/astbuilder.py   ModuleVistor._handleFunctionDef  (get_default, add_arg, the five loops,
                            Signature(...) with the ValueError fallback, overload bookkeeping),
                            ModuleVistor._annotations_from_function
   pydoctor/astutils.py     unstring_annotation, _AnnotationStringParser, is_none_literal
   pydoctor/templatewriter/pages/__init__.py   format_signature, format_function_def, format_overloads

   inspect.Signature and its parameter class are CPython's: Spec/SigStr.v (signature_init, sig_str).
   _ValueFormatter / _AnnotationValueFormatter wrap the expression and print it when Signature.__str__
   calls repr(): here the wrapped expression itself stands in the parameter (its text is C15). *)
From Coq Require Import ZArith NArith List Bool.
From PydoctorVerif Require Import Base.Sexp Spec.SigStr.
Import ListNotations.
Local Open Scope Z_scope.

(* ---- ast.arguments ---------------------------------------------------------------------------- *)
Record ast_arg := mkArg { a_name : text; a_annot : option expr }.
Record ast_args := mkArgs {
  posonlyargs : list ast_arg;
  args : list ast_arg;
  vararg : option ast_arg;
  kwonlyargs : list ast_arg;
  kw_defaults : list (option expr);
  kwarg : option ast_arg;
  defaults : list expr }.

Record funcdef := mkDef { fd_args : ast_args; fd_returns : option expr; fd_overload : bool; fd_async : bool }.

(*  is_overload_func = False
    for d in node.decorator_list:
        ...
        if parent.expandName('.'.join(deco_name)) in ('typing.overload', 'typing_extensions.overload'):
            is_overload_func = True
    decos: for each decorator, outermost first, whether it resolves to typing.overload.  The flag is only
    ever SET in the loop: any position counts (the typing docs put @overload above @staticmethod/@classmethod). *)
Definition is_overload_func (decos : list bool) : bool :=
  fold_left (fun (acc d : bool) => if d then true else acc) decos false.

(* exceptions other than the ValueError that _handleFunctionDef catches: they would abort the build *)
Inductive exn := AssertionError (index : Z) | IndexError | KwAssertionError.
Inductive outcome (A : Type) := Ok (a : A) | Raise (e : exn).
Arguments Ok {A} a.
Arguments Raise {A} e.

Inductive report := SyntaxErrorInAnnotation | InvalidParams (e : sig_error) | OverloadAfterPrimary.

(* ---- astutils._AnnotationStringParser ----------------------------------------------------------- *)
(* visit: the node returned; None = SyntaxError raised *)
Fixpoint visit (e : expr) : option expr :=
  match e with
  | ENoneLit => Some ENoneLit                              (* visit_Constant, not a str: generic_visit *)
  | EStr _ None => None                                    (* _parse_string: ast.parse raised / not one expression *)
  | EStr _ (Some p) => visit p                             (* _parse_string: self.visit(stmt.value) *)
  | ESub v s =>                                            (* visit_Subscript *)
    match visit v with
    | None => None
    | Some v' =>
      if is_literal_head v' then Some (ESub v' s)          (* Name 'Literal' / Attribute .Literal: slice kept *)
      else match visit s with Some s' => Some (ESub v' s') | None => None end
    end
  | EName id => Some (EName id)                            (* generic_visit *)
  | EAttr v a => match visit v with Some v' => Some (EAttr v' a) | None => None end
  | ENode t ks =>
    match (fix go (l : list expr) : option (list expr) :=
             match l with
             | [] => Some []
             | k :: r =>
               match visit k with
               | None => None
               | Some k' => match go r with Some r' => Some (k' :: r') | None => None end
               end
             end) ks with
    | Some ks' => Some (ENode t ks')
    | None => None
    end
  | EList l =>
    match (fix go (l : list expr) : option (list expr) :=
             match l with
             | [] => Some []
             | k :: r =>
               match visit k with
               | None => None
               | Some k' => match go r with Some r' => Some (k' :: r') | None => None end
               end
             end) l with
    | Some l' => Some (EList l')
    | None => None
    end
  end.

(* NodeTransformer.generic_visit works IN PLACE: `setattr(node, field, new_node)` after each node-valued
   field, `old_value[:] = new_values` after a list-valued field has been visited completely.  `after e` is
   the state of the object e once visit(e) has returned or raised.  visit_Constant and visit_Subscript build
   new nodes and leave the old object's own fields alone (but the objects below it may have changed). *)
Fixpoint after (e : expr) : expr :=
  match e with
  | ENoneLit => ENoneLit
  | EStr sid p => EStr sid p
  | ESub v s =>
    match visit v with
    | None => ESub (after v) s
    | Some v' => if is_literal_head v' then ESub (after v) s else ESub (after v) (after s)
    end
  | EName id => EName id
  | EAttr v a => match visit v with Some v' => EAttr v' a | None => EAttr (after v) a end
  | ENode t ks =>
    ENode t ((fix go (l : list expr) : list expr :=
                match l with
                | [] => []
                | k :: r => match visit k with Some k' => k' :: go r | None => after k :: r end
                end) ks)
  | EList l =>
    match visit (EList l) with
    | Some l' => l'
    | None =>
      EList ((fix go (l : list expr) : list expr :=
                match l with
                | [] => []
                | k :: r => match visit k with Some _ => after k :: go r | None => after k :: r end
                end) l)
    end
  end.

(* unstring_annotation: (node shown, reported?).  `return node` after a SyntaxError hands back the
   original object -- as the transformer left it. *)
Definition unstring_annotation (e : expr) : expr * bool :=
  match visit e with
  | Some e' => (e', false)
  | None => (after e, true)
  end.

Definition is_none_literal (e : expr) : bool := match e with ENoneLit => true | _ => false end.

(* ---- the `annotations` mapping (a Python dict: insertion ordered, later keys overwrite) ----------- *)
Definition dict := list (text * option expr).
Fixpoint dict_set (k : text) (v : option expr) (d : dict) : dict :=
  match d with
  | [] => [(k, v)]
  | (k', v') :: r => if text_eqb k k' then (k, v) :: r else (k', v') :: dict_set k v r
  end.
(* annotations.get(name): None both for a missing key and for a stored None *)
Fixpoint dict_get (k : text) (d : dict) : option expr :=
  match d with
  | [] => None
  | (k', v) :: r => if text_eqb k k' then v else dict_get k r
  end.

Definition return_key : text := [114; 101; 116; 117; 114; 110]%N.   (* "return" *)

Definition opt_list {A} (o : option A) : list A := match o with Some x => [x] | None => [] end.

(* _get_all_args *)
Definition all_args (a : ast_args) : list ast_arg :=
  posonlyargs a ++ args a ++ opt_list (vararg a) ++ kwonlyargs a ++ opt_list (kwarg a).

(* _get_all_ast_annotations *)
Definition all_ast_annotations (a : ast_args) (returns : option expr) : list (text * option expr) :=
  map (fun x => (a_name x, a_annot x)) (all_args a)
  ++ match returns with Some r => [(return_key, Some r)] | None => [] end.

(* the dict comprehension: name -> None | unstring_annotation(value) ; reports in evaluation order *)
Fixpoint build_annotations (pairs : list (text * option expr)) (d : dict) : dict * list report :=
  match pairs with
  | [] => (d, [])
  | (name, value) :: r =>
    match value with
    | None => build_annotations r (dict_set name None d)
    | Some v =>
      let '(v', rep) := unstring_annotation v in
      let '(d', reps) := build_annotations r (dict_set name (Some v') d) in
      (d', (if rep then [SyntaxErrorInAnnotation] else []) ++ reps)
    end
  end.

Definition annotations_from_function (a : ast_args) (returns : option expr) : dict * list report :=
  build_annotations (all_ast_annotations a returns) [].

(* ---- _handleFunctionDef: parameters ---------------------------------------------------------------- *)
Definition zlen {A} (l : list A) : Z := Z.of_nat (length l).

(*  def get_default(index):
        assert 0 <= index < num_pos_args, index
        index -= default_offset
        return None if index < 0 else defaults[index]                                   *)
Definition get_default (num_pos_args default_offset : Z) (dflts : list expr) (index : Z) : outcome (option expr) :=
  if (0 <=? index) && (index <? num_pos_args) then
    let index := index - default_offset in
    if index <? 0 then Ok None
    else match nth_error dflts (Z.to_nat index) with
         | Some d => Ok (Some d)
         | None => Raise IndexError
         end
  else Raise (AssertionError index).

(*  def add_arg(name, kind, default)  *)
Definition add_arg (annotations : dict) (name : text) (k : kind) (default : option expr) : param :=
  mkParam name k default (dict_get name annotations).

(*  for index, arg in enumerate(<list>, start=index): add_arg(arg.arg, <kind>, get_default(index))  *)
Fixpoint loop_positional (annotations : dict) (gd : Z -> outcome (option expr)) (k : kind)
         (index : Z) (l : list ast_arg) : outcome (list param) :=
  match l with
  | [] => Ok []
  | a :: r =>
    match gd index with
    | Raise e => Raise e
    | Ok d =>
      match loop_positional annotations gd k (index + 1) r with
      | Raise e => Raise e
      | Ok ps => Ok (add_arg annotations (a_name a) k d :: ps)
      end
    end
  end.

(*  for arg, default in zip(kwonlyargs, kw_defaults): add_arg(arg.arg, KEYWORD_ONLY, default)  *)
Fixpoint loop_kwonly (annotations : dict) (l : list ast_arg) (ds : list (option expr)) : list param :=
  match l, ds with
  | a :: r, d :: ds' => add_arg annotations (a_name a) KEYWORD_ONLY d :: loop_kwonly annotations r ds'
  | _, _ => []
  end.

Definition build_params (annotations : dict) (a : ast_args) : outcome (list param) :=
  let num_pos_args := zlen (posonlyargs a) + zlen (args a) in
  let default_offset := num_pos_args - zlen (defaults a) in
  let gd := get_default num_pos_args default_offset (defaults a) in
  match loop_positional annotations gd POSITIONAL_ONLY 0 (posonlyargs a) with
  | Raise e => Raise e
  | Ok p1 =>
    match loop_positional annotations gd POSITIONAL_OR_KEYWORD (zlen (posonlyargs a)) (args a) with
    | Raise e => Raise e
    | Ok p2 =>
      let p3 := match vararg a with
                | Some v => [add_arg annotations (a_name v) VAR_POSITIONAL None]
                | None => []
                end in
      if negb (Nat.eqb (length (kwonlyargs a)) (length (kw_defaults a))) then Raise KwAssertionError
      else
        let p4 := loop_kwonly annotations (kwonlyargs a) (kw_defaults a) in
        let p5 := match kwarg a with
                  | Some v => [add_arg annotations (a_name v) VAR_KEYWORD None]
                  | None => []
                  end in
        Ok (p1 ++ p2 ++ p3 ++ p4 ++ p5)
    end
  end.

(* what _handleFunctionDef computes for one definition: the Signature and the reports it makes *)
Definition handle_signature (d : funcdef) : outcome (signature * list report) :=
  let '(annotations, reps) := annotations_from_function (fd_args d) (fd_returns d) in
  match build_params annotations (fd_args d) with
  | Raise e => Raise e
  | Ok parameters =>
    let return_type := dict_get return_key annotations in
    let return_annotation :=
        match return_type with
        | None => None
        | Some r => if is_none_literal r then None else Some r
        end in
    match signature_init parameters return_annotation with
    | inr s => Ok (s, reps)
    | inl ex => Ok (mkSig [] None, reps ++ [InvalidParams ex])          (* except ValueError: Signature() *)
    end
  end.

(* ---- model.Function / FunctionOverload, and the definitions of one name in one scope ---------------- *)
Record function := mkFun { fn_signature : option signature; fn_overloads : list signature; fn_async : bool }.

(* One visit of _handleFunctionDef for a definition whose name maps to `existing` in parent.contents
   (None: no Function of that name yet). Returns the Function now bound to the name. *)
Definition handle_def (existing : option function) (d : funcdef) : outcome (function * list report) :=
  let reuse :=
      match existing with
      | Some f => match fn_overloads f with [] => None | _ => Some f end
      | None => None
      end in
  let skip :=
      match reuse with
      | Some f => match fn_signature f with Some _ => fd_overload d | None => false end
      | None => false
      end in
  match reuse, skip with
  | Some f, true => Ok (f, [OverloadAfterPrimary])                            (* report; raise SkipNode *)
  | _, _ =>
    let func := match reuse with Some f => f | None => mkFun None [] false end in
    match handle_signature d with
    | Raise e => Raise e
    | Ok (s, reps) =>
      if fd_overload d
      then Ok (mkFun (fn_signature func) (fn_overloads func ++ [s]) (fd_async d), reps)
      else Ok (mkFun (Some s) (fn_overloads func) (fd_async d), reps)
    end
  end.

Fixpoint handle_defs (existing : option function) (ds : list funcdef) : outcome (option function * list report) :=
  match ds with
  | [] => Ok (existing, [])
  | d :: r =>
    match handle_def existing d with
    | Raise e => Raise e
    | Ok (f, reps) =>
      match handle_defs (Some f) r with
      | Raise e => Raise e
      | Ok (f', reps') => Ok (f', reps ++ reps')
      end
    end
  end.

(* ---- pages.format_signature / format_function_def / format_overloads ------------------------------- *)
Definition broken : list piece := pcs [40; 46; 46; 46; 41]%N.                  (* "(...)" *)

(* html2stan(str(func.signature)) if func.signature else "(...)".  The `except Exception` branch
   (html2stan rejecting the string) is C10's business. *)
Definition format_signature (s : option signature) : list piece :=
  match s with Some s => sig_str s | None => broken end.

Definition kw_def : text := [100; 101; 102]%N.                                 (* "def" *)
Definition kw_async_def : text := [97; 115; 121; 110; 99; 32; 100; 101; 102]%N.  (* "async def" *)

(* text content of format_function_def(name, is_async, func) for an object whose signature is s.
   is_primary_with_overloads: `isinstance(func, model.Function) and func.overloads` *)
Definition format_function_def (name : text) (is_async : bool) (is_primary_with_overloads : bool)
           (s : option signature) : list piece :=
  if is_primary_with_overloads then []
  else pcs (if is_async then kw_async_def else kw_def) ++ [PC 32%N] ++ pcs name ++ format_signature s ++ [PC 58%N].

(* what the function's entry shows: format_overloads (one def line per overload), then format_function_def *)
Definition displayed_defs (name : text) (f : function) : list (list piece) :=
  map (fun s => format_function_def name (fn_async f) false (Some s)) (fn_overloads f)
  ++ match format_function_def name (fn_async f) (match fn_overloads f with [] => false | _ => true end)
                               (fn_signature f) with
     | [] => []
     | l => [l]
     end.

(* ---- wire codec -------------------------------------------------------------------------------------
   expr   := (0) | (1 sid [parse]) | (2 v s) | (3 text) | (4 v text) | (5 tag kid ...) | (6 e ...)     [x] = () or (x)
   arg    := (text [expr])
   args   := (posonly args [vararg] kwonly kw_defaults [kwarg] defaults)       kw_defaults: list of [expr]
   def    := (args [returns] decos async)      decos: one 0/1 per decorator (is it typing.overload), outermost first
   param  := (text kind [default] [annot])
   input  := (0 def)            -> (status params [ret] pieces reports)   status 0 ok / 1 assert / 2 index / 3 kwassert
             (1 expr)           -> (reported expr)
             (2 src)            -> (defaults kw_defaults params)    src := (posonly args [var] kwonly [kw] [ret]); sparam := (text [a] [d])
             (3 params [ret])   -> (err pieces [readback])          err 0 none 1 order 2 default 3 duplicate
             (4 name defs)      -> (status [primary] overloads displayed reports sigpieces ovpieces async)
   pieces := list of  c | (expr)                                                                         *)
Fixpoint expr_of_sexp (fuel : nat) (s : sexp) : expr :=
  match fuel with
  | O => ENoneLit
  | S f =>
    let l := to_list s in
    match to_Z (nth 0 l (A 0)) with
    | 1 => EStr (to_N (nth 1 l (A 0))) (to_option (expr_of_sexp f) (nth 2 l (L [])))
    | 2 => ESub (expr_of_sexp f (nth 1 l (L []))) (expr_of_sexp f (nth 2 l (L [])))
    | 3 => EName (to_text (nth 1 l (L [])))
    | 4 => EAttr (expr_of_sexp f (nth 1 l (L []))) (to_text (nth 2 l (L [])))
    | 5 => ENode (to_N (nth 1 l (A 0))) (map (expr_of_sexp f) (skipn 2 l))
    | 6 => EList (map (expr_of_sexp f) (skipn 1 l))
    | _ => ENoneLit
    end
  end.

Fixpoint sexp_depth (s : sexp) : nat :=
  match s with A _ => 1%nat | L l => S (fold_right (fun x acc => Nat.max (sexp_depth x) acc) 0%nat l) end.

Definition to_expr (s : sexp) : expr := expr_of_sexp (sexp_depth s) s.

Fixpoint sexp_of_expr (e : expr) : sexp :=
  match e with
  | ENoneLit => L [A 0]
  | EStr sid p => L [A 1; of_N sid; match p with Some x => L [sexp_of_expr x] | None => L [] end]
  | ESub v s => L [A 2; sexp_of_expr v; sexp_of_expr s]
  | EName id => L [A 3; of_text id]
  | EAttr v a => L [A 4; sexp_of_expr v; of_text a]
  | ENode t ks => L (A 5 :: of_N t :: map sexp_of_expr ks)
  | EList l => L (A 6 :: map sexp_of_expr l)
  end.

Definition to_arg (s : sexp) : ast_arg := mkArg (to_text (nth_s 0 s)) (to_option to_expr (nth_s 1 s)).
Definition to_args (s : sexp) : ast_args :=
  mkArgs (map to_arg (to_list (nth_s 0 s))) (map to_arg (to_list (nth_s 1 s)))
         (to_option to_arg (nth_s 2 s)) (map to_arg (to_list (nth_s 3 s)))
         (map (to_option to_expr) (to_list (nth_s 4 s))) (to_option to_arg (nth_s 5 s))
         (map to_expr (to_list (nth_s 6 s))).
Definition to_def (s : sexp) : funcdef :=
  mkDef (to_args (nth_s 0 s)) (to_option to_expr (nth_s 1 s))
        (is_overload_func (map to_bool (to_list (nth_s 2 s)))) (to_bool (nth_s 3 s)).

Definition kind_of_Z (z : Z) : kind :=
  match z with
  | 0 => POSITIONAL_ONLY | 1 => POSITIONAL_OR_KEYWORD | 2 => VAR_POSITIONAL | 3 => KEYWORD_ONLY | _ => VAR_KEYWORD
  end.
Definition to_param (s : sexp) : param :=
  mkParam (to_text (nth_s 0 s)) (kind_of_Z (to_Z (nth_s 1 s)))
          (to_option to_expr (nth_s 2 s)) (to_option to_expr (nth_s 3 s)).
Definition of_param (p : param) : sexp :=
  L [of_text (pname p); of_N (kind_rank (pkind p)); of_option sexp_of_expr (pdefault p);
     of_option sexp_of_expr (pannot p)].

Definition of_piece (p : piece) : sexp := match p with PC c => of_N c | PE e => L [sexp_of_expr e] end.
Definition of_pieces (l : list piece) : sexp := L (map of_piece l).

Definition err_code (e : sig_error) : Z :=
  match e with WrongOrder => 1 | NonDefaultAfterDefault => 2 | DuplicateName => 3 end.
Definition of_report (r : report) : sexp :=
  match r with
  | SyntaxErrorInAnnotation => A 1
  | InvalidParams e => A (10 + err_code e)
  | OverloadAfterPrimary => A 3
  end.
Definition exn_code (e : exn) : sexp :=
  match e with AssertionError _ => A 1 | IndexError => A 2 | KwAssertionError => A 3 end.

Definition of_signature (s : signature) : sexp :=
  L [of_list of_param (sig_params s); of_option sexp_of_expr (sig_ret s)].

Definition to_sparam (s : sexp) : sparam :=
  mkSparam (to_text (nth_s 0 s)) (to_option to_expr (nth_s 1 s)) (to_option to_expr (nth_s 2 s)).
Definition to_svar (s : sexp) : svar := mkSvar (to_text (nth_s 0 s)) (to_option to_expr (nth_s 1 s)).
Definition to_src (s : sexp) : src_sig :=
  mkSrc (map to_sparam (to_list (nth_s 0 s))) (map to_sparam (to_list (nth_s 1 s)))
        (to_option to_svar (nth_s 2 s)) (map to_sparam (to_list (nth_s 3 s)))
        (to_option to_svar (nth_s 4 s)) (to_option to_expr (nth_s 5 s)).

Definition run (s : sexp) : sexp :=
  match to_Z (nth_s 0 s) with
  | 0 =>
    match handle_signature (to_def (nth_s 1 s)) with
    | Raise e => L [exn_code e; L []; L []; L []; L []]
    | Ok (sg, reps) =>
      L [A 0; of_list of_param (sig_params sg); of_option sexp_of_expr (sig_ret sg);
         of_pieces (format_signature (Some sg)); of_list of_report reps]
    end
  | 1 =>
    let '(e', rep) := unstring_annotation (to_expr (nth_s 1 s)) in
    L [of_bool rep; sexp_of_expr e']
  | 2 =>
    let src := to_src (nth_s 1 s) in
    L [of_list sexp_of_expr (src_defaults src); of_list (of_option sexp_of_expr) (src_kw_defaults src);
       of_list of_param (params_of_src src); of_bool (defaults_monotone false (s_posonly src ++ s_args src))]
  | 3 =>
    let ps := map to_param (to_list (nth_s 1 s)) in
    let ret := to_option to_expr (nth_s 2 s) in
    let sg := mkSig ps ret in
    L [A (match sig_validate POSITIONAL_ONLY false [] ps with Some e => err_code e | None => 0 end);
       of_pieces (sig_str sg);
       of_option of_signature (read_sig (lex LS0 (sig_str sg)))]
  | 4 =>
    let name := to_text (nth_s 1 s) in
    match handle_defs None (map to_def (to_list (nth_s 2 s))) with
    | Raise e => L [exn_code e; L []; L []; L []; L []]
    | Ok (fo, reps) =>
      match fo with
      | None => L [A 0; L []; L []; L []; of_list of_report reps]
      | Some f =>
        L [A 0; of_option of_signature (fn_signature f); of_list of_signature (fn_overloads f);
           of_list of_pieces (displayed_defs name f); of_list of_report reps;
           of_pieces (format_signature (fn_signature f));
           of_list (fun sg => of_pieces (format_signature (Some sg))) (fn_overloads f);
           of_bool (fn_async f)]
      end
    end
  | _ => bad_input
  end.
