(* Model/DocutilsEsc.v -- the escaping of docutils' HTML writer as pydoctor drives it:
   docutils.writers._html_base.HTMLTranslator.encode / attval / starttag and
   pydoctor.node2stan.HTMLTranslator.starttag (the rst- prefixing that runs before docutils' starttag).
   Definitions only.

   Domain of starttag: attribute keys and the tag name are ASCII (they are Python keyword names / literals
   of the writer, never source text); values of class/id/name/href are strings, of classes/ids/names lists;
   the node is not a table (the colwidths filter is skipped). in_mailto cloaking of attval is not modelled. *)
From Coq Require Import ZArith NArith List Bool.
From PydoctorVerif Require Import Base.Sexp Gen.TablesC10 Model.Stan.
Import ListNotations.
Local Open Scope N_scope.

Fixpoint assoc_N (c : N) (tbl : list (N * text)) : option text :=
  match tbl with
  | [] => None
  | (k, v) :: r => if c =? k then Some v else assoc_N c r
  end.

Definition memN (c : N) (l : list N) : bool := existsb (N.eqb c) l.

(* str.translate(table) *)
Definition translate (tbl : list (N * text)) (s : text) : text :=
  flat_map (fun c => match assoc_N c tbl with Some r => r | None => [c] end) s.

(* HTMLTranslator.encode: text.translate(self.special_characters) *)
Definition encode (t : text) : text := translate docutils_special t.

(* HTMLTranslator.attval: self.encode(whitespace.sub(' ', text)) *)
Definition attval (t : text) : text :=
  encode (map (fun c => if memN c attval_ws then 32 else c) t).

(* ---- Python string helpers ------------------------------------------------------------ *)
Definition lower_ascii (t : text) : text :=
  map (fun c => if (65 <=? c) && (c <=? 90) then c + 32 else c) t.

Fixpoint starts (p s : text) : bool :=
  match p with
  | [] => true
  | x :: p' => match s with y :: s' => (x =? y) && starts p' s' | [] => false end
  end.

Definition is_py_space (c : N) : bool := memN c py_space.

Fixpoint py_split_aux (cur : text) (s : text) : list text :=
  match s with
  | [] => match cur with [] => [] | _ :: _ => [rev cur] end
  | c :: r =>
    if is_py_space c
    then match cur with [] => py_split_aux [] r | _ :: _ => rev cur :: py_split_aux [] r end
    else py_split_aux (c :: cur) r
  end.
Definition py_split (s : text) : list text := py_split_aux [] s.

Fixpoint drop_space (s : text) : text :=
  match s with c :: r => if is_py_space c then drop_space r else s | [] => [] end.
Definition py_strip (s : text) : text := rev (drop_space (rev (drop_space s))).

Definition join (sep : text) (l : list text) : text :=
  match l with [] => [] | x :: r => x ++ flat_map (fun y => sep ++ y) r end.

Fixpoint text_ltb (a b : text) : bool :=
  match a, b with
  | [], [] => false
  | [], _ :: _ => true
  | _ :: _, [] => false
  | x :: a', y :: b' => if x <? y then true else if y <? x then false else text_ltb a' b'
  end.

(* ---- dicts as association lists in insertion order ------------------------------------- *)
Inductive aval : Type := AStr (t : text) | AList (l : list text).
Definition dict := list (text * aval).

Fixpoint dict_set (d : dict) (k : text) (v : aval) : dict :=
  match d with
  | [] => [(k, v)]
  | (k', v') :: r => if text_eq k k' then (k, v) :: r else (k', v') :: dict_set r k v
  end.

Fixpoint dict_get (d : dict) (k : text) : option aval :=
  match d with
  | [] => None
  | (k', v') :: r => if text_eq k k' then Some v' else dict_get r k
  end.

Definition dict_del (d : dict) (k : text) : dict := filter (fun kv => negb (text_eq k (fst kv))) d.

Fixpoint insert_sorted (kv : text * aval) (d : dict) : dict :=
  match d with
  | [] => [kv]
  | kv' :: r => if text_ltb (fst kv') (fst kv) then kv' :: insert_sorted kv r else kv :: d
  end.
Definition sort_items (d : dict) : dict := fold_right insert_sorted [] d.

(* ---- literals ---------------------------------------------------------------------------- *)
Definition s_rst : text := [114; 115; 116; 45].                                   (* rst- *)
Definition s_class : text := [99; 108; 97; 115; 115].
Definition s_id : text := [105; 100].
Definition s_name : text := [110; 97; 109; 101].
Definition s_classes : text := [99; 108; 97; 115; 115; 101; 115].
Definition s_ids : text := [105; 100; 115].
Definition s_names : text := [110; 97; 109; 101; 115].
Definition s_href : text := [104; 114; 101; 102].
Definition s_target : text := [116; 97; 114; 103; 101; 116].
Definition s_top : text := [95; 116; 111; 112].                                   (* _top *)
Definition s_heading : text := [104; 101; 97; 100; 105; 110; 103].
Definition s_language : text := [108; 97; 110; 103; 117; 97; 103; 101; 45].      (* language- *)
Definition s_lang : text := [108; 97; 110; 103].
Definition span_open : text := [60; 115; 112; 97; 110; 32; 105; 100; 61; 34].     (* the opening of a span start tag up to and including the quote of id *)
Definition span_close : text := [34; 62; 60; 47; 115; 112; 97; 110; 62].          (* quote, end of start tag, span end tag *)

Definition prefix_rst (v : text) : text := if starts s_rst v then v else s_rst ++ v.

(* ---- pydoctor.node2stan.HTMLTranslator.starttag: the munging loop over one dict ------- *)
Definition munge_entry (d : dict) (kv : text * aval) : dict :=
  let key := fst kv in
  let kl := lower_ascii key in
  if mem_text kl [s_class; s_id; s_name] then
    match snd kv with
    | AStr v => if starts s_rst v then d else dict_set d key (AStr (s_rst ++ v))
    | AList _ => d
    end
  else if mem_text kl [s_classes; s_ids; s_names] then
    match snd kv with
    | AList l => dict_set d key (AList (map prefix_rst l))
    | AStr _ => d
    end
  else if text_eq kl s_href then
    match snd kv with
    | AStr v =>
      match v with
      | 35 :: h => if starts s_rst h then d else dict_set d key (AStr (35 :: s_rst ++ h))
      | _ => dict_set d s_target (AStr s_top)
      end
    | AList _ => d
    end
  else d.

Definition munge (d : dict) : dict := fold_left munge_entry d d.

(* re.match(r'^h\d+$', tagname) on ASCII tag names *)
Definition is_digit (c : N) : bool := (48 <=? c) && (c <=? 57).
Definition is_heading (tag : text) : bool :=
  match tag with
  | 104 :: d :: ds => forallb is_digit (d :: ds)
  | _ => false
  end.

Definition get_str (d : dict) (k : text) : text :=
  match dict_get d k with Some (AStr v) => v | _ => [] end.

(* ---- docutils starttag -------------------------------------------------------------------- *)
(* the loop over node classes + the class argument *)
Fixpoint class_loop (todo : list text) (classes languages : list text) : list text * list text :=
  match todo with
  | [] => (classes, languages)
  | cls :: r =>
    if starts s_language cls then class_loop r classes (languages ++ [skipn 9 cls])
    else if negb (is_nil (py_strip cls)) && negb (mem_text cls classes) then class_loop r (classes ++ [cls]) languages
    else class_loop r classes languages
  end.

Definition aval_text (v : aval) : text :=
  match v with AStr s => s | AList l => join [32] l end.

Definition render_attr (kv : text * aval) : text :=
  lower_ascii (fst kv) ++ [61; 34] ++ attval (aval_text (snd kv)) ++ [34].

Record starttag_in := {
  st_tag : text; st_node_classes : list text; st_node_ids : list text;
  st_inline_first : bool;     (* the node is Sequential / docinfo / table: extra ids go in front *)
  st_empty : bool; st_suffix : text; st_attrs : dict }.

(* the start tag proper:  <tag k="v" ...>  or  <tag k="v" ... />  *)
Definition open_tag (tagname : text) (attlist : dict) (empty : bool) : text :=
  [60] ++ join [32] (tagname :: map render_attr attlist) ++ (if empty then [32; 47] else []) ++ [62].

(* (prefix, tagname, sorted attribute list, suffix); None = AssertionError ('id' passed as attribute) *)
Definition starttag_parts (i : starttag_in) : option (text * text * dict * text) :=
  (* pydoctor: munge the keyword attributes and node.attributes, then the heading class *)
  let attributes := munge (st_attrs i) in
  let node_classes := map prefix_rst (st_node_classes i) in
  let node_ids := map prefix_rst (st_node_ids i) in
  let attributes :=
    if is_heading (st_tag i)
    then dict_set attributes s_class (AStr (py_strip (join [32] [get_str attributes s_class; s_heading])))
    else attributes in
  (* docutils *)
  let tagname := lower_ascii (st_tag i) in
  let atts := fold_left (fun acc kv => dict_set acc (lower_ascii (fst kv)) (snd kv)) attributes [] in
  let classes0 := match dict_get atts s_classes with Some (AList l) => l | _ => [] end in
  let atts := dict_del atts s_classes in
  let cls_arg := get_str atts s_class in
  let atts := dict_del atts s_class in
  let '(classes, languages) := class_loop (node_classes ++ py_split cls_arg) classes0 [] in
  let atts := match languages with l :: _ => dict_set atts s_lang (AStr l) | [] => atts end in
  let atts := match classes with _ :: _ => dict_set atts s_class (AStr (join [32] classes)) | [] => atts end in
  match dict_get atts s_id with
  | Some _ => None
  | None =>
    let ids_kw := match dict_get atts s_ids with Some (AList l) => l | _ => [] end in
    let atts := dict_del atts s_ids in
    let ids := node_ids ++ ids_kw in
    let atts := match ids with i0 :: _ => dict_set atts s_id (AStr i0) | [] => atts end in
    let spans := flat_map (fun id => span_open ++ id ++ span_close) (tl ids) in
    let in_front := st_empty i || st_inline_first i in
    let prefix := if in_front then spans else [] in
    let suffix := st_suffix i ++ (if in_front then [] else spans) in
    Some (prefix, tagname, sort_items atts, suffix)
  end.

Definition starttag (i : starttag_in) : option text :=
  match starttag_parts i with
  | Some (prefix, tagname, attlist, suffix) => Some (prefix ++ open_tag tagname attlist (st_empty i) ++ suffix)
  | None => None
  end.

(* ---- wire ---------------------------------------------------------------------------------- *)
Definition aval_of_sexp (kind v : sexp) : aval :=
  if to_bool kind then AList (map to_text (to_list v)) else AStr (to_text v).

Definition starttag_of_sexp (s : sexp) : starttag_in :=
  {| st_tag := to_text (nth_s 0 s);
     st_node_classes := map to_text (to_list (nth_s 1 s));
     st_node_ids := map to_text (to_list (nth_s 2 s));
     st_inline_first := to_bool (nth_s 3 s);
     st_empty := to_bool (nth_s 4 s);
     st_suffix := to_text (nth_s 5 s);
     st_attrs := map (fun e => (to_text (nth_s 0 e), aval_of_sexp (nth_s 1 e) (nth_s 2 e))) (to_list (nth_s 6 s)) |}.
