(* Model/Linker.v -- how a reference written somewhere in the project is turned into a documented object:
     linker._EpydocLinker.link_to                  (annotations, signatures: expandName + exact lookup)
     linker._EpydocLinker._resolve_identifier_xref (docstring cross references: the lookup ladder)
     linker._EpydocLinker.look_for_name
   on a final state of Model/Project.v; and the wire codec + `run` of the extracted model.
   Definitions only.  Intersphinx inventories are empty in the modelled runs (rung 2 of the ladder never hits). *)
From Coq Require Import ZArith NArith List Bool.
From PydoctorVerif Require Import Base.Sexp Model.Project.
Import ListNotations.
Local Open Scope N_scope.

Fixpoint mem_oid (x : oid) (l : list oid) : bool :=
  match l with [] => false | y :: l' => oid_eqb y x || mem_oid x l' end.

Definition link_to (s : state) (o : oid) (ident : path) : option oid :=
  pget (expand_name s o ident) (allobjs s).

Definition look_for_name (s : state) (name : path) (cands : list oid) : option oid :=
  let targets :=
    fold_left (fun acc src =>
                 match name with
                 | [] => acc
                 | p0 :: _ =>
                   match nget p0 (contents_of s src) with
                   | None => acc
                   | Some _ =>
                     match resolve_name s src name with
                     | Some t => if mem_oid t acc then acc else acc ++ [t]
                     | None => acc
                     end
                   end
                 end) cands [] in
  match targets with
  | [t] => Some t
  | _ => None
  end.

Definition parent_of (s : state) (o : oid) : option oid :=
  match objs s o with Some ob => o_parent ob | None => None end.

(* `src = self.obj; while src is not None: ... src = src.parent` *)
Fixpoint scope_walk (fuel : nat) (s : state) (src : option oid) (ident : path) : option oid :=
  match fuel with
  | O => None
  | S f =>
    match src with
    | None => None
    | Some o =>
      match resolve_name s o ident with
      | Some t => Some t
      | None => scope_walk f s (parent_of s o) ident
      end
    end
  end.

Fixpoint uncle_walk (fuel : nat) (s : state) (src : option oid) (ident : path) : option oid :=
  match fuel with
  | O => None
  | S f =>
    match src with
    | None => None
    | Some o =>
      match look_for_name s ident (map snd (contents_of s o)) with
      | Some t => Some t
      | None => uncle_walk f s (parent_of s o) ident
      end
    end
  end.

Definition all_modules (s : state) : list oid :=
  map snd (filter (fun ko => match tag_of s (snd ko) with Some t => is_module_tag t | None => false end)
                  (allobjs s)).

Definition resolve_xref (s : state) (o : oid) (ident : path) : option oid :=
  match pget ident (allobjs s) with
  | Some t => Some t
  | None =>
    match scope_walk (dfuel s) s (Some o) ident with
    | Some t => Some t
    | None =>
      match uncle_walk (dfuel s) s (Some o) ident with
      | Some t => Some t
      | None => look_for_name s ident (all_modules s)
      end
    end
  end.

(* ---- wire ----
   input  := ( mods sigma queries )
     mods    := list of ( name parent pkg doc stmts )          parent := () | ( index )
     stmt    := ( 0 name doc ( base ... ) ( ( mkind name doc ) ... ) )    class
              | ( 1 name doc )                                            def
              | ( 2 name doc )                                            name = constant
              | ( 3 target ( dotted ) )                                   name = dotted.name
              | ( 4 ( dotted ) asname )                                   import
              | ( 5 level ( dotted ) ( ( orgname asname ) ... ) )         from ... import names
              | ( 6 level ( dotted ) )                                    from ... import *
              | ( 7 ( names ) )                                           __all__ = [...]
     sigma   := list of module indices (the order of System.unprocessed_modules)
     queries := list of ( ( scope full name ) ( identifier ) )
   output := ( status objects scopes answers )
     status  := 0 | 1 (out of fuel) | 2 (assert)
     objects := list of ( key ( m i j ) tag kind doc fullname ( ( basename resolved ) ... ) )   resolved := () | ( path )
     scopes  := list of ( key ( content names ) ( ( alias target ) ... ) all )                  all := () | ( ( names ) )
     answers := list of ( expand resolve link_to xref ( find_status find ) )   each of resolve.. := () | ( path ) ;
                () when the scope is not registered *)
Definition to_path (s : sexp) : path := map to_N (to_list s).
Definition of_path (q : path) : sexp := L (map of_N q).

Definition stmt_of_sexp (s : sexp) : stmt :=
  match to_Z (nth_s 0 s) with
  | 0%Z => SClass (to_N (nth_s 1 s)) (to_N (nth_s 2 s)) (map to_path (to_list (nth_s 3 s)))
                  (map (fun m => (to_N (nth_s 0 m), to_N (nth_s 1 m), to_N (nth_s 2 m))) (to_list (nth_s 4 s)))
  | 1%Z => SFunc (to_N (nth_s 1 s)) (to_N (nth_s 2 s))
  | 2%Z => SVar (to_N (nth_s 1 s)) (to_N (nth_s 2 s))
  | 3%Z => SAlias (to_N (nth_s 1 s)) (to_path (nth_s 2 s))
  | 4%Z => SImport (to_path (nth_s 1 s)) (to_N (nth_s 2 s))
  | 5%Z => SImportFrom (to_N (nth_s 1 s)) (to_path (nth_s 2 s))
                       (map (fun m => (to_N (nth_s 0 m), to_N (nth_s 1 m))) (to_list (nth_s 3 s)))
  | 6%Z => SImportStar (to_N (nth_s 1 s)) (to_path (nth_s 2 s))
  | _ => SAll (to_path (nth_s 1 s))
  end.

Definition mod_of_sexp (s : sexp) : modinfo :=
  {| m_name := to_N (nth_s 0 s); m_parent := to_option to_N (nth_s 1 s); m_pkg := to_bool (nth_s 2 s);
     m_doc := to_N (nth_s 3 s); m_stmts := map stmt_of_sexp (to_list (nth_s 4 s)) |}.

Definition of_oid (o : oid) : sexp := L [of_N (fst (fst o)); of_N (snd (fst o)); of_N (snd o)].
Definition of_opath (s : state) (o : option oid) : sexp :=
  match o with Some x => L [of_path (full_name s x)] | None => L [] end.

Definition dump_object (s : state) (ko : path * oid) : sexp :=
  let '(k, o) := ko in
  match objs s o with
  | None => L [of_path k; of_oid o]
  | Some ob =>
    L [of_path k; of_oid o; of_N (o_tag ob); of_N (o_kind ob); of_N (o_doc ob); of_path (full_name s o);
       L (map (fun b => L [of_path (fst b); of_opath s (snd b)]) (final_bases s o))]
  end.

Definition is_scope (s : state) (o : oid) : bool :=
  match tag_of s o with Some t => is_module_tag t || N.eqb t T_CLASS | None => false end.

Definition dump_scope (s : state) (ko : path * oid) : sexp :=
  let '(k, o) := ko in
  match objs s o with
  | None => L [of_path k]
  | Some ob =>
    L [of_path k; L (map (fun c => of_N (fst c)) (o_contents ob));
       L (map (fun a => L [of_N (fst a); of_path (snd a)]) (o_alias ob));
       match o_all ob with Some a => L [L (map of_N a)] | None => L [] end]
  end.

Definition answer (s : state) (q : sexp) : sexp :=
  let scope := to_path (nth_s 0 q) in
  let ident := to_path (nth_s 1 q) in
  match pget scope (allobjs s) with
  | None => L []
  | Some o =>
    let fo := find_object s ident in
    L [of_path (expand_name s o ident); of_opath s (resolve_name s o ident); of_opath s (link_to s o ident);
       of_opath s (resolve_xref s o ident); L [of_N (fst fo); of_opath s (snd fo)]]
  end.

Definition run (inp : sexp) : sexp :=
  let p := map mod_of_sexp (to_list (nth_s 0 inp)) in
  let sigma := map to_N (to_list (nth_s 1 inp)) in
  match run_state p sigma with
  | OutOfFuel => L [A 1]
  | AssertFail n => L [A 2; of_N n]
  | Ok s =>
    L [A 0;
       L (map (dump_object s) (allobjs s));
       L (map (dump_scope s) (filter (fun ko => is_scope s (snd ko)) (allobjs s)));
       L (map (answer s) (to_list (nth_s 2 inp)))]
  end.
