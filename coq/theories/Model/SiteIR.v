(* Model/SiteIR.v -- a small deep-embedded expression / statement language, large enough for the bodies of
     pydoctor/model.py  : Documentable.fullName, privacyClass, isVisible, isPrivate, page_object, url, Module.privacyClass
     pydoctor/linker.py : taglink
   and its interpreter over the registry of Model/Site.v.  Gen/SiteCode.v (written by harness/gen/gen_c11_code.py on
   every run, fail-closed) holds those bodies translated statement by statement from the CURRENT source;
   Proofs/SiteIRProofs.v proves that interpreting them IS Model/Site.v (fullname, priv_of, visible, is_private, page_obj,
   url, taglink), for every registry.  Definitions only.

   Primitive (not translated; the modelled meaning is the stated assumption):
     x.name, x.parent                   the fields o_name, o_parent of the registry
     x.documentation_location           DocLocation.OWN_PAGE for modules / packages / classes, PARENT_PAGE for functions /
                                        attributes (class attributes of Documentable / Inheritable; checked by the translator
                                        on the live classes)
     x.system.privacyClass(x)           o_priv: what the --privacy rules say (C13's subject)
     list(x.system.root_names)          r_root_names
     quote(s)                           urllib.parse.quote: the function parameter `quote`
     f'...{e}...', a + b, s.startswith(t), s[len(t):], ==, !=, is, is not, not, and, or   on str / None / bool / objects
     tags.a(label, href=u, class_='internal-link'), tags.transparent(label), tag(title=t)   the three tag shapes
     x.system.msg(...)                  logging: no effect on the result
     c_a if c else c_b                  ECond;  len(s), i + j, s[i:j] / s[i:] / s[:j] on str with non-negative int bounds
                                        (ELen, EAddI, ESlice: firstn (j - i) (skipn i s));  tag(label) re-labelled: ETagLabel
                                        (how the translator renders `attrs = {'href': u, 'class_': 'internal-link'}`,
                                        `attrs['title'] = t`, `tags.a(label, **attrs)`)
     for x in e: body                   SFor: the body once per element, in order, stopping at the first return / error
     x.<generator method>()             EChain: x, its parent, the parent of that, ... up to the root -- for a generator
                                        method of Documentable that the translator has RUN on its fixture objects and found
                                        to yield exactly that chain (stated assumption: it does so on every object)
   Attribute / method dispatch: x.privacyClass runs Module.privacyClass for modules and packages and
   Documentable.privacyClass otherwise (no other class overrides it: checked by the translator); super().privacyClass in
   Module is Documentable.privacyClass; fullName / isVisible / isPrivate / page_object / url are not overridden. *)
From Coq Require Import NArith List Bool Arith.
From PydoctorVerif Require Import Base.Sexp Model.SiteTable Model.Site.
Import ListNotations.

Inductive fname : Type :=
| FFullName | FPrivacy | FModPrivacy | FIsVisible | FIsPrivate | FPageObject | FUrl | FTaglink.

Inductive ival : Type :=
| VNone
| VBool (b : bool)
| VInt (n : nat)
| VStr (t : text)
| VObj (i : nat)
| VPriv (p : privacy)
| VLoc (own : bool)                                  (* DocLocation.OWN_PAGE / PARENT_PAGE *)
| VList (l : list ival)
| VTag (label : ival) (href : option text) (title : option ival).   (* <a href=.. class=internal-link [title=..]>label</a> / transparent *)

Definition var := nat.

Inductive iexpr : Type :=
| EConst (v : ival)
| EVar (x : var)
| ESelf                                   (* the receiver: self / the parameter o of taglink *)
| EName (e : iexpr)                       (* e.name *)
| EParentOf (e : iexpr)                   (* e.parent *)
| EDocLoc (e : iexpr)                     (* e.documentation_location *)
| ESysPrivacy (e : iexpr)                 (* e.system.privacyClass(e) *)
| ERootNames                              (* self.system.root_names *)
| EListOf (e : iexpr)                     (* list(e) *)
| EListLit (l : list iexpr)               (* [e1, ...] *)
| ECall (f : fname) (e : iexpr)           (* e.fullName(), e.privacyClass, e.isVisible, e.isPrivate, e.page_object, e.url *)
| ESuperPrivacy                           (* super().privacyClass *)
| EQuote (e : iexpr)                      (* quote(e) *)
| EConcat (l : list iexpr)                (* f-string / + on str *)
| EEq (a b : iexpr) | ENe (a b : iexpr) | EIs (a b : iexpr) | EIsNot (a b : iexpr)
| ENot (e : iexpr) | EAnd (a b : iexpr) | EOr (a b : iexpr)
| EStartsWith (a b : iexpr)               (* a.startswith(b) *)
| ESkipLen (a b : iexpr)                  (* a[len(b):] *)
| ETagA (label href : iexpr)              (* tags.a(label, href=href, class_='internal-link') *)
| ETagPlain (label : iexpr)               (* tags.transparent(label) *)
| ETagTitle (tag title : iexpr)           (* tag(title=title) *)
| ETagLabel (tag label : iexpr)           (* the tag with this label: tags.a(label, **attrs) *)
| ECond (c a b : iexpr)                   (* a if c else b *)
| ELen (e : iexpr)                        (* len(e) on a str *)
| EAddI (a b : iexpr)                     (* int + int *)
| ESlice (e : iexpr) (lo hi : option iexpr)   (* e[lo:hi] on a str *)
| EChain (e : iexpr).                     (* e, e.parent, e.parent.parent, ...: a generator method found to yield that chain *)

Inductive istmt : Type :=
| SSkip
| SSeq (a b : istmt)
| SAssign (x : var) (e : iexpr)
| SIf (e : iexpr) (a b : istmt)
| SReturn (e : iexpr)
| SAssert (e : iexpr)
| SFor (x : var) (e : iexpr) (body : istmt)   (* for x in e: body *)
| SLog.                                   (* x.system.msg(...) *)

Definition env := var -> option ival.
Definition env0 : env := fun _ => None.
Definition setv (en : env) (x : var) (v : ival) : env := fun y => if Nat.eqb x y then Some v else en y.

Definition truthy (v : ival) : bool :=
  match v with
  | VNone => false
  | VBool b => b
  | VInt n => negb (Nat.eqb n 0)
  | VStr t => negb (is_nil t)
  | VList l => negb (is_nil l)
  | VObj _ | VPriv _ | VLoc _ | VTag _ _ _ => true
  end.

Definition priv_eqb (a b : privacy) : bool :=
  match a, b with PUBLIC, PUBLIC | PRIVATE, PRIVATE | HIDDEN, HIDDEN => true | _, _ => false end.

(* == (and `is` on the singletons / objects these bodies compare) *)
Fixpoint veq (a b : ival) : bool :=
  match a, b with
  | VNone, VNone => true
  | VBool x, VBool y => Bool.eqb x y
  | VInt x, VInt y => Nat.eqb x y
  | VStr x, VStr y => text_eqb x y
  | VObj x, VObj y => Nat.eqb x y
  | VPriv x, VPriv y => priv_eqb x y
  | VLoc x, VLoc y => Bool.eqb x y
  | VList x, VList y =>
      (fix go (l1 l2 : list ival) : bool :=
         match l1, l2 with
         | [], [] => true
         | u :: l1', w :: l2' => veq u w && go l1' l2'
         | _, _ => false
         end) x y
  | _, _ => false
  end.

(* what evaluating an expression / calling a function yields *)
Inductive result : Type := Val (v : ival) | Err | OutOfFuel.
(* what running a statement yields *)
Inductive sres : Type := SNorm (en : env) | SRet (v : ival) | SErr | SFuel.

Definition bind (x : result) (k : ival -> result) : result :=
  match x with Val v => k v | Err => Err | OutOfFuel => OutOfFuel end.

Definition str_of (v : ival) : option text := match v with VStr t => Some t | _ => None end.

(* for x in l: body   (step v en = the body with x bound to v) *)
Fixpoint for_loop (step : ival -> env -> sres) (l : list ival) (en : env) : sres :=
  match l with
  | [] => SNorm en
  | v :: l' => match step v en with SNorm en' => for_loop step l' en' | x => x end
  end.

(* s[lo:hi] for 0 <= lo, hi *)
Definition slice (s : text) (lo : nat) (hi : option nat) : text :=
  match hi with Some h => firstn (h - lo) (skipn lo s) | None => skipn lo s end.

Section Interp.
  Variable quote : text -> text.
  Variable code : fname -> istmt.
  Variable r : registry.

  (* x.privacyClass: the property of Module for modules and packages, of Documentable otherwise *)
  Definition privacy_impl (i : nat) : fname := if is_module_kind (kind_of r i) then FModPrivacy else FPrivacy.

  (* run f on the object `self` with the local variables of `args` pre-bound (parameters) *)
  Fixpoint run_fn (fuel : nat) (f : fname) (self : nat) (args : env) {struct fuel} : result :=
    match fuel with
    | O => OutOfFuel
    | S n =>
      let call (g : fname) (i : nat) : result :=
          match g with
          | FPrivacy => run_fn n (privacy_impl i) i env0      (* attribute access dispatches on the class of the object *)
          | _ => run_fn n g i env0
          end in
      let eval :=
          fix eval (en : env) (e : iexpr) {struct e} : result :=
            match e with
            | EConst v => Val v
            | EVar x => match en x with Some v => Val v | None => Err end       (* UnboundLocalError *)
            | ESelf => Val (VObj self)
            | EName a => bind (eval en a) (fun v => match v with
                           | VObj i => match get r i with Some o => Val (VStr (o_name o)) | None => Err end
                           | _ => Err end)
            | EParentOf a => bind (eval en a) (fun v => match v with
                           | VObj i => match get r i with
                                       | Some o => Val (match o_parent o with Some p => VObj p | None => VNone end)
                                       | None => Err end
                           | _ => Err end)
            | EDocLoc a => bind (eval en a) (fun v => match v with
                           | VObj i => match get r i with Some o => Val (VLoc (own_kind (o_kind o))) | None => Err end
                           | _ => Err end)
            | ESysPrivacy a => bind (eval en a) (fun v => match v with
                           | VObj i => match get r i with Some o => Val (VPriv (o_priv o)) | None => Err end
                           | _ => Err end)
            | ERootNames => Val (VList (map VStr (r_root_names r)))
            | EListOf a => bind (eval en a) (fun v => match v with VList l => Val (VList l) | _ => Err end)
            | EListLit l =>
                (fix go (l : list iexpr) (acc : list ival) : result :=
                   match l with
                   | [] => Val (VList (rev acc))
                   | x :: l' => bind (eval en x) (fun v => go l' (v :: acc))
                   end) l []
            | ECall g a => bind (eval en a) (fun v => match v with VObj i => call g i | _ => Err end)
            | ESuperPrivacy => run_fn n FPrivacy self env0
            | EQuote a => bind (eval en a) (fun v => match v with VStr t => Val (VStr (quote t)) | _ => Err end)
            | EConcat l =>
                (fix go (l : list iexpr) (acc : text) : result :=
                   match l with
                   | [] => Val (VStr acc)
                   | x :: l' => bind (eval en x) (fun v => match v with VStr t => go l' (acc ++ t) | _ => Err end)
                   end) l []
            | EEq a b => bind (eval en a) (fun x => bind (eval en b) (fun y => Val (VBool (veq x y))))
            | ENe a b => bind (eval en a) (fun x => bind (eval en b) (fun y => Val (VBool (negb (veq x y)))))
            | EIs a b => bind (eval en a) (fun x => bind (eval en b) (fun y => Val (VBool (veq x y))))
            | EIsNot a b => bind (eval en a) (fun x => bind (eval en b) (fun y => Val (VBool (negb (veq x y)))))
            | ENot a => bind (eval en a) (fun x => Val (VBool (negb (truthy x))))
            | EAnd a b => bind (eval en a) (fun x => if truthy x then eval en b else Val x)
            | EOr a b => bind (eval en a) (fun x => if truthy x then Val x else eval en b)
            | EStartsWith a b => bind (eval en a) (fun x => bind (eval en b) (fun y =>
                           match x, y with VStr s, VStr p => Val (VBool (starts_with p s)) | _, _ => Err end))
            | ESkipLen a b => bind (eval en a) (fun x => bind (eval en b) (fun y =>
                           match x, y with VStr s, VStr p => Val (VStr (skipn (length p) s)) | _, _ => Err end))
            | ETagA l h => bind (eval en l) (fun x => bind (eval en h) (fun y =>
                           match y with VStr u => Val (VTag x (Some u) None) | _ => Err end))
            | ETagPlain l => bind (eval en l) (fun x => Val (VTag x None None))
            | ETagTitle t ti => bind (eval en t) (fun x => bind (eval en ti) (fun y =>
                           match x with VTag l h _ => Val (VTag l h (Some y)) | _ => Err end))
            | ETagLabel t l => bind (eval en t) (fun x => bind (eval en l) (fun y =>
                           match x with VTag _ h ti => Val (VTag y h ti) | _ => Err end))
            | ECond c a b => bind (eval en c) (fun x => if truthy x then eval en a else eval en b)
            | ELen a => bind (eval en a) (fun x => match x with VStr t => Val (VInt (length t)) | _ => Err end)
            | EAddI a b => bind (eval en a) (fun x => bind (eval en b) (fun y =>
                           match x, y with VInt u, VInt w => Val (VInt (u + w)) | _, _ => Err end))
            | ESlice a lo hi =>
                bind (eval en a) (fun x =>
                bind (match lo with Some l => eval en l | None => Val (VInt 0) end) (fun l =>
                bind (match hi with Some h => eval en h | None => Val VNone end) (fun h =>
                  match x, l, h with
                  | VStr t, VInt i, VInt j => Val (VStr (slice t i (Some j)))
                  | VStr t, VInt i, VNone => Val (VStr (slice t i None))
                  | _, _, _ => Err
                  end)))
            | EChain a => bind (eval en a) (fun v => match v with
                           | VObj i => match get r i with
                                       | Some _ => Val (VList (map VObj (chain_up (fuel_of r) r i)))
                                       | None => Err end
                           | _ => Err end)
            end in
      let exec :=
          fix exec (en : env) (s : istmt) {struct s} : sres :=
            match s with
            | SSkip | SLog => SNorm en
            | SSeq a b => match exec en a with SNorm en' => exec en' b | x => x end
            | SAssign x e => match eval en e with Val v => SNorm (setv en x v) | Err => SErr | OutOfFuel => SFuel end
            | SIf e a b => match eval en e with
                           | Val v => if truthy v then exec en a else exec en b
                           | Err => SErr | OutOfFuel => SFuel end
            | SReturn e => match eval en e with Val v => SRet v | Err => SErr | OutOfFuel => SFuel end
            | SAssert e => match eval en e with
                           | Val v => if truthy v then SNorm en else SErr        (* AssertionError *)
                           | Err => SErr | OutOfFuel => SFuel end
            | SFor x e body => match eval en e with
                           | Val (VList l) => for_loop (fun v en' => exec (setv en' x v) body) l en
                           | Val _ => SErr
                           | Err => SErr | OutOfFuel => SFuel end
            end in
      match exec args (code f) with
      | SRet v => Val v
      | SNorm _ => Val VNone
      | SErr => Err
      | SFuel => OutOfFuel
      end
    end.

  (* o.privacyClass as an attribute access from outside *)
  Definition run_privacy (fuel : nat) (i : nat) : result := run_fn fuel (privacy_impl i) i env0.
End Interp.

(* the parameters of taglink(o, page_url, label): local variables 0 and 1 *)
Definition taglink_args (page_url : text) (label : ival) : env := setv (setv env0 0 (VStr page_url)) 1 label.
