(* Model/FieldsIR.v -- a small deep-embedded language, large enough for the bodies of
   pydoctor/epydoc2stan.py : FieldHandler._report_unexpected_argument, _handle_param_name, _handle_param_not_found,
   every handle_<tag> method, handleUnknownField and resolve_types, and its interpreter.  Gen/FieldsCode.v (written by
   harness/gen/gen_c09_code.py on every run, fail-closed) holds those bodies translated statement by statement from
   the CURRENT source; Proofs/FieldsIRProofs.v proves that interpreting them is the hand-written Model/Fields.v.
   Definitions only.

   The heap is the record Model.Fields.state (one field per attribute of FieldHandler); attribute reads and writes go
   through the conversions below (a value that does not fit the attribute makes the program Stuck -- the theorem
   excludes it).  field.report(msg) appends (index of the field, msg) to a separate list of messages.

   What is primitive (not translated), each a stated assumption:
     field.format()                      the stan of the body of the current field: the Tag "body i"
     self._linker.link_to(n, n)          a Tag that shows n
     tags.span(class_='undocumented')("Unknown exception")
     str.lstrip('*'), %-formatting / f-strings of str, str == str (VariableArgument / KeywordArgument compare as str)
     isinstance(self.obj | field.source, model.X), None in source.baseobjects, name in source.constructor_params,
     field.source.annotations / .constructor_params (their keys), _get_docformat(self.obj) in ('google', 'numpy')
     field.source is self.obj            (the docstring is not inherited: both are the value VTheObj)
     attrs classes ReturnDesc / FieldDesc / ParamDesc / KeywordDesc / RaisesDesc / ParamType: records of 4 attributes
     dict / list / defaultdict(list) operations on the attributes of self
   and for resolve_types:
     {param.name: param for param in self.parameter_descs}   Model.Fields.params_dict: a later description of the same
                                         name replaces the value, the key object and its position stay
     enumerate(self.types.items()), dict.pop(k) / KeyError, dict.values(), list.append / += / remove (== of attrs classes)
     isinstance(x, KeywordArgument), isinstance(p, KeywordDesc), self.obj.kind is DocumentableKind.METHOD / CLASS_METHOD
     _SignatureDesc.is_documented (pinned by the translator: body or type_origin is FROM_DOCSTRING)
     descriptions are VALUES: `param.type = ..` on a description popped from `params` is not seen through the old
       self.parameter_descs -- sound here because that list is replaced whenever `params` was not empty (any_info);
       sampled by the fields_ir leg of the correspondence check
     `x if c else y` is hoisted by the translator into an assignment to a fresh local under `if c`
     next((d for d in reversed(l) if c), None)   SFindLast: the last element of l that satisfies c, else None; the variable
                                         of the generator is visible only while c is evaluated
     any(c for d in l)                   SAnyIn: the elements are tried in order until one satisfies c *)
From Coq Require Import ZArith NArith List Bool Arith.
From PydoctorVerif Require Import Base.Sexp Model.FieldTypes Gen.TablesC09 Model.Fields.
Import ListNotations.

Inductive cls := KReturnDesc | KFieldDesc | KParamDesc | KKeywordDesc | KRaisesDesc | KParamType.
Inductive objclass := OCFunction | OCClass | OCAttribute.

Inductive val :=
| VNone
| VBool (b : bool)
| VName (n : pname)            (* a str (pn_star = SNone) or a key of annotations: VariableArgument / KeywordArgument *)
| VStan (t : tyref)            (* a Tag *)
| VDoc (i : nat)               (* field.body, a ParsedDocstring *)
| VField (i : nat)             (* the Field *)
| VOrigin (o : origin)
| VTheObj                      (* self.obj and field.source *)
| VObj (c : cls) (name typ body org : val)
| VList (l : list val)
| VInt (n : nat)
| VDict (d : list (pname * val)).   (* a dict keyed by parameter names (keys compare by their text) *)

(* the attributes of self *)
Inductive sattr := AReturn | AYields | ATypes | AParams | ARaises | AWarns | ASeeAlsos | ANotes | AAuthors | ASinces | AUnknowns.
(* the attributes of the attrs classes: name, type (ParamType: stan), body, type_origin (ParamType: origin) *)
Inductive ofld := FName | FType | FBody | FOrigin.

Definition var := nat.

Inductive expr :=
| ENone | EStr (t : text) | EVar (x : var)
| EArg | ETag | EFormat | EBody | EFieldObj | ETheObj       (* field.arg, field.tag, field.format(), field.body, field, self.obj / field.source *)
| ESelf (a : sattr)
| ECtor (c : cls) (name typ body org : expr)
| EOriginDoc                     (* FieldOrigin.FROM_DOCSTRING *)
| ELink (e : expr)               (* self._linker.link_to(e, e) *)
| EUnknownExc                    (* tags.span(class_='undocumented')("Unknown exception") *)
| ELstrip (e : expr)             (* e.lstrip('*') *)
| EConcat (l : list expr)        (* %-format / f-string / + on str *)
| ESigNames | ECtorNames         (* field.source.annotations / field.source.constructor_params (their keys) *)
| EBool (b : bool) | EInt (n : nat) | EEmptyList
| EFld (e : expr) (fl : ofld)    (* e.name / e.type / e.body / e.type_origin;  ParamType: e.stan / e.origin *)
| EParamsByName                  (* {param.name: param for param in self.parameter_descs} *)
| EValues (e : expr).            (* e.values() *)

Inductive cond :=
| CTruthy (e : expr) | CNot (c : cond) | CAnd (a b : cond) | COr (a b : cond)
| CIsNone (e : expr) | CIsNotNone (e : expr) | CEq (a b : expr) | CIsNot (a b : expr)
| CInTypes (e : expr)            (* e in self.types *)
| CAnyNamed (e : expr)           (* any(desc.name == e for desc in self.parameter_descs) *)
| CAnyKwKey                      (* any(isinstance(n, KeywordArgument) for n in self.types) *)
| CIsInstance (e : expr) (k : objclass)
| CNoneInBases                   (* None in source.baseobjects *)
| CInCtor (e : expr)             (* e in source.constructor_params *)
| CDocformatGN                   (* _get_docformat(self.obj) in ('google', 'numpy') *)
| CIsKwName (e : expr)           (* isinstance(e, KeywordArgument) *)
| CIsCls (e : expr) (c : cls)    (* isinstance(e, KeywordDesc) *)
| CKindIs (k : fkind)            (* self.obj.kind is model.DocumentableKind.METHOD / CLASS_METHOD *)
| CIsDocumented (e : expr).      (* e.is_documented() *)

Inductive meth := MUnexpectedArg | MParamName | MParamNotFound.

Inductive stmt :=
| SPass
| SSeq (a b : stmt)
| SAssign (x : var) (e : expr)
| SAssignCall (x : var) (m : meth) (args : list expr)     (* x = self.m(...) *)
| SCall (m : meth) (args : list expr)
| SSetSelf (a : sattr) (e : expr)                          (* self.a = e *)
| SSetSelfFld (a : sattr) (fl : ofld) (e : expr)           (* self.a.fl = e *)
| SAppend (a : sattr) (e : expr)                           (* self.a.append(e) *)
| SSetItem (a : sattr) (k e : expr)                        (* self.a[k] = e *)
| SDictAppend (a : sattr) (k e : expr)                     (* self.a[k].append(e)   (defaultdict(list)) *)
| SSetParsedType (e : expr)                                (* self.obj.parsed_type = e *)
| SReport (e : expr)                                       (* field.report(e) *)
| SIf (c : cond) (th el : stmt)
| SReturn (e : expr)
| SFor (x : var) (e : expr) (body : stmt)                  (* for x[, _] in e[.items()]: body *)
| SForEnumItems (i k v : var) (a : sattr) (body : stmt)    (* for i, (k, v) in enumerate(self.a.items()): body *)
| SContinue
| STryPop (x d : var) (k : expr) (handler els : stmt)      (* try: x = d.pop(k)  except KeyError: handler  else: els *)
| SSetVarFld (x : var) (fl : ofld) (e : expr)              (* x.fl = e *)
| SVarAppend (x : var) (e : expr)                          (* x.append(e) *)
| SVarExtend (x : var) (e : expr)                          (* x += e   (lists) *)
| SRemove (a : sattr) (e : expr)                           (* self.a.remove(e) *)
| SFindLast (x tgt : var) (l : expr) (c : cond)            (* tgt = next((x for x in reversed(l) if c), None) *)
| SAnyIn (x tgt : var) (l : expr) (c : cond).              (* tgt = any(c for x in l) *)

(* ---- values <-> the attributes of the model ------------------------------------------------------------------------- *)
Definition to_body (v : val) : option (option nat) :=
  match v with VNone => Some None | VStan (TyField i) => Some (Some i) | _ => None end.
Definition to_ty (v : val) : option (option tyref) :=
  match v with VNone => Some None | VStan t => Some (Some t) | _ => None end.
Definition to_origin (v : val) : option (option origin) :=
  match v with VNone => Some None | VOrigin o => Some (Some o) | _ => None end.
Definition to_pname (v : val) : option pname :=
  match v with VName n => Some n | _ => None end.
Definition to_text' (v : val) : option text :=
  match v with VName n => Some (pn_text n) | _ => None end.
Definition vstr (t : text) : val := VName {| pn_text := t; pn_star := SNone |}.

Definition of_body (o : option nat) : val := match o with Some i => VStan (TyField i) | None => VNone end.
Definition of_ty (o : option tyref) : val := match o with Some t => VStan t | None => VNone end.
Definition of_origin (o : option origin) : val := match o with Some t => VOrigin t | None => VNone end.

Definition val_of_rdesc (r : rdesc) : val := VObj KReturnDesc VNone (of_ty (r_type r)) (of_body (r_body r)) (of_origin (r_origin r)).
Definition val_of_ydesc (y : ydesc) : val := VObj KFieldDesc VNone (of_ty (y_type y)) (of_body (y_body y)) VNone.

Definition rdesc_of (v : val) : option rdesc :=
  match v with
  | VObj KReturnDesc VNone ty body org =>
    match to_ty ty, to_body body, to_origin org with
    | Some t, Some b, Some o => Some {| r_type := t; r_body := b; r_origin := o |}
    | _, _, _ => None
    end
  | _ => None
  end.
Definition ydesc_of (v : val) : option ydesc :=
  match v with
  | VObj KFieldDesc VNone ty body VNone =>
    match to_ty ty, to_body body with
    | Some t, Some b => Some {| y_type := t; y_body := b |}
    | _, _ => None
    end
  | _ => None
  end.
Definition pdesc_of (v : val) : option pdesc :=
  match v with
  | VObj c name ty body org =>
    match c, to_pname name, to_ty ty, to_body body, to_origin org with
    | KParamDesc, Some n, Some t, Some b, Some o => Some {| pd_name := n; pd_kw := false; pd_body := b; pd_type := t; pd_origin := o |}
    | KKeywordDesc, Some n, Some t, Some b, Some o => Some {| pd_name := n; pd_kw := true; pd_body := b; pd_type := t; pd_origin := o |}
    | _, _, _, _, _ => None
    end
  | _ => None
  end.

Definition val_of_pdesc (p : pdesc) : val :=
  VObj (if pd_kw p then KKeywordDesc else KParamDesc) (VName (pd_name p)) (of_ty (pd_type p)) (of_body (pd_body p)) (of_origin (pd_origin p)).
(* a value of self.types: ParamType(stan, origin) or None *)
Definition val_of_ptype (o : option (tyref * origin)) : val :=
  match o with Some (t, og) => VObj KParamType VNone (VStan t) VNone (VOrigin og) | None => VNone end.
Fixpoint pdescs_of (l : list val) : option (list pdesc) :=
  match l with
  | [] => Some []
  | v :: l' => match pdesc_of v, pdescs_of l' with Some p, Some r => Some (p :: r) | _, _ => None end
  end.
Definition get_fld (fl : ofld) (v : val) : option val :=
  match v with
  | VObj _ name ty body org => Some match fl with FName => name | FType => ty | FBody => body | FOrigin => org end
  | _ => None
  end.

Definition set_fld (fl : ofld) (x : val) (v : val) : option val :=
  match v with
  | VObj c name ty body org =>
    Some match fl with
         | FName => VObj c x ty body org
         | FType => VObj c name x body org
         | FBody => VObj c name ty x org
         | FOrigin => VObj c name ty body x
         end
  | _ => None
  end.

Definition truthy (v : val) : bool :=
  match v with
  | VNone => false
  | VBool b => b
  | VName n => match pn_text n with [] => false | _ => true end
  | VList l => match l with [] => false | _ => true end
  | VDict d => match d with [] => false | _ => true end
  | VInt n => negb (Nat.eqb n 0)
  | _ => true
  end.

Definition is_none (v : val) : bool := match v with VNone => true | _ => false end.

(* == on what the bodies compare: str-like values by their text, None with None *)
Definition val_eqb (a b : val) : bool :=
  match to_text' a, to_text' b with
  | Some x, Some y => text_eqb x y
  | _, _ => match a, b with VNone, VNone => true | VInt x, VInt y => Nat.eqb x y | _, _ => false end
  end.

(* `is not`: the bodies only use it between field.source and self.obj *)
Definition val_is (a b : val) : bool :=
  match a, b with VTheObj, VTheObj => true | VNone, VNone => true | _, _ => false end.

Record mstate := { ms_st : state; ms_msgs : list (nat * text) }.

Inductive result := RNormal (loc : var -> val) (ms : mstate) | RReturn (v : val) (ms : mstate) | RContinue (loc : var -> val) (ms : mstate) | RStuck.

Definition loc0 : var -> val := fun _ => VNone.
Definition setv (loc : var -> val) (x : var) (v : val) : var -> val := fun y => if Nat.eqb x y then v else loc y.

(* for x in l: body *)
Fixpoint for_loop (run : (var -> val) -> mstate -> result) (x : var) (l : list val) (loc : var -> val) (ms : mstate) : result :=
  match l with
  | [] => RNormal loc ms
  | v :: l' => match run (setv loc x v) ms with
               | RNormal loc1 ms1 | RContinue loc1 ms1 => for_loop run x l' loc1 ms1
               | r => r
               end
  end.

(* for i, (k, v) in enumerate(items): body *)
Fixpoint for_enum (run : (var -> val) -> mstate -> result) (i k v : var) (n : nat) (l : list (val * val))
         (loc : var -> val) (ms : mstate) : result :=
  match l with
  | [] => RNormal loc ms
  | (a, b) :: l' => match run (setv (setv (setv loc i (VInt n)) k a) v b) ms with
                    | RNormal loc1 ms1 | RContinue loc1 ms1 => for_enum run i k v (S n) l' loc1 ms1
                    | r => r
                    end
  end.

Definition cls_eqb (a b : cls) : bool :=
  match a, b with
  | KReturnDesc, KReturnDesc | KFieldDesc, KFieldDesc | KParamDesc, KParamDesc | KKeywordDesc, KKeywordDesc
  | KRaisesDesc, KRaisesDesc | KParamType, KParamType => true
  | _, _ => false
  end.
Definition fkind_eqb (a b : fkind) : bool :=
  match a, b with
  | FFunction, FFunction | FMethod, FMethod | FClassMethod, FClassMethod | FStaticMethod, FStaticMethod => true
  | _, _ => false
  end.

Section Exec.
  Variable E : env.
  Variable idx : nat.          (* position of the current field *)
  Variable fld : field.
  Variable call_sem : meth -> list val -> mstate -> option (val * mstate).

  Fixpoint eval (loc : var -> val) (st : state) (e : expr) : option val :=
    match e with
    | ENone => Some VNone
    | EStr t => Some (vstr t)
    | EVar x => Some (loc x)
    | EArg => Some (match f_arg fld with Some a => vstr a | None => VNone end)
    | ETag => Some (vstr (f_tag fld))
    | EFormat => Some (VStan (TyField idx))
    | EBody => Some (VDoc idx)
    | EFieldObj => Some (VField idx)
    | ETheObj => Some VTheObj
    | ESelf AReturn => Some (match st_ret st with Some r => val_of_rdesc r | None => VNone end)
    | ESelf AYields => Some (match st_yld st with Some y => val_of_ydesc y | None => VNone end)
    | ESelf AParams => Some (VList (map val_of_pdesc (st_pdescs st)))
    | ESelf _ => None
    | ECtor c n t b o =>
      match eval loc st n, eval loc st t, eval loc st b, eval loc st o with
      | Some n', Some t', Some b', Some o' => Some (VObj c n' t' b' o')
      | _, _, _, _ => None
      end
    | EOriginDoc => Some (VOrigin FromDoc)
    | ELink e1 => match eval loc st e1 with
                  | Some v => match to_text' v with Some t => Some (VStan (TyLink t)) | None => None end
                  | None => None
                  end
    | EUnknownExc => Some (VStan TyUnknownExc)
    | ELstrip e1 => match eval loc st e1 with
                    | Some (VName n) => Some (vstr (lstrip_star (pn_text n)))
                    | _ => None
                    end
    | EConcat l =>
      match (fix go (l : list expr) : option text :=
               match l with
               | [] => Some []
               | e1 :: l' => match eval loc st e1, go l' with
                             | Some v, Some r => match to_text' v with Some t => Some (t ++ r) | None => None end
                             | _, _ => None
                             end
               end) l with
      | Some t => Some (vstr t)
      | None => None
      end
    | ESigNames => Some (VList (map VName (map fst (e_sig E))))
    | ECtorNames => Some (VList (map VName (e_ctor E)))
    | EBool b => Some (VBool b)
    | EInt n => Some (VInt n)
    | EEmptyList => Some (VList [])
    | EFld e1 fl => match eval loc st e1 with Some v => get_fld fl v | None => None end
    | EParamsByName => Some (VDict (map (fun e => (fst e, val_of_pdesc (snd e))) (params_dict (st_pdescs st))))
    | EValues e1 => match eval loc st e1 with Some (VDict d) => Some (VList (map snd d)) | _ => None end
    end.

  Definition obj_is (k : objclass) : bool :=
    match k, e_obj E with
    | OCFunction, OFunction _ | OCClass, OClass | OCAttribute, OAttribute => true
    | _, _ => false
    end.

  Fixpoint evalc (loc : var -> val) (st : state) (c : cond) : option bool :=
    match c with
    | CTruthy e => option_map truthy (eval loc st e)
    | CNot c1 => option_map negb (evalc loc st c1)
    | CAnd a b => match evalc loc st a with
                  | Some true => evalc loc st b
                  | Some false => Some false
                  | None => None
                  end
    | COr a b => match evalc loc st a with
                 | Some true => Some true
                 | Some false => evalc loc st b
                 | None => None
                 end
    | CIsNone e => option_map is_none (eval loc st e)
    | CIsNotNone e => option_map (fun v => negb (is_none v)) (eval loc st e)
    | CEq a b => match eval loc st a, eval loc st b with Some x, Some y => Some (val_eqb x y) | _, _ => None end
    | CIsNot a b => match eval loc st a, eval loc st b with Some x, Some y => Some (negb (val_is x y)) | _, _ => None end
    | CInTypes e => match eval loc st e with
                    | Some v => match to_text' v with Some t => Some (has_key t (st_types st)) | None => None end
                    | None => None
                    end
    | CAnyNamed e => match eval loc st e with
                     | Some v => match to_text' v with Some t => Some (pdesc_named t st) | None => None end
                     | None => None
                     end
    | CAnyKwKey => Some (existsb (fun e => match pn_star (fst e) with SKw => true | _ => false end) (st_types st))
    | CIsInstance e k => match eval loc st e with Some VTheObj => Some (obj_is k) | _ => None end
    | CNoneInBases => Some (e_unknown_base E)
    | CInCtor e => match eval loc st e with
                   | Some v => match to_text' v with
                               | Some t => Some (existsb (fun p => text_eqb (pn_text p) t) (e_ctor E))
                               | None => None
                               end
                   | None => None
                   end
    | CDocformatGN => Some (e_gn E)
    | CIsKwName e => match eval loc st e with
                     | Some (VName n) => Some (match pn_star n with SKw => true | _ => false end)
                     | _ => None
                     end
    | CIsCls e c => match eval loc st e with Some (VObj c' _ _ _ _) => Some (cls_eqb c' c) | _ => None end
    | CKindIs k => Some (match e_obj E with OFunction k' => fkind_eqb k' k | _ => false end)
    | CIsDocumented e => match eval loc st e with
                         | Some v => option_map pdesc_documented (pdesc_of v)
                         | None => None
                         end
    end.

  (* the first element of vs that satisfies c (None: the condition cannot be evaluated) *)
  Fixpoint find_first (loc : var -> val) (st : state) (x : var) (c : cond) (vs : list val) : option val :=
    match vs with
    | [] => Some VNone
    | v :: r => match evalc (setv loc x v) st c with
                | Some true => Some v
                | Some false => find_first loc st x c r
                | None => None
                end
    end.
  Fixpoint any_in (loc : var -> val) (st : state) (x : var) (c : cond) (vs : list val) : option bool :=
    match vs with
    | [] => Some false
    | v :: r => match evalc (setv loc x v) st c with
                | Some true => Some true
                | Some false => any_in loc st x c r
                | None => None
                end
    end.

  Definition upd (ms : mstate) (st : state) : mstate := {| ms_st := st; ms_msgs := ms_msgs ms |}.

  Fixpoint evals (loc : var -> val) (st : state) (l : list expr) : option (list val) :=
    match l with
    | [] => Some []
    | e :: l' => match eval loc st e, evals loc st l' with Some v, Some r => Some (v :: r) | _, _ => None end
    end.

  Fixpoint exec (s : stmt) (loc : var -> val) (ms : mstate) : result :=
    let st := ms_st ms in
    match s with
    | SPass => RNormal loc ms
    | SSeq a b => match exec a loc ms with
                  | RNormal loc1 ms1 => exec b loc1 ms1
                  | r => r
                  end
    | SAssign x e => match eval loc st e with Some v => RNormal (setv loc x v) ms | None => RStuck end
    | SAssignCall x m args =>
      match evals loc st args with
      | Some vs => match call_sem m vs ms with
                   | Some (v, ms1) => RNormal (setv loc x v) ms1
                   | None => RStuck
                   end
      | None => RStuck
      end
    | SCall m args =>
      match evals loc st args with
      | Some vs => match call_sem m vs ms with
                   | Some (_, ms1) => RNormal loc ms1
                   | None => RStuck
                   end
      | None => RStuck
      end
    | SSetSelf a e =>
      match eval loc st e, a with
      | Some v, AReturn => match rdesc_of v with Some r => RNormal loc (upd ms (set_ret (Some r) st)) | None => RStuck end
      | Some v, AYields => match ydesc_of v with Some y => RNormal loc (upd ms (set_yld (Some y) st)) | None => RStuck end
      | Some (VList l), AParams => match pdescs_of l with Some ds => RNormal loc (upd ms (set_pdescs ds st)) | None => RStuck end
      | _, _ => RStuck
      end
    | SSetSelfFld a fl e =>
      match eval loc st e, a with
      | Some v, AReturn =>
        match st_ret st with
        | Some r => match set_fld fl v (val_of_rdesc r) with
                    | Some o => match rdesc_of o with Some r' => RNormal loc (upd ms (set_ret (Some r') st)) | None => RStuck end
                    | None => RStuck
                    end
        | None => RStuck                                    (* AttributeError on None *)
        end
      | Some v, AYields =>
        match st_yld st with
        | Some y => match set_fld fl v (val_of_ydesc y) with
                    | Some o => match ydesc_of o with Some y' => RNormal loc (upd ms (set_yld (Some y') st)) | None => RStuck end
                    | None => RStuck
                    end
        | None => RStuck
        end
      | _, _ => RStuck
      end
    | SAppend a e =>
      match eval loc st e, a with
      | Some v, AParams => match pdesc_of v with Some p => RNormal loc (upd ms (set_pdescs (st_pdescs st ++ [p]) st)) | None => RStuck end
      | Some (VObj KRaisesDesc VNone (VStan t) (VStan (TyField b)) VNone), ARaises =>
        RNormal loc (upd ms (set_raises (st_raises st ++ [(t, b)]) st))
      | Some (VObj KFieldDesc VNone t (VStan (TyField b)) VNone), AWarns =>
        match to_ty t with Some t' => RNormal loc (upd ms (set_warns (st_warns st ++ [(t', b)]) st)) | None => RStuck end
      | Some (VField i), ASeeAlsos => RNormal loc (upd ms (set_seealsos (st_seealsos st ++ [i]) st))
      | Some (VField i), ANotes => RNormal loc (upd ms (set_notes (st_notes st ++ [i]) st))
      | Some (VField i), AAuthors => RNormal loc (upd ms (set_authors (st_authors st ++ [i]) st))
      | Some (VField i), ASinces => RNormal loc (upd ms (set_sinces (st_sinces st ++ [i]) st))
      | _, _ => RStuck
      end
    | SSetItem a k e =>
      match a, eval loc st k, eval loc st e with
      | ATypes, Some kv, Some (VObj KParamType VNone (VStan t) VNone (VOrigin o)) =>
        match to_pname kv with
        | Some n => RNormal loc (upd ms (set_types (dict_set n (Some (t, o)) (st_types st)) st))
        | None => RStuck
        end
      | _, _, _ => RStuck
      end
    | SDictAppend a k e =>
      match a, eval loc st k, eval loc st e with
      | AUnknowns, Some (VName tag), Some (VObj KFieldDesc name VNone (VStan (TyField b)) VNone) =>
        match name with
        | VNone => RNormal loc (upd ms (set_unknowns (unknowns_add (pn_text tag) (None, b) (st_unknowns st)) st))
        | VName a' => RNormal loc (upd ms (set_unknowns (unknowns_add (pn_text tag) (Some (pn_text a'), b) (st_unknowns st)) st))
        | _ => RStuck
        end
      | _, _, _ => RStuck
      end
    | SSetParsedType e =>
      match eval loc st e with
      | Some (VDoc i) => RNormal loc (upd ms (set_attr_type (Some i) st))
      | _ => RStuck
      end
    | SReport e =>
      match eval loc st e with
      | Some (VName n) => RNormal loc {| ms_st := st; ms_msgs := ms_msgs ms ++ [(idx, pn_text n)] |}
      | _ => RStuck
      end
    | SIf c th el => match evalc loc st c with
                     | Some true => exec th loc ms
                     | Some false => exec el loc ms
                     | None => RStuck
                     end
    | SReturn e => match eval loc st e with Some v => RReturn v ms | None => RStuck end
    | SFor x e body =>
      match eval loc st e with
      | Some (VList l) => for_loop (exec body) x l loc ms
      | _ => RStuck
      end
    | SForEnumItems i k v a body =>
      match a with
      | ATypes => for_enum (exec body) i k v 0 (map (fun e => (VName (fst e), val_of_ptype (snd e))) (st_types st)) loc ms
      | _ => RStuck
      end
    | SContinue => RContinue loc ms
    | STryPop x d k handler els =>
      match loc d, eval loc st k with
      | VDict dd, Some kv =>
        match to_text' kv with
        | Some t => match dict_pop t dd with
                    | Some (v, dd') => exec els (setv (setv loc d (VDict dd')) x v) ms
                    | None => exec handler loc ms
                    end
        | None => RStuck
        end
      | _, _ => RStuck
      end
    | SSetVarFld x fl e =>
      match eval loc st e with
      | Some v => match set_fld fl v (loc x) with Some o => RNormal (setv loc x o) ms | None => RStuck end
      | None => RStuck
      end
    | SVarAppend x e =>
      match loc x, eval loc st e with
      | VList l, Some v => RNormal (setv loc x (VList (l ++ [v]))) ms
      | _, _ => RStuck
      end
    | SVarExtend x e =>
      match loc x, eval loc st e with
      | VList l, Some (VList l2) => RNormal (setv loc x (VList (l ++ l2))) ms
      | _, _ => RStuck
      end
    | SRemove a e =>
      match a, eval loc st e with
      | AParams, Some v => match pdesc_of v with
                           | Some p => RNormal loc (upd ms (set_pdescs (remove_first p (st_pdescs st)) st))
                           | None => RStuck
                           end
      | _, _ => RStuck
      end
    | SFindLast x tgt l c =>
      match eval loc st l with
      | Some (VList vs) => match find_first loc st x c (rev vs) with
                           | Some v => RNormal (setv loc tgt v) ms
                           | None => RStuck
                           end
      | _ => RStuck
      end
    | SAnyIn x tgt l c =>
      match eval loc st l with
      | Some (VList vs) => match any_in loc st x c vs with
                           | Some b => RNormal (setv loc tgt (VBool b)) ms
                           | None => RStuck
                           end
      | _ => RStuck
      end
    end.
End Exec.

(* ---- the translated class ------------------------------------------------------------------------------------------------ *)
Record fcode := {
  c_unexpected : stmt;                       (* _report_unexpected_argument(field) *)
  c_param_name : stmt;                       (* _handle_param_name(field) *)
  c_not_found : stmt; c_not_found_name : var; (* _handle_param_not_found(name, field): the local that holds `name` *)
  c_handler : handler -> stmt;               (* the function each handle_<tag> attribute is bound to *)
  c_unknown : stmt;                          (* handleUnknownField(field) *)
  c_resolve : stmt                           (* resolve_types() *)
}.

(* what a method call yields: its return value (None when it falls off the end) and the state *)
Definition finish (r : result) : option (val * mstate) :=
  match r with
  | RNormal _ ms => Some (VNone, ms)
  | RReturn v ms => Some (v, ms)
  | RContinue _ _ => None          (* `continue` outside a loop *)
  | RStuck => None
  end.

Section Run.
  Variable C : fcode.
  Variable E : env.
  Variable idx : nat.
  Variable fld : field.

  (* the helpers call nothing of self *)
  Definition call0 : meth -> list val -> mstate -> option (val * mstate) := fun _ _ _ => None.

  Definition call1 (m : meth) (args : list val) (ms : mstate) : option (val * mstate) :=
    match m, args with
    | MUnexpectedArg, [VField _] => finish (exec E idx fld call0 (c_unexpected C) loc0 ms)
    | MParamName, [VField _] => finish (exec E idx fld call0 (c_param_name C) loc0 ms)
    | MParamNotFound, [n; VField _] => finish (exec E idx fld call0 (c_not_found C) (setv loc0 (c_not_found_name C) n) ms)
    | _, _ => None
    end.

  (* FieldHandler.handle: getattr(self, 'handle_' + field.tag, self.handleUnknownField)(field) *)
  Definition handle_ir (ms : mstate) : option mstate :=
    let body := match lookup_handler (f_tag fld) handler_table with
                | Some h => c_handler C h
                | None => c_unknown C
                end in
    match finish (exec E idx fld call1 body loc0 ms) with
    | Some (_, ms') => Some ms'
    | None => None
    end.
End Run.

(* for field in fields: fh.handle(field) *)
Fixpoint handle_all_ir (C : fcode) (E : env) (i : nat) (fs : list field) (ms : mstate) : option mstate :=
  match fs with
  | [] => Some ms
  | f :: fs' => match handle_ir C E i f ms with
                | Some ms' => handle_all_ir C E (S i) fs' ms'
                | None => None
                end
  end.

(* fh.resolve_types(): it calls nothing of self and reads no field *)
Definition resolve_ir (C : fcode) (E : env) (ms : mstate) : option mstate :=
  match finish (exec E 0 {| f_tag := []; f_arg := None |} call0 (c_resolve C) loc0 ms) with
  | Some (_, ms') => Some ms'
  | None => None
  end.

(* format_docstring's use of FieldHandler, on the translated code: handle every field, then resolve_types for a function *)
Definition final_ir (C : fcode) (E : env) (fs : list field) : option mstate :=
  match handle_all_ir C E 0 fs {| ms_st := init_state E; ms_msgs := [] |} with
  | Some ms => match e_obj E with
               | OFunction _ => resolve_ir C E ms
               | _ => Some ms
               end
  | None => None
  end.
