(* Model/Barrier.v -- exception skeletons of pydoctor's barrier functions (regenerated into
   Gen/Skeleton.v by harness/gen/gen_skeleton.py) and the static escape analysis run on them.
   Definitions only; the big-step semantics and the soundness proof are in Proofs/BarrierProofs.v. *)
From Coq Require Import NArith List Bool.
Import ListNotations.

Inductive sk : Type :=
| SCall (id : N)                                   (* designated risky call; may raise per the oracle contract *)
| SRaise (c : N)                                   (* raise C(...) *)
| SReraise                                         (* bare raise inside a handler *)
| STry (body : list sk) (handlers : list (list N * list sk)) (orelse final : list sk)
| SBranch (blocks : list (list sk)).               (* if/else, loop bodies (0 or 1 iteration), with-bodies *)

Section Analysis.
  Variable ancestors_table : list (N * list N).
  Variable allowed_table : list (N * list N).

  Fixpoint assoc (k : N) (t : list (N * list N)) : list N :=
    match t with
    | [] => []
    | (k', v) :: t' => if N.eqb k' k then v else assoc k t'
    end.

  Fixpoint memN (x : N) (l : list N) : bool :=
    match l with [] => false | y :: l' => N.eqb y x || memN x l' end.

  (* issubclass(c, b) *)
  Definition subclass (c b : N) : bool := N.eqb c b || memN b (assoc c ancestors_table).

  Definition allowed (id : N) : list N := assoc id allowed_table.

  (* does some handler catch every exception bounded by class b ? *)
  Definition caught (b : N) (hs : list (list N * list sk)) : bool :=
    existsb (fun h => existsb (subclass b) (fst h)) hs.

  (* upper bounds of the classes that may escape a statement, given bounds `curs` of the exception
     being handled (for a bare raise) *)
  Fixpoint esc (curs : list N) (s : sk) {struct s} : list N :=
    match s with
    | SCall id => allowed id
    | SRaise c => [c]
    | SReraise => curs
    | SBranch blks => flat_map (fun b => flat_map (esc curs) b) blks
    | STry body hs orelse fin =>
      let eb := flat_map (esc curs) body in
      filter (fun b => negb (caught b hs)) eb
      ++ flat_map (fun h => flat_map (esc eb) (snd h)) hs
      ++ flat_map (esc curs) orelse
      ++ flat_map (esc curs) fin
    end.

  Definition esc_block (curs : list N) (b : list sk) : list N := flat_map (esc curs) b.

  Definition total (b : list sk) : bool := match esc_block [] b with [] => true | _ => false end.

  (* table sanity used by the soundness proof: ancestor lists are transitively closed *)
  Definition closed_table : bool :=
    forallb (fun row => forallb (fun b => forallb (fun c => N.eqb c (fst row) || memN c (snd row))
                                                  (assoc b ancestors_table))
                                (snd row))
            ancestors_table.
  (* keys are unique, so `assoc` returns the row that `In` finds *)
  Fixpoint keys_unique (t : list (N * list N)) : bool :=
    match t with
    | [] => true
    | (k, _) :: t' => negb (existsb (fun r => N.eqb (fst r) k) t') && keys_unique t'
    end.
End Analysis.
