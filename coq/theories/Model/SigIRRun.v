(* Model/SigIRRun.v -- entry point for the extracted interpreter of the translated code (Gen/SigCode.v):
   input  (def)                         def as in Model/Sig.v
   output (annotations parameters)      annotations := ((key [value]) ...) in dict order, or (-1) if not a mapping
                                        parameters  := (param ...) as in Model/Sig.v, or (-1) if some produced value is
                                                       not an inspect parameter (VErr: failed assert, bad index, ...) *)
From Coq Require Import ZArith NArith List Bool.
From PydoctorVerif Require Import Base.Sexp Spec.SigStr Model.Sig Model.SigIR Gen.SigCode.
Import ListNotations.
Local Open Scope Z_scope.

Definition run (s : sexp) : sexp :=
  let d := to_def s in
  L [ match annotations_ir sig_code (VDef d) with
      | VDict m => L (map (fun kv => L [of_text (fst kv); of_option sexp_of_expr (snd kv)]) m)
      | _ => L [A (-1)]
      end;
      match all_params (parameters_ir sig_code d) with
      | Some ps => of_list of_param ps
      | None => L [A (-1)]
      end ].
