(* Model/Inventory.v -- pydoctor/sphinx.py : SphinxInventoryWriter (_generateHeader / _generateContent /
   _generateLine), SphinxInventory (update / _getPayload / _parseInventory / getLink), _parseInventoryLine;
   pydoctor/model.py : Documentable.url / fullName / isVisible as far as the writer uses them.
   Definitions only (no proofs) so that the model runs even when a proof breaks.

   Text is `list N` (code points), bytes are `list N` (0..255).  Exceptions are values (`outcome`).
   External calls are function arguments (oracles): Python's int() (`int_of`), zlib.decompress, bytes.decode('utf-8'),
   zlib.compress.  For int() a precise executable model `py_int` is given as well (CPython 3.12,
   base 10: whitespace strip, sign, digits of Unicode category Nd, single underscores, 4300 digit limit); it is the
   instance used by `run` and is validated against CPython by the harness on every run. *)
From Coq Require Import ZArith NArith List Bool.
From PydoctorVerif Require Import Base.Sexp.
Import ListNotations.
Local Open Scope N_scope.

(* ------------------------------------------------------------------ exceptions as values *)
Inductive exn := ValueError | IndexError | OutOfFuel.
Inductive outcome (X : Type) : Type := Ok (x : X) | Raise (e : exn).
Arguments Ok {X} x.
Arguments Raise {X} e.

(* ------------------------------------------------------------------ text helpers *)
Fixpoint text_eqb (a b : text) : bool :=
  match a, b with
  | [], [] => true
  | x :: a', y :: b' => N.eqb x y && text_eqb a' b'
  | _, _ => false
  end.

Definition is_empty (t : text) : bool := match t with [] => true | _ => false end.

(* str.split(c): always at least one piece; adjacent separators give empty pieces *)
Fixpoint split_on (c : N) (t : text) : list text :=
  match t with
  | [] => [[]]
  | x :: r =>
    if N.eqb x c then [] :: split_on c r
    else match split_on c r with
         | h :: tl => (x :: h) :: tl
         | [] => [[x]]
         end
  end.

(* sep.join(l) *)
Fixpoint join (sep : text) (l : list text) : text :=
  match l with
  | [] => []
  | [x] => x
  | x :: r => x ++ sep ++ join sep r
  end.

Definition SP : N := 32.
Definition sp : text := [SP].

(* l[i] for i >= 0 : raises IndexError when out of range *)
Definition get {X} (l : list X) (i : nat) : outcome X :=
  match nth_error l i with Some x => Ok x | None => Raise IndexError end.

(* s.split(c, 1): None when c does not occur (the result has one element), else (before, after) the FIRST c *)
Fixpoint split1 (c : N) (t : text) : option (text * text) :=
  match t with
  | [] => None
  | x :: r =>
    if N.eqb x c then Some ([], r)
    else match split1 c r with
         | Some (a, b) => Some (x :: a, b)
         | None => None
         end
  end.

(* s.rsplit(c, 1): None when c does not occur, else (before, after) the LAST c *)
Fixpoint rsplit1 (c : N) (t : text) : option (text * text) :=
  match t with
  | [] => None
  | x :: r =>
    match rsplit1 c r with
    | Some (a, b) => Some (x :: a, b)
    | None => if N.eqb x c then Some ([], r) else None
    end
  end.

Definition starts_with_char (c : N) (t : text) : bool :=
  match t with x :: _ => N.eqb x c | [] => false end.

Fixpoint starts_with (p t : text) : bool :=
  match p, t with
  | [], _ => true
  | x :: p', y :: t' => N.eqb x y && starts_with p' t'
  | _ :: _, [] => false
  end.

Definition ends_with_char (c : N) (t : text) : bool :=
  match rev t with x :: _ => N.eqb x c | [] => false end.

(* str.splitlines(): line boundaries \n \r \r\n \v \f \x1c \x1d \x1e \x85    , no trailing empty line *)
Definition is_linebreak (c : N) : bool :=
  N.eqb c 10 || N.eqb c 11 || N.eqb c 12 || N.eqb c 13 || N.eqb c 28 || N.eqb c 29 || N.eqb c 30 ||
  N.eqb c 133 || N.eqb c 8232 || N.eqb c 8233.

Fixpoint splitlines (t : text) : list text :=
  match t with
  | [] => []
  | c :: r =>
    if is_linebreak c then
      [] :: match r with
            | x :: r' => if N.eqb c 13 && N.eqb x 10 then splitlines r' else splitlines r
            | [] => []
            end
    else match splitlines r with
         | [] => [[c]]
         | h :: tl => (c :: h) :: tl
         end
  end.

(* ------------------------------------------------------------------ Python's int(str) for base 10 *)
(* Unicode 15.0 (CPython 3.12) decimal digits outside ASCII: blocks whose k-th member has value k mod 10 *)
Definition nd_ranges : list (N * N) :=
    [(1632, 1641); (1776, 1785); (1984, 1993); (2406, 2415); (2534, 2543); (2662, 2671);
     (2790, 2799); (2918, 2927); (3046, 3055); (3174, 3183); (3302, 3311); (3430, 3439);
     (3558, 3567); (3664, 3673); (3792, 3801); (3872, 3881); (4160, 4169); (4240, 4249);
     (6112, 6121); (6160, 6169); (6470, 6479); (6608, 6617); (6784, 6793); (6800, 6809);
     (6992, 7001); (7088, 7097); (7232, 7241); (7248, 7257); (42528, 42537); (43216, 43225);
     (43264, 43273); (43472, 43481); (43504, 43513); (43600, 43609); (44016, 44025);
     (65296, 65305); (66720, 66729); (68912, 68921); (69734, 69743); (69872, 69881);
     (69942, 69951); (70096, 70105); (70384, 70393); (70736, 70745); (70864, 70873);
     (71248, 71257); (71360, 71369); (71472, 71481); (71904, 71913); (72016, 72025);
     (72784, 72793); (73040, 73049); (73120, 73129); (73552, 73561); (92768, 92777);
     (92864, 92873); (93008, 93017); (120782, 120831); (123200, 123209); (123632, 123641);
     (124144, 124153); (125264, 125273); (130032, 130041)].

Fixpoint nd_lookup (rs : list (N * N)) (c : N) : option N :=
  match rs with
  | [] => None
  | (a, b) :: rs' => if N.leb a c && N.leb c b then Some (N.modulo (c - a) 10) else nd_lookup rs' c
  end.

Definition digit_val (c : N) : option N :=
  if N.leb 48 c && N.leb c 57 then Some (c - 48)
  else if N.ltb c 128 then None
  else nd_lookup nd_ranges c.

(* what int() strips: Py_ISSPACE for ASCII, Py_UNICODE_ISSPACE for code points >= 127 *)
Definition py_space (c : N) : bool :=
  (N.leb 9 c && N.leb c 13) || N.eqb c 32 || N.eqb c 133 || N.eqb c 160 || N.eqb c 5760 ||
  (N.leb 8192 c && N.leb c 8202) || N.eqb c 8232 || N.eqb c 8233 || N.eqb c 8239 || N.eqb c 8287 ||
  N.eqb c 12288.

Fixpoint lstrip (t : text) : text :=
  match t with
  | [] => []
  | c :: r => if py_space c then lstrip r else t
  end.

Fixpoint rstrip (t : text) : text :=
  match t with
  | [] => []
  | c :: r =>
    match rstrip r with
    | [] => if py_space c then [] else [c]
    | r' => c :: r'
    end
  end.

(* digits with single underscores allowed between digits only *)
Fixpoint digits_of (t : text) (last_was_digit : bool) : option (list N) :=
  match t with
  | [] => if last_was_digit then Some [] else None
  | c :: r =>
    match digit_val c with
    | Some d => match digits_of r true with Some ds => Some (d :: ds) | None => None end
    | None => if N.eqb c 95 && last_was_digit then digits_of r false else None
    end
  end.

Definition max_str_digits : N := 4300.

Definition py_int (t : text) : option Z :=
  let s := rstrip (lstrip t) in
  let '(neg, body) :=
    match s with
    | c :: r => if N.eqb c 45 then (true, r) else if N.eqb c 43 then (false, r) else (false, s)
    | [] => (false, s)
    end in
  match digits_of body false with
  | None => None
  | Some ds =>
    if N.ltb max_str_digits (N.of_nat (length ds)) then None
    else
      let v := fold_left (fun acc d => (acc * 10 + Z.of_N d)%Z) ds 0%Z in
      Some (if neg then (- v)%Z else v)
  end.

(* ------------------------------------------------------------------ _parseInventoryLine *)
Record columns := Cols { c_name : text; c_typ : text; c_prio : Z; c_loc : text; c_disp : text }.

Section Reader.
  Variable int_of : text -> option Z.   (* int(s): Some z, or None for ValueError *)

  (*  prio_idx = 2
      try:
          while True:
              try: prio = int(parts[prio_idx]); break
              except ValueError: prio_idx += 1
      except IndexError: raise ValueError
     the loop as it stands, parts[prio_idx] may raise IndexError, which leaves the loop *)
  Fixpoint find_prio (fuel : nat) (parts : list text) (idx : nat) : outcome (nat * Z) :=
    match fuel with
    | O => Raise OutOfFuel
    | S f =>
      match get parts idx with
      | Raise e => Raise e
      | Ok p =>
        match int_of p with
        | Some z => Ok (idx, z)
        | None => find_prio f parts (S idx)
        end
      end
    end.

  Definition find_prio_fuel (parts : list text) : nat := S (length parts).

  (* guarded = the code after the fix: commit 64d5e03 (parts[prio_idx + 1] inside try/except IndexError);
     not guarded = the pinned snapshot. prio_idx >= 2 so prio_idx - 1 >= 1 is never a negative index. *)
  Definition parse_line_gen (guarded : bool) (line : text) : outcome columns :=
    let parts := split_on SP line in
    match find_prio (find_prio_fuel parts) parts 2 with
    | Raise IndexError => Raise ValueError          (* "Could not find priority column" *)
    | Raise e => Raise e
    | Ok (prio_idx, prio) =>
      let name := join sp (firstn (prio_idx - 1) parts) in
      match get parts (prio_idx - 1) with
      | Raise e => Raise e
      | Ok typ =>
        match get parts (prio_idx + 1) with
        | Raise IndexError => if guarded then Raise ValueError else Raise IndexError
        | Raise e => Raise e
        | Ok location =>
          let display := join sp (skipn (prio_idx + 2) parts) in
          if is_empty display then Raise ValueError     (* "Display name column cannot be empty" *)
          else Ok (Cols name typ prio location display)
        end
      end
    end.

  Definition parse_line : text -> outcome columns := parse_line_gen true.
  Definition parse_line_old : text -> outcome columns := parse_line_gen false.

  (* -------------------------------------------------------------- dict[str, (str, str)] (insertion ordered) *)
  Definition dict := list (text * (text * text)).

  Fixpoint lookup (k : text) (d : dict) : option (text * text) :=
    match d with
    | [] => None
    | (k', v) :: d' => if text_eqb k k' then Some v else lookup k d'
    end.

  (* d[k] = v : an existing key keeps its position *)
  Fixpoint dict_set (k : text) (v : text * text) (d : dict) : dict :=
    match d with
    | [] => [(k, v)]
    | (k', v') :: d' => if text_eqb k k' then (k', v) :: d' else (k', v') :: dict_set k v d'
    end.

  Definition dict_update (d new : dict) : dict :=
    fold_left (fun acc kv => dict_set (fst kv) (snd kv) acc) new d.

  (* -------------------------------------------------------------- reports: self.error('sphinx', msg) *)
  Inductive report :=
  | RNoBase (url : text)              (* Failed to get remote base url for <url> *)
  | RNoData (url : text)              (* Failed to get object inventory from <url> *)
  | RUncompress (base : text)         (* Failed to uncompress inventory from <base> *)
  | RDecode (base : text)             (* Failed to decode inventory from <base> *)
  | RLine (line : text) (base : text) (* Failed to parse line "<line>" for <base> *).

  (* -------------------------------------------------------------- _parseInventory *)
  Definition py_prefix : text := [112; 121; 58].   (* "py:" *)

  Section WithLineParser.
    Variable pl : text -> outcome columns.

    (* for line in payload.splitlines(): try ... except ValueError: error; continue *)
    Fixpoint parse_lines (base : text) (lines : list text) (result : dict) (reps : list report)
      : outcome (dict * list report) :=
      match lines with
      | [] => Ok (result, reps)
      | line :: rest =>
        match pl line with
        | Raise ValueError => parse_lines base rest result (reps ++ [RLine line base])
        | Raise e => Raise e                      (* any other exception leaves _parseInventory *)
        | Ok c =>
          if starts_with py_prefix (c_typ c)
          then parse_lines base rest (dict_set (c_name c) (base, c_loc c) result) reps
          else parse_lines base rest result reps  (* Non-Python references are ignored. *)
        end
      end.

    Definition parse_inventory (base : text) (payload : text) : outcome (dict * list report) :=
      parse_lines base (splitlines payload) [] [].

    (* ------------------------------------------------------------ _getPayload *)
    Variable decompress : list N -> option (list N).   (* zlib.decompress; None = zlib.error *)
    Variable decode_utf8 : list N -> option text.      (* bytes.decode('utf-8'); None = UnicodeError *)

    (*  while True:
            parts = data.split(b'\n', 1)
            if len(parts) != 2: payload = data; break
            if not parts[0].startswith(b'#'): payload = data; break
            data = parts[1]                                   *)
    Fixpoint strip_comments (fuel : nat) (data : list N) : outcome (list N) :=
      match fuel with
      | O => Raise OutOfFuel
      | S f =>
        match split1 10 data with
        | None => Ok data
        | Some (first, rest) =>
          if starts_with_char 35 first then strip_comments f rest else Ok data
        end
      end.

    Definition strip_fuel (data : list N) : nat := S (length data).

    Definition get_payload (base : text) (data : list N) : outcome (text * list report) :=
      match strip_comments (strip_fuel data) data with
      | Raise e => Raise e
      | Ok payload =>
        match decompress payload with
        | None => Ok ([], [RUncompress base])
        | Some raw =>
          match decode_utf8 raw with
          | None => Ok ([], [RDecode base])
          | Some t => Ok (t, [])
          end
        end
      end.

    (* ------------------------------------------------------------ update(cache, url); data = cache.get(url) *)
    Definition update (links : dict) (url : text) (data : option (list N)) : outcome (dict * list report) :=
      match rsplit1 47 url with
      | None => Ok (links, [RNoBase url])
      | Some (base, _) =>
        match data with
        | None | Some [] => Ok (links, [RNoData url])       (* if not data *)
        | Some d =>
          match get_payload base d with
          | Raise e => Raise e
          | Ok (payload, reps1) =>
            match parse_inventory base payload with
            | Raise e => Raise e
            | Ok (result, reps2) => Ok (dict_update links result, reps1 ++ reps2)
            end
          end
        end
      end.
  End WithLineParser.

  (* -------------------------------------------------------------- getLink *)
  Definition get_link (links : dict) (name : text) : option text :=
    match lookup name links with
    | None => None
    | Some (base, rel) =>
      if is_empty rel then None
      else
        let rel' := if ends_with_char 36 rel then removelast rel ++ name else rel in
        Some (base ++ [47] ++ rel')
    end.
End Reader.

(* linker._EpydocLinker.look_for_intersphinx(name):  return self.obj.system.intersphinx.getLink(name)
   -- the same answer from every object of the system, whatever the system's root names are *)
Definition look_for_intersphinx (links : dict) (root_names : list text) (obj_full : text) (name : text)
  : option text := get_link links name.

(* System.fetchIntersphinxInventories: for url in options.intersphinx: self.intersphinx.update(cache, url) *)
Fixpoint update_all (upd : dict -> text -> option (list N) -> outcome (dict * list report))
         (links : dict) (reps : list report) (fetches : list (text * option (list N)))
  : outcome (dict * list report) :=
  match fetches with
  | [] => Ok (links, reps)
  | (url, data) :: rest =>
    match upd links url data with
    | Raise e => Raise e
    | Ok (links', r) => update_all upd links' (reps ++ r) rest
    end
  end.

(* ------------------------------------------------------------------ the writer *)
(* urllib.parse.quote(s) with the default safe='/' : ASCII letters, digits, "_.-~/" are kept, every other
   character is UTF-8 encoded and each byte written %XX (upper case). Lone surrogates (for which Python raises
   UnicodeEncodeError) are outside the model: they are encoded like any other 3-byte code point. *)
Definition is_alnum (c : N) : bool :=
  (N.leb 48 c && N.leb c 57) || (N.leb 65 c && N.leb c 90) || (N.leb 97 c && N.leb c 122).
Definition quote_safe (c : N) : bool :=
  is_alnum c || N.eqb c 95 || N.eqb c 46 || N.eqb c 45 || N.eqb c 126 || N.eqb c 47.

Definition utf8_char (c : N) : list N :=
  if N.ltb c 128 then [c]
  else if N.ltb c 2048 then [192 + c / 64; 128 + c mod 64]
  else if N.ltb c 65536 then [224 + c / 4096; 128 + (c / 64) mod 64; 128 + c mod 64]
  else [240 + c / 262144; 128 + (c / 4096) mod 64; 128 + (c / 64) mod 64; 128 + c mod 64].

Definition hex_digit (n : N) : N := if N.ltb n 10 then 48 + n else 55 + n.
Definition pct (b : N) : text := [37; hex_digit ((b / 16) mod 16); hex_digit (b mod 16)].   (* b < 256 *)
Definition quote_char (c : N) : text := if quote_safe c then [c] else flat_map pct (utf8_char c).
Definition quote (t : text) : text := flat_map quote_char t.

(* str.encode('utf-8') (same remark on lone surrogates) *)
Definition encode_utf8 (t : text) : list N := flat_map utf8_char t.

(* a documentable as the writer sees it.  A subject of the writer is given as an Obj without parent whose name is its
   QUALIFIED name and whose `hidden` is `not isVisible` (so that an --html-subject below the roots is covered as long as
   it has a page of its own: module or class).
   tag: 0 Module/Package, 1 Class, 2 Function with kind FUNCTION, 3 Function of another kind, 4 Attribute, 5 other
   hidden: privacyClass is HIDDEN *)
Inductive obj : Type := Obj (name : text) (tag : N) (hidden : bool) (contents : list obj).

Definition o_name (o : obj) : text := match o with Obj n _ _ _ => n end.
Definition o_tag (o : obj) : N := match o with Obj _ t _ _ => t end.
Definition o_hidden (o : obj) : bool := match o with Obj _ _ h _ => h end.
Definition o_contents (o : obj) : list obj := match o with Obj _ _ _ c => c end.

Definition dot : text := [46].
Definition full_name (parent_full : option text) (name : text) : text :=
  match parent_full with None => name | Some p => p ++ dot ++ name end.

(* documentation_location: Inheritable (Function, Attribute) = PARENT_PAGE, everything else OWN_PAGE *)
Definition own_page (tag : N) : bool := negb (N.eqb tag 2 || N.eqb tag 3 || N.eqb tag 4).

Definition html : text := [46; 104; 116; 109; 108].                       (* ".html" *)
Definition index_html : text := [105; 110; 100; 101; 120] ++ html.        (* "index.html" *)

Definition is_only_root (root_names : list text) (full : text) : bool :=
  match root_names with [r] => text_eqb r full | _ => false end.

Definition page_url (root_names : list text) (page_full : text) : text :=
  if is_only_root root_names page_full then index_html else quote page_full ++ html.

(* Documentable.url; an Inheritable without parent does not occur (assert in page_object) and is given its own page *)
Definition url_of (root_names : list text) (parent_full : option text) (name : text) (tag : N) : text :=
  match parent_full with
  | Some pf => if own_page tag then page_url root_names (full_name parent_full name)
               else page_url root_names pf ++ [35] ++ quote name
  | None => page_url root_names name
  end.

Definition domain_name (tag : N) : text :=
  if N.eqb tag 0 then [109; 111; 100; 117; 108; 101]                            (* module *)
  else if N.eqb tag 1 then [99; 108; 97; 115; 115]                              (* class *)
  else if N.eqb tag 2 then [102; 117; 110; 99; 116; 105; 111; 110]              (* function *)
  else if N.eqb tag 3 then [109; 101; 116; 104; 111; 100]                       (* method *)
  else if N.eqb tag 4 then [97; 116; 116; 114; 105; 98; 117; 116; 101]          (* attribute *)
  else [111; 98; 106].                                                          (* obj, with an error report *)

Definition minus_one : text := [45; 49].     (* "-1" *)
Definition dash : text := [45].              (* "-" *)

(* the line without its final "\n":  f'{full_name} py:{domainname} -1 {url} {display}' *)
Definition line_body (full typ url : text) : text :=
  full ++ sp ++ typ ++ sp ++ minus_one ++ sp ++ url ++ sp ++ dash.

Definition gen_line (root_names : list text) (parent_full : option text) (name : text) (tag : N) : text :=
  line_body (full_name parent_full name) (py_prefix ++ domain_name tag) (url_of root_names parent_full name tag)
  ++ [10].

Definition over {X} (f : obj -> list X) : list obj -> list X :=
  fix go (os : list obj) : list X :=
    match os with
    | [] => []
    | o :: os' => f o ++ go os'
    end.

(* _generateContent: for obj in subjects: if not obj.isVisible: continue; line; recurse into obj.contents.values()
   isVisible = privacyClass is not HIDDEN and (no parent or parent.isVisible); the parent's visibility is passed down.
   Returns the lines in the order they are written. *)
Fixpoint gen_obj (root_names : list text) (parent_full : option text) (parent_visible : bool) (o : obj)
  : list text :=
  match o with
  | Obj name tag hidden contents =>
    if negb hidden && parent_visible then
      gen_line root_names parent_full name tag
      :: over (gen_obj root_names (Some (full_name parent_full name)) true) contents
    else []
  end.

Definition gen_lines (root_names : list text) (subjects : list obj) : list text :=
  over (gen_obj root_names None true) subjects.

(* number of "Unknown type" error reports of _generateLine *)
Fixpoint unknown_obj (parent_visible : bool) (o : obj) : list N :=
  match o with
  | Obj name tag hidden contents =>
    if negb hidden && parent_visible then
      (if N.ltb 4 tag then [tag] else []) ++ over (unknown_obj true) contents
    else []
  end.

(* _generateHeader *)
Definition header (project version : text) : text :=
  [35; 32; 83; 112; 104; 105; 110; 120; 32; 105; 110; 118; 101; 110; 116; 111; 114; 121; 32; 118; 101; 114; 115;
   105; 111; 110; 32; 50; 10] ++                                                  (* "# Sphinx inventory version 2\n" *)
  [35; 32; 80; 114; 111; 106; 101; 99; 116; 58; 32] ++ project ++ [10] ++          (* "# Project: " *)
  [35; 32; 86; 101; 114; 115; 105; 111; 110; 58; 32] ++ version ++ [10] ++         (* "# Version: " *)
  [35; 32; 84; 104; 101; 32; 114; 101; 115; 116; 32; 111; 102; 32; 116; 104; 105; 115; 32; 102; 105; 108; 101; 32;
   105; 115; 32; 99; 111; 109; 112; 114; 101; 115; 115; 101; 100; 32; 119; 105; 116; 104; 32; 122; 108; 105; 98;
   46; 10].                                                 (* "# The rest of this file is compressed with zlib.\n" *)

(* generate(): header.encode('utf-8') + zlib.compress(b''.join(line.encode('utf-8') for each line)) *)
Definition generate (compress : list N -> list N)
           (project version : text) (root_names : list text) (subjects : list obj) : list N :=
  encode_utf8 (header project version) ++ compress (concat (map encode_utf8 (gen_lines root_names subjects))).

(* ------------------------------------------------------------------ driver.make: which subjects *)
(* make(system): the subjects handed to the HTML writer (writeIndividualFiles) and to the inventory writer
   (SphinxInventoryWriter.generate), None when that writer is not run.
       if options.makehtml:
           options.makeintersphinx = True
           subjects = ()
           if options.htmlsubjects: subjects = [system.allobjects[fn] for fn in options.htmlsubjects]
           else:
               writer.writeSummaryPages(system)
               if not options.htmlsummarypages: subjects = system.rootobjects
           writer.writeIndividualFiles(subjects)
       if options.makeintersphinx:
           if not options.makehtml: subjects = system.rootobjects
           sphinx_inventory.generate(subjects=subjects, ...)
   S is whatever stands for an object; --html-subject names are taken as already looked up. *)
Section Make.
  Variable S : Type.
  Record make_options := MkOpts {
    o_makehtml : bool; o_makeintersphinx : bool; o_htmlsubjects : list S; o_summarypages : bool }.

  Definition make_subjects (o : make_options) (roots : list S) : option (list S) * option (list S) :=
    let '(html, subjects, makeintersphinx) :=
      if o_makehtml o then
        let subjects :=
          match o_htmlsubjects o with
          | _ :: _ => o_htmlsubjects o                         (* if options.htmlsubjects: *)
          | [] => if o_summarypages o then [] else roots
          end in
        (Some subjects, subjects, true)
      else (None, [], o_makeintersphinx o) in
    let inventory :=
      if makeintersphinx then Some (if o_makehtml o then subjects else roots) else None in
    (html, inventory).
End Make.
Arguments MkOpts {S}.
Arguments o_makehtml {S}.
Arguments o_makeintersphinx {S}.
Arguments o_htmlsubjects {S}.
Arguments o_summarypages {S}.
Arguments make_subjects {S}.

(* ------------------------------------------------------------------ wire codec *)
(* input  := ( mode ... )
   mode 0 : ( 0 which line )                         which: 0 current _parseInventoryLine, 1 pinned (unguarded)
            -> ( 0 name typ sign |prio| mod 1000000007 location display ) | ( 1 exn )
   mode 1 : ( 1 which fetches queries oracle )
            fetches := list of ( url hasdata data )   oracle := list of ( payload kind text )
               kind 1 UnicodeError, 2 decoded text; looked up by the bytes of the payload that is left after
               comment stripping (an absent entry counts as zlib.error)
            -> ( status links reports answers )  status 0 returned | 1 + exn code
               links := list of ( name base location ); reports := list of ( kind text text )
               answers := getLink for every key of links, then for every query: ( name found url )
   mode 2 : ( 2 root_names subjects project version )  subjects := list of obj := ( name tag hidden kids )
            -> ( lines unknown header )
   mode 3 : ( 3 lo hi ) -> ( digits spaces linebreaks ) over the code points lo <= c < hi
   mode 4 : ( 4 text ) -> py_int: () | ( sign |v| mod 1000000007 )
   mode 5 : ( 5 text ) -> splitlines
   mode 6 : ( 6 text ) -> quote
   mode 8 : ( 8 which fetches queries oracle root_names froms )   as mode 1, then the docstring linker of each `from`
            -> ( status links reports lookups )  lookups := for each from, each key of links then each query:
               ( from name found url )
   mode 7 : ( 7 makehtml makeintersphinx htmlsubjects summarypages roots )   objects are names
            -> ( html inventory )   each () when that writer is not run, else ( ( name ... ) )
   exn codes: 0 ValueError, 1 IndexError, 2 OutOfFuel *)
Definition exn_code (e : exn) : Z := match e with ValueError => 0 | IndexError => 1 | OutOfFuel => 2 end.

Definition big_mod : Z := 1000000007.
Definition z_sexp (z : Z) : list sexp :=
  [A (if Z.ltb z 0 then 1 else 0); A (Z.modulo (Z.abs z) big_mod)]%Z.

Definition cols_sexp (c : columns) : sexp :=
  L ([A 0%Z; of_text (c_name c); of_text (c_typ c)] ++ z_sexp (c_prio c) ++ [of_text (c_loc c); of_text (c_disp c)]).

Definition report_sexp (r : report) : sexp :=
  match r with
  | RNoBase u => L [A 1%Z; of_text u; L []]
  | RNoData u => L [A 2%Z; of_text u; L []]
  | RUncompress b => L [A 3%Z; of_text b; L []]
  | RDecode b => L [A 4%Z; of_text b; L []]
  | RLine l b => L [A 5%Z; of_text l; of_text b]
  end.

Definition link_sexp (kv : text * (text * text)) : sexp :=
  L [of_text (fst kv); of_text (fst (snd kv)); of_text (snd (snd kv))].

Definition oracle_of (table : list sexp) (payload : list N) : option (N * text) :=
  match find (fun e => text_eqb (to_text (nth_s 0 e)) payload) table with
  | Some e => Some (to_N (nth_s 1 e), to_text (nth_s 2 e))
  | None => None
  end.

(* the two oracles, from the table the harness computed with the real zlib / utf-8 codec:
   `decompress` returns the table entry's decoded text as the "raw bytes" and `decode` passes them on *)
Definition table_decompress (table : list sexp) (payload : list N) : option (list N) :=
  match oracle_of table payload with
  | Some (0, _) | None => None
  | Some (1, _) => Some [0]              (* marker: undecodable *)
  | Some (_, t) => Some (1 :: t)         (* marker: decodable, text follows *)
  end.
Definition table_decode (raw : list N) : option text :=
  match raw with
  | 1 :: t => Some t
  | _ => None
  end.

Fixpoint obj_of_sexp (fuel : nat) (s : sexp) : obj :=
  match fuel with
  | O => Obj [] 5 true []
  | S f => Obj (to_text (nth_s 0 s)) (to_N (nth_s 1 s)) (to_bool (nth_s 2 s))
               (map (obj_of_sexp f) (to_list (nth_s 3 s)))
  end.

Fixpoint sexp_depth (s : sexp) : nat :=
  match s with A _ => 1%nat | L l => S (fold_right (fun x acc => Nat.max (sexp_depth x) acc) 0%nat l) end.

Fixpoint range_filter (f : N -> bool) (lo : N) (n : nat) : list N :=
  match n with
  | O => []
  | S n' => if f lo then lo :: range_filter f (N.succ lo) n' else range_filter f (N.succ lo) n'
  end.

Definition run_fetches (which : Z) (fetches : list sexp) (table : list sexp) : outcome (dict * list report) :=
  let pl := if Z.eqb which 0 then parse_line py_int else parse_line_old py_int in
  update_all (update pl (table_decompress table) table_decode) [] []
             (map (fun f => (to_text (nth_s 0 f),
                             if to_bool (nth_s 1 f) then Some (to_text (nth_s 2 f)) else None)) fetches).

Definition answer_sexp (links : dict) (name : text) : sexp :=
  match get_link links name with
  | None => L [of_text name; A 0%Z; L []]
  | Some u => L [of_text name; A 1%Z; of_text u]
  end.

Definition run (s : sexp) : sexp :=
  match to_Z (nth_s 0 s) with
  | 0%Z =>
    let pl := if Z.eqb (to_Z (nth_s 1 s)) 0 then parse_line py_int else parse_line_old py_int in
    match pl (to_text (nth_s 2 s)) with
    | Ok c => cols_sexp c
    | Raise e => L [A 1%Z; A (exn_code e)]
    end
  | 1%Z =>
    match run_fetches (to_Z (nth_s 1 s)) (to_list (nth_s 2 s)) (to_list (nth_s 4 s)) with
    | Raise e => L [A (1 + exn_code e)%Z; L []; L []; L []]
    | Ok (links, reps) =>
      L [A 0%Z; L (map link_sexp links); L (map report_sexp reps);
         L (map (answer_sexp links) (map fst links ++ map to_text (to_list (nth_s 3 s))))]
    end
  | 2%Z =>
    let roots := map to_text (to_list (nth_s 1 s)) in
    let subj := map (obj_of_sexp (sexp_depth (nth_s 2 s))) (to_list (nth_s 2 s)) in
    L [L (map of_text (gen_lines roots subj)); L (map of_N (over (unknown_obj true) subj));
       of_text (header (to_text (nth_s 3 s)) (to_text (nth_s 4 s)))]
  | 3%Z =>
    let lo := to_N (nth_s 1 s) in
    let n := N.to_nat (to_N (nth_s 2 s) - lo) in
    L [L (map (fun c => L [of_N c; match digit_val c with Some d => of_N d | None => A (-1)%Z end])
              (range_filter (fun c => match digit_val c with Some _ => true | None => false end) lo n));
       L (map of_N (range_filter py_space lo n));
       L (map of_N (range_filter is_linebreak lo n))]
  | 4%Z =>
    match py_int (to_text (nth_s 1 s)) with
    | None => L []
    | Some z => L (z_sexp z)
    end
  | 5%Z => L (map of_text (splitlines (to_text (nth_s 1 s))))
  | 6%Z => of_text (quote (to_text (nth_s 1 s)))
  | 8%Z =>
    match run_fetches (to_Z (nth_s 1 s)) (to_list (nth_s 2 s)) (to_list (nth_s 4 s)) with
    | Raise e => L [A (1 + exn_code e)%Z; L []; L []; L []]
    | Ok (links, reps) =>
      let roots := map to_text (to_list (nth_s 5 s)) in
      let names := map fst links ++ map to_text (to_list (nth_s 3 s)) in
      L [A 0%Z; L (map link_sexp links); L (map report_sexp reps);
         L (flat_map (fun f =>
                        map (fun n => match look_for_intersphinx links roots f n with
                                      | None => L [of_text f; of_text n; A 0%Z; L []]
                                      | Some u => L [of_text f; of_text n; A 1%Z; of_text u]
                                      end) names)
                     (map to_text (to_list (nth_s 6 s))))]
    end
  | 7%Z =>
    let o := MkOpts (to_bool (nth_s 1 s)) (to_bool (nth_s 2 s)) (map to_text (to_list (nth_s 3 s)))
                    (to_bool (nth_s 4 s)) in
    let '(h, i) := make_subjects o (map to_text (to_list (nth_s 5 s))) in
    L [of_option (of_list of_text) h; of_option (of_list of_text) i]
  | _ => bad_input
  end.
