(* Model/VisitorIRRun.v -- wire codec for the interpretation of the code translated from pydoctor/visitor.py
   (Gen/VisitorCode.v).  Same input format as Model/Visitor.v; fn 0 = walkabout, 1 = walk.
   output := ( escaped events stuck )   escaped: 0 none | 1 SkipChildren | 2 SkipSiblings | 3 SkipNode | 4 SkipDeparture *)
From Coq Require Import ZArith NArith List Bool.
From PydoctorVerif Require Import Base.Sexp Model.Visitor Model.VisitorIR Gen.VisitorCode.
Import ListNotations.

Definition exc_code (x : option exc) : Z :=
  match x with
  | None => 0 | Some XSkipChildren => 1 | Some XSkipSiblings => 2 | Some XSkipNode => 3 | Some XSkipDeparture => 4
  end%Z.

Definition run (s : sexp) : sexp :=
  let fn := to_Z (nth_s 0 s) in
  let exts := map (fun p => {| ext_id := to_N (nth_s 0 p); ext_when := when_of_Z (to_Z (nth_s 1 p)) |})
                  (to_list (nth_s 1 s)) in
  let prune := prune_of (to_list (nth_s 2 s)) in
  let t := tree_of_sexp (sexp_depth (nth_s 3 s)) (nth_s 3 s) in
  let '(tr, x) :=
    match fn with
    | 1%Z => walk_ir visitor_code exts prune t
    | _ => walkabout_ir visitor_code exts prune t
    end in
  L [A (exc_code x); L (map ev_sexp tr)].
