(* Model/Infer.v -- pydoctor/astutils.py : _annotation_for_value / _annotation_for_elements
   (called by infer_type on the result of ast.literal_eval).  Definitions only.

   def _annotation_for_value(value):
       if value is None: return None
       name = type(value).__name__
       if isinstance(value, (dict, list, set, tuple)):
           ann_elem = _annotation_for_elements(value)
           if isinstance(value, dict):
               ann_value = _annotation_for_elements(value.values())
               if ann_value is None: ann_elem = None
               elif ann_elem is not None: ann_elem = ast.Tuple(elts=[ann_elem, ann_value])
           if ann_elem is not None:
               if name == 'tuple': ann_elem = ast.Tuple(elts=[ann_elem, ast.Constant(value=...)])
               return ast.Subscript(value=ast.Name(id=name), slice=ast.Index(value=ann_elem))
       return ast.Name(id=name)

   def _annotation_for_elements(sequence):
       names = set()
       for elem in sequence:
           ann = _annotation_for_value(elem)
           if isinstance(ann, ast.Name): names.add(ann.id)
           else: return None
       if len(names) == 1: return ast.Name(id=names.pop())
       else: return None                                                                     *)
From Coq Require Import ZArith NArith List Bool.
From PydoctorVerif Require Import Base.Sexp Model.MiniPy.
Import ListNotations.

(* type(value).__name__ for the literal values *)
Definition t_int : text := [105;110;116]%N.
Definition t_bool : text := [98;111;111;108]%N.
Definition t_str : text := [115;116;114]%N.
Definition t_bytes : text := [98;121;116;101;115]%N.
Definition t_float : text := [102;108;111;97;116]%N.
Definition t_NoneType : text := [78;111;110;101;84;121;112;101]%N.
Definition t_list : text := [108;105;115;116]%N.
Definition t_tuple : text := [116;117;112;108;101]%N.
Definition t_set : text := [115;101;116]%N.
Definition t_dict : text := [100;105;99;116]%N.

Definition type_name (v : value) : text :=
  match v with
  | LInt _ => t_int | LBool _ => t_bool | LStr _ => t_str | LBytes _ => t_bytes | LFloat _ => t_float
  | LNone => t_NoneType | LList _ => t_list | LTuple _ => t_tuple | LSet _ => t_set | LDict _ _ => t_dict
  end.

(* the `names` set + early exit of _annotation_for_elements, over the already computed element annotations:
   Some n iff every element annotation is a bare Name and exactly one distinct name occurs *)
Fixpoint elems_fold (anns : list (option annot)) (seen : option text) : option (option text) :=
  match anns with
  | [] => Some seen
  | Some (AName n) :: rest =>
      match seen with
      | None => elems_fold rest (Some n)
      | Some m => if text_eqb m n then elems_fold rest seen
                  else None   (* two distinct names: len(names) != 1 at the end, or an early `return None`: None either way *)
      end
  | _ :: _ => None            (* None or a Subscript: "nested sequences are too complex" *)
  end.

Definition annotation_for_elements (anns : list (option annot)) : option text :=
  match elems_fold anns None with
  | Some (Some n) => Some n
  | _ => None
  end.

Fixpoint annotation_for_value (v : value) : option annot :=
  match v with
  | LNone => None
  | LList l =>
      match annotation_for_elements (map annotation_for_value l) with
      | Some e => Some (ASub1 t_list e)
      | None => Some (AName t_list)
      end
  | LSet l =>
      match annotation_for_elements (map annotation_for_value l) with
      | Some e => Some (ASub1 t_set e)
      | None => Some (AName t_set)
      end
  | LTuple l =>
      match annotation_for_elements (map annotation_for_value l) with
      | Some e => Some (ATupleOf e)
      | None => Some (AName t_tuple)
      end
  | LDict ks vs =>
      let ann_elem := annotation_for_elements (map annotation_for_value ks) in
      let ann_value := annotation_for_elements (map annotation_for_value vs) in
      match ann_value with
      | None => Some (AName t_dict)
      | Some av => match ann_elem with
                   | Some ak => Some (ADict ak av)
                   | None => Some (AName t_dict)
                   end
      end
  | _ => Some (AName (type_name v))
  end.

(* wire: () | ((0 n)) | ((1 c e)) | ((2 e)) | ((3 k v)) *)
Definition annot_sexp (a : annot) : sexp :=
  match a with
  | AName n => L [A 0; of_text n]
  | ASub1 c e => L [A 1; of_text c; of_text e]
  | ATupleOf e => L [A 2; of_text e]
  | ADict k v => L [A 3; of_text k; of_text v]
  end.
