(* Model/Options.v -- pydoctor/options.py : PydoctorConfigParser (CompositeConfigParser[Toml, Ini]) wrapped in
   ValidatorParser, and parse_args().  Definitions only.

   CompositeConfigParser.parse: each parser in turn; the first that does not raise wins; when all raise,
   ConfigFileParserException (configargparse turns it into parser.error, exit 2).
   The two tokenisers (toml.load, configparser) are oracles: a file arrives as what each of them made of it
   (None = the tokeniser itself raised).

   parse_args: options = parser.parse_args(args); options.verbosity -= options.quietness *)
From Coq Require Import ZArith NArith List Bool.
From PydoctorVerif Require Import Base.Sexp Model.OptTypes Model.IniValue Model.TomlValue Model.Validator Model.Merge
     Gen.TablesC20.
Import ListNotations.
Local Open Scope N_scope.

Record file_view : Type := {
  fv_toml : option (list (text * tomlv));
  fv_ini : option (list (text * list (text * text)))
}.

Definition composite_parse (sections : list text) (split : bool) (f : file_view) : pres :=
  let try_ini :=
      match fv_ini f with
      | Some secs => ini_parse sections split secs
      | None => PError
      end in
  match fv_toml f with
  | Some data =>
      match toml_parse sections data with
      | POk d => POk d
      | PError => try_ini
      | PUnsup => PUnsup
      end
  | None => try_ini
  end.

(* The same parser, as the loop it is: `for p in self.parsers: try: return p.parse(stream) except Exception: ...`.
   self.parsers is built once (options.PydoctorConfigParser is a module-level object shared by every parse of the
   process) and parse() never assigns to it: the state after a parse is the state before. *)
Inductive parser_kind : Type := PToml | PIni.

Definition run_parser (sections : list text) (split : bool) (k : parser_kind) (f : file_view) : pres :=
  match k with
  | PToml => match fv_toml f with Some data => toml_parse sections data | None => PError end
  | PIni => match fv_ini f with Some secs => ini_parse sections split secs | None => PError end
  end.

Fixpoint composite_try (sections : list text) (split : bool) (ps : list parser_kind) (f : file_view) : pres :=
  match ps with
  | [] => PError
  | p :: rest =>
      match run_parser sections split p f with
      | PError => composite_try sections split rest f
      | r => r
      end
  end.

Definition composite_step (sections : list text) (split : bool) (ps : list parser_kind) (f : file_view)
  : pres * list parser_kind :=
  (composite_try sections split ps f, ps).

(* every config file the process reads, one after the other, threading the parser object's state *)
Fixpoint parse_history (sections : list text) (split : bool) (ps : list parser_kind) (files : list file_view)
  : list pres :=
  match files with
  | [] => []
  | f :: rest =>
      let (r, ps') := composite_step sections split ps f in
      r :: parse_history sections split ps' rest
  end.

Definition pydoctor_parsers : list parser_kind := [PToml; PIni].

Definition d_verbosity : text := [118;101;114;98;111;115;105;116;121].
Definition d_quietness : text := [113;117;105;101;116;110;101;115;115].

Inductive run_res : Type :=
| RunOk (ns : namespace) (warnings : list text)
| RunExit (code : N)
| RunRaise
| RunUnsup.

(* files: highest priority first (configargparse walks reversed(config_streams)) *)
Fixpoint parse_files (table : list opt) (sections : list text) (split : bool) (files : list file_view)
  : (list (list (text * cval)) * list text) + run_res :=
  match files with
  | [] => inl ([], [])
  | f :: fs =>
      match composite_parse sections split f with
      | PError => inr (RunExit 2)
      | PUnsup => inr RunUnsup
      | POk d =>
          let (d', w) := validate table d in
          match parse_files table sections split fs with
          | inl (ds, ws) => inl (d' :: ds, w ++ ws)
          | inr e => inr e
          end
      end
  end.

Definition parse_args (table : list opt) (sections : list text) (split : bool)
           (files : list file_view) (cli : list tok) : run_res :=
  match parse_files table sections split files with
  | inr e => e
  | inl (ds, ws) =>
      match parse_known_args table ds cli with
      | MOk ns =>
          match ns_get ns d_verbosity, ns_get ns d_quietness with
          | NInt v, NInt q => RunOk (dict_set d_verbosity (NInt (v - q)%Z) ns) ws
          | _, _ => RunRaise
          end
      | MExit c => RunExit c
      | MRaise => RunRaise
      | MUnsup => RunUnsup
      end
  end.

Definition pydoctor_parse_args (files : list file_view) (cli : list tok) : run_res :=
  parse_args option_table config_sections ini_split_ml files cli.
