(* Model/ProcIRRun.v -- wire codec for the interpretation of the code translated from pydoctor/model.py
   (Gen/ProcCode.v).  Same wire format as Model/Proc.v (input kind 0 only); a module entry may carry three more
   flags ( id parse_ok ( target ... ) is_c has_path has_string ), default: a module given as a source string. *)
From Coq Require Import ZArith NArith List Bool.
From PydoctorVerif Require Import Base.Sexp Model.Proc Model.ProcIR Gen.ProcCode.
Import ListNotations.

Definition mod'_of_sexp (s : sexp) : N * modinfo' :=
  let n := length (to_list s) in
  (to_N (nth_s 0 s),
   {| is_c := if Nat.ltb 3 n then to_bool (nth_s 3 s) else false;
      has_path := if Nat.ltb 4 n then to_bool (nth_s 4 s) else false;
      has_string := if Nat.ltb 5 n then to_bool (nth_s 5 s) else true;
      parse_ok' := to_bool (nth_s 1 s);
      imports' := map to_N (to_list (nth_s 2 s)) |}).

Definition run (s : sexp) : sexp :=
  let p := map mod'_of_sexp (to_list (nth_s 1 s)) in
  let order := map to_N (to_list (nth_s 2 s)) in
  match run_project_ir proc_code p (fun _ => false) order with
  | Ok s' =>
    L [A 0; L [L (map (fun mi => L [of_N (fst mi); A (pstate_code (st s' (fst mi)))]) p);
               L (map of_N (rev (reports s')));
               L (map pev_sexp (rev (trace s')));
               L (map of_N (unproc s'));
               L (map of_N (stack s'))]]
  | OutOfFuel => L [A 1; L []]
  | AssertFail n => L [A 2; of_N n]
  end.
