(* Extraction of Model/Sig.v (+ Spec/SigStr.v) : ExtrOcamlBasic only; N/Z/positive/nat stay inductives. *)
From Coq Require Import ExtrOcamlBasic.
From PydoctorVerif Require Import Base.Sexp Spec.SigStr Model.Sig.
Extraction Language OCaml.
Extraction "model.ml" run.
