(* Extraction of the C10 models (Model/StanRun.v) : ExtrOcamlBasic only; N/Z/positive/nat stay inductives. *)
From Coq Require Import ExtrOcamlBasic.
From PydoctorVerif Require Import Base.Sexp Model.StanRun.
Extraction Language OCaml.
Extraction "model.ml" run.
