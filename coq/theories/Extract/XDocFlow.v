(* Extraction of Model/DocFlow.v : ExtrOcamlBasic only; N/Z/positive/nat stay inductives. *)
From Coq Require Import ExtrOcamlBasic.
From PydoctorVerif Require Import Base.Sexp Model.DocFlow.
Extraction Language OCaml.
Extraction "model.ml" run.
