(* Extraction of Model/ExprPrint.v (with Model/Wrap.v, Model/StrEsc.v, Spec/PyGrammar.v): ExtrOcamlBasic only. *)
From Coq Require Import ExtrOcamlBasic.
From PydoctorVerif Require Import Base.Sexp Base.PyExpr Gen.TablesC15 Model.StrEsc Model.Wrap Spec.PyLex Spec.PyGrammar Spec.PyTokenizer Model.ExprPrint.
Extraction Language OCaml.
Extraction "model.ml" run.
