(* Extraction of the interpreter of Model/DelimIR.v applied to Gen/DelimCode.v: ExtrOcamlBasic only. *)
From Coq Require Import ExtrOcamlBasic.
From PydoctorVerif Require Import Base.Sexp Base.PyExpr Gen.TablesC15 Model.StrEsc Model.Wrap Spec.PyLex Spec.PyGrammar Spec.PyTokenizer Model.ExprPrint Model.DelimIR Gen.DelimCode Model.DelimRun.
Extraction Language OCaml.
Extraction "model.ml" run.
