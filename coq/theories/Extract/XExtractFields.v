(* Extraction of Model/ExtractFields.v : ExtrOcamlBasic only; N/Z/positive/nat stay inductives. *)
From Coq Require Import ExtrOcamlBasic.
From PydoctorVerif Require Import Base.Sexp Model.FieldTypes Gen.TablesC09 Model.Fields Model.ExtractFields.
Extraction Language OCaml.
Extraction "model.ml" run.
