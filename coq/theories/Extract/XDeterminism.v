(* Extraction of Model/Determinism.v : ExtrOcamlBasic only; N/Z/positive/nat stay inductives. *)
From Coq Require Import ExtrOcamlBasic.
From PydoctorVerif Require Import Base.Sexp Model.DetTypes Gen.TablesC18 Model.Determinism.
Extraction Language OCaml.
Extraction "model.ml" run.
