(* Extraction of Model/Project.v + Model/Linker.v : ExtrOcamlBasic only. *)
From Coq Require Import ExtrOcamlBasic.
From PydoctorVerif Require Import Base.Sexp Model.Project Model.Linker.
Extraction Language OCaml.
Extraction "model.ml" run.
