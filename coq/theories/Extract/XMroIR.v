(* Extraction of Model/MroIRRun.v (the code translated from pydoctor/mro.py, interpreted): ExtrOcamlBasic only. *)
From Coq Require Import ExtrOcamlBasic.
From PydoctorVerif Require Import Base.Sexp Model.MroIRRun.
Extraction Language OCaml.
Extraction "model.ml" run.
