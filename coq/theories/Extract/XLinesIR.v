(* Extraction of Model/LinesIRRun.v (the interpreter of Model/LinesIR.v applied to Gen/LinesCode.v): ExtrOcamlBasic only. *)
From Coq Require Import ExtrOcamlBasic.
From PydoctorVerif Require Import Base.Sexp Model.LinesIRRun.
Extraction Language OCaml.
Extraction "model.ml" run.
