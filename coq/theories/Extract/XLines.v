(* Extraction of Model/Lines.v (with Model/Msg.v and Spec/CleanDoc.v): ExtrOcamlBasic only. *)
From Coq Require Import ExtrOcamlBasic.
From PydoctorVerif Require Import Base.Sexp Spec.CleanDoc Model.Msg Model.Lines.
Extraction Language OCaml.
Extraction "model.ml" run.
