(* Extraction of Model/NamesRun.v (Model/Names.v + Spec/PyImport.v evaluator): ExtrOcamlBasic only. *)
From Coq Require Import ExtrOcamlBasic.
From PydoctorVerif Require Import Base.Sexp Base.ImportSyntax Spec.PyImport Model.Names Model.NamesIR Gen.NamesCode Model.NamesRun.
Extraction Language OCaml.
Extraction "model.ml" run.
