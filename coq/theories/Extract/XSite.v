(* Extraction of Model/Site.v (+ Gen/Listings.v) : ExtrOcamlBasic only; N/Z/positive/nat stay inductives. *)
From Coq Require Import ExtrOcamlBasic.
From PydoctorVerif Require Import Base.Sexp Model.SiteTable Model.Site Gen.Listings Model.SiteIR Gen.SiteCode Model.SiteRun.
Extraction Language OCaml.
Extraction "model.ml" run.
