(* Extraction of Model/DiscoveryIRRun.v : ExtrOcamlBasic only; N/Z/positive/nat stay inductives. *)
From Coq Require Import ExtrOcamlBasic.
From PydoctorVerif Require Import Base.Sexp Model.DiscoveryIRRun.
Extraction Language OCaml.
Extraction "model.ml" run.
