(* Extraction of the C03 models (Model/Builder.v, Model/Infer.v, Spec/PyBind.v through Model/BuilderRun.v):
   ExtrOcamlBasic only; N/Z/positive/nat stay inductives. *)
From Coq Require Import ExtrOcamlBasic.
From PydoctorVerif Require Import Base.Sexp Model.BuilderRun.
Extraction Language OCaml.
Extraction "model.ml" run.
