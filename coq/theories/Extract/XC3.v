(* Extraction of Spec/C3.v (used to validate the specification against CPython itself):
   ExtrOcamlBasic only; N/Z/positive/nat stay inductives. *)
From Coq Require Import ExtrOcamlBasic.
From PydoctorVerif Require Import Base.Sexp Spec.C3.
Extraction Language OCaml.
Extraction "model.ml" run.
