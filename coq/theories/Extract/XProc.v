(* Extraction of Model/Proc.v : ExtrOcamlBasic only. *)
From Coq Require Import ExtrOcamlBasic.
From PydoctorVerif Require Import Base.Sexp Model.Proc.
Extraction Language OCaml.
Extraction "model.ml" run.
