(* Extraction of Model/EpyLines.v : ExtrOcamlBasic only. *)
From Coq Require Import ExtrOcamlBasic.
From PydoctorVerif Require Import Base.Sexp Model.EpyLines.
Extraction Language OCaml.
Extraction "model.ml" run.
