(* Extraction of Model/InventoryIRRun.v : ExtrOcamlBasic only; N/Z/positive/nat stay inductives. *)
From Coq Require Import ExtrOcamlBasic.
From PydoctorVerif Require Import Base.Sexp Model.InventoryIRRun.
Extraction Language OCaml.
Extraction "model.ml" run.
