(* Extraction of Model/EpyStruct.v : ExtrOcamlBasic only; N/Z/positive/nat stay inductives. *)
From Coq Require Import ExtrOcamlBasic.
From PydoctorVerif Require Import Base.Sexp Model.FieldTypes Model.EpyStruct.
Extraction Language OCaml.
Extraction "model.ml" run.
