(* Extraction of Model/Privacy.v (which includes Model/QnMatch.v, Spec/ReFrag.v, Spec/Glob.v):
   ExtrOcamlBasic only; N/Z/positive/nat stay inductives. *)
From Coq Require Import ExtrOcamlBasic.
From PydoctorVerif Require Import Base.Sexp Spec.ReFrag Spec.Glob Spec.PrivacySpec Model.QnMatch Model.Privacy.
Extraction Language OCaml.
Extraction "model.ml" run.
