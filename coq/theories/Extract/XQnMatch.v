(* Extraction of Model/C13Run.v (Model/Privacy.v, Model/QnMatch.v, Spec/ReFrag.v, Spec/Glob.v, and the interpreters
   Model/QnMatchIR.v, Model/PrivacyIR.v applied to Gen/QnMatchCode.v, Gen/PrivacyCode.v): ExtrOcamlBasic only; N/Z/positive/nat stay inductives. *)
From Coq Require Import ExtrOcamlBasic.
From PydoctorVerif Require Import Base.Sexp Spec.ReFrag Spec.Glob Spec.PrivacySpec Model.QnMatch Model.Privacy Model.QnMatchIR Model.PrivacyIR Gen.QnMatchCode Gen.PrivacyCode Model.C13Run.
Extraction Language OCaml.
Extraction "model.ml" C13Run.run.
