(* Extraction of Model/SigIRRun.v : ExtrOcamlBasic only; N/Z/positive/nat stay inductives. *)
From Coq Require Import ExtrOcamlBasic.
From PydoctorVerif Require Import Base.Sexp Model.SigIRRun.
Extraction Language OCaml.
Extraction "model.ml" run.
