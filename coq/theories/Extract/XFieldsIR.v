(* Extraction of Model/FieldsIRRun.v : ExtrOcamlBasic only; N/Z/positive/nat stay inductives. *)
From Coq Require Import ExtrOcamlBasic.
From PydoctorVerif Require Import Base.Sexp Model.FieldTypes Gen.TablesC09 Model.Fields Model.FieldsIR Gen.FieldsCode Model.FieldsIRRun.
Extraction Language OCaml.
Extraction "model.ml" run.
