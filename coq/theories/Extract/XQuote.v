(* Extraction of the C20 models (Model/C20Run.v): ExtrOcamlBasic only; N/Z/positive/nat stay inductives. *)
From Coq Require Import ExtrOcamlBasic.
From PydoctorVerif Require Import Base.Sexp Model.C20Run.
Extraction Language OCaml.
Extraction "model.ml" run.
