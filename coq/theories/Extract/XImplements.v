(* Extraction of Model/Implements.v : ExtrOcamlBasic only. *)
From Coq Require Import ExtrOcamlBasic.
From PydoctorVerif Require Import Base.Sexp Model.Implements.
Extraction Language OCaml.
Extraction "model.ml" run.
