(* Extraction of Model/Fields.v : ExtrOcamlBasic only; N/Z/positive/nat stay inductives. *)
From Coq Require Import ExtrOcamlBasic.
From PydoctorVerif Require Import Base.Sexp Model.FieldTypes Gen.TablesC09 Model.Fields.
Extraction Language OCaml.
Extraction "model.ml" run.
