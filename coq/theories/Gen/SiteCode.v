(* GENERATED *)
From Coq Require Import NArith List Bool.
Import ListNotations.
From PydoctorVerif Require Import Base.Sexp Model.Site Model.SiteIR.

(* pydoctor/model.py Documentable.fullName *)
Definition code_Documentable_fullName : istmt :=
  SSeq (SAssign 0 (EParentOf (ESelf))) (SIf (EIs (EVar 0) (EConst VNone)) (SReturn (EName (ESelf))) (SReturn (EConcat [ECall FFullName (EVar 0); EConst (VStr [46]%N); EName (ESelf)]))).

(* pydoctor/model.py Documentable.privacyClass *)
Definition code_Documentable_privacyClass : istmt :=
  SReturn (ESysPrivacy (ESelf)).

(* pydoctor/model.py Module.privacyClass *)
Definition code_Module_privacyClass : istmt :=
  SIf (EEq (EName (ESelf)) (EConst (VStr [95; 95; 109; 97; 105; 110; 95; 95]%N))) (SReturn (EConst (VPriv PRIVATE))) (SReturn (ESuperPrivacy)).

(* pydoctor/model.py Documentable.isVisible *)
Definition code_Documentable_isVisible : istmt :=
  SSeq (SAssign 0 (EIsNot (ECall FPrivacy (ESelf)) (EConst (VPriv HIDDEN)))) (SSeq (SIf (EAnd (EVar 0) (EParentOf (ESelf))) (SAssign 0 (ECall FIsVisible (EParentOf (ESelf)))) (SSkip)) (SReturn (EVar 0))).

(* pydoctor/model.py Documentable.isPrivate *)
Definition code_Documentable_isPrivate : istmt :=
  SReturn (EIsNot (ECall FPrivacy (ESelf)) (EConst (VPriv PUBLIC))).

(* pydoctor/model.py Documentable.page_object *)
Definition code_Documentable_page_object : istmt :=
  SSeq (SAssign 0 (EDocLoc (ESelf))) (SIf (EIs (EVar 0) (EConst (VLoc true))) (SReturn (ESelf)) (SIf (EIs (EVar 0) (EConst (VLoc false))) (SSeq (SAssign 1 (EParentOf (ESelf))) (SSeq (SAssert (EIsNot (EVar 1) (EConst VNone))) (SReturn (EVar 1)))) (SAssert (EConst (VBool false))))).

(* pydoctor/model.py Documentable.url *)
Definition code_Documentable_url : istmt :=
  SSeq (SAssign 0 (ECall FPageObject (ESelf))) (SSeq (SIf (EEq (EListOf (ERootNames)) (EListLit [ECall FFullName (EVar 0)])) (SAssign 1 (EConst (VStr [105; 110; 100; 101; 120; 46; 104; 116; 109; 108]%N))) (SAssign 1 (EConcat [EQuote (ECall FFullName (EVar 0)); EConst (VStr [46; 104; 116; 109; 108]%N)]))) (SIf (EIs (EVar 0) (ESelf)) (SReturn (EVar 1)) (SReturn (EConcat [EVar 1; EConst (VStr [35]%N); EQuote (EName (ESelf))])))).

(* pydoctor/linker.py taglink(o, page_url, label): parameters page_url = variable 0, label = variable 1 *)
Definition code_taglink : istmt :=
  SSeq (SIf (EIs (EVar 1) (EConst VNone)) (SAssign 1 (ECall FFullName (ESelf))) (SSkip)) (SSeq (SIf (ENot (ECall FIsVisible (ESelf))) (SSeq (SLog) (SReturn (ETagPlain (EVar 1)))) (SSkip)) (SSeq (SAssign 2 (ECall FUrl (ESelf))) (SSeq (SIf (EAnd (EVar 0) (EStartsWith (EVar 2) (EConcat [EVar 0; EConst (VStr [35]%N)]))) (SAssign 2 (ESlice (EVar 2) (Some (ELen (EVar 0))) (None))) (SSkip)) (SSeq (SAssign 3 (ETagA (EVar 1) (EVar 2))) (SSeq (SIf (ENe (EVar 1) (ECall FFullName (ESelf))) (SAssign 3 (ETagTitle (EVar 3) (ECall FFullName (ESelf)))) (SSkip)) (SReturn (EVar 3))))))).

Definition site_code (f : fname) : istmt :=
  match f with
  | FFullName => code_Documentable_fullName
  | FPrivacy => code_Documentable_privacyClass
  | FModPrivacy => code_Module_privacyClass
  | FIsVisible => code_Documentable_isVisible
  | FIsPrivate => code_Documentable_isPrivate
  | FPageObject => code_Documentable_page_object
  | FUrl => code_Documentable_url
  | FTaglink => code_taglink
  end.

