(* Proofs/ProjectSchedProofs.v -- every order the tool can realise (Spec/ProjectSchedules.v) is a permutation of the
   modules of the project: each module is scheduled exactly once. *)
From Coq Require Import ZArith NArith List Bool Lia Permutation.
From PydoctorVerif Require Import Base.Sexp Model.Project Spec.ProjectStatic Spec.ProjectSchedules Proofs.ProjectBase Proofs.ProjectRegistry.
Import ListNotations.
Local Open Scope N_scope.

Scheme tool_tree_mind := Minimality for tool_tree Sort Prop
  with tool_forest_mind := Minimality for tool_forest Sort Prop.

Section Sched.
  Variable p : project.
  Hypothesis Hwf : parents_first p.

  Fixpoint up (k : nat) (x : N) : option N :=
    match k with
    | O => Some x
    | S k => match parent_of p x with Some q => up k q | None => None end
    end.

  Definition desc (m x : N) : Prop := modinfo_of p x <> None /\ exists k, up k x = Some m.

  Lemma parent_lt x q : parent_of p x = Some q -> q < x /\ modinfo_of p x <> None /\ modinfo_of p q <> None.
  Proof.
    unfold parent_of. destruct (modinfo_of p x) as [mi|] eqn:E; [|discriminate]. intros Hq.
    pose proof (Hwf x mi q E Hq) as Hlt. split; [exact Hlt|]. split; [discriminate|].
    unfold modinfo_of in *. assert (Hx : (N.to_nat x < length p)%nat) by (apply nth_error_Some; congruence).
    apply nth_error_Some. lia.
  Qed.

  Lemma up_le : forall k x m, up k x = Some m -> m <= x /\ (k <> O -> m < x).
  Proof.
    induction k as [|k IH]; intros x m; cbn [up].
    - intros E. inversion E. split; [lia|congruence].
    - destruct (parent_of p x) as [q|] eqn:Eq; [|discriminate]. intros E. destruct (IH q m E) as [A _].
      destruct (parent_lt x q Eq) as [B _]. split; [lia|intros _; lia].
  Qed.

  Lemma up_chain : forall k1 x k2 a b, up k1 x = Some a -> up k2 x = Some b -> (k1 <= k2)%nat -> up (k2 - k1) a = Some b.
  Proof.
    induction k1 as [|k1 IH]; intros x k2 a b; cbn [up].
    - intros E. inversion E; subst. rewrite Nat.sub_0_r. auto.
    - destruct (parent_of p x) as [q|] eqn:Eq; [|discriminate]. intros Ea Eb Hle.
      destruct k2 as [|k2]; [lia|]. cbn [up] in Eb. rewrite Eq in Eb. cbn [Nat.sub]. apply (IH q); [exact Ea|exact Eb|lia].
  Qed.

  Lemma up_snoc : forall k x c m, up k x = Some c -> parent_of p c = Some m -> up (S k) x = Some m.
  Proof.
    induction k as [|k IH]; intros x c m; cbn [up].
    - intros E. inversion E; subst. intros ->. reflexivity.
    - destruct (parent_of p x) as [q|] eqn:Eq; [|discriminate]. intros E Hc. exact (IH q c m E Hc).
  Qed.

  Lemma up_last : forall k x m, up (S k) x = Some m -> exists c, up k x = Some c /\ parent_of p c = Some m.
  Proof.
    induction k as [|k IH]; intros x m.
    - cbn [up]. destruct (parent_of p x) as [q|] eqn:Eq; [|discriminate]. intros E. inversion E; subst. eauto.
    - intros E. change (up (S (S k)) x) with (match parent_of p x with Some q => up (S k) q | None => None end) in E.
      destruct (parent_of p x) as [q|] eqn:Eq; [|discriminate]. destruct (IH q m E) as (c & Ec & Hc).
      exists c. split; [|exact Hc]. cbn [up]. rewrite Eq. exact Ec.
  Qed.

  Lemma children_In m c : In c (children_of p m) <-> parent_of p c = Some m.
  Proof.
    unfold children_of. rewrite filter_In, module_ids_In. split.
    - intros [_ H]. destruct (parent_of p c) as [q|]; [|discriminate]. apply N.eqb_eq in H. congruence.
    - intros H. split; [exact (proj1 (proj2 (parent_lt c m H)))|]. rewrite H. apply N.eqb_refl.
  Qed.
  Lemma roots_In r : In r (root_ids p) <-> modinfo_of p r <> None /\ parent_of p r = None.
  Proof.
    unfold root_ids. rewrite filter_In, module_ids_In. split; intros [A B]; (split; [exact A|]).
    - destruct (parent_of p r); [discriminate|reflexivity].
    - rewrite B. reflexivity.
  Qed.

  (* two different children of the same package have disjoint sub-trees; so have two different roots *)
  Lemma siblings_disjoint m a b x : parent_of p a = Some m -> parent_of p b = Some m -> desc a x -> desc b x -> a = b.
  Proof.
    assert (Haux : forall a b k1 k2, parent_of p a = Some m -> parent_of p b = Some m -> up k1 x = Some a -> up k2 x = Some b ->
                                     (k1 <= k2)%nat -> a = b).
    { intros a0 b0 k1 k2 Ha Hb E1 E2 Hle. pose proof (up_chain k1 x k2 a0 b0 E1 E2 Hle) as E.
      destruct (k2 - k1)%nat as [|j]; [cbn in E; congruence|]. exfalso.
      cbn [up] in E. rewrite Ha in E. destruct (up_le j m b0 E) as [A _]. destruct (parent_lt b0 m Hb) as [B _]. lia. }
    intros Ha Hb [_ (k1 & E1)] [_ (k2 & E2)]. destruct (Nat.le_ge_cases k1 k2) as [H|H].
    - exact (Haux a b k1 k2 Ha Hb E1 E2 H).
    - symmetry. exact (Haux b a k2 k1 Hb Ha E2 E1 H).
  Qed.
  Lemma roots_disjoint a b x : parent_of p a = None -> parent_of p b = None -> desc a x -> desc b x -> a = b.
  Proof.
    assert (Haux : forall a b k1 k2, parent_of p a = None -> up k1 x = Some a -> up k2 x = Some b -> (k1 <= k2)%nat -> a = b).
    { intros a0 b0 k1 k2 Ha E1 E2 Hle. pose proof (up_chain k1 x k2 a0 b0 E1 E2 Hle) as E.
      destruct (k2 - k1)%nat as [|j]; [cbn in E; congruence|]. cbn [up] in E. rewrite Ha in E. discriminate. }
    intros Ha Hb [_ (k1 & E1)] [_ (k2 & E2)]. destruct (Nat.le_ge_cases k1 k2) as [H|H].
    - exact (Haux a b k1 k2 Ha E1 E2 H).
    - symmetry. exact (Haux b a k2 k1 Hb E2 E1 H).
  Qed.

  Lemma NoDup_app_disjoint {A} (l1 l2 : list A) : NoDup l1 -> NoDup l2 -> (forall x, In x l1 -> In x l2 -> False) -> NoDup (l1 ++ l2).
  Proof.
    induction l1 as [|a l1 IH]; intros H1 H2 Hd; cbn [app]; [exact H2|]. apply NoDup_cons_iff in H1. destruct H1 as [Ha H1].
    constructor.
    - rewrite in_app_iff. intros [H|H]; [contradiction|]. apply (Hd a); [left; reflexivity|exact H].
    - apply IH; [exact H1|exact H2|]. intros x Hx. apply Hd. right. exact Hx.
  Qed.

  Definition tree_ok (m : N) (sig : list N) : Prop :=
    modinfo_of p m <> None -> NoDup sig /\ forall x, In x sig <-> desc m x.
  Definition forest_ok (ms sig : list N) : Prop :=
    (forall m, In m ms -> modinfo_of p m <> None) -> NoDup ms ->
    (forall a b x, In a ms -> In b ms -> desc a x -> desc b x -> a = b) ->
    NoDup sig /\ forall x, In x sig <-> exists m, In m ms /\ desc m x.

  Lemma tool_tree_ok : forall m sig, tool_tree p m sig -> tree_ok m sig.
  Proof.
    apply (tool_tree_mind p tree_ok forest_ok).
    - (* a node *)
      intros m cs sig Hperm _ IH Hm.
      assert (Hcs : forall c, In c cs <-> parent_of p c = Some m).
      { intros c. rewrite <- children_In. split; [apply Permutation_in; exact Hperm|apply Permutation_in; apply Permutation_sym; exact Hperm]. }
      destruct IH as [Hnd Hin].
      + intros c Hc. apply Hcs in Hc. exact (proj1 (proj2 (parent_lt c m Hc))).
      + eapply Permutation_NoDup; [apply Permutation_sym; exact Hperm|]. unfold children_of. apply NoDup_filter. apply module_ids_NoDup.
      + intros a b x Ha Hb. apply (siblings_disjoint m); apply Hcs; assumption.
      + split.
        * constructor; [|exact Hnd]. intros Hx. apply Hin in Hx. destruct Hx as (c & Hc & _ & (k & E)).
          apply Hcs in Hc. destruct (up_le k m c E) as [A _]. destruct (parent_lt c m Hc) as [B _]. lia.
        * intros x. cbn [In]. rewrite Hin. split.
          -- intros [<-|(c & Hc & Hx & (k & E))]; [split; [exact Hm|exists O; reflexivity]|].
             split; [exact Hx|]. exists (S k). apply (up_snoc k x c m E). apply Hcs. exact Hc.
          -- intros [Hx (k & E)]. destruct k as [|k]; [left; cbn in E; congruence|]. right.
             destruct (up_last k x m E) as (c & Ec & Hc). exists c. split; [apply Hcs; exact Hc|]. split; [exact Hx|eauto].
    - intros _ _ _. split; [constructor|]. intros x. split; [intros []|intros (m & [] & _)].
    - intros m ms s1 s2 _ IH1 _ IH2 Hmod Hnd Hdis. apply NoDup_cons_iff in Hnd. destruct Hnd as [Hm Hnd].
      destruct (IH1 (Hmod m (or_introl eq_refl))) as [N1 I1].
      destruct IH2 as [N2 I2]; [intros a Ha; apply Hmod; right; exact Ha|exact Hnd|intros a b x Ha Hb; apply Hdis; right; assumption|].
      split.
      + apply NoDup_app_disjoint; [exact N1|exact N2|]. intros x H1 H2. apply I1 in H1. apply I2 in H2. destruct H2 as (b & Hb & Hx).
        assert (m = b) by (apply (Hdis m b x); [left; reflexivity|right; exact Hb|exact H1|exact Hx]). subst b. contradiction.
      + intros x. rewrite in_app_iff, I1, I2. split.
        * intros [H|(b & Hb & H)]; [exists m; split; [left; reflexivity|exact H]|exists b; split; [right; exact Hb|exact H]].
        * intros (b & [<-|Hb] & H); [left; exact H|right; eauto].
  Qed.

  Lemma tool_forest_ok : forall ms sig, tool_forest p ms sig -> forest_ok ms sig.
  Proof.
    apply (tool_forest_mind p tree_ok forest_ok).
    - intros m cs sig Hperm Hf IH. apply tool_tree_ok. econstructor; eassumption.
    - intros _ _ _. split; [constructor|]. intros x. split; [intros []|intros (m & [] & _)].
    - intros m ms s1 s2 _ IH1 _ IH2 Hmod Hnd Hdis. apply NoDup_cons_iff in Hnd. destruct Hnd as [Hm Hnd].
      destruct (IH1 (Hmod m (or_introl eq_refl))) as [N1 I1].
      destruct IH2 as [N2 I2]; [intros a Ha; apply Hmod; right; exact Ha|exact Hnd|intros a b x Ha Hb; apply Hdis; right; assumption|].
      split.
      + apply NoDup_app_disjoint; [exact N1|exact N2|]. intros x H1 H2. apply I1 in H1. apply I2 in H2. destruct H2 as (b & Hb & Hx).
        assert (m = b) by (apply (Hdis m b x); [left; reflexivity|right; exact Hb|exact H1|exact Hx]). subst b. contradiction.
      + intros x. rewrite in_app_iff, I1, I2. split.
        * intros [H|(b & Hb & H)]; [exists m; split; [left; reflexivity|exact H]|exists b; split; [right; exact Hb|exact H]].
        * intros (b & [<-|Hb] & H); [left; exact H|right; eauto].
  Qed.

  (* every module lies below exactly one root *)
  Lemma root_above : forall n x, (N.to_nat x < n)%nat -> modinfo_of p x <> None -> exists k r, up k x = Some r /\ parent_of p r = None /\ modinfo_of p r <> None.
  Proof.
    induction n as [|n IH]; intros x Hlt Hx; [lia|]. destruct (parent_of p x) as [q|] eqn:Eq.
    - destruct (parent_lt x q Eq) as (Hq & _ & Hqm). destruct (IH q ltac:(lia) Hqm) as (k & r & E & Hr & Hrm).
      exists (S k), r. cbn [up]. rewrite Eq. auto.
    - exists O, x. cbn [up]. auto.
  Qed.

  Theorem tool_order_permutation sigma : tool_order p sigma -> Permutation sigma (module_ids p).
  Proof.
    intros (rs & Hperm & Hf).
    assert (Hrs : forall r, In r rs <-> modinfo_of p r <> None /\ parent_of p r = None).
    { intros r. rewrite <- roots_In. split; [apply Permutation_in; exact Hperm|apply Permutation_in; apply Permutation_sym; exact Hperm]. }
    destruct (tool_forest_ok rs sigma Hf) as [Hnd Hin].
    - intros r Hr. apply Hrs in Hr. tauto.
    - eapply Permutation_NoDup; [apply Permutation_sym; exact Hperm|]. unfold root_ids. apply NoDup_filter. apply module_ids_NoDup.
    - intros a b x Ha Hb. apply roots_disjoint; [apply Hrs in Ha; tauto|apply Hrs in Hb; tauto].
    - apply NoDup_Permutation; [exact Hnd|apply module_ids_NoDup|]. intros x. rewrite Hin, module_ids_In. split.
      + intros (r & _ & Hx & _). exact Hx.
      + intros Hx. destruct (root_above (S (N.to_nat x)) x ltac:(lia) Hx) as (k & r & E & Hr & Hrm).
        exists r. split; [apply Hrs; auto|]. split; [exact Hx|eauto].
  Qed.

  (* a package comes before each of its sub-modules *)
  Lemma tool_forest_heads : forall ms sig, tool_forest p ms sig -> forall m, In m ms -> In m sig.
  Proof.
    intros ms sig H. induction H as [|m ms s1 s2 Ht _ IH]; intros a; [intros []|]. intros [<-|Ha].
    - inversion Ht; subst. left. reflexivity.
    - apply in_or_app. right. apply IH. exact Ha.
  Qed.

  (* the tool can realise at least one order *)
  Lemma forest_exists ms : (forall m, In m ms -> exists sig, tool_tree p m sig) -> exists sig, tool_forest p ms sig.
  Proof.
    induction ms as [|m ms IH]; intros H; [exists []; constructor|].
    destruct (H m (or_introl eq_refl)) as (s1 & H1). destruct IH as (s2 & H2); [intros a Ha; apply H; right; exact Ha|].
    exists (s1 ++ s2). constructor; assumption.
  Qed.
  Lemma tree_exists : forall n m, (length p - N.to_nat m < n)%nat -> exists sig, tool_tree p m sig.
  Proof.
    induction n as [|n IH]; intros m Hlt; [lia|].
    destruct (forest_exists (children_of p m)) as (sig & Hf).
    - intros c Hc. apply children_In in Hc. destruct (parent_lt c m Hc) as (A & B & _). apply IH.
      unfold modinfo_of in B. apply nth_error_Some in B. lia.
    - exists (m :: sig). econstructor; [apply Permutation_refl|exact Hf].
  Qed.
  Theorem tool_order_exists : exists sigma, tool_order p sigma.
  Proof.
    destruct (forest_exists (root_ids p)) as (sig & Hf).
    - intros r _. apply (tree_exists (S (length p - N.to_nat r))). lia.
    - exists sig, (root_ids p). split; [apply Permutation_refl|exact Hf].
  Qed.
End Sched.
