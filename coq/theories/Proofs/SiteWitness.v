(* Proofs/SiteWitness.v -- the boolean `live` decides `live_at`; concrete witnesses (vm_compute) of the defects
   recorded in known_findings/C11.json and C12.json, on the listing skeleton as observed (Model/SitePinned.v). *)
From Coq Require Import NArith List Bool Arith Lia.
From PydoctorVerif Require Import Base.Sexp Model.SiteTable Model.Site Model.SitePinned Spec.SiteSpec Proofs.SiteProofs.
Import ListNotations.

Lemma text_eqb_eq : forall a b, text_eqb a b = true -> a = b.
Proof.
  induction a as [|x a IH]; intros [|y b] H; cbn in H; try discriminate; [reflexivity|].
  apply andb_prop in H. destruct H as [H1 H2]. apply N.eqb_eq in H1. subst y. f_equal. now apply IH.
Qed.

Lemma live_at_live : forall quote tbl r cur h, live_at quote tbl r cur h -> live quote tbl r cur h = true.
Proof.
  intros quote tbl r cur h [Hf Ha]. unfold live. destruct (resolve cur h) as [f fr]. cbn [fst snd] in *.
  apply andb_true_intro. split.
  - apply existsb_exists. exists f. split; [exact Hf|apply text_eqb_refl].
  - destruct fr as [a|]; [|reflexivity]. destruct (Ha a eq_refl) as [n [Hn Hm]].
    apply existsb_exists. exists (f, n). split; [exact Hn|]. cbn [fst snd]. rewrite text_eqb_refl. cbn [andb].
    unfold frag_matches. destruct Hm as [E|E]; subst a; rewrite text_eqb_refl; [reflexivity|apply orb_true_r].
Qed.

Lemma existsb_witness : forall {X} (f : X -> bool) l, existsb f l = true -> exists x, In x l /\ f x = true.
Proof. intros X f l H. now apply existsb_exists. Qed.

(* (a) superseded duplicate: nameIndex.html links to index.html#f%200, an anchor that is never written *)
Lemma w_dup_wf : wf w_dup.
Proof. apply wf_b_sound. vm_compute. reflexivity. Qed.

Lemma dup_dead_link : exists e h,
  In e (site_entries cquote table_pinned w_dup 1 false) /\ e_prod e = P_name_index /\
  link_of cquote table_pinned w_dup e = Some h /\ ~ live_at cquote table_pinned w_dup (e_page e) h.
Proof.
  assert (H : existsb (fun e => N.eqb (e_prod e) P_name_index &&
                 match link_of cquote table_pinned w_dup e with
                 | Some h => negb (live cquote table_pinned w_dup (e_page e) h) | None => false end)
              (site_entries cquote table_pinned w_dup 1 false) = true) by (vm_compute; reflexivity).
  apply existsb_witness in H. destruct H as [e [Hin H]]. apply andb_prop in H. destruct H as [Hp Hl].
  destruct (link_of cquote table_pinned w_dup e) as [h|] eqn:E; [|discriminate].
  exists e, h. repeat split; [exact Hin|now apply N.eqb_eq|exact E|].
  intros Hlive. apply live_at_live in Hlive. rewrite Hlive in Hl. discriminate.
Qed.

Lemma dup_not_reachable : ~ all_reachable w_dup.
Proof.
  intros H. assert (Hv : valid w_dup 2) by (unfold valid; cbn; lia).
  destruct (H 2 Hv) as [root [Hr Hd]]. cbn in Hr. destruct Hr as [E|[]]. subst root.
  inversion Hd as [|i c o Hc Hd']; subst. cbn in Hc. destruct Hc as [E|[]]. subst c.
  inversion Hd' as [|i c o Hc Hd'']; subst. cbn in Hc. contradiction.
Qed.

(* (b) before fd84d91: the class signature of V links to the page of its hidden base H, which is never written *)
Lemma w_hidden_base_wf : wf w_hidden_base.
Proof. apply wf_b_sound. vm_compute. reflexivity. Qed.

Lemma taglink_old_hidden_target : exists e h,
  In e (site_entries cquote table_before_fd84d91 w_hidden_base 1 false) /\
  link_of cquote table_before_fd84d91 w_hidden_base e = Some h /\
  visible w_hidden_base (e_obj e) = false /\ ~ live_at cquote table_before_fd84d91 w_hidden_base (e_page e) h.
Proof.
  assert (H : existsb (fun e => negb (visible w_hidden_base (e_obj e)) &&
                 match link_of cquote table_before_fd84d91 w_hidden_base e with
                 | Some h => negb (live cquote table_before_fd84d91 w_hidden_base (e_page e) h) | None => false end)
              (site_entries cquote table_before_fd84d91 w_hidden_base 1 false) = true) by (vm_compute; reflexivity).
  apply existsb_witness in H. destruct H as [e [Hin H]]. apply andb_prop in H. destruct H as [Hv Hl].
  destruct (link_of cquote table_before_fd84d91 w_hidden_base e) as [h|] eqn:E; [|discriminate].
  exists e, h. repeat split; [exact Hin|exact E| |].
  - destruct (visible w_hidden_base (e_obj e)); [discriminate|reflexivity].
  - intros Hlive. apply live_at_live in Hlive. rewrite Hlive in Hl. discriminate.
Qed.

Lemma taglink_old_is_old : forall o ctx,
  taglink cquote table_before_fd84d91 w_hidden_base o ctx = taglink_old cquote w_hidden_base o ctx.
Proof. intros o ctx. unfold taglink, taglink_old. cbn [t_taglink_drops_hidden table_before_fd84d91]. now rewrite andb_false_r. Qed.

Lemma taglink_now_no_hidden_link :
  forallb (fun e => match link_of cquote table_pinned w_hidden_base e with
                    | Some _ => visible w_hidden_base (e_obj e) | None => true end)
          (site_entries cquote table_pinned w_hidden_base 1 false) = true.
Proof. vm_compute. reflexivity. Qed.

(* (d) before commit 989b1ee a HIDDEN root module had an entry in moduleIndex.html and in the root list of index.html *)
Lemma w_hidden_root_wf : wf w_hidden_root.
Proof. apply wf_b_sound. vm_compute. reflexivity. Qed.

Lemma hidden_root_listed : forall p, p = P_module_index \/ p = P_index_roots -> exists e,
  In e (site_entries cquote table_before_989b1ee w_hidden_root 1 false) /\ e_prod e = p /\
  listing_prod (e_prod e) = true /\ priv_of w_hidden_root (e_obj e) = HIDDEN /\ visible w_hidden_root (e_obj e) = false.
Proof.
  intros p Hp.
  assert (H : existsb (fun e => N.eqb (e_prod e) p && listing_prod (e_prod e) && Nat.eqb (e_obj e) 1)
              (site_entries cquote table_before_989b1ee w_hidden_root 1 false) = true)
    by (destruct Hp; subst p; vm_compute; reflexivity).
  apply existsb_witness in H. destruct H as [e [Hin H]]. apply andb_prop in H. destruct H as [H H3].
  apply andb_prop in H. destruct H as [H1 H2]. apply N.eqb_eq in H1. apply Nat.eqb_eq in H3.
  exists e. rewrite H3. repeat split; [exact Hin|exact H1|exact H2].
Qed.

Lemma hidden_root_not_listed_now :
  forallb (fun e => negb (listing_prod (e_prod e)) || visible w_hidden_root (e_obj e))
          (site_entries cquote table_pinned w_hidden_root 1 false) = true.
Proof. vm_compute. reflexivity. Qed.

(* (e) a page object whose name needs escaping: the file is written under the percent-encoded name, and the same
   string is used as href -- which, decoded by a conforming client, names a different file *)
Lemma w_non_ascii_wf : wf w_non_ascii.
Proof. apply wf_b_sound. vm_compute. reflexivity. Qed.

Lemma non_ascii_href : exists o,
  In o (written table_pinned w_non_ascii) /\ In (url cquote w_non_ascii o) (site_files cquote table_pinned w_non_ascii) /\
  cquote (url cquote w_non_ascii o) <> url cquote w_non_ascii o.
Proof. exists 1. repeat split; [vm_compute; auto|vm_compute; auto|vm_compute; discriminate]. Qed.

(* (f) the docstring of B.x, inherited by S.x, is rendered with page_url = B's page but placed on S's page:
   L{t} becomes `#t`, live on m.B.html and dead on m.S.html *)
Lemma w_inherit_wf : wf w_inherit.
Proof. apply wf_b_sound. vm_compute. reflexivity. Qed.

Lemma live_live_at : forall quote tbl r cur h, live quote tbl r cur h = true -> live_at quote tbl r cur h.
Proof.
  intros quote tbl r cur h H. unfold live in H. unfold live_at. destruct (resolve cur h) as [f fr]. cbn [fst snd].
  apply andb_prop in H. destruct H as [Hf Ha]. split.
  - apply existsb_exists in Hf. destruct Hf as [x [Hx E]]. apply text_eqb_eq in E. now subst x.
  - intros a Ea. subst fr. apply existsb_exists in Ha. destruct Ha as [[f' n] [Hx E]]. cbn [fst snd] in E.
    apply andb_prop in E. destruct E as [E1 E2]. apply text_eqb_eq in E1. subst f'. exists n. split; [exact Hx|].
    unfold frag_matches in E2. apply orb_prop in E2. destruct E2 as [E2|E2]; apply text_eqb_eq in E2; auto.
Qed.

Lemma inherited_docstring_context :
  exists h, taglink cquote table_pinned w_inherit 2 (url cquote w_inherit 1) = Some (c_hash :: h) /\
            live_at cquote table_pinned w_inherit (url cquote w_inherit 1) (c_hash :: h) /\
            ~ live_at cquote table_pinned w_inherit (url cquote w_inherit 4) (c_hash :: h).
Proof.
  exists [116%N]. split; [vm_compute; reflexivity|]. split.
  - apply live_live_at. vm_compute. reflexivity.
  - intros H. apply live_at_live in H. vm_compute in H. discriminate.
Qed.

(* (a') a class whose base is a superseded duplicate is neither a root class (its base is visible) nor listed under
   its base (names with ' ' are skipped): its "View In Hierarchy" link has no anchor *)
Lemma w_dup_base_wf : wf w_dup_base.
Proof. apply wf_b_sound. vm_compute. reflexivity. Qed.

Lemma hierarchy_dead_link : exists e h,
  In e (site_entries cquote table_pinned w_dup_base 1 false) /\ e_prod e = P_hierarchy /\
  link_of cquote table_pinned w_dup_base e = Some h /\ ~ live_at cquote table_pinned w_dup_base (e_page e) h /\
  ~ plain_name w_dup_base 3 /\ base_star w_dup_base 3 (e_obj e).
Proof.
  assert (H : existsb (fun e => N.eqb (e_prod e) P_hierarchy && Nat.eqb (e_obj e) 1 &&
                 match link_of cquote table_pinned w_dup_base e with
                 | Some h => negb (live cquote table_pinned w_dup_base (e_page e) h) | None => false end)
              (site_entries cquote table_pinned w_dup_base 1 false) = true) by (vm_compute; reflexivity).
  apply existsb_witness in H. destruct H as [e [Hin H]]. apply andb_prop in H. destruct H as [H Hl].
  apply andb_prop in H. destruct H as [Hp Ho]. apply Nat.eqb_eq in Ho.
  destruct (link_of cquote table_pinned w_dup_base e) as [h|] eqn:E; [|discriminate].
  exists e, h. split; [exact Hin|]. split; [now apply N.eqb_eq|]. split; [exact E|]. split; [|split].
  - intros Hlive. apply live_at_live in Hlive. rewrite Hlive in Hl. discriminate.
  - intros [H1 _]. vm_compute in H1. discriminate.
  - rewrite Ho. apply bs_step with 3; [cbn; auto|apply bs_refl].
Qed.

(* the `__main__` deviation: the rule HIDDEN:p.__main__ is ignored, the module is rendered and marked private *)
Lemma w_main_wf : wf w_main.
Proof. apply wf_b_sound. vm_compute. reflexivity. Qed.

Lemma main_rule_ignored :
  (exists o, get w_main 1 = Some o /\ o_priv o = HIDDEN) /\ priv_of w_main 1 = PRIVATE /\ visible w_main 1 = true /\
  In 1 (written table_pinned w_main) /\
  existsb (fun e => Nat.eqb (e_obj e) 1 && N.eqb (e_prod e) P_module_index && e_private e)
          (site_entries cquote table_pinned w_main 1 false) = true.
Proof. split; [eexists; split; reflexivity|]. vm_compute. repeat split; auto. Qed.

(* the same defect as an entry of the site: the cross reference of S.x's inherited docstring, rendered on S's page *)
Lemma inherited_docstring_entry : exists e h p i,
  In e (site_entries cquote table_pinned w_inherit 1 false) /\ e_prod e = P_xref /\
  xref_from cquote table_pinned w_inherit e p i /\ ~ same_page_source w_inherit i /\
  own_page w_inherit (e_obj e) = false /\ reachable w_inherit (e_obj e) /\
  link_of cquote table_pinned w_inherit e = Some h /\ ~ live_at cquote table_pinned w_inherit (e_page e) h.
Proof.
  set (e := mk (url cquote w_inherit 4) P_xref (doc_ctx cquote w_inherit (url cquote w_inherit 4) 5) false 2).
  exists e, [c_hash; 116%N], 4, 5.
  split.
  { unfold site_entries. apply in_or_app. right. apply in_or_app. left. apply in_flat_map. exists 4.
    split; [vm_compute; auto|]. unfold xref_entries. apply in_or_app. left. apply in_flat_map. exists 5.
    split; [vm_compute; auto|]. apply in_map_iff. exists 2. split; [reflexivity|vm_compute; auto]. }
  split; [reflexivity|]. split.
  - unfold xref_from. repeat split; vm_compute; auto.
  - split; [vm_compute; intros H; discriminate H|]. split; [reflexivity|]. split.
    + exists 0. split; [now left|]. apply desc_step with 1; [cbn; auto|]. apply desc_step with 2; [cbn; auto|apply desc_refl].
    + split; [vm_compute; reflexivity|]. intros H. apply live_at_live in H. vm_compute in H. discriminate.
Qed.

(* non-vacuity *)
Lemma w_example_wf : wf w_example.
Proof. apply wf_b_sound. vm_compute. reflexivity. Qed.

Lemma w_example_all_reachable : all_reachable w_example.
Proof.
  intros o Hv. unfold valid in Hv. cbn in Hv. exists 0. split; [now left|].
  assert (D1 : desc w_example 0 1) by (apply desc_step with 1; [cbn; auto|apply desc_refl]).
  assert (D4 : desc w_example 0 4) by (apply desc_step with 4; [cbn; auto|apply desc_refl]).
  destruct o as [|[|[|[|[|[|o]]]]]]; try lia.
  - apply desc_refl.
  - exact D1.
  - apply (desc_trans_child _ _ 1); [exact D1|cbn; auto].
  - apply (desc_trans_child _ _ 1); [exact D1|cbn; auto].
  - exact D4.
  - apply (desc_trans_child _ _ 4); [exact D4|cbn; auto].
Qed.

Definition w_example_rank (c : nat) : nat := 0.
Lemma w_example_classes : wf_classes w_example w_example_rank.
Proof.
  constructor.
  - intros c b H. exfalso. unfold bases_of in H. destruct c as [|[|[|[|[|[|c]]]]]]; cbn in H; try contradiction.
    destruct c; cbn in H; contradiction.
  - intros c Hv Hk. unfold valid in Hv. cbn in Hv. destruct c as [|[|[|[|[|[|c]]]]]]; cbn; try lia; auto 10.
  - intros c b H. exfalso. unfold bases_of in H. destruct c as [|[|[|[|[|[|c]]]]]]; cbn in H; try contradiction.
    destruct c; cbn in H; contradiction.
  - intros c. cbn. unfold w_example_rank. lia.
Qed.

Lemma cquote_no_hash : forall t, ~ In c_hash (cquote t).
Proof.
  intros t H. unfold cquote in H. apply in_flat_map in H. destruct H as [c [_ H]].
  destruct (quote_safe c) eqn:Hs.
  - destruct H as [E|[]]. subst c. vm_compute in Hs. discriminate.
  - apply in_flat_map in H. destruct H as [b [_ H]]. unfold pct in H.
    assert (Hd : forall n, hexdigit n <> c_hash).
    { intros n. unfold hexdigit, c_hash. destruct (N.ltb_spec n 10); lia. }
    destruct H as [E|[E|[E|[]]]]; [discriminate E|exact (Hd _ E)|exact (Hd _ E)].
Qed.
