(* Proofs/FieldsProofs.v -- field routing: FieldHandler (Model/Fields.v) against Spec/Routing.v. *)
From Coq Require Import ZArith NArith List Bool Arith Lia String.
From PydoctorVerif Require Import Base.Sexp Model.FieldTypes Gen.TablesC09 Model.Fields Spec.Routing
     Proofs.FieldsCount Proofs.FieldsTables.
Import ListNotations.

Ltac st_simpl :=
  cbn [st_types st_pdescs st_ret st_yld st_raises st_warns st_seealsos st_notes st_authors st_sinces
       st_unknowns st_reports st_attr_type set_types set_pdescs set_ret set_yld set_raises set_warns
       set_seealsos set_notes set_authors set_sinces set_unknowns set_reports set_attr_type add_report] in *.

Ltac occ_unfold :=
  unfold total, shown_total, ret_occ, yld_occ, raises_occ, warns_occ in *; st_simpl.

Lemma ty_occ_key : forall i (k k' : pname) v, ty_occ i (k, v) = ty_occ i (k', v).
Proof. reflexivity. Qed.

Lemma dict_set_occ_le : forall i (k : pname) v d, types_occ i (dict_set k v d) <= types_occ i d + ty_occ i (k, v).
Proof.
  intros i k v d. induction d as [|[k' v'] d IH]; cbn [dict_set].
  - unfold types_occ. cbn [map list_sum fold_right]. lia.
  - destruct (text_eqb (pn_text k') (pn_text k)).
    + unfold types_occ. cbn [map list_sum fold_right]. rewrite (ty_occ_key i k' k). Show. lia.
    + unfold types_occ in *. cbn [map list_sum fold_right]. lia.
Qed.

Lemma unknowns_add_occ : forall p i tag v d,
  unknowns_occ p i (unknowns_add tag v d) = unknowns_occ p i d + (if p tag then unk_list_occ i [v] else 0).
Proof.
  intros p i tag v d. induction d as [|[k l] d IH]; cbn [unknowns_add].
  - unfold unknowns_occ. cbn [map list_sum fold_right fst snd]. destruct (p tag); lia.
  - destruct (text_eqb k tag) eqn:Ek.
    + apply text_eqb_eq in Ek. subst k. unfold unknowns_occ. cbn [map list_sum fold_right fst snd].
      destruct (p tag); [|lia]. unfold unk_list_occ. rewrite map_app, idx_occ_app. cbn [map]. lia.
    + unfold unknowns_occ in *. cbn [map list_sum fold_right]. rewrite IH. lia.
Qed.

Lemma idx_occ_one : forall i j, idx_occ i [j] = if Nat.eqb j i then 1 else 0.
Proof. intros. unfold idx_occ. cbn. lia. Qed.

Section WithEnv.
  Variable E : env.

  (* ---- reports only grow; the helpers that only report leave every bucket alone ------------------- *)
  Definition same_buckets (a b : state) : Prop :=
    st_types a = st_types b /\ st_pdescs a = st_pdescs b /\ st_ret a = st_ret b /\ st_yld a = st_yld b /\
    st_raises a = st_raises b /\ st_warns a = st_warns b /\ st_seealsos a = st_seealsos b /\
    st_notes a = st_notes b /\ st_authors a = st_authors b /\ st_sinces a = st_sinces b /\
    st_unknowns a = st_unknowns b /\ exists extra, st_reports a = st_reports b ++ extra.

  Lemma same_buckets_refl : forall st, same_buckets st st.
  Proof. intros st. unfold same_buckets. repeat split. exists []. symmetry. apply app_nil_r. Qed.

  Lemma add_report_same : forall i k n v st, same_buckets (add_report i k n v st) st.
  Proof. intros. unfold same_buckets. st_simpl. repeat split. eexists. reflexivity. Qed.

  Lemma unexpected_arg_same : forall i f st, same_buckets (unexpected_arg i f st) st.
  Proof. intros. unfold unexpected_arg. destruct (f_arg f); [apply add_report_same | apply same_buckets_refl]. Qed.

  Lemma param_not_found_same : forall i n st, same_buckets (handle_param_not_found E i n st) st.
  Proof.
    intros. unfold handle_param_not_found.
    match goal with |- context [if ?c then st else _] => destruct c end;
      [apply same_buckets_refl | apply add_report_same].
  Qed.

  Lemma param_name_same : forall i f st, same_buckets (snd (handle_param_name E i f st)) st.
  Proof.
    intros. unfold handle_param_name. destruct (f_arg f) as [a|]; [|apply add_report_same].
    destruct (annotations_of_source E) as [anns|]; [|apply same_buckets_refl].
    destruct (find _ anns); apply same_buckets_refl.
  Qed.

  (* name returned by _handle_param_name: the argument without its stars *)
  Lemma param_name_text : forall i f st n,
    fst (handle_param_name E i f st) = Some n -> arg_name f = Some (pn_text n).
  Proof.
    intros i f st n. unfold handle_param_name, arg_name. destruct (f_arg f) as [a|]; cbn [fst option_map]; [|discriminate].
    assert (LS : forall t, lstrip_star t = strip_stars t).
    { induction t as [|c t IH]; [reflexivity|]. cbn. destruct c as [|p]; [reflexivity|].
      repeat (destruct p as [p|p|]; try reflexivity). exact IH. }
    destruct (annotations_of_source E) as [anns|].
    - destruct (find (fun p => text_eqb (pn_text p) (lstrip_star a)) anns) as [p|] eqn:F; cbn [fst]; intro H; inversion H; subst.
      + apply find_some in F. destruct F as [_ F]. apply text_eqb_eq in F. rewrite F, LS. reflexivity.
      + cbn. rewrite LS. reflexivity.
    - cbn [fst]. intro H. inversion H; subst. cbn. rewrite LS. reflexivity.
  Qed.

  Lemma param_name_none : forall i f st,
    fst (handle_param_name E i f st) = None -> f_arg f = None /\
    exists r, st_reports (snd (handle_param_name E i f st)) = st_reports st ++ [r] /\ rp_field r = i.
  Proof.
    intros i f st. unfold handle_param_name. destruct (f_arg f) as [a|].
    - destruct (annotations_of_source E) as [anns|]; [destruct (find _ anns)|]; cbn [fst]; discriminate.
    - intros _. split; [reflexivity|]. st_simpl. cbn [snd]. st_simpl. eexists. split; reflexivity.
  Qed.
End WithEnv.
