(* Proofs/FieldsProofs.v -- field routing: FieldHandler (Model/Fields.v) against Spec/Routing.v. *)
From Coq Require Import ZArith NArith List Bool Arith Lia String.
From PydoctorVerif Require Import Base.Sexp Model.FieldTypes Gen.TablesC09 Model.Fields Spec.Routing
     Proofs.FieldsCount Proofs.FieldsTables.
Import ListNotations.

Ltac st_simpl :=
  cbn [st_types st_pdescs st_ret st_yld st_raises st_warns st_seealsos st_notes st_authors st_sinces
       st_unknowns st_reports st_attr_type set_types set_pdescs set_ret set_yld set_raises set_warns
       set_seealsos set_notes set_authors set_sinces set_unknowns set_reports set_attr_type add_report] in *.

Ltac occ_unfold :=
  unfold total, shown_total, ret_occ, yld_occ, raises_occ, warns_occ in *; st_simpl.

Lemma list_sum_cons : forall x l, list_sum (x :: l) = x + list_sum l.
Proof. reflexivity. Qed.
Lemma list_sum_nil : list_sum [] = 0.
Proof. reflexivity. Qed.

Lemma ty_occ_key : forall i (k k' : pname) v, ty_occ i (k, v) = ty_occ i (k', v).
Proof. reflexivity. Qed.

Lemma dict_set_occ_le : forall i (k : pname) v d, types_occ i (dict_set k v d) <= types_occ i d + ty_occ i (k, v).
Proof.
  intros i k v d. induction d as [|[k' v'] d IH]; cbn [dict_set].
  - unfold types_occ. cbn [map]; rewrite ?list_sum_cons, ?list_sum_nil. lia.
  - destruct (text_eqb (pn_text k') (pn_text k)).
    + unfold types_occ. cbn [map]; rewrite ?list_sum_cons, ?list_sum_nil. rewrite (ty_occ_key i k' k). lia.
    + unfold types_occ in *. cbn [map]; rewrite ?list_sum_cons, ?list_sum_nil. lia.
Qed.

Lemma unknowns_add_occ : forall p i tag v d,
  unknowns_occ p i (unknowns_add tag v d) = unknowns_occ p i d + (if p tag then unk_list_occ i [v] else 0).
Proof.
  intros p i tag v d. induction d as [|[k l] d IH]; cbn [unknowns_add].
  - unfold unknowns_occ. cbn [map fst snd]; rewrite ?list_sum_cons, ?list_sum_nil. destruct (p tag); lia.
  - destruct (text_eqb k tag) eqn:Ek.
    + apply text_eqb_eq in Ek. subst k. unfold unknowns_occ. cbn [map fst snd]; rewrite ?list_sum_cons, ?list_sum_nil.
      destruct (p tag); [|lia]. unfold unk_list_occ. rewrite map_app, idx_occ_app. cbn [map]. lia.
    + unfold unknowns_occ in *. cbn [map]; rewrite ?list_sum_cons, ?list_sum_nil. rewrite IH. lia.
Qed.

Lemma pds_occ_one : forall i p, pds_occ i [p] = pd_occ i p.
Proof. intros. unfold pds_occ. cbn [map]. rewrite list_sum_cons, list_sum_nil. lia. Qed.

Lemma idx_occ_one : forall i j, idx_occ i [j] = if Nat.eqb j i then 1 else 0.
Proof. intros. unfold idx_occ. cbn. lia. Qed.

Section WithEnv.
  Variable E : env.

  (* ---- reports only grow; the helpers that only report leave every bucket alone ------------------- *)
  Definition same_buckets (a b : state) : Prop :=
    st_types a = st_types b /\ st_pdescs a = st_pdescs b /\ st_ret a = st_ret b /\ st_yld a = st_yld b /\
    st_raises a = st_raises b /\ st_warns a = st_warns b /\ st_seealsos a = st_seealsos b /\
    st_notes a = st_notes b /\ st_authors a = st_authors b /\ st_sinces a = st_sinces b /\
    st_unknowns a = st_unknowns b /\ exists extra, st_reports a = st_reports b ++ extra.

  Lemma same_buckets_refl : forall st, same_buckets st st.
  Proof. intros st. unfold same_buckets. repeat (split; [reflexivity|]). exists []. symmetry. apply app_nil_r. Qed.

  Lemma add_report_same : forall i k n v st, same_buckets (add_report i k n v st) st.
  Proof. intros. unfold same_buckets. st_simpl. repeat (split; [reflexivity|]). eexists. reflexivity. Qed.

  Lemma unexpected_arg_same : forall i f st, same_buckets (unexpected_arg i f st) st.
  Proof. intros. unfold unexpected_arg. destruct (f_arg f); [apply add_report_same | apply same_buckets_refl]. Qed.

  Lemma param_not_found_same : forall i n st, same_buckets (handle_param_not_found E i n st) st.
  Proof.
    intros. unfold handle_param_not_found.
    match goal with |- context [if ?c then st else _] => destruct c end;
      [apply same_buckets_refl | apply add_report_same].
  Qed.

  Lemma param_name_same : forall i f st, same_buckets (snd (handle_param_name E i f st)) st.
  Proof.
    intros. unfold handle_param_name. destruct (f_arg f) as [a|]; [|apply add_report_same].
    destruct (annotations_of_source E) as [anns|]; [|apply same_buckets_refl].
    destruct (find _ anns); apply same_buckets_refl.
  Qed.

  (* name returned by _handle_param_name: the argument without its stars *)
  Lemma param_name_text : forall i f st n,
    fst (handle_param_name E i f st) = Some n -> arg_name f = Some (pn_text n).
  Proof.
    intros i f st n. unfold handle_param_name, arg_name. destruct (f_arg f) as [a|]; cbn [fst option_map]; [|discriminate].
    assert (LS : forall t, lstrip_star t = strip_stars t).
    { induction t as [|c t IH]; [reflexivity|]. cbn. destruct c as [|p]; [reflexivity|].
      repeat (destruct p as [p|p|]; try reflexivity); try exact IH. }
    destruct (annotations_of_source E) as [anns|].
    - destruct (find (fun p => text_eqb (pn_text p) (lstrip_star a)) anns) as [p|] eqn:F; cbn [fst]; intro H; inversion H; subst.
      + apply find_some in F. destruct F as [_ F]. apply text_eqb_eq in F. rewrite F. first [reflexivity | f_equal; symmetry; apply LS].
      + cbn. first [reflexivity | f_equal; symmetry; apply LS].
    - cbn [fst]. intro H. inversion H; subst. cbn. first [reflexivity | f_equal; symmetry; apply LS].
  Qed.

  Lemma param_name_none : forall i f st,
    fst (handle_param_name E i f st) = None -> f_arg f = None /\
    exists r, st_reports (snd (handle_param_name E i f st)) = st_reports st ++ [r] /\ rp_field r = i.
  Proof.
    intros i f st. unfold handle_param_name. destruct (f_arg f) as [a|].
    - destruct (annotations_of_source E) as [anns|]; [destruct (find _ anns)|]; cbn [fst]; discriminate.
    - intros _. split; [reflexivity|]. st_simpl. cbn [snd]. st_simpl. eexists. split; reflexivity.
  Qed.

  (* ---- a step adds at most one occurrence of its own index and never another index ------------------ *)
  Ltac same_rw H :=
    let S1 := fresh "S" in let S2 := fresh "S" in let S3 := fresh "S" in let S4 := fresh "S" in
    let S5 := fresh "S" in let S6 := fresh "S" in let S7 := fresh "S" in let S8 := fresh "S" in
    let S9 := fresh "S" in let S10 := fresh "S" in let S11 := fresh "S" in let S12 := fresh "S" in
    destruct H as (S1 & S2 & S3 & S4 & S5 & S6 & S7 & S8 & S9 & S10 & S11 & S12);
    st_simpl;
    rewrite ?S1, ?S2, ?S3, ?S4, ?S5, ?S6, ?S7, ?S8, ?S9, ?S10, ?S11 in *.

  Ltac eqb_cases :=
    repeat match goal with
           | |- context [Nat.eqb ?a ?b] => destruct (Nat.eqb_spec a b)
           | H : context [Nat.eqb ?a ?b] |- _ => destruct (Nat.eqb_spec a b)
           end.

  Ltac fin :=
    rewrite ?idx_occ_app, ?pds_occ_app, ?idx_occ_one, ?pds_occ_one, ?map_app, ?list_sum_app in *;
    cbn [map] in *;
    rewrite ?list_sum_cons, ?list_sum_nil in *;
    unfold pd_occ, ty_occ in *;
    cbn [body_occ type_occ option_map fst snd pd_body pd_type r_body r_type y_body y_type] in *;
    eqb_cases; lia.

  Lemma total_same : forall a b i, same_buckets a b -> total i a = total i b.
  Proof. intros a b i H. occ_unfold. same_rw H. reflexivity. Qed.

  Lemma handle_total_le : forall k f st i,
    total i (handle E k f st) <= total i st + (if Nat.eqb i k then 1 else 0).
  Proof.
    intros k f st i. unfold handle.
    destruct (lookup_handler (f_tag f) handler_table) as [[]|].
    - (* return *) unfold handle_return. pose proof (unexpected_arg_same k f st) as H.
      unfold ret_or_new. occ_unfold. same_rw H. destruct (st_ret st); fin.
    - (* yield *) unfold handle_yield. pose proof (unexpected_arg_same k f st) as H.
      unfold yld_or_new. occ_unfold. same_rw H. destruct (st_yld st); fin.
    - (* rtype *) unfold handle_returntype. pose proof (unexpected_arg_same k f st) as H.
      unfold ret_or_new. occ_unfold. same_rw H. destruct (st_ret st); fin.
    - (* ytype *) unfold handle_yieldtype. pose proof (unexpected_arg_same k f st) as H.
      unfold yld_or_new. occ_unfold. same_rw H. destruct (st_yld st); fin.
    - (* type *) unfold handle_type. destruct (e_obj E).
      + pose proof (param_name_same k f st) as H.
        destruct (handle_param_name E k f st) as [[n|] st1]; cbn [snd] in H.
        * match goal with |- context [if ?c then _ else st1] => destruct c end.
          -- pose proof (param_not_found_same k n st1) as H2.
             pose proof (dict_set_occ_le i n (Some (TyField k, FromDoc)) (st_types (handle_param_not_found E k n st1))) as D.
             occ_unfold. same_rw H2. same_rw H. fin.
          -- pose proof (dict_set_occ_le i n (Some (TyField k, FromDoc)) (st_types st1)) as D.
             occ_unfold. same_rw H. fin.
        * rewrite (total_same _ _ i H). fin.
      + destruct (f_arg f) as [a|]; [|fin].
        pose proof (dict_set_occ_le i {| pn_text := a; pn_star := SNone |} (Some (TyField k, FromDoc)) (st_types st)) as D.
        occ_unfold. fin.
      + destruct (f_arg f) as [a|]; [|fin].
        pose proof (dict_set_occ_le i {| pn_text := a; pn_star := SNone |} (Some (TyField k, FromDoc)) (st_types st)) as D.
        occ_unfold. fin.
      + destruct (f_arg f); occ_unfold; fin.
    - (* param *) unfold handle_param. pose proof (param_name_same k f st) as H.
      destruct (handle_param_name E k f st) as [[n|] st1]; cbn [snd] in H.
      + match goal with |- context [if pdesc_named ?a ?b then _ else _] => destruct (pdesc_named a b) end;
        match goal with |- context [if negb ?c then _ else _] => destruct c end; cbn [negb];
        try (match goal with |- context [handle_param_not_found E k n ?s] =>
               rewrite (total_same _ _ i (param_not_found_same k n s)) end);
        occ_unfold; same_rw H; fin.
      + rewrite (total_same _ _ i H). fin.
    - (* keyword *) unfold handle_keyword. pose proof (param_name_same k f st) as H.
      destruct (handle_param_name E k f st) as [[n|] st1]; cbn [snd] in H.
      + match goal with |- context [if ?c then _ else _] => destruct c end; occ_unfold; same_rw H; fin.
      + rewrite (total_same _ _ i H). fin.
    - (* elsewhere *) fin.
    - (* raises *) unfold handle_raises. destruct (f_arg f); occ_unfold; fin.
    - (* warns *) unfold handle_warns. destruct (f_arg f); occ_unfold; fin.
    - occ_unfold; fin.
    - occ_unfold; fin.
    - occ_unfold; fin.
    - occ_unfold; fin.
    - (* unknown *) unfold handle_unknown. occ_unfold. rewrite unknowns_add_occ. cbn beta. unfold unk_list_occ. cbn [map snd]. rewrite idx_occ_one. fin.
  Qed.

  (* ---- what one step does to the buckets (reports aside) ---------------------------------------------- *)
  Inductive upd :=
  | UNone | URet (r : rdesc) | UYld (y : ydesc) | UTypes (t : list (pname * option (tyref * origin)))
  | UPdescs (l : list pdesc) | URaises (l : list (tyref * nat)) | UWarns (l : list (option tyref * nat))
  | USee (l : list nat) | UNotes (l : list nat) | UAuthors (l : list nat) | USinces (l : list nat)
  | UUnknowns (d : list (text * list (option text * nat))).

  Definition apply_upd (u : upd) (st : state) : state :=
    match u with
    | UNone => st
    | URet r => set_ret (Some r) st
    | UYld y => set_yld (Some y) st
    | UTypes t => set_types t st
    | UPdescs l => set_pdescs l st
    | URaises l => set_raises l st
    | UWarns l => set_warns l st
    | USee l => set_seealsos l st
    | UNotes l => set_notes l st
    | UAuthors l => set_authors l st
    | USinces l => set_sinces l st
    | UUnknowns d => set_unknowns d st
    end.

  Definition new_pdesc (n : pname) (kw : bool) (k : nat) : pdesc :=
    {| pd_name := n; pd_kw := kw; pd_body := Some k; pd_type := None; pd_origin := None |}.

  Definition effect (k : nat) (g : field) (st : state) : upd :=
    match lookup_handler (f_tag g) handler_table with
    | Some HReturn => URet {| r_type := r_type (ret_or_new st); r_body := Some k; r_origin := r_origin (ret_or_new st) |}
    | Some HYield => UYld {| y_type := y_type (yld_or_new st); y_body := Some k |}
    | Some HReturnType => URet {| r_type := Some (TyField k); r_body := r_body (ret_or_new st); r_origin := Some FromDoc |}
    | Some HYieldType => UYld {| y_type := Some (TyField k); y_body := y_body (yld_or_new st) |}
    | Some HType =>
      match e_obj E with
      | OAttribute => UNone
      | OFunction _ =>
        match fst (handle_param_name E k g st) with
        | Some n => UTypes (dict_set n (Some (TyField k, FromDoc)) (st_types st))
        | None => UNone
        end
      | _ =>
        match f_arg g with
        | Some a => UTypes (dict_set {| pn_text := a; pn_star := SNone |} (Some (TyField k, FromDoc)) (st_types st))
        | None => UNone
        end
      end
    | Some HParam =>
      match fst (handle_param_name E k g st) with
      | Some n => UPdescs (st_pdescs st ++ [new_pdesc n false k])
      | None => UNone
      end
    | Some HKeyword =>
      match fst (handle_param_name E k g st) with
      | Some n => UPdescs (st_pdescs st ++ [new_pdesc n true k])
      | None => UNone
      end
    | Some HElsewhere => UNone
    | Some HRaises => URaises (st_raises st ++ [(match f_arg g with Some a => TyLink a | None => TyUnknownExc end, k)])
    | Some HWarns => UWarns (st_warns st ++ [(option_map TyLink (f_arg g), k)])
    | Some HSeeAlso => USee (st_seealsos st ++ [k])
    | Some HNote => UNotes (st_notes st ++ [k])
    | Some HAuthor => UAuthors (st_authors st ++ [k])
    | Some HSince => USinces (st_sinces st ++ [k])
    | None => UUnknowns (unknowns_add (f_tag g) (f_arg g, k) (st_unknowns st))
    end.

  Ltac sb_solve :=
    unfold same_buckets; st_simpl;
    repeat match goal with H : same_buckets _ _ |- _ => same_rw H end;
    repeat (split; [reflexivity|]);
    repeat match goal with H : exists e, st_reports _ = _ ++ e |- _ => let x := fresh "x" in destruct H as [x H] end;
    repeat match goal with Hr : st_reports _ = _ ++ _ |- _ => rewrite Hr end;
    rewrite <- ?app_assoc; first [eexists; reflexivity | exists []; rewrite app_nil_r; reflexivity].

  Lemma handle_effect : forall k g st, same_buckets (handle E k g st) (apply_upd (effect k g st) st).
  Proof.
    intros k g st. unfold handle, effect.
    destruct (lookup_handler (f_tag g) handler_table) as [[]|]; cbn [apply_upd].
    - unfold handle_return. pose proof (unexpected_arg_same k g st) as H. unfold ret_or_new. sb_solve.
    - unfold handle_yield. pose proof (unexpected_arg_same k g st) as H. unfold yld_or_new. sb_solve.
    - unfold handle_returntype. pose proof (unexpected_arg_same k g st) as H. unfold ret_or_new. sb_solve.
    - unfold handle_yieldtype. pose proof (unexpected_arg_same k g st) as H. unfold yld_or_new. sb_solve.
    - unfold handle_type. destruct (e_obj E).
      + pose proof (param_name_same k g st) as H.
        destruct (handle_param_name E k g st) as [[n|] st1]; cbn [fst snd apply_upd] in *.
        * match goal with |- context [if ?c then _ else st1] => destruct c end.
          -- pose proof (param_not_found_same k n st1) as H2. sb_solve.
          -- sb_solve.
        * exact H.
      + destruct (f_arg g); cbn [apply_upd]; sb_solve.
      + destruct (f_arg g); cbn [apply_upd]; sb_solve.
      + cbn [apply_upd]. destruct (f_arg g); sb_solve.
    - unfold handle_param. pose proof (param_name_same k g st) as H.
      destruct (handle_param_name E k g st) as [[n|] st1]; cbn [fst snd apply_upd] in *; [|exact H].
      match goal with |- context [if pdesc_named ?a ?b then _ else _] => destruct (pdesc_named a b) end;
        match goal with |- context [if negb ?c then _ else _] => destruct c end; cbn [negb];
        try (match goal with |- context [handle_param_not_found E k n ?s] =>
               pose proof (param_not_found_same k n s) end);
        unfold new_pdesc; sb_solve.

    - unfold handle_keyword. pose proof (param_name_same k g st) as H.
      destruct (handle_param_name E k g st) as [[n|] st1]; cbn [fst snd apply_upd] in *; [|exact H].
      match goal with |- context [if ?c then _ else _] => destruct c end; unfold new_pdesc; sb_solve.
    - apply same_buckets_refl.
    - unfold handle_raises. destruct (f_arg g); sb_solve.
    - unfold handle_warns. sb_solve.
    - sb_solve.
    - sb_solve.
    - sb_solve.
    - sb_solve.
    - unfold handle_unknown. sb_solve.
  Qed.

  Lemma reports_apply_upd : forall u st, st_reports (apply_upd u st) = st_reports st.
  Proof. intros [] st; reflexivity. Qed.

  Lemma handle_reports_mono : forall k g st, exists extra, st_reports (handle E k g st) = st_reports st ++ extra.
  Proof.
    intros k g st. destruct (handle_effect k g st) as (_ & _ & _ & _ & _ & _ & _ & _ & _ & _ & _ & x & Hx).
    exists x. rewrite Hx, reports_apply_upd. reflexivity.
  Qed.

  Lemma reported_mono : forall i k g st, reported_at i (st_reports st) -> reported_at i (st_reports (handle E k g st)).
  Proof.
    intros i k g st (r & Hr & Hi). destruct (handle_reports_mono k g st) as [x Hx].
    exists r. split; [rewrite Hx; apply in_or_app; left; exact Hr | exact Hi].
  Qed.

  (* ---- where a field's text sits in the state --------------------------------------------------------- *)
  Definition in_types (n : text) (i : nat) (tys : list (pname * option (tyref * origin))) : Prop :=
    exists k, In (k, Some (TyField i, FromDoc)) tys /\ pn_text k = n.

  Definition in_pdescs (n : text) (i : nat) (ds : list pdesc) : Prop :=
    exists l1 p l2, ds = l1 ++ p :: l2 /\ pn_text (pd_name p) = n /\ pd_body p = Some i /\ pd_type p = None /\
                    Forall (fun q => pn_text (pd_name q) <> n) l2.

  Definition placed (i : nat) (f : field) (st : state) : Prop :=
    match lookup_handler (f_tag f) handler_table with
    | Some HReturn => exists r, st_ret st = Some r /\ r_body r = Some i
    | Some HReturnType => exists r, st_ret st = Some r /\ r_type r = Some (TyField i) /\ r_origin r = Some FromDoc
    | Some HYield => exists y, st_yld st = Some y /\ y_body y = Some i
    | Some HYieldType => exists y, st_yld st = Some y /\ y_type y = Some (TyField i)
    | Some HType => exists n, arg_name f = Some n /\ in_types n i (st_types st)
    | Some HParam | Some HKeyword => exists n, arg_name f = Some n /\ in_pdescs n i (st_pdescs st)
    | Some HElsewhere => False
    | Some HRaises => exists t, In (t, i) (st_raises st)
    | Some HWarns => exists t, In (t, i) (st_warns st)
    | Some HSeeAlso => In i (st_seealsos st)
    | Some HNote => In i (st_notes st)
    | Some HAuthor => In i (st_authors st)
    | Some HSince => In i (st_sinces st)
    | None => exists l a, In (f_tag f, l) (st_unknowns st) /\ In (a, i) l
    end.

  Lemma dict_set_in : forall {V} (k : pname) (v : V) d,
    exists k', In (k', v) (dict_set k v d) /\ pn_text k' = pn_text k.
  Proof.
    intros V k v d. induction d as [|[k0 v0] d IH]; cbn [dict_set].
    - exists k. split; [left; reflexivity | reflexivity].
    - destruct (text_eqb (pn_text k0) (pn_text k)) eqn:Ek.
      + exists k0. split; [left; reflexivity | apply text_eqb_eq; exact Ek].
      + destruct IH as (k' & H1 & H2). exists k'. split; [right; exact H1 | exact H2].
  Qed.

  Lemma dict_set_keep : forall {V} (k : pname) (v : V) d k0 v0,
    In (k0, v0) d -> pn_text k0 <> pn_text k -> In (k0, v0) (dict_set k v d).
  Proof.
    intros V k v d k0 v0. induction d as [|[k1 v1] d IH]; cbn [dict_set]; intros Hin Hne; [contradiction|].
    destruct (text_eqb (pn_text k1) (pn_text k)) eqn:Ek.
    - destruct Hin as [Hin | Hin].
      + inversion Hin; subst. apply text_eqb_eq in Ek. contradiction.
      + right. exact Hin.
    - destruct Hin as [Hin | Hin]; [left; exact Hin | right; apply IH; assumption].
  Qed.

  Lemma unknowns_add_in : forall tag v d, exists l, In (tag, l) (unknowns_add tag v d) /\ In v l.
  Proof.
    intros tag v d. induction d as [|[k l] d IH]; cbn [unknowns_add].
    - exists [v]. split; left; reflexivity.
    - destruct (text_eqb k tag) eqn:Ek.
      + apply text_eqb_eq in Ek. subst k. exists (l ++ [v]). split; [left; reflexivity | apply in_or_app; right; left; reflexivity].
      + destruct IH as (l' & H1 & H2). exists l'. split; [right; exact H1 | exact H2].
  Qed.

  Lemma unknowns_add_keep : forall tag v d tag0 l0 x,
    In (tag0, l0) d -> In x l0 -> exists l, In (tag0, l) (unknowns_add tag v d) /\ In x l.
  Proof.
    intros tag v d tag0 l0 x. induction d as [|[k l] d IH]; cbn [unknowns_add]; intros Hin Hx; [contradiction|].
    destruct (text_eqb k tag) eqn:Ek.
    - destruct Hin as [Hin | Hin].
      + inversion Hin; subst. exists (l0 ++ [v]). split; [left; reflexivity | apply in_or_app; left; exact Hx].
      + exists l0. split; [right; exact Hin | exact Hx].
    - destruct Hin as [Hin | Hin].
      + inversion Hin; subst. exists l0. split; [left; reflexivity | exact Hx].
      + destruct (IH Hin Hx) as (l' & H1 & H2). exists l'. split; [right; exact H1 | exact H2].
  Qed.

  Ltac use_effect k g st :=
    let HE := fresh "HE" in
    pose proof (handle_effect k g st) as HE; unfold effect in HE.

  (* the step of field k puts its text where `placed` says, or reports *)
  Lemma handle_places : forall k g st,
    is_function_obj E = true ->
    lookup_handler (f_tag g) handler_table <> Some HElsewhere ->
    placed k g (handle E k g st) \/ reported_at k (st_reports (handle E k g st)).
  Proof.
    intros k g st Hfun Hne. unfold placed.
    pose proof (handle_effect k g st) as HE. unfold effect in HE.
    unfold is_function_obj in Hfun.
    destruct (lookup_handler (f_tag g) handler_table) as [[]|] eqn:Hh; try congruence; cbn [apply_upd] in HE.
    - left. same_rw HE. eexists. split; [reflexivity | reflexivity].
    - left. same_rw HE. eexists. split; [reflexivity | reflexivity].
    - left. same_rw HE. eexists. split; [reflexivity | split; reflexivity].
    - left. same_rw HE. eexists. split; [reflexivity | reflexivity].
    - (* type *) destruct (e_obj E) eqn:Eo; try discriminate.
      destruct (fst (handle_param_name E k g st)) as [n|] eqn:Hn.
      + left. cbn [apply_upd] in HE. same_rw HE. exists (pn_text n). split; [apply (param_name_text k g st); exact Hn|].
        destruct (dict_set_in n (Some (TyField k, FromDoc)) (st_types st)) as (k' & H1 & H2).
        exists k'. split; assumption.
      + right. clear HE. destruct (param_name_none k g st Hn) as (_ & r & Hr & Hk).
        unfold handle. rewrite Hh. unfold handle_type. rewrite Eo.
        destruct (handle_param_name E k g st) as [nm st1]; cbn [fst snd] in *. subst nm.
        exists r. split; [rewrite Hr; apply in_or_app; right; left; reflexivity | exact Hk].
    - (* param *)
      destruct (fst (handle_param_name E k g st)) as [n|] eqn:Hn.
      + left. cbn [apply_upd] in HE. same_rw HE. exists (pn_text n). split; [apply (param_name_text k g st); exact Hn|].
        exists (st_pdescs st), (new_pdesc n false k), []. repeat split; constructor.
      + right. clear HE. destruct (param_name_none k g st Hn) as (_ & r & Hr & Hk).
        unfold handle. rewrite Hh. unfold handle_param.
        destruct (handle_param_name E k g st) as [nm st1]; cbn [fst snd] in *. subst nm.
        exists r. split; [rewrite Hr; apply in_or_app; right; left; reflexivity | exact Hk].
    - (* keyword *)
      destruct (fst (handle_param_name E k g st)) as [n|] eqn:Hn.
      + left. cbn [apply_upd] in HE. same_rw HE. exists (pn_text n). split; [apply (param_name_text k g st); exact Hn|].
        exists (st_pdescs st), (new_pdesc n true k), []. repeat split; constructor.
      + right. clear HE. destruct (param_name_none k g st Hn) as (_ & r & Hr & Hk).
        unfold handle. rewrite Hh. unfold handle_keyword.
        destruct (handle_param_name E k g st) as [nm st1]; cbn [fst snd] in *. subst nm.
        exists r. split; [rewrite Hr; apply in_or_app; right; left; reflexivity | exact Hk].
    - left. same_rw HE. eexists. apply in_or_app. right. left. reflexivity.
    - left. same_rw HE. eexists. apply in_or_app. right. left. reflexivity.
    - left. same_rw HE. apply in_or_app. right. left. reflexivity.
    - left. same_rw HE. apply in_or_app. right. left. reflexivity.
    - left. same_rw HE. apply in_or_app. right. left. reflexivity.
    - left. same_rw HE. apply in_or_app. right. left. reflexivity.
    - left. same_rw HE. destruct (unknowns_add_in (f_tag g) (f_arg g, k) (st_unknowns st)) as (l & H1 & H2).
      exists l, (f_arg g). split; assumption.
  Qed.

  (* ---- a later step leaves it there, unless it is one of the replacing kinds --------------------------- *)
  Definition compat (f g : field) : Prop :=
    (forall s, slot_of f = Some s -> slot_of g = Some s -> False) /\
    (is_tag ["type"%string] f = true -> is_tag ["type"%string] g = true -> same_name f g = true -> False) /\
    (is_tag param_tags f = true -> is_tag param_tags g = true -> same_name f g = true -> False).

  Lemma same_name_true : forall f g n, arg_name f = Some n -> arg_name g = Some n -> same_name f g = true.
  Proof. intros f g n Hf Hg. unfold same_name. rewrite Hf, Hg. apply text_eqb_refl. Qed.

  Lemma in_pdescs_snoc : forall n i ds q, in_pdescs n i ds -> pn_text (pd_name q) <> n -> in_pdescs n i (ds ++ [q]).
  Proof.
    intros n i ds q (l1 & p & l2 & H1 & H2 & H3 & H4 & H5) Hq.
    exists l1, p, (l2 ++ [q]). subst ds. rewrite <- app_assoc. cbn [app]. repeat split; try assumption.
    apply Forall_app. split; [exact H5 | constructor; [exact Hq | constructor]].
  Qed.

  Lemma placed_preserved : forall i f k g st,
    is_function_obj E = true -> compat f g -> placed i f st -> placed i f (handle E k g st).
  Proof.
    intros i f k g st Hfun (C1 & C2 & C3) Hp. unfold placed in *.
    pose proof (handle_effect k g st) as HE. unfold effect in HE.
    unfold is_function_obj in Hfun.
    destruct (lookup_handler (f_tag f) handler_table) as [hf|] eqn:Hf.
    - destruct (known_handler_facts _ _ Hf) as (_ & Fs & Ft & Fp & _).
      destruct (lookup_handler (f_tag g) handler_table) as [hg|] eqn:Hg.
      + destruct (known_handler_facts _ _ Hg) as (_ & Gs & Gt & Gp & _).
        destruct hf; destruct hg; cbn [apply_upd] in HE;
          try (exfalso; apply (C1 _ Fs Gs));
          try (destruct (e_obj E) eqn:Eo; try discriminate Hfun);
          try (destruct (fst (handle_param_name E k g st)) as [n'|] eqn:Hn; cbn [apply_upd] in HE);
          same_rw HE; try exact Hp; try contradiction;
          unfold ret_or_new, yld_or_new;
          try (destruct Hp as (r & Hr1 & Hr2); rewrite Hr1; eexists; split; [reflexivity | first [exact Hr2 | reflexivity]]).
        all: try (destruct Hp as (t & Ht); exists t; apply in_or_app; left; exact Ht).
        all: try (apply in_or_app; left; exact Hp).
        * (* type, type *)
          destruct Hp as (n & Hn1 & k1 & Hn2 & Hn3). exists n. split; [exact Hn1|].
          exists k1. split; [|exact Hn3]. apply dict_set_keep; [exact Hn2|].
          intro Heq. apply C2; [exact Ft | exact Gt |].
          apply (same_name_true f g n); [exact Hn1|]. rewrite (param_name_text k g st n' Hn). f_equal. congruence.
        * (* param, param *)
          destruct Hp as (n & Hn1 & Hn2). exists n. split; [exact Hn1|]. apply in_pdescs_snoc; [exact Hn2|].
          cbn [new_pdesc pd_name]. intro Heq. apply C3; [exact Fp | exact Gp |].
          apply (same_name_true f g n); [exact Hn1|]. rewrite (param_name_text k g st n' Hn). f_equal. exact Heq.
        * destruct Hp as (n & Hn1 & Hn2). exists n. split; [exact Hn1|]. apply in_pdescs_snoc; [exact Hn2|].
          cbn [new_pdesc pd_name]. intro Heq. apply C3; [exact Fp | exact Gp |].
          apply (same_name_true f g n); [exact Hn1|]. rewrite (param_name_text k g st n' Hn). f_equal. exact Heq.
        * destruct Hp as (n & Hn1 & Hn2). exists n. split; [exact Hn1|]. apply in_pdescs_snoc; [exact Hn2|].
          cbn [new_pdesc pd_name]. intro Heq. apply C3; [exact Fp | exact Gp |].
          apply (same_name_true f g n); [exact Hn1|]. rewrite (param_name_text k g st n' Hn). f_equal. exact Heq.
        * destruct Hp as (n & Hn1 & Hn2). exists n. split; [exact Hn1|]. apply in_pdescs_snoc; [exact Hn2|].
          cbn [new_pdesc pd_name]. intro Heq. apply C3; [exact Fp | exact Gp |].
          apply (same_name_true f g n); [exact Hn1|]. rewrite (param_name_text k g st n' Hn). f_equal. exact Heq.
      + (* g unknown *) cbn [apply_upd] in HE. same_rw HE. destruct hf; exact Hp.
    - (* f unknown *)
      destruct (lookup_handler (f_tag g) handler_table) as [hg|] eqn:Hg.
      + destruct hg; cbn [apply_upd] in HE;
          try (destruct (e_obj E) eqn:Eo; try discriminate Hfun);
          try (destruct (fst (handle_param_name E k g st)) as [n'|] eqn:Hn; cbn [apply_upd] in HE);
          same_rw HE; exact Hp.
      + cbn [apply_upd] in HE. same_rw HE. destruct Hp as (l & a & H1 & H2).
        destruct (unknowns_add_keep (f_tag g) (f_arg g, k) (st_unknowns st) (f_tag f) l (a, i) H1 H2) as (l' & H3 & H4).
        exists l', a. split; assumption.
  Qed.
End WithEnv.
