(* Proofs/FieldsProofs.v -- field routing: FieldHandler (Model/Fields.v) against Spec/Routing.v. *)
From Coq Require Import ZArith NArith List Bool Arith Lia String.
From PydoctorVerif Require Import Base.Sexp Model.FieldTypes Gen.TablesC09 Model.Fields Spec.Routing
     Proofs.FieldsCount Proofs.FieldsTables.
Import ListNotations.

Ltac st_simpl :=
  cbn [st_types st_pdescs st_ret st_yld st_raises st_warns st_seealsos st_notes st_authors st_sinces
       st_unknowns st_reports st_attr_type set_types set_pdescs set_ret set_yld set_raises set_warns
       set_seealsos set_notes set_authors set_sinces set_unknowns set_reports set_attr_type add_report] in *.

Ltac occ_unfold :=
  unfold total, shown_total, ret_occ, yld_occ, raises_occ, warns_occ in *; st_simpl.

Lemma list_sum_cons : forall x l, list_sum (x :: l) = x + list_sum l.
Proof. reflexivity. Qed.
Lemma list_sum_nil : list_sum [] = 0.
Proof. reflexivity. Qed.

Lemma ty_occ_key : forall i (k k' : pname) v, ty_occ i (k, v) = ty_occ i (k', v).
Proof. reflexivity. Qed.

Lemma dict_set_occ_le : forall i (k : pname) v d, types_occ i (dict_set k v d) <= types_occ i d + ty_occ i (k, v).
Proof.
  intros i k v d. induction d as [|[k' v'] d IH]; cbn [dict_set].
  - unfold types_occ. cbn [map]; rewrite ?list_sum_cons, ?list_sum_nil. lia.
  - destruct (text_eqb (pn_text k') (pn_text k)).
    + unfold types_occ. cbn [map]; rewrite ?list_sum_cons, ?list_sum_nil. rewrite (ty_occ_key i k' k). lia.
    + unfold types_occ in *. cbn [map]; rewrite ?list_sum_cons, ?list_sum_nil. lia.
Qed.

Lemma unknowns_add_occ : forall p i tag v d,
  unknowns_occ p i (unknowns_add tag v d) = unknowns_occ p i d + (if p tag then unk_list_occ i [v] else 0).
Proof.
  intros p i tag v d. induction d as [|[k l] d IH]; cbn [unknowns_add].
  - unfold unknowns_occ. cbn [map fst snd]; rewrite ?list_sum_cons, ?list_sum_nil. destruct (p tag); lia.
  - destruct (text_eqb k tag) eqn:Ek.
    + apply text_eqb_eq in Ek. subst k. unfold unknowns_occ. cbn [map fst snd]; rewrite ?list_sum_cons, ?list_sum_nil.
      destruct (p tag); [|lia]. unfold unk_list_occ. rewrite map_app, idx_occ_app. cbn [map]. lia.
    + unfold unknowns_occ in *. cbn [map]; rewrite ?list_sum_cons, ?list_sum_nil. rewrite IH. lia.
Qed.

Lemma pds_occ_one : forall i p, pds_occ i [p] = pd_occ i p.
Proof. intros. unfold pds_occ. cbn [map]. rewrite list_sum_cons, list_sum_nil. lia. Qed.

Lemma idx_occ_one : forall i j, idx_occ i [j] = if Nat.eqb j i then 1 else 0.
Proof. intros. unfold idx_occ. cbn. lia. Qed.

Section WithEnv.
  Variable E : env.

  (* ---- reports only grow; the helpers that only report leave every bucket alone ------------------- *)
  Definition same_buckets (a b : state) : Prop :=
    st_types a = st_types b /\ st_pdescs a = st_pdescs b /\ st_ret a = st_ret b /\ st_yld a = st_yld b /\
    st_raises a = st_raises b /\ st_warns a = st_warns b /\ st_seealsos a = st_seealsos b /\
    st_notes a = st_notes b /\ st_authors a = st_authors b /\ st_sinces a = st_sinces b /\
    st_unknowns a = st_unknowns b /\ exists extra, st_reports a = st_reports b ++ extra.

  Lemma same_buckets_refl : forall st, same_buckets st st.
  Proof. intros st. unfold same_buckets. repeat (split; [reflexivity|]). exists []. symmetry. apply app_nil_r. Qed.

  Lemma add_report_same : forall i k n v st, same_buckets (add_report i k n v st) st.
  Proof. intros. unfold same_buckets. st_simpl. repeat (split; [reflexivity|]). eexists. reflexivity. Qed.

  Lemma unexpected_arg_same : forall i f st, same_buckets (unexpected_arg i f st) st.
  Proof. intros. unfold unexpected_arg. destruct (f_arg f); [apply add_report_same | apply same_buckets_refl]. Qed.

  Lemma param_not_found_same : forall i n st, same_buckets (handle_param_not_found E i n st) st.
  Proof.
    intros. unfold handle_param_not_found.
    match goal with |- context [if ?c then st else _] => destruct c end;
      [apply same_buckets_refl | apply add_report_same].
  Qed.

  Lemma param_name_same : forall i f st, same_buckets (snd (handle_param_name E i f st)) st.
  Proof.
    intros. unfold handle_param_name. destruct (f_arg f) as [a|]; [|apply add_report_same].
    destruct (annotations_of_source E) as [anns|]; apply same_buckets_refl.
  Qed.

  (* name returned by _handle_param_name: the argument without its stars *)
  Lemma param_name_text : forall i f st n,
    fst (handle_param_name E i f st) = Some n -> arg_name f = Some (pn_text n).
  Proof.
    intros i f st n. unfold handle_param_name, arg_name. destruct (f_arg f) as [a|]; cbn [fst option_map]; [|discriminate].
    assert (LS : forall t, lstrip_star t = strip_stars t).
    { induction t as [|c t IH]; [reflexivity|]. cbn. destruct c as [|p]; [reflexivity|].
      repeat (destruct p as [p|p|]; try reflexivity); try exact IH. }
    assert (CN : forall anns n0, pn_text (canon_name anns n0) = pn_text n0).
    { induction anns as [|p anns IH]; intro n0; [reflexivity|]. unfold canon_name in *. cbn [fold_left].
      destruct (text_eqb (pn_text p) (pn_text n0)) eqn:Ep; [|apply IH]. rewrite IH. apply text_eqb_eq. exact Ep. }
    destruct (annotations_of_source E) as [anns|]; cbn [fst]; intro H; inversion H; subst.
    - rewrite CN. cbn. first [reflexivity | f_equal; symmetry; apply LS].
    - cbn. first [reflexivity | f_equal; symmetry; apply LS].
  Qed.

  Lemma param_name_none : forall i f st,
    fst (handle_param_name E i f st) = None -> f_arg f = None /\
    exists r, st_reports (snd (handle_param_name E i f st)) = st_reports st ++ [r] /\ rp_field r = i.
  Proof.
    intros i f st. unfold handle_param_name. destruct (f_arg f) as [a|].
    - destruct (annotations_of_source E) as [anns|]; cbn [fst]; discriminate.
    - intros _. split; [reflexivity|]. st_simpl. cbn [snd]. st_simpl. eexists. split; reflexivity.
  Qed.

  (* ---- a step adds at most one occurrence of its own index and never another index ------------------ *)
  Ltac same_rw H :=
    let S1 := fresh "S" in let S2 := fresh "S" in let S3 := fresh "S" in let S4 := fresh "S" in
    let S5 := fresh "S" in let S6 := fresh "S" in let S7 := fresh "S" in let S8 := fresh "S" in
    let S9 := fresh "S" in let S10 := fresh "S" in let S11 := fresh "S" in let S12 := fresh "S" in
    destruct H as (S1 & S2 & S3 & S4 & S5 & S6 & S7 & S8 & S9 & S10 & S11 & S12);
    st_simpl;
    rewrite ?S1, ?S2, ?S3, ?S4, ?S5, ?S6, ?S7, ?S8, ?S9, ?S10, ?S11 in *.

  Ltac eqb_cases :=
    repeat match goal with
           | |- context [Nat.eqb ?a ?b] => destruct (Nat.eqb_spec a b)
           | H : context [Nat.eqb ?a ?b] |- _ => destruct (Nat.eqb_spec a b)
           end.

  Ltac fin :=
    rewrite ?idx_occ_app, ?pds_occ_app, ?idx_occ_one, ?pds_occ_one, ?map_app, ?list_sum_app in *;
    cbn [map] in *;
    rewrite ?list_sum_cons, ?list_sum_nil in *;
    unfold pd_occ, ty_occ in *;
    cbn [body_occ type_occ option_map fst snd pd_body pd_type r_body r_type y_body y_type] in *;
    eqb_cases; lia.

  Lemma total_same : forall a b i, same_buckets a b -> total i a = total i b.
  Proof. intros a b i H. occ_unfold. same_rw H. reflexivity. Qed.

  Lemma handle_total_le : forall k f st i,
    total i (handle E k f st) <= total i st + (if Nat.eqb i k then 1 else 0).
  Proof.
    intros k f st i. unfold handle.
    destruct (lookup_handler (f_tag f) handler_table) as [[]|].
    - (* return *) unfold handle_return. pose proof (unexpected_arg_same k f st) as H.
      unfold ret_or_new. occ_unfold. same_rw H. destruct (st_ret st); fin.
    - (* yield *) unfold handle_yield. pose proof (unexpected_arg_same k f st) as H.
      unfold yld_or_new. occ_unfold. same_rw H. destruct (st_yld st); fin.
    - (* rtype *) unfold handle_returntype. pose proof (unexpected_arg_same k f st) as H.
      unfold ret_or_new. occ_unfold. same_rw H. destruct (st_ret st); fin.
    - (* ytype *) unfold handle_yieldtype. pose proof (unexpected_arg_same k f st) as H.
      unfold yld_or_new. occ_unfold. same_rw H. destruct (st_yld st); fin.
    - (* type *) unfold handle_type. destruct (e_obj E).
      + pose proof (param_name_same k f st) as H.
        destruct (handle_param_name E k f st) as [[n|] st1]; cbn [snd] in H.
        * match goal with |- context [if ?c then _ else st1] => destruct c end.
          -- pose proof (param_not_found_same k n st1) as H2.
             pose proof (dict_set_occ_le i n (Some (TyField k, FromDoc)) (st_types (handle_param_not_found E k n st1))) as D.
             occ_unfold. same_rw H2. same_rw H. fin.
          -- pose proof (dict_set_occ_le i n (Some (TyField k, FromDoc)) (st_types st1)) as D.
             occ_unfold. same_rw H. fin.
        * rewrite (total_same _ _ i H). fin.
      + destruct (f_arg f) as [a|]; [|fin].
        pose proof (dict_set_occ_le i {| pn_text := a; pn_star := SNone |} (Some (TyField k, FromDoc)) (st_types st)) as D.
        occ_unfold. fin.
      + destruct (f_arg f) as [a|]; [|fin].
        pose proof (dict_set_occ_le i {| pn_text := a; pn_star := SNone |} (Some (TyField k, FromDoc)) (st_types st)) as D.
        occ_unfold. fin.
      + destruct (f_arg f); occ_unfold; fin.
    - (* param *) unfold handle_param. pose proof (param_name_same k f st) as H.
      destruct (handle_param_name E k f st) as [[n|] st1]; cbn [snd] in H.
      + match goal with |- context [if pdesc_named ?a ?b then _ else _] => destruct (pdesc_named a b) end;
        match goal with |- context [if negb ?c then _ else _] => destruct c end; cbn [negb];
        try (match goal with |- context [handle_param_not_found E k n ?s] =>
               rewrite (total_same _ _ i (param_not_found_same k n s)) end);
        occ_unfold; same_rw H; fin.
      + rewrite (total_same _ _ i H). fin.
    - (* keyword *) unfold handle_keyword. pose proof (param_name_same k f st) as H.
      destruct (handle_param_name E k f st) as [[n|] st1]; cbn [snd] in H.
      + match goal with |- context [if ?c then _ else _] => destruct c end; occ_unfold; same_rw H; fin.
      + rewrite (total_same _ _ i H). fin.
    - (* elsewhere *) fin.
    - (* raises *) unfold handle_raises. destruct (f_arg f); occ_unfold; fin.
    - (* warns *) unfold handle_warns. destruct (f_arg f); occ_unfold; fin.
    - occ_unfold; fin.
    - occ_unfold; fin.
    - occ_unfold; fin.
    - occ_unfold; fin.
    - (* unknown *) unfold handle_unknown. occ_unfold. rewrite unknowns_add_occ. cbn beta. unfold unk_list_occ. cbn [map snd]. rewrite idx_occ_one. fin.
  Qed.

  (* ---- what one step does to the buckets (reports aside) ---------------------------------------------- *)
  Inductive upd :=
  | UNone | URet (r : rdesc) | UYld (y : ydesc) | UTypes (t : list (pname * option (tyref * origin)))
  | UPdescs (l : list pdesc) | URaises (l : list (tyref * nat)) | UWarns (l : list (option tyref * nat))
  | USee (l : list nat) | UNotes (l : list nat) | UAuthors (l : list nat) | USinces (l : list nat)
  | UUnknowns (d : list (text * list (option text * nat))).

  Definition apply_upd (u : upd) (st : state) : state :=
    match u with
    | UNone => st
    | URet r => set_ret (Some r) st
    | UYld y => set_yld (Some y) st
    | UTypes t => set_types t st
    | UPdescs l => set_pdescs l st
    | URaises l => set_raises l st
    | UWarns l => set_warns l st
    | USee l => set_seealsos l st
    | UNotes l => set_notes l st
    | UAuthors l => set_authors l st
    | USinces l => set_sinces l st
    | UUnknowns d => set_unknowns d st
    end.

  Definition new_pdesc (n : pname) (kw : bool) (k : nat) : pdesc :=
    {| pd_name := n; pd_kw := kw; pd_body := Some k; pd_type := None; pd_origin := None |}.

  Definition effect (k : nat) (g : field) (st : state) : upd :=
    match lookup_handler (f_tag g) handler_table with
    | Some HReturn => URet {| r_type := r_type (ret_or_new st); r_body := Some k; r_origin := r_origin (ret_or_new st) |}
    | Some HYield => UYld {| y_type := y_type (yld_or_new st); y_body := Some k |}
    | Some HReturnType => URet {| r_type := Some (TyField k); r_body := r_body (ret_or_new st); r_origin := Some FromDoc |}
    | Some HYieldType => UYld {| y_type := Some (TyField k); y_body := y_body (yld_or_new st) |}
    | Some HType =>
      match e_obj E with
      | OAttribute => UNone
      | OFunction _ =>
        match fst (handle_param_name E k g st) with
        | Some n => UTypes (dict_set n (Some (TyField k, FromDoc)) (st_types st))
        | None => UNone
        end
      | _ =>
        match f_arg g with
        | Some a => UTypes (dict_set {| pn_text := a; pn_star := SNone |} (Some (TyField k, FromDoc)) (st_types st))
        | None => UNone
        end
      end
    | Some HParam =>
      match fst (handle_param_name E k g st) with
      | Some n => UPdescs (st_pdescs st ++ [new_pdesc n false k])
      | None => UNone
      end
    | Some HKeyword =>
      match fst (handle_param_name E k g st) with
      | Some n => UPdescs (st_pdescs st ++ [new_pdesc n true k])
      | None => UNone
      end
    | Some HElsewhere => UNone
    | Some HRaises => URaises (st_raises st ++ [(match f_arg g with Some a => TyLink a | None => TyUnknownExc end, k)])
    | Some HWarns => UWarns (st_warns st ++ [(option_map TyLink (f_arg g), k)])
    | Some HSeeAlso => USee (st_seealsos st ++ [k])
    | Some HNote => UNotes (st_notes st ++ [k])
    | Some HAuthor => UAuthors (st_authors st ++ [k])
    | Some HSince => USinces (st_sinces st ++ [k])
    | None => UUnknowns (unknowns_add (f_tag g) (f_arg g, k) (st_unknowns st))
    end.

  Ltac sb_solve :=
    unfold same_buckets; st_simpl;
    repeat match goal with H : same_buckets _ _ |- _ => same_rw H end;
    repeat (split; [reflexivity|]);
    repeat match goal with H : exists e, st_reports _ = _ ++ e |- _ => let x := fresh "x" in destruct H as [x H] end;
    repeat match goal with Hr : st_reports _ = _ ++ _ |- _ => rewrite Hr end;
    rewrite <- ?app_assoc; first [eexists; reflexivity | exists []; rewrite app_nil_r; reflexivity].

  Lemma handle_effect : forall k g st, same_buckets (handle E k g st) (apply_upd (effect k g st) st).
  Proof.
    intros k g st. unfold handle, effect.
    destruct (lookup_handler (f_tag g) handler_table) as [[]|]; cbn [apply_upd].
    - unfold handle_return. pose proof (unexpected_arg_same k g st) as H. unfold ret_or_new. sb_solve.
    - unfold handle_yield. pose proof (unexpected_arg_same k g st) as H. unfold yld_or_new. sb_solve.
    - unfold handle_returntype. pose proof (unexpected_arg_same k g st) as H. unfold ret_or_new. sb_solve.
    - unfold handle_yieldtype. pose proof (unexpected_arg_same k g st) as H. unfold yld_or_new. sb_solve.
    - unfold handle_type. destruct (e_obj E).
      + pose proof (param_name_same k g st) as H.
        destruct (handle_param_name E k g st) as [[n|] st1]; cbn [fst snd apply_upd] in *.
        * match goal with |- context [if ?c then _ else st1] => destruct c end.
          -- pose proof (param_not_found_same k n st1) as H2. sb_solve.
          -- sb_solve.
        * exact H.
      + destruct (f_arg g); cbn [apply_upd]; sb_solve.
      + destruct (f_arg g); cbn [apply_upd]; sb_solve.
      + cbn [apply_upd]. destruct (f_arg g); sb_solve.
    - unfold handle_param. pose proof (param_name_same k g st) as H.
      destruct (handle_param_name E k g st) as [[n|] st1]; cbn [fst snd apply_upd] in *; [|exact H].
      match goal with |- context [if pdesc_named ?a ?b then _ else _] => destruct (pdesc_named a b) end;
        match goal with |- context [if negb ?c then _ else _] => destruct c end; cbn [negb];
        try (match goal with |- context [handle_param_not_found E k n ?s] =>
               pose proof (param_not_found_same k n s) end);
        unfold new_pdesc; sb_solve.

    - unfold handle_keyword. pose proof (param_name_same k g st) as H.
      destruct (handle_param_name E k g st) as [[n|] st1]; cbn [fst snd apply_upd] in *; [|exact H].
      match goal with |- context [if ?c then _ else _] => destruct c end; unfold new_pdesc; sb_solve.
    - apply same_buckets_refl.
    - unfold handle_raises. destruct (f_arg g); sb_solve.
    - unfold handle_warns. sb_solve.
    - sb_solve.
    - sb_solve.
    - sb_solve.
    - sb_solve.
    - unfold handle_unknown. sb_solve.
  Qed.

  Lemma reports_apply_upd : forall u st, st_reports (apply_upd u st) = st_reports st.
  Proof. intros [] st; reflexivity. Qed.

  Lemma handle_reports_mono : forall k g st, exists extra, st_reports (handle E k g st) = st_reports st ++ extra.
  Proof.
    intros k g st. destruct (handle_effect k g st) as (_ & _ & _ & _ & _ & _ & _ & _ & _ & _ & _ & x & Hx).
    exists x. rewrite Hx, reports_apply_upd. reflexivity.
  Qed.

  Lemma reported_mono : forall i k g st, reported_at i (st_reports st) -> reported_at i (st_reports (handle E k g st)).
  Proof.
    intros i k g st (r & Hr & Hi). destruct (handle_reports_mono k g st) as [x Hx].
    exists r. split; [rewrite Hx; apply in_or_app; left; exact Hr | exact Hi].
  Qed.

  (* ---- where a field's text sits in the state --------------------------------------------------------- *)
  Definition in_types (n : text) (i : nat) (tys : list (pname * option (tyref * origin))) : Prop :=
    exists k, In (k, Some (TyField i, FromDoc)) tys /\ pn_text k = n.

  Definition in_pdescs (n : text) (i : nat) (ds : list pdesc) : Prop :=
    exists l1 p l2, ds = l1 ++ p :: l2 /\ pn_text (pd_name p) = n /\ pd_body p = Some i /\ pd_type p = None /\
                    Forall (fun q => pn_text (pd_name q) <> n) l2.

  Definition placed (i : nat) (f : field) (st : state) : Prop :=
    match lookup_handler (f_tag f) handler_table with
    | Some HReturn => exists r, st_ret st = Some r /\ r_body r = Some i
    | Some HReturnType => exists r, st_ret st = Some r /\ r_type r = Some (TyField i) /\ r_origin r = Some FromDoc
    | Some HYield => exists y, st_yld st = Some y /\ y_body y = Some i
    | Some HYieldType => exists y, st_yld st = Some y /\ y_type y = Some (TyField i)
    | Some HType => exists n, arg_name f = Some n /\ in_types n i (st_types st)
    | Some HParam | Some HKeyword => exists n, arg_name f = Some n /\ in_pdescs n i (st_pdescs st)
    | Some HElsewhere => False
    | Some HRaises => exists t, In (t, i) (st_raises st)
    | Some HWarns => exists t, In (t, i) (st_warns st)
    | Some HSeeAlso => In i (st_seealsos st)
    | Some HNote => In i (st_notes st)
    | Some HAuthor => In i (st_authors st)
    | Some HSince => In i (st_sinces st)
    | None => exists l a, In (f_tag f, l) (st_unknowns st) /\ In (a, i) l
    end.

  Lemma dict_set_in : forall {V} (k : pname) (v : V) d,
    exists k', In (k', v) (dict_set k v d) /\ pn_text k' = pn_text k.
  Proof.
    intros V k v d. induction d as [|[k0 v0] d IH]; cbn [dict_set].
    - exists k. split; [left; reflexivity | reflexivity].
    - destruct (text_eqb (pn_text k0) (pn_text k)) eqn:Ek.
      + exists k0. split; [left; reflexivity | apply text_eqb_eq; exact Ek].
      + destruct IH as (k' & H1 & H2). exists k'. split; [right; exact H1 | exact H2].
  Qed.

  Lemma dict_set_keep : forall {V} (k : pname) (v : V) d k0 v0,
    In (k0, v0) d -> pn_text k0 <> pn_text k -> In (k0, v0) (dict_set k v d).
  Proof.
    intros V k v d k0 v0. induction d as [|[k1 v1] d IH]; cbn [dict_set]; intros Hin Hne; [contradiction|].
    destruct (text_eqb (pn_text k1) (pn_text k)) eqn:Ek.
    - destruct Hin as [Hin | Hin].
      + inversion Hin; subst. apply text_eqb_eq in Ek. contradiction.
      + right. exact Hin.
    - destruct Hin as [Hin | Hin]; [left; exact Hin | right; apply IH; assumption].
  Qed.

  Lemma unknowns_add_in : forall tag v d, exists l, In (tag, l) (unknowns_add tag v d) /\ In v l.
  Proof.
    intros tag v d. induction d as [|[k l] d IH]; cbn [unknowns_add].
    - exists [v]. split; left; reflexivity.
    - destruct (text_eqb k tag) eqn:Ek.
      + apply text_eqb_eq in Ek. subst k. exists (l ++ [v]). split; [left; reflexivity | apply in_or_app; right; left; reflexivity].
      + destruct IH as (l' & H1 & H2). exists l'. split; [right; exact H1 | exact H2].
  Qed.

  Lemma unknowns_add_keep : forall tag v d tag0 l0 x,
    In (tag0, l0) d -> In x l0 -> exists l, In (tag0, l) (unknowns_add tag v d) /\ In x l.
  Proof.
    intros tag v d tag0 l0 x. induction d as [|[k l] d IH]; cbn [unknowns_add]; intros Hin Hx; [contradiction|].
    destruct (text_eqb k tag) eqn:Ek.
    - destruct Hin as [Hin | Hin].
      + inversion Hin; subst. exists (l0 ++ [v]). split; [left; reflexivity | apply in_or_app; left; exact Hx].
      + exists l0. split; [right; exact Hin | exact Hx].
    - destruct Hin as [Hin | Hin].
      + inversion Hin; subst. exists l0. split; [left; reflexivity | exact Hx].
      + destruct (IH Hin Hx) as (l' & H1 & H2). exists l'. split; [right; exact H1 | exact H2].
  Qed.

  Ltac use_effect k g st :=
    let HE := fresh "HE" in
    pose proof (handle_effect k g st) as HE; unfold effect in HE.

  (* the step of field k puts its text where `placed` says, or reports *)
  Lemma handle_places : forall k g st,
    is_function_obj E = true ->
    lookup_handler (f_tag g) handler_table <> Some HElsewhere ->
    placed k g (handle E k g st) \/ reported_at k (st_reports (handle E k g st)).
  Proof.
    intros k g st Hfun Hne. unfold placed.
    pose proof (handle_effect k g st) as HE. unfold effect in HE.
    unfold is_function_obj in Hfun.
    destruct (lookup_handler (f_tag g) handler_table) as [[]|] eqn:Hh; try congruence; cbn [apply_upd] in HE.
    - left. same_rw HE. eexists. split; [reflexivity | reflexivity].
    - left. same_rw HE. eexists. split; [reflexivity | reflexivity].
    - left. same_rw HE. eexists. split; [reflexivity | split; reflexivity].
    - left. same_rw HE. eexists. split; [reflexivity | reflexivity].
    - (* type *) destruct (e_obj E) eqn:Eo; try discriminate.
      destruct (fst (handle_param_name E k g st)) as [n|] eqn:Hn.
      + left. cbn [apply_upd] in HE. same_rw HE. exists (pn_text n). split; [apply (param_name_text k g st); exact Hn|].
        destruct (dict_set_in n (Some (TyField k, FromDoc)) (st_types st)) as (k' & H1 & H2).
        exists k'. split; assumption.
      + right. clear HE. destruct (param_name_none k g st Hn) as (_ & r & Hr & Hk).
        unfold handle. rewrite Hh. unfold handle_type. rewrite Eo.
        destruct (handle_param_name E k g st) as [nm st1]; cbn [fst snd] in *. subst nm.
        exists r. split; [rewrite Hr; apply in_or_app; right; left; reflexivity | exact Hk].
    - (* param *)
      destruct (fst (handle_param_name E k g st)) as [n|] eqn:Hn.
      + left. cbn [apply_upd] in HE. same_rw HE. exists (pn_text n). split; [apply (param_name_text k g st); exact Hn|].
        exists (st_pdescs st), (new_pdesc n false k), []. repeat split; constructor.
      + right. clear HE. destruct (param_name_none k g st Hn) as (_ & r & Hr & Hk).
        unfold handle. rewrite Hh. unfold handle_param.
        destruct (handle_param_name E k g st) as [nm st1]; cbn [fst snd] in *. subst nm.
        exists r. split; [rewrite Hr; apply in_or_app; right; left; reflexivity | exact Hk].
    - (* keyword *)
      destruct (fst (handle_param_name E k g st)) as [n|] eqn:Hn.
      + left. cbn [apply_upd] in HE. same_rw HE. exists (pn_text n). split; [apply (param_name_text k g st); exact Hn|].
        exists (st_pdescs st), (new_pdesc n true k), []. repeat split; constructor.
      + right. clear HE. destruct (param_name_none k g st Hn) as (_ & r & Hr & Hk).
        unfold handle. rewrite Hh. unfold handle_keyword.
        destruct (handle_param_name E k g st) as [nm st1]; cbn [fst snd] in *. subst nm.
        exists r. split; [rewrite Hr; apply in_or_app; right; left; reflexivity | exact Hk].
    - left. same_rw HE. eexists. apply in_or_app. right. left. reflexivity.
    - left. same_rw HE. eexists. apply in_or_app. right. left. reflexivity.
    - left. same_rw HE. apply in_or_app. right. left. reflexivity.
    - left. same_rw HE. apply in_or_app. right. left. reflexivity.
    - left. same_rw HE. apply in_or_app. right. left. reflexivity.
    - left. same_rw HE. apply in_or_app. right. left. reflexivity.
    - left. same_rw HE. destruct (unknowns_add_in (f_tag g) (f_arg g, k) (st_unknowns st)) as (l & H1 & H2).
      exists l, (f_arg g). split; assumption.
  Qed.

  (* ---- a later step leaves it there, unless it is one of the replacing kinds --------------------------- *)
  Definition compat (f g : field) : Prop :=
    (forall s, slot_of f = Some s -> slot_of g = Some s -> False) /\
    (is_tag ["type"%string] f = true -> is_tag ["type"%string] g = true -> same_name f g = true -> False) /\
    (is_tag param_tags f = true -> is_tag param_tags g = true -> same_name f g = true -> False).

  Lemma same_name_true : forall f g n, arg_name f = Some n -> arg_name g = Some n -> same_name f g = true.
  Proof. intros f g n Hf Hg. unfold same_name. rewrite Hf, Hg. apply text_eqb_refl. Qed.

  Lemma in_pdescs_snoc : forall n i ds q, in_pdescs n i ds -> pn_text (pd_name q) <> n -> in_pdescs n i (ds ++ [q]).
  Proof.
    intros n i ds q (l1 & p & l2 & H1 & H2 & H3 & H4 & H5) Hq.
    exists l1, p, (l2 ++ [q]). subst ds. rewrite <- app_assoc. cbn [app]. repeat split; try assumption.
    apply Forall_app. split; [exact H5 | constructor; [exact Hq | constructor]].
  Qed.

  Lemma placed_preserved : forall i f k g st,
    is_function_obj E = true -> compat f g -> placed i f st -> placed i f (handle E k g st).
  Proof.
    intros i f k g st Hfun (C1 & C2 & C3) Hp. unfold placed in *.
    pose proof (handle_effect k g st) as HE. unfold effect in HE.
    unfold is_function_obj in Hfun.
    destruct (lookup_handler (f_tag f) handler_table) as [hf|] eqn:Hf.
    - destruct (known_handler_facts _ _ Hf) as (_ & Fs & Ft & Fp & _).
      destruct (lookup_handler (f_tag g) handler_table) as [hg|] eqn:Hg.
      + destruct (known_handler_facts _ _ Hg) as (_ & Gs & Gt & Gp & _).
        destruct hf; destruct hg; cbn [apply_upd] in HE;
          try (exfalso; apply (C1 _ Fs Gs));
          try (destruct (e_obj E) eqn:Eo; try discriminate Hfun);
          try (destruct (fst (handle_param_name E k g st)) as [n'|] eqn:Hn; cbn [apply_upd] in HE);
          same_rw HE; try exact Hp; try contradiction;
          unfold ret_or_new, yld_or_new;
          try (destruct Hp as (r & Hr1 & Hr2); rewrite Hr1; eexists; split; [reflexivity | first [exact Hr2 | reflexivity]]).
        all: try (destruct Hp as (t & Ht); exists t; apply in_or_app; left; exact Ht).
        all: try (apply in_or_app; left; exact Hp).
        * (* type, type *)
          destruct Hp as (n & Hn1 & k1 & Hn2 & Hn3). exists n. split; [exact Hn1|].
          exists k1. split; [|exact Hn3]. apply dict_set_keep; [exact Hn2|].
          intro Heq. apply C2; [exact Ft | exact Gt |].
          apply (same_name_true f g n); [exact Hn1|]. rewrite (param_name_text k g st n' Hn). f_equal. congruence.
        * (* param, param *)
          destruct Hp as (n & Hn1 & Hn2). exists n. split; [exact Hn1|]. apply in_pdescs_snoc; [exact Hn2|].
          cbn [new_pdesc pd_name]. intro Heq. apply C3; [exact Fp | exact Gp |].
          apply (same_name_true f g n); [exact Hn1|]. rewrite (param_name_text k g st n' Hn). f_equal. exact Heq.
        * destruct Hp as (n & Hn1 & Hn2). exists n. split; [exact Hn1|]. apply in_pdescs_snoc; [exact Hn2|].
          cbn [new_pdesc pd_name]. intro Heq. apply C3; [exact Fp | exact Gp |].
          apply (same_name_true f g n); [exact Hn1|]. rewrite (param_name_text k g st n' Hn). f_equal. exact Heq.
        * destruct Hp as (n & Hn1 & Hn2). exists n. split; [exact Hn1|]. apply in_pdescs_snoc; [exact Hn2|].
          cbn [new_pdesc pd_name]. intro Heq. apply C3; [exact Fp | exact Gp |].
          apply (same_name_true f g n); [exact Hn1|]. rewrite (param_name_text k g st n' Hn). f_equal. exact Heq.
        * destruct Hp as (n & Hn1 & Hn2). exists n. split; [exact Hn1|]. apply in_pdescs_snoc; [exact Hn2|].
          cbn [new_pdesc pd_name]. intro Heq. apply C3; [exact Fp | exact Gp |].
          apply (same_name_true f g n); [exact Hn1|]. rewrite (param_name_text k g st n' Hn). f_equal. exact Heq.
      + (* g unknown *) cbn [apply_upd] in HE. same_rw HE. destruct hf; exact Hp.
    - (* f unknown *)
      destruct (lookup_handler (f_tag g) handler_table) as [hg|] eqn:Hg.
      + destruct hg; cbn [apply_upd] in HE;
          try (destruct (e_obj E) eqn:Eo; try discriminate Hfun);
          try (destruct (fst (handle_param_name E k g st)) as [n'|] eqn:Hn; cbn [apply_upd] in HE);
          same_rw HE; exact Hp.
      + cbn [apply_upd] in HE. same_rw HE. destruct Hp as (l & a & H1 & H2).
        destruct (unknowns_add_keep (f_tag g) (f_arg g, k) (st_unknowns st) (f_tag f) l (a, i) H1 H2) as (l' & H3 & H4).
        exists l', a. split; assumption.
  Qed.

  (* ---- the whole field list ------------------------------------------------------------------------------ *)
  Lemma handle_all_app : forall a b k st,
    handle_all E k (a ++ b) st = handle_all E (k + List.length a) b (handle_all E k a st).
  Proof.
    induction a as [|x a IH]; intros b k st; cbn [app handle_all List.length].
    - rewrite Nat.add_0_r. reflexivity.
    - rewrite IH. f_equal. lia.
  Qed.

  Lemma handle_all_reported : forall fs k st i,
    reported_at i (st_reports st) -> reported_at i (st_reports (handle_all E k fs st)).
  Proof.
    induction fs as [|g fs IH]; intros k st i H; cbn [handle_all]; [exact H|].
    apply IH. apply reported_mono. exact H.
  Qed.

  Lemma handle_all_placed : forall fs k st i f,
    is_function_obj E = true -> (forall g, In g fs -> compat f g) -> placed i f st ->
    placed i f (handle_all E k fs st).
  Proof.
    induction fs as [|g fs IH]; intros k st i f Hfun Hc Hp; cbn [handle_all]; [exact Hp|].
    apply IH; [exact Hfun | intros g' Hg'; apply Hc; right; exact Hg' |].
    apply placed_preserved; [exact Hfun | apply Hc; left; reflexivity | exact Hp].
  Qed.

  Lemma handle_all_total : forall fs k st i,
    total i (handle_all E k fs st) <= total i st + (if (k <=? i) && (i <? k + List.length fs) then 1 else 0).
  Proof.
    induction fs as [|g fs IH]; intros k st i; cbn [handle_all List.length].
    - lia.
    - specialize (IH (S k) (handle E k g st) i). pose proof (handle_total_le k g st i) as H.
      destruct (Nat.eqb_spec i k) as [->|Hne].
      + replace ((S k <=? k) && (k <? S k + List.length fs)) with false in IH
          by (symmetry; apply andb_false_iff; left; apply Nat.leb_gt; lia).
        replace ((k <=? k) && (k <? k + S (List.length fs))) with true
          by (symmetry; apply andb_true_iff; split; [apply Nat.leb_le | apply Nat.ltb_lt]; lia).
        lia.
      + replace ((k <=? i) && (i <? k + S (List.length fs))) with ((S k <=? i) && (i <? S k + List.length fs)).
        * lia.
        * destruct (S k <=? i) eqn:A; destruct (k <=? i) eqn:B; cbn [andb]; try reflexivity.
          -- f_equal. lia.
          -- apply Nat.leb_le in A. apply Nat.leb_gt in B. lia.
          -- apply Nat.leb_gt in A. apply Nat.leb_le in B. assert (i = k) by lia. contradiction.
  Qed.

  Lemma total_init : forall i, total i (init_state E) = 0.
  Proof.
    intros i. unfold init_state. occ_unfold.
    assert (H : types_occ i (match e_obj E with
                             | OFunction _ => map (fun p : pname * bool => (fst p, if snd p then Some (TyAnn (pn_text (fst p)), FromAst) else None)) (e_sig E)
                             | _ => [] end) = 0).
    { destruct (e_obj E); try reflexivity. unfold types_occ. rewrite map_map.
      induction (e_sig E) as [|[p b] l IH]; [reflexivity|]. cbn [map]. rewrite list_sum_cons, IH.
      unfold ty_occ. cbn [fst snd]. destruct b; reflexivity. }
    rewrite H. destruct (e_obj E); try reflexivity. destruct (N.eqb (e_ret E) 2); reflexivity.
  Qed.

  Lemma final_total_le_1 : forall fs i, total i (handle_all E 0 fs (init_state E)) <= 1.
  Proof.
    intros fs i. pose proof (handle_all_total fs 0 (init_state E) i) as H. rewrite total_init in H.
    destruct ((0 <=? i) && (i <? 0 + List.length fs)); lia.
  Qed.

  (* from the guard of the theorem to `compat` *)
  Lemma guard_compat : forall fs pre f post,
    fs = pre ++ f :: post -> silently_lost E fs (List.length pre) f = false ->
    is_tag param_tags f && existsb (fun g => is_tag param_tags g && same_name f g) post = false ->
    (forall g, In g post -> compat f g) /\ is_var_tag (f_tag f) = false.
  Proof.
    intros fs pre f post Hfs Hg Hlater. unfold silently_lost in Hg.
    assert (Hl : skipn (S (List.length pre)) fs = post).
    { subst fs. replace (S (List.length pre)) with (List.length (pre ++ [f])) by (rewrite app_length; cbn; lia).
      replace (pre ++ f :: post) with ((pre ++ [f]) ++ post) by (rewrite <- app_assoc; reflexivity).
      rewrite skipn_app, skipn_all, Nat.sub_diag. reflexivity. }
    rewrite Hl in Hg.
    repeat (apply orb_false_iff in Hg; destruct Hg as [Hg ?]).
    split; [|assumption].
    intros g Hin. unfold compat. repeat split.
    - intros s Hs Hs'. rewrite Hs in Hg.
      rewrite <- not_true_iff_false in Hg. apply Hg. apply existsb_exists. exists g. split; [exact Hin|].
      rewrite Hs'. destruct s; reflexivity.
    - intros Tf Tg Sn. match goal with H : is_tag ["type"%string] f && existsb _ post = false |- _ => rename H into Hb end.
      rewrite Tf in Hb. cbn [andb] in Hb. rewrite <- not_true_iff_false in Hb. apply Hb.
      apply existsb_exists. exists g. split; [exact Hin|]. rewrite Tg, Sn. reflexivity.
    - intros Tf Tg Sn. rewrite Tf in Hlater. cbn [andb] in Hlater. rewrite <- not_true_iff_false in Hlater. apply Hlater.
      apply existsb_exists. exists g. split; [exact Hin|]. rewrite Tg, Sn. reflexivity.
  Qed.

  Lemma not_elsewhere : forall f, is_var_tag (f_tag f) = false -> lookup_handler (f_tag f) handler_table <> Some HElsewhere.
  Proof.
    intros f Hv Hh. destruct (known_handler_facts _ _ Hh) as (_ & _ & _ & _ & Fv). rewrite Fv in Hv. discriminate.
  Qed.

  (* the state after all the fields: field i is where `placed` says, or was reported; no index occurs twice *)
  Theorem handled_placed : forall fs pre f post,
    is_function_obj E = true -> fs = pre ++ f :: post -> silently_lost E fs (List.length pre) f = false ->
    is_tag param_tags f && existsb (fun g => is_tag param_tags g && same_name f g) post = false ->
    let st := handle_all E 0 fs (init_state E) in
    placed (List.length pre) f st \/ reported_at (List.length pre) (st_reports st).
  Proof.
    intros fs pre f post Hfun Hfs Hg Hlater st.
    destruct (guard_compat fs pre f post Hfs Hg Hlater) as [Hc Hv].
    subst st. rewrite Hfs. rewrite handle_all_app. cbn [handle_all plus].
    destruct (handle_places (List.length pre) f (handle_all E 0 pre (init_state E)) Hfun (not_elsewhere f Hv)) as [Hp | Hr].
    - left. apply handle_all_placed; assumption.
    - right. apply handle_all_reported. exact Hr.
  Qed.
End WithEnv.

(* ======================================================================================================== *)
(* resolve_types                                                                                              *)
(* ======================================================================================================== *)
Definition values {K V} (d : list (K * V)) : list V := map snd d.

Lemma pdesc_eqb_occ : forall i a b, pdesc_eqb a b = true -> pd_occ i a = pd_occ i b /\ pdesc_documented a = pdesc_documented b
                                                         /\ pd_body a = pd_body b /\ pd_origin a = pd_origin b /\ type_occ i (pd_type a) = type_occ i (pd_type b).
Proof.
  intros i a b H. unfold pdesc_eqb in H.
  repeat (apply andb_true_iff in H; destruct H as [H ?]).
  assert (Hb : pd_body a = pd_body b).
  { destruct (pd_body a), (pd_body b); cbn in *; try discriminate; try reflexivity.
    f_equal. apply Nat.eqb_eq. assumption. }
  assert (Ho : pd_origin a = pd_origin b).
  { destruct (pd_origin a) as [[]|], (pd_origin b) as [[]|]; cbn in *; try discriminate; reflexivity. }
  assert (Ht : type_occ i (pd_type a) = type_occ i (pd_type b)).
  { destruct (pd_type a) as [[]|], (pd_type b) as [[]|]; cbn in *; try discriminate; try reflexivity.
    match goal with Hx : Nat.eqb _ _ = true |- _ => apply Nat.eqb_eq in Hx; subst end. reflexivity. }
  unfold pd_occ, pdesc_documented. rewrite Hb, Ho, Ht. repeat split; reflexivity.
Qed.

Lemma tyref_eqb_refl : forall t, tyref_eqb t t = true.
Proof. intros []; cbn; try apply text_eqb_refl; try apply Nat.eqb_refl; reflexivity. Qed.

Lemma pdesc_eqb_refl : forall p, pdesc_eqb p p = true.
Proof.
  intros p. unfold pdesc_eqb. rewrite eqb_reflx, text_eqb_refl. cbn [andb].
  destruct (pd_type p); cbn [opt_eqb]; rewrite ?tyref_eqb_refl;
    destruct (pd_body p); cbn [opt_eqb]; rewrite ?Nat.eqb_refl;
    destruct (pd_origin p) as [[]|]; reflexivity.
Qed.

Lemma remove_first_occ : forall i k l, In k l -> pds_occ i (remove_first k l) + pd_occ i k = pds_occ i l.
Proof.
  intros i k l. induction l as [|y l IH]; intro Hin; [contradiction|]. cbn [remove_first].
  destruct (pdesc_eqb y k) eqn:Ey.
  - destruct (pdesc_eqb_occ i y k Ey) as (Ho & _). unfold pds_occ. cbn [map]. rewrite list_sum_cons. lia.
  - destruct Hin as [-> | Hin]; [rewrite pdesc_eqb_refl in Ey; discriminate|].
    specialize (IH Hin). unfold pds_occ in *. cbn [map]. rewrite !list_sum_cons. lia.
Qed.

Lemma remove_first_mem : forall k p l, In p l -> In p (remove_first k l) \/ pdesc_eqb p k = true.
Proof.
  intros k p l. induction l as [|y l IH]; intro Hin; [contradiction|]. cbn [remove_first].
  destruct (pdesc_eqb y k) eqn:Ey.
  - destruct Hin as [-> | Hin]; [right; exact Ey | left; exact Hin].
  - destruct Hin as [-> | Hin]; [left; left; reflexivity|].
    destruct (IH Hin) as [H | H]; [left; right; exact H | right; exact H].
Qed.

Lemma last_kw_in : forall l acc k,
  fold_left (fun acc p => if is_kw_name p then Some p else acc) l acc = Some k -> In k l \/ acc = Some k.
Proof.
  induction l as [|p l IH]; intros acc k H; cbn [fold_left] in H; [right; exact H|].
  destruct (IH _ _ H) as [H1 | H1]; [left; right; exact H1|].
  destruct (is_kw_name p); [left; left; congruence | right; exact H1].
Qed.

(* dict operations and occurrences *)
Lemma dict_set_values_le : forall i (k : pname) (v : pdesc) d,
  pds_occ i (values (dict_set k v d)) <= pds_occ i (values d) + pd_occ i v.
Proof.
  intros i k v d. induction d as [|[k' v'] d IH]; cbn [dict_set values map].
  - unfold pds_occ, values. cbn [map snd]. rewrite ?list_sum_cons, ?list_sum_nil. lia.
  - destruct (text_eqb (pn_text k') (pn_text k)); unfold pds_occ, values in *; cbn [map snd]; rewrite ?list_sum_cons, ?list_sum_nil; lia.
Qed.

Lemma params_dict_le_gen : forall i ds d,
  pds_occ i (values (fold_left (fun d p => dict_set (pd_name p) p d) ds d)) <= pds_occ i (values d) + pds_occ i ds.
Proof.
  intros i ds. induction ds as [|p ds IH]; intro d; cbn [fold_left].
  - unfold pds_occ at 3. cbn [map]. rewrite list_sum_nil. lia.
  - specialize (IH (dict_set (pd_name p) p d)). pose proof (dict_set_values_le i (pd_name p) p d) as H.
    unfold pds_occ at 3. cbn [map]. rewrite list_sum_cons. fold (pds_occ i ds). lia.
Qed.

Lemma dict_pop_occ : forall i k (d : list (pname * pdesc)) v d',
  dict_pop k d = Some (v, d') -> pds_occ i (values d) = pd_occ i v + pds_occ i (values d').
Proof.
  intros i k d. induction d as [|[k0 v0] d IH]; intros v d' H; cbn [dict_pop] in H; [discriminate|].
  destruct (text_eqb (pn_text k0) k).
  - inversion H; subst. unfold pds_occ, values. cbn [map snd]. rewrite list_sum_cons. reflexivity.
  - destruct (dict_pop k d) as [[v1 r]|] eqn:Ep; [|discriminate]. inversion H; subst.
    specialize (IH _ _ eq_refl). unfold pds_occ, values in *. cbn [map snd]. rewrite !list_sum_cons. lia.
Qed.

Lemma dict_pop_mem : forall k (d : list (pname * pdesc)) v d' key x,
  dict_pop k d = Some (v, d') -> In (key, x) d -> x = v \/ In (key, x) d'.
Proof.
  intros k d. induction d as [|[k0 v0] d IH]; intros v d' key x H Hin; cbn [dict_pop] in H; [discriminate|].
  destruct (text_eqb (pn_text k0) k).
  - inversion H; subst. destruct Hin as [Hin | Hin]; [inversion Hin; left; reflexivity | right; exact Hin].
  - destruct (dict_pop k d) as [[v1 r]|] eqn:Ep; [|discriminate]. inversion H; subst.
    destruct Hin as [Hin | Hin]; [right; left; exact Hin|].
    destruct (IH _ _ _ _ eq_refl Hin) as [H1 | H1]; [left; exact H1 | right; right; exact H1].
Qed.

Lemma dict_pop_none : forall k (d : list (pname * pdesc)), dict_pop k d = None -> forall key x, In (key, x) d -> pn_text key <> k.
Proof.
  intros k d. induction d as [|[k0 v0] d IH]; intros H key x Hin; [contradiction|]. cbn [dict_pop] in H.
  destruct (text_eqb (pn_text k0) k) eqn:Ek; [discriminate|].
  destruct (dict_pop k d) as [[v1 r]|] eqn:Ep; [discriminate|].
  destruct Hin as [Hin | Hin].
  - inversion Hin; subst. intro Heq. subst k. rewrite text_eqb_refl in Ek. discriminate.
  - apply (IH eq_refl _ _ Hin).
Qed.

Section Resolve.
  Variable E : env.

  Lemma rt_loop_le : forall i types idx params any new lft ai,
    rt_loop E idx types params any = (new, lft, ai) ->
    pds_occ i new + pds_occ i (values lft) <= pds_occ i (values params) + types_occ i types.
  Proof.
    intros i types. induction types as [|[name pty] types IH]; intros idx params any new lft ai H; cbn [rt_loop] in H.
    - inversion H; subst. unfold pds_occ at 1. cbn [map]. rewrite list_sum_nil. lia.
    - unfold types_occ. cbn [map]. rewrite list_sum_cons. fold (types_occ i types).
      destruct (dict_pop (pn_text name) params) as [[p params']|] eqn:Ep.
      + destruct (rt_loop E (S idx) types params' any) as [[new1 lft1] ai1] eqn:Er. inversion H; subst.
        specialize (IH _ _ _ _ _ _ Er). rewrite (dict_pop_occ i _ _ _ _ Ep).
        unfold pds_occ at 1. cbn [map]. rewrite list_sum_cons. fold (pds_occ i new1).
        unfold pd_occ at 1. cbn [pd_body pd_type]. unfold pd_occ, ty_occ. cbn [snd].
        destruct (pd_type p) as [[]|]; cbn [type_occ]; lia.
      + destruct (Nat.eqb idx 0 && strip_first E name).
        * specialize (IH _ _ _ _ _ _ H). lia.
        * destruct (rt_loop E (S idx) types params _) as [[new1 lft1] ai1] eqn:Er. inversion H; subst.
          specialize (IH _ _ _ _ _ _ Er).
          unfold pds_occ at 1. cbn [map]. rewrite list_sum_cons. fold (pds_occ i new1).
          unfold pd_occ at 1. cbn [pd_body pd_type body_occ]. unfold ty_occ. cbn [snd]. lia.
  Qed.

  Lemma rt_loop_ai_mono : forall types idx params new lft ai,
    rt_loop E idx types params true = (new, lft, ai) -> ai = true.
  Proof.
    induction types as [|[name pty] types IH]; intros idx params new lft ai H; cbn [rt_loop] in H.
    - inversion H. reflexivity.
    - destruct (dict_pop (pn_text name) params) as [[p params']|].
      + destruct (rt_loop E (S idx) types params' true) as [[new1 lft1] ai1] eqn:Er. inversion H; subst. eapply IH. exact Er.
      + destruct (Nat.eqb idx 0 && strip_first E name); [eapply IH; exact H|].
        cbn [orb] in H. destruct (rt_loop E (S idx) types params true) as [[new1 lft1] ai1] eqn:Er.
        inversion H; subst. eapply IH. exact Er.
  Qed.

  (* every value of the params dict ends up in the new list (popped, same body) or among the leftovers *)
  Lemma rt_loop_params : forall types idx params any new lft ai,
    rt_loop E idx types params any = (new, lft, ai) ->
    forall key v, In (key, v) params ->
      (exists p', In p' new /\ pd_body p' = pd_body v) \/ In (key, v) lft.
  Proof.
    induction types as [|[name pty] types IH]; intros idx params any new lft ai H key v Hin; cbn [rt_loop] in H.
    - inversion H; subst. right. exact Hin.
    - destruct (dict_pop (pn_text name) params) as [[p params']|] eqn:Ep.
      + destruct (rt_loop E (S idx) types params' any) as [[new1 lft1] ai1] eqn:Er. inversion H; subst.
        destruct (dict_pop_mem _ _ _ _ _ _ Ep Hin) as [-> | Hin'].
        * left. eexists. split; [left; reflexivity | reflexivity].
        * destruct (IH _ _ _ _ _ _ Er _ _ Hin') as [(p' & H1 & H2) | H1]; [left; exists p'; split; [right; exact H1 | exact H2] | right; exact H1].
      + destruct (Nat.eqb idx 0 && strip_first E name).
        * eapply IH; eassumption.
        * destruct (rt_loop E (S idx) types params _) as [[new1 lft1] ai1] eqn:Er. inversion H; subst.
          destruct (IH _ _ _ _ _ _ Er _ _ Hin) as [(p' & H1 & H2) | H1]; [left; exists p'; split; [right; exact H1 | exact H2] | right; exact H1].
  Qed.

  (* every typed entry of self.types ends up as the type of a row, except an undocumented leading self/cls *)
  Lemma rt_loop_types : forall types idx params any new lft ai,
    rt_loop E idx types params any = (new, lft, ai) ->
    (params <> [] -> any = true) ->
    forall name ty o, In (name, Some (ty, o)) types ->
      (exists p', In p' new /\ pd_type p' = Some ty /\ pd_origin p' = Some o /\ ai = true)
      \/ (idx = 0 /\ strip_first E name = true /\ dict_pop (pn_text name) params = None).
  Proof.
    induction types as [|[nm pty] types IH]; intros idx params any new lft ai H Hany name ty o Hin; [contradiction|].
    cbn [rt_loop] in H.
    destruct (dict_pop (pn_text nm) params) as [[p params']|] eqn:Ep.
    - destruct (rt_loop E (S idx) types params' any) as [[new1 lft1] ai1] eqn:Er. inversion H; subst.
      assert (Hany1 : any = true).
      { apply Hany. intro Hnil. subst params. discriminate. }
      destruct Hin as [Hin | Hin].
      + inversion Hin; subst. left. eexists. split; [left; reflexivity|]. cbn [pd_type pd_origin option_map fst snd].
        repeat split. eapply rt_loop_ai_mono. exact Er.
      + destruct (IH _ _ _ _ _ _ Er (fun _ => Hany1) _ _ _ Hin) as [(p' & H1 & H2 & H3 & H4) | (H1 & _)]; [|discriminate].
        left. exists p'. repeat split; try assumption. right. exact H1.
    - destruct (Nat.eqb idx 0 && strip_first E nm) eqn:Es.
      + destruct Hin as [Hin | Hin].
        * inversion Hin; subst. right. apply andb_true_iff in Es. destruct Es as [Es1 Es2]. apply Nat.eqb_eq in Es1.
          repeat split; assumption.
        * destruct (IH _ _ _ _ _ _ H Hany _ _ _ Hin) as [H1 | (H1 & _)]; [left; exact H1 | discriminate].
      + destruct (rt_loop E (S idx) types params _) as [[new1 lft1] ai1] eqn:Er. inversion H; subst.
        destruct Hin as [Hin | Hin].
        * inversion Hin; subst. left. eexists. split; [left; reflexivity|]. cbn [pd_type pd_origin option_map fst snd].
          repeat split. rewrite orb_true_r in Er. eapply rt_loop_ai_mono. exact Er.
        * assert (Hany' : params <> [] -> any || match pty with Some _ => true | None => false end = true).
          { intro Hne. rewrite (Hany Hne). reflexivity. }
          destruct (IH _ _ _ _ _ _ Er Hany' _ _ _ Hin) as [(p' & H1 & H2 & H3 & H4) | (H1 & _)]; [|discriminate].
          left. exists p'. repeat split; try assumption. right. exact H1.
  Qed.

  (* params = {param.name: param ...}: the last description of a name is a value of the dict *)
  Lemma fold_dict_keep : forall (l2 : list pdesc) d k' (p : pdesc),
    In (k', p) d -> Forall (fun q => pn_text (pd_name q) <> pn_text k') l2 ->
    In (k', p) (fold_left (fun d p => dict_set (pd_name p) p d) l2 d).
  Proof.
    induction l2 as [|q l2 IH]; intros d k' p Hin Hf; cbn [fold_left]; [exact Hin|].
    inversion Hf; subst. apply IH; [|assumption]. apply dict_set_keep; [exact Hin|]. intro Heq. congruence.
  Qed.

  Lemma params_dict_last : forall n i ds, in_pdescs n i ds ->
    exists k' p, In (k', p) (params_dict ds) /\ pd_body p = Some i.
  Proof.
    intros n i ds (l1 & p & l2 & Hds & Hn & Hb & _ & Hf). subst ds. unfold params_dict.
    rewrite fold_left_app. cbn [fold_left].
    destruct (dict_set_in (pd_name p) p (fold_left (fun d p => dict_set (pd_name p) p d) l1 [])) as (k' & H1 & H2).
    exists k', p. split; [|exact Hb]. apply fold_dict_keep; [exact H1|].
    rewrite H2, Hn. exact Hf.
  Qed.

  Lemma fold_dict_has_key : forall (l : list pdesc) d n,
    has_key n d = true \/ existsb (fun q => text_eqb (pn_text (pd_name q)) n) l = true ->
    has_key n (fold_left (fun d p => dict_set (pd_name p) p d) l d) = true.
  Proof.
    assert (HS : forall (k : pname) (v : pdesc) d n, has_key n d = true \/ text_eqb (pn_text k) n = true -> has_key n (dict_set k v d) = true).
    { intros k v d n. induction d as [|[k0 v0] d IH]; intros [H | H]; cbn [dict_set].
      - discriminate.
      - unfold has_key. cbn. rewrite H. reflexivity.
      - destruct (text_eqb (pn_text k0) (pn_text k)); unfold has_key in *; cbn [existsb fst] in *.
        + exact H.
        + apply orb_true_iff in H. destruct H as [H | H]; [rewrite H; reflexivity|].
          rewrite (IH (or_introl H)). apply orb_true_r.
      - destruct (text_eqb (pn_text k0) (pn_text k)) eqn:Ek; unfold has_key in *; cbn [existsb fst] in *.
        + apply text_eqb_eq in Ek. rewrite Ek, H. reflexivity.
        + rewrite (IH (or_intror H)). apply orb_true_r. }
    induction l as [|q l IH]; intros d n [H | H]; cbn [fold_left].
    - exact H.
    - discriminate.
    - apply IH. left. apply HS. left. exact H.
    - cbn [existsb] in H. apply orb_true_iff in H. destruct H as [H | H].
      + apply IH. left. apply HS. right. exact H.
      + apply IH. right. exact H.
  Qed.

  Lemma has_key_pop : forall n (d : list (pname * pdesc)), has_key n d = true -> dict_pop n d <> None.
  Proof.
    intros n d. induction d as [|[k0 v0] d IH]; intro H; [discriminate|]. unfold has_key in H. cbn [existsb fst] in H.
    cbn [dict_pop]. destruct (text_eqb (pn_text k0) n); [discriminate|]. cbn [orb] in H.
    destruct (dict_pop n d) as [[v r]|] eqn:Ep; [discriminate|]. exfalso. apply (IH H). reflexivity.
  Qed.

  (* ---- resolve_types as a whole --------------------------------------------------------------------------- *)
  Lemma resolve_types_spec : forall st, exists descs,
    resolve_types E st = set_pdescs descs st /\
    (forall i, pds_occ i descs <= pds_occ i (st_pdescs st) + types_occ i (st_types st)) /\
    (forall n i, in_pdescs n i (st_pdescs st) -> exists p, In p descs /\ pd_body p = Some i) /\
    (forall n i, in_types n i (st_types st) ->
                 (strip_first E {| pn_text := n; pn_star := SNone |} = true -> pdesc_named n st = true) ->
                 exists p, In p descs /\ pd_type p = Some (TyField i) /\ pd_origin p = Some FromDoc).
  Proof.
    intros st. unfold resolve_types.
    set (params := params_dict (st_pdescs st)).
    set (any0 := match params with [] => false | _ => true end).
    destruct (rt_loop E 0 (st_types st) params any0) as [[new lft] ai] eqn:Er.
    set (new' := new ++ map snd lft).
    set (descs := if ai then new' else st_pdescs st).
    set (kwargs := fold_left (fun acc p => if is_kw_name p then Some p else acc) descs None).
    set (has_keywords := existsb (fun p => negb (is_kw_name p) && pd_kw p) descs).
    pose (final := match kwargs with
                   | Some k => let d := remove_first k descs in if negb has_keywords || pdesc_documented k then d ++ [k] else d
                   | None => descs end).
    exists final. split; [reflexivity|].
    assert (Hany0 : params <> [] -> any0 = true).
    { intro Hne. subst any0. destruct params; [contradiction | reflexivity]. }
    (* facts about descs *)
    assert (U0 : forall i, pds_occ i descs <= pds_occ i (st_pdescs st) + types_occ i (st_types st)).
    { intro i. subst descs. destruct ai; [|lia]. subst new'. rewrite pds_occ_app.
      pose proof (rt_loop_le i _ _ _ _ _ _ _ Er) as H1. fold (values lft).
      pose proof (params_dict_le_gen i (st_pdescs st) []) as H2. fold (params_dict (st_pdescs st)) in H2. fold params in H2.
      unfold pds_occ at 2 in H2. cbn [values map] in H2. rewrite list_sum_nil in H2. lia. }
    assert (P0 : forall n i, in_pdescs n i (st_pdescs st) -> exists p, In p descs /\ pd_body p = Some i /\ ai = true).
    { intros n i Hin. destruct (params_dict_last n i _ Hin) as (k' & p & H1 & H2). fold params in H1.
      assert (Hai : ai = true).
      { assert (any0 = true) by (apply Hany0; intro Hn; rewrite Hn in H1; contradiction).
        subst any0. match goal with Hx : _ = true |- _ => rewrite Hx in Er end. eapply rt_loop_ai_mono. exact Er. }
      subst descs. rewrite Hai. subst new'.
      destruct (rt_loop_params _ _ _ _ _ _ _ Er _ _ H1) as [(p' & H3 & H4) | H3].
      - exists p'. split; [apply in_or_app; left; exact H3 | split; [congruence | reflexivity]].
      - exists p. split; [apply in_or_app; right; apply in_map_iff; exists (k', p); split; [reflexivity | exact H3] | split; [exact H2 | reflexivity]]. }
    assert (T0 : forall n i, in_types n i (st_types st) ->
                 (strip_first E {| pn_text := n; pn_star := SNone |} = true -> pdesc_named n st = true) ->
                 exists p, In p descs /\ pd_type p = Some (TyField i) /\ pd_origin p = Some FromDoc).
    { intros n i (k & H1 & H2) Hs.
      destruct (rt_loop_types _ _ _ _ _ _ _ Er Hany0 _ _ _ H1) as [(p' & H3 & H4 & H5 & H6) | (_ & H3 & H4)].
      - exists p'. subst descs. rewrite H6. subst new'. split; [apply in_or_app; left; exact H3 | split; assumption].
      - exfalso. assert (Hs' : strip_first E {| pn_text := n; pn_star := SNone |} = true).
        { unfold strip_first in *. cbn [pn_text]. rewrite <- H2. exact H3. }
        specialize (Hs Hs'). apply (has_key_pop (pn_text k) params); [|exact H4].
        subst params. unfold params_dict. apply fold_dict_has_key. right. rewrite H2. exact Hs. }
    (* the **kwargs shuffle keeps every documented row *)
    assert (K0 : forall final0,
               final0 = match kwargs with
                       | Some k => let d := remove_first k descs in if negb has_keywords || pdesc_documented k then d ++ [k] else d
                       | None => descs end ->
               (forall i, pds_occ i final0 <= pds_occ i descs) /\
               (forall p, In p descs -> pdesc_documented p = true ->
                          exists p', In p' final0 /\ pd_body p' = pd_body p /\ pd_origin p' = pd_origin p /\
                                     (forall i, type_occ i (pd_type p') = type_occ i (pd_type p)))).
    { clear final. intros final Hfinal. destruct kwargs as [k|] eqn:Ek.
      - assert (Hk : In k descs).
        { subst kwargs. destruct (last_kw_in _ _ _ Ek) as [H | H]; [exact H | discriminate]. }
        cbn zeta in Hfinal. split.
        + intro i. pose proof (remove_first_occ i k descs Hk) as H. subst final.
          destruct (negb has_keywords || pdesc_documented k); [rewrite pds_occ_app, pds_occ_one|]; lia.
        + intros p Hp Hd. destruct (remove_first_mem k p descs Hp) as [H | H].
          * exists p. subst final. split; [|repeat split].
            destruct (negb has_keywords || pdesc_documented k); [apply in_or_app; left|]; exact H.
          * assert (Hx := pdesc_eqb_occ 0 p k H). destruct Hx as (_ & Hdoc & Hb & Ho & _).
            exists k. subst final. rewrite <- Hdoc, Hd, orb_true_r. split; [apply in_or_app; right; left; reflexivity|].
            repeat split; try congruence. intro i. destruct (pdesc_eqb_occ i p k H) as (_ & _ & _ & _ & Ht). congruence.
      - subst final. split; [intro; lia|]. intros p Hp _. exists p. repeat split. exact Hp. }
    destruct (K0 final eq_refl) as [K1 K2]. clearbody final.
    split; [|split].
    - intro i. specialize (K1 i). specialize (U0 i). lia.
    - intros n i Hin. destruct (P0 n i Hin) as (p & H1 & H2 & _).
      destruct (K2 p H1) as (p' & H3 & H4 & _); [unfold pdesc_documented; rewrite H2; reflexivity|].
      exists p'. split; [exact H3 | congruence].
    - intros n i Hin Hs. destruct (T0 n i Hin Hs) as (p & H1 & H2 & H3).
      destruct (K2 p H1) as (p' & H4 & H5 & H6 & H7); [unfold pdesc_documented; rewrite H3; destruct (pd_body p); reflexivity|].
      exists p'. split; [exact H4|]. split; [|congruence].
      specialize (H7 i). rewrite H2 in H7. cbn [type_occ] in H7. rewrite Nat.eqb_refl in H7.
      destruct (pd_type p') as [[]|]; cbn [type_occ] in H7; try discriminate.
      destruct (Nat.eqb_spec i0 i); [subst; reflexivity | discriminate].
  Qed.
End Resolve.

(* ======================================================================================================== *)
(* the rendered table                                                                                         *)
(* ======================================================================================================== *)
Lemma format_occ_resolved : forall st descs i (P : text -> bool),
  secs_occ P i (format (set_pdescs descs st)) =
    if_in P (T "Parameters") (if existsb pdesc_documented descs then pds_occ i descs else 0) +
    if_in P (T "Returns") (if match st_ret st with Some r => existsb pdesc_documented descs || ret_documented r | None => false end
                           then ret_occ i st else 0) +
    if_in P (T "Yields") (yld_occ i st) +
    if_in P (T "Raises") (raises_occ i st) +
    if_in P (T "Warns") (warns_occ i st) +
    if_in P (author_label st) (idx_occ i (st_authors st)) +
    if_in P (T "See Also") (idx_occ i (st_seealsos st)) +
    if_in P (T "Present Since") (idx_occ i (st_sinces st)) +
    if_in P (note_label st) (idx_occ i (st_notes st)) +
    unknowns_occ (fun tag => P (T "Unknown Field: " ++ tag)) i (st_unknowns st).
Proof. intros. rewrite format_occurrences. reflexivity. Qed.

Lemma idx_occ_in : forall i l, In i l -> 1 <= idx_occ i l.
Proof.
  intros i l. induction l as [|x l IH]; intro H; [contradiction|]. unfold idx_occ in *. cbn [map]. rewrite list_sum_cons.
  destruct H as [-> | H]; [rewrite Nat.eqb_refl; lia | specialize (IH H); lia].
Qed.

Lemma pds_occ_in_body : forall i p l, In p l -> pd_body p = Some i -> 1 <= pds_occ i l.
Proof.
  intros i p l. induction l as [|x l IH]; intros H Hb; [contradiction|]. unfold pds_occ in *. cbn [map]. rewrite list_sum_cons.
  destruct H as [-> | H]; [|specialize (IH H Hb); lia]. unfold pd_occ. rewrite Hb. cbn [body_occ]. rewrite Nat.eqb_refl. lia.
Qed.

Lemma pds_occ_in_type : forall i p l, In p l -> pd_type p = Some (TyField i) -> 1 <= pds_occ i l.
Proof.
  intros i p l. induction l as [|x l IH]; intros H Hb; [contradiction|]. unfold pds_occ in *. cbn [map]. rewrite list_sum_cons.
  destruct H as [-> | H]; [|specialize (IH H Hb); lia]. unfold pd_occ. rewrite Hb. cbn [type_occ]. rewrite Nat.eqb_refl. lia.
Qed.

Lemma documented_exists : forall p l, In p l -> pdesc_documented p = true -> existsb pdesc_documented l = true.
Proof. intros p l H Hd. apply existsb_exists. exists p. split; assumption. Qed.

Lemma types_occ_in : forall n i tys, in_types n i tys -> 1 <= types_occ i tys.
Proof.
  intros n i tys (k & H & _). induction tys as [|x l IH]; [contradiction|]. unfold types_occ in *. cbn [map]. rewrite list_sum_cons.
  destruct H as [-> | H]; [|specialize (IH H); lia]. unfold ty_occ. cbn. rewrite Nat.eqb_refl. lia.
Qed.

Lemma in_pdescs_occ : forall n i ds, in_pdescs n i ds -> 1 <= pds_occ i ds.
Proof.
  intros n i ds (l1 & p & l2 & -> & _ & Hb & _). apply (pds_occ_in_body i p); [apply in_or_app; right; left; reflexivity | exact Hb].
Qed.

Lemma raises_occ_in : forall i t st, In (t, i) (st_raises st) -> 1 <= raises_occ i st.
Proof.
  intros i t st. unfold raises_occ. induction (st_raises st) as [|x l IH]; intro H; [contradiction|]. cbn [map]. rewrite list_sum_cons.
  destruct H as [-> | H]; [cbn [snd body_occ]; rewrite Nat.eqb_refl; lia | specialize (IH H); lia].
Qed.

Lemma warns_occ_in : forall i t st, In (t, i) (st_warns st) -> 1 <= warns_occ i st.
Proof.
  intros i t st. unfold warns_occ. induction (st_warns st) as [|x l IH]; intro H; [contradiction|]. cbn [map]. rewrite list_sum_cons.
  destruct H as [-> | H]; [cbn [snd body_occ]; rewrite Nat.eqb_refl; lia | specialize (IH H); lia].
Qed.

Lemma unknowns_occ_le : forall p i d, unknowns_occ p i d <= unknowns_occ (fun _ => true) i d.
Proof.
  intros p i d. unfold unknowns_occ. induction d as [|x d IH]; [cbn [map]; lia|]. cbn [map]. rewrite !list_sum_cons. destruct (p (fst x)); lia.
Qed.

Lemma unknowns_occ_in : forall (p : text -> bool) i d tag l a,
  In (tag, l) d -> In (a, i) l -> p tag = true -> 1 <= unknowns_occ p i d.
Proof.
  intros p i d tag l a H Ha Hp. unfold unknowns_occ. induction d as [|x d IH]; [contradiction|]. cbn [map]. rewrite list_sum_cons.
  destruct H as [-> | H]; [|specialize (IH H); lia]. cbn [fst snd]. rewrite Hp.
  assert (1 <= unk_list_occ i l); [|lia]. unfold unk_list_occ. apply idx_occ_in. apply in_map_iff. exists (a, i). split; [reflexivity | exact Ha].
Qed.

Lemma author_label_cases : forall st, author_label st = T "Author" \/ author_label st = T "Authors".
Proof. intros st. unfold author_label. destruct (st_authors st) as [|? [|? ?]]; auto. Qed.
Lemma note_label_cases : forall st, note_label st = T "Note" \/ note_label st = T "Notes".
Proof. intros st. unfold note_label. destruct (st_notes st) as [|? [|? ?]]; auto. Qed.

Lemma strip_first_spec : forall E n, strip_first E {| pn_text := n; pn_star := SNone |} = true ->
  exists s, stripped_first E = Some s /\ text_eqb s n = true.
Proof.
  intros E n. unfold strip_first, stripped_first. cbn [pn_text].
  destruct (e_obj E) as [[]| | |]; try discriminate; intro H.
  - exists (T "self"). split; [reflexivity|]. rewrite text_eqb_sym. exact H.
  - exists (T "cls"). split; [reflexivity|]. rewrite text_eqb_sym. exact H.
Qed.

Section Final.
  Variable E : env.
  Hypothesis Hfun : is_function_obj E = true.

  (* a @param/@arg/@keyword with an argument always leaves a description of that name, for good *)
  Lemma pdesc_named_mono : forall n k g st, pdesc_named n st = true -> pdesc_named n (handle E k g st) = true.
  Proof.
    intros n k g st H. pose proof (handle_effect E k g st) as HE. unfold pdesc_named in *.
    destruct (effect E k g st) eqn:Ee; cbn [apply_upd] in HE;
      destruct HE as (_ & HE & _); rewrite HE; st_simpl; try exact H.
    unfold effect in Ee.
    destruct (lookup_handler (f_tag g) handler_table) as [[]|]; try discriminate;
      try (destruct (e_obj E); try discriminate);
      try (destruct (fst (handle_param_name E k g st)); try discriminate);
      try (destruct (f_arg g); discriminate);
      inversion Ee; subst; rewrite existsb_app, H; reflexivity.
  Qed.

  Lemma pdesc_named_all : forall fs n k st, pdesc_named n st = true -> pdesc_named n (handle_all E k fs st) = true.
  Proof. induction fs as [|g fs IH]; intros n k st H; cbn [handle_all]; [exact H | apply IH; apply pdesc_named_mono; exact H]. Qed.

  Lemma paramish_named : forall k g st n,
    is_tag param_tags g = true -> arg_name g = Some n -> pdesc_named n (handle E k g st) = true.
  Proof.
    intros k g st n Ht Ha. pose proof (handle_effect E k g st) as HE. unfold effect in HE.
    assert (Hname : exists n', fst (handle_param_name E k g st) = Some n' /\ pn_text n' = n).
    { unfold arg_name in Ha. destruct (f_arg g) as [a|] eqn:Fa; [|discriminate].
      destruct (fst (handle_param_name E k g st)) as [n'|] eqn:Hn.
      - exists n'. split; [reflexivity|]. pose proof (param_name_text E k g st n' Hn) as H. unfold arg_name in H.
        rewrite Fa in H. cbn in *. congruence.
      - destruct (param_name_none E k g st Hn) as [H _]. congruence. }
    destruct Hname as (n' & Hn1 & Hn2).
    destruct (lookup_handler (f_tag g) handler_table) as [h|] eqn:Hh.
    - destruct (known_handler_facts _ _ Hh) as (_ & _ & _ & Fp & _).
      change (tag_is param_tags (f_tag g)) with (is_tag param_tags g) in Fp. rewrite Ht in Fp.
      destruct h; try discriminate Fp; rewrite Hn1 in HE; cbn [apply_upd] in HE; destruct HE as (_ & HE & _);
        unfold pdesc_named; rewrite HE; st_simpl; rewrite existsb_app; cbn [existsb new_pdesc pd_name];
        rewrite Hn2, text_eqb_refl; rewrite orb_true_l, orb_true_r; reflexivity.
    - destruct (unknown_handler_facts _ Hh) as (_ & _ & _ & Fp & _).
      change (tag_is param_tags (f_tag g)) with (is_tag param_tags g) in Fp. congruence.
  Qed.

  Lemma guard_e_named : forall fs i f n,
    nth_error fs i = Some f -> silently_lost E fs i f = false ->
    is_tag ["type"%string] f = true -> arg_name f = Some n ->
    strip_first E {| pn_text := n; pn_star := SNone |} = true ->
    pdesc_named n (handle_all E 0 fs (init_state E)) = true.
  Proof.
    intros fs i f n Hnth Hg Ht Ha Hs. unfold silently_lost in Hg.
    apply orb_false_iff in Hg. destruct Hg as [_ Hg]. rewrite Ht in Hg. cbn [andb] in Hg.
    destruct (strip_first_spec E n Hs) as (s & Hs1 & Hs2). rewrite Hs1, Ha, Hs2 in Hg. cbn [andb] in Hg.
    apply negb_false_iff in Hg. apply existsb_exists in Hg. destruct Hg as (g & Hin & Hg).
    apply andb_true_iff in Hg. destruct Hg as [Hg1 Hg2].
    assert (Hag : arg_name g = Some n).
    { unfold same_name in Hg2. rewrite Ha in Hg2. destruct (arg_name g) as [b|]; [|discriminate].
      apply text_eqb_eq in Hg2. congruence. }
    apply in_split in Hin. destruct Hin as (l1 & l2 & ->).
    rewrite handle_all_app. cbn [handle_all]. apply pdesc_named_all. apply paramish_named; assumption.
  Qed.
End Final.

(* ======================================================================================================== *)
(* C09_fields_routed                                                                                          *)
(* ======================================================================================================== *)
Lemma if_in_zero : forall P l, if_in P l 0 = 0.
Proof. intros. unfold if_in. destruct (P l); reflexivity. Qed.

Ltac label_compute :=
  repeat match goal with
         | |- context [under (labels_of ?e) (T ?s)] =>
           let b := eval vm_compute in (under (labels_of e) (T s)) in
           change (under (labels_of e) (T s)) with b
         end.

Ltac settle A := first [replace A with 1 by lia | replace A with 0 by lia].

Ltac settle_all :=
  repeat match goal with
         | |- context [pds_occ ?i ?d] => progress (settle (pds_occ i d))
         | |- context [ret_occ ?i ?s] => progress (settle (ret_occ i s))
         | |- context [yld_occ ?i ?s] => progress (settle (yld_occ i s))
         | |- context [raises_occ ?i ?s] => progress (settle (raises_occ i s))
         | |- context [warns_occ ?i ?s] => progress (settle (warns_occ i s))
         | |- context [idx_occ ?i ?l] => progress (settle (idx_occ i l))
         | |- context [unknowns_occ ?p ?i ?d] => progress (settle (unknowns_occ p i d))
         end.

Ltac finish_labels :=
  rewrite ?if_same, ?if_in_zero; unfold if_in; label_compute; rewrite ?if_same; split; reflexivity.

Section Routed.
  Variable E : env.
  Hypothesis Hfun : is_function_obj E = true.

  Lemma render_function : forall fs,
    render E fs = (format (resolve_types E (handle_all E 0 fs (init_state E))),
                   st_reports (resolve_types E (handle_all E 0 fs (init_state E))),
                   st_attr_type (resolve_types E (handle_all E 0 fs (init_state E)))).
  Proof.
    intros fs. unfold render, final_state. unfold is_function_obj in Hfun. destruct (e_obj E); try discriminate. reflexivity.
  Qed.

  (* the case where no later field documents the same parameter *)
  Theorem fields_routed_nodup : forall fs i f,
    silently_lost E fs i f = false -> nth_error fs i = Some f ->
    is_tag param_tags f && existsb (fun g => is_tag param_tags g && same_name f g) (skipn (S i) fs) = false ->
    routed i f (fst (fst (render E fs))) (snd (fst (render E fs))).
  Proof.
    intros fs i f Hg Hnth Hlater0. rewrite render_function. cbn [fst snd].
    destruct (nth_error_split fs i Hnth) as (pre & post & Hfs & Hlen).
    assert (Hlater : is_tag param_tags f && existsb (fun g => is_tag param_tags g && same_name f g) post = false).
    { replace post with (skipn (S i) fs); [exact Hlater0|].
      subst fs i. replace (S (List.length pre)) with (List.length (pre ++ [f])) by (rewrite app_length; cbn; lia).
      replace (pre ++ f :: post) with ((pre ++ [f]) ++ post) by (rewrite <- app_assoc; reflexivity).
      rewrite skipn_app, skipn_all, Nat.sub_diag. reflexivity. }
    set (st := handle_all E 0 fs (init_state E)).
    destruct (resolve_types_spec E st) as (descs & Hres & HU & HP & HT). rewrite Hres.
    rewrite <- Hlen in Hg.
    pose proof (handled_placed E fs pre f post Hfun Hfs Hg Hlater) as Hplaced. cbv zeta in Hplaced. fold st in Hplaced.
    rewrite Hlen in Hplaced, Hg.
    destruct Hplaced as [Hp | Hr]; [|right; left; exact Hr].
    left.
    pose proof (final_total_le_1 E fs i) as Htot. fold st in Htot.
    specialize (HU i).
    unfold placed in Hp.
    destruct (lookup_handler (f_tag f) handler_table) as [h|] eqn:Hh.
    - destruct (known_handler_facts _ _ Hh) as (Fe & _ & Ft & _ & _).
      exists (match spec_entry h with Some e => e | None => EnParameters end).
      unfold shown_once_under, occurrences, occurrences_under. fold (under (labels_of (match spec_entry h with Some e => e | None => EnParameters end))).
      rewrite !format_occ_resolved. cbn beta.
      unfold total, shown_total in Htot.
      pose proof (unknowns_occ_le (fun tag => under (labels_of (match spec_entry h with Some e => e | None => EnParameters end)) (T "Unknown Field: " ++ tag)) i (st_unknowns st)) as HUk.
      destruct h; cbn [spec_entry] in *; try contradiction; (split; [exact Fe|]).
      + (* return *) destruct Hp as (r & Hr1 & Hr2).
        assert (1 <= ret_occ i st) by (unfold ret_occ; rewrite Hr1, Hr2; cbn [body_occ]; rewrite Nat.eqb_refl; lia).
        rewrite Hr1. unfold ret_documented. rewrite Hr2, orb_true_r.
        settle_all. finish_labels.
      + (* yield *) destruct Hp as (y & Hy1 & Hy2).
        assert (1 <= yld_occ i st) by (unfold yld_occ; rewrite Hy1, Hy2; cbn [body_occ]; rewrite Nat.eqb_refl; lia).
        settle_all. finish_labels.
      + (* rtype *) destruct Hp as (r & Hr1 & Hr2 & Hr3).
        assert (1 <= ret_occ i st) by (unfold ret_occ; rewrite Hr1, Hr2; cbn [type_occ]; rewrite Nat.eqb_refl; lia).
        rewrite Hr1. unfold ret_documented. rewrite Hr3. replace (match r_body r with Some _ => true | None => true end) with true by (destruct (r_body r); reflexivity).
        rewrite orb_true_r. settle_all. finish_labels.
      + (* ytype *) destruct Hp as (y & Hy1 & Hy2).
        assert (1 <= yld_occ i st) by (unfold yld_occ; rewrite Hy1, Hy2; cbn [type_occ]; rewrite Nat.eqb_refl; lia).
        settle_all. finish_labels.
      + (* type *) destruct Hp as (n & Hn1 & Hn2).
        pose proof (types_occ_in n i _ Hn2) as Hty.
        destruct (HT n i Hn2) as (p & Hp1 & Hp2 & Hp3).
        { intro Hs. apply (guard_e_named E fs i f n Hnth Hg); [exact Ft | exact Hn1 | exact Hs]. }
        pose proof (pds_occ_in_type i p descs Hp1 Hp2) as Hge.
        rewrite (documented_exists p descs Hp1) by (unfold pdesc_documented; rewrite Hp3; destruct (pd_body p); reflexivity).
        settle_all. finish_labels.
      + (* param *) destruct Hp as (n & Hn1 & Hn2).
        pose proof (in_pdescs_occ n i _ Hn2) as Hpd.
        destruct (HP n i Hn2) as (p & Hp1 & Hp2).
        pose proof (pds_occ_in_body i p descs Hp1 Hp2) as Hge.
        rewrite (documented_exists p descs Hp1) by (unfold pdesc_documented; rewrite Hp2; reflexivity).
        settle_all. finish_labels.
      + (* keyword *) destruct Hp as (n & Hn1 & Hn2).
        pose proof (in_pdescs_occ n i _ Hn2) as Hpd.
        destruct (HP n i Hn2) as (p & Hp1 & Hp2).
        pose proof (pds_occ_in_body i p descs Hp1 Hp2) as Hge.
        rewrite (documented_exists p descs Hp1) by (unfold pdesc_documented; rewrite Hp2; reflexivity).
        settle_all. finish_labels.
      + (* raises *) destruct Hp as (t & Ht'). pose proof (raises_occ_in i t st Ht'). settle_all. finish_labels.
      + (* warns *) destruct Hp as (t & Ht'). pose proof (warns_occ_in i t st Ht'). settle_all. finish_labels.
      + (* see *) pose proof (idx_occ_in i _ Hp). settle_all. finish_labels.
      + (* note *) pose proof (idx_occ_in i _ Hp). settle_all.
        destruct (note_label_cases st) as [-> | ->]; finish_labels.
      + (* author *) pose proof (idx_occ_in i _ Hp). settle_all.
        destruct (author_label_cases st) as [-> | ->]; finish_labels.
      + (* since *) pose proof (idx_occ_in i _ Hp). settle_all. finish_labels.
    - (* unknown field *)
      destruct (unknown_handler_facts _ Hh) as (Fe & _).
      exists (EnUnknown (f_tag f)). split; [exact Fe|].
      unfold shown_once_under, occurrences, occurrences_under. fold (under (labels_of (EnUnknown (f_tag f)))).
      rewrite !format_occ_resolved. cbn beta.
      unfold total, shown_total in Htot.
      destruct Hp as (l & a & Hl1 & Hl2).
      pose proof (unknowns_occ_in (fun _ => true) i _ _ _ _ Hl1 Hl2 eq_refl) as H1.
      pose proof (unknowns_occ_in (fun tag => under (labels_of (EnUnknown (f_tag f))) (T "Unknown Field: " ++ tag)) i _ _ _ _ Hl1 Hl2) as H2.
      pose proof (unknowns_occ_le (fun tag => under (labels_of (EnUnknown (f_tag f))) (T "Unknown Field: " ++ tag)) i (st_unknowns st)) as HUk.
      assert (Hlab : under (labels_of (EnUnknown (f_tag f))) (T "Unknown Field: " ++ f_tag f) = true).
      { unfold under, labels_of. cbn [existsb]. rewrite text_eqb_refl. reflexivity. }
      specialize (H2 Hlab).
      settle_all. rewrite ?if_same, ?if_in_zero. lia.
  Qed.
End Routed.

Lemma routed_routedb : forall i f secs reps, routed i f secs reps -> routedb i f secs reps = true.
Proof.
  intros i f secs reps [(e & He & H1 & H2) | [(r & Hr & Hi) | Hd]]; unfold routedb.
  - rewrite He, H1, H2. reflexivity.
  - apply orb_true_iff. left. apply orb_true_iff. right. apply existsb_exists. exists r. split; [exact Hr | apply Nat.eqb_eq; exact Hi].
  - rewrite Hd. apply orb_true_r.
Qed.

(* a @param / @arg whose name already has a description is reported *)
Lemma dup_param_reported : forall E k f st n,
  lookup_handler (f_tag f) handler_table = Some HParam ->
  fst (handle_param_name E k f st) = Some n -> pdesc_named (pn_text n) st = true ->
  exists r, In r (st_reports (handle E k f st)) /\ rp_field r = k /\ rp_kind r = RAlreadyDoc /\ rp_name r = pn_text n.
Proof.
  intros E k f st n Hh Hn Hd. unfold handle. rewrite Hh. unfold handle_param.
  pose proof (param_name_same E k f st) as HS.
  destruct (handle_param_name E k f st) as [nm st1]; cbn [fst snd] in *. subst nm.
  assert (Hd1 : pdesc_named (pn_text n) st1 = true).
  { unfold pdesc_named in *. destruct HS as (_ & HS & _). rewrite HS. exact Hd. }
  rewrite Hd1.
  set (r := {| rp_field := k; rp_kind := RAlreadyDoc; rp_name := pn_text n; rp_variant := 0 |}).
  exists r. split; [|repeat split].
  match goal with |- context [if ?c then _ else _] => destruct c end.
  - match goal with |- In r (st_reports (handle_param_not_found E k n ?s)) =>
      destruct (param_not_found_same E k n s) as (_ & _ & _ & _ & _ & _ & _ & _ & _ & _ & _ & x & Hx); rewrite Hx end.
    st_simpl. apply in_or_app. left. apply in_or_app. right. left. reflexivity.
  - st_simpl. apply in_or_app. right. left. reflexivity.
Qed.

(* ======================================================================================================== *)
(* C09_param_order                                                                                            *)
(* ======================================================================================================== *)
(* self.types keeps the signature, in order, in front: fields only replace values or append new names *)
Lemma dict_set_keys : forall {V} (k : pname) (v : V) d,
  key_texts (dict_set k v d) = key_texts d ++ (if has_key (pn_text k) d then [] else [pn_text k]).
Proof.
  intros V k v d. induction d as [|[k0 v0] d IH]; cbn [dict_set key_texts map]; [reflexivity|].
  unfold has_key. cbn [existsb fst]. destruct (text_eqb (pn_text k0) (pn_text k)) eqn:Ek; cbn [orb map fst].
  - rewrite app_nil_r. reflexivity.
  - unfold key_texts, has_key in IH. rewrite IH. reflexivity.
Qed.

Lemma types_keys_step : forall E k g st, exists extra,
  key_texts (st_types (handle E k g st)) = key_texts (st_types st) ++ extra.
Proof.
  intros E k g st. pose proof (handle_effect E k g st) as HE.
  destruct (effect E k g st) eqn:Ee; cbn [apply_upd] in HE; destruct HE as (HE & _); rewrite HE; st_simpl;
    try (exists []; rewrite app_nil_r; reflexivity).
  unfold effect in Ee.
  destruct (lookup_handler (f_tag g) handler_table) as [[]|]; try discriminate;
    try (destruct (fst (handle_param_name E k g st)); discriminate).
  destruct (e_obj E).
  - destruct (fst (handle_param_name E k g st)); [|discriminate]. inversion Ee; subst. eexists. apply dict_set_keys.
  - destruct (f_arg g); [|discriminate]. inversion Ee; subst. eexists. apply dict_set_keys.
  - destruct (f_arg g); [|discriminate]. inversion Ee; subst. eexists. apply dict_set_keys.
  - discriminate.
Qed.

Lemma types_keys_all : forall E fs k st, exists extra,
  key_texts (st_types (handle_all E k fs st)) = key_texts (st_types st) ++ extra.
Proof.
  intros E fs. induction fs as [|g fs IH]; intros k st; cbn [handle_all].
  - exists []. rewrite app_nil_r. reflexivity.
  - destruct (IH (S k) (handle E k g st)) as [x Hx]. destruct (types_keys_step E k g st) as [y Hy].
    exists (y ++ x). rewrite Hx, Hy, app_assoc. reflexivity.
Qed.

Theorem param_order_signature_first : forall E fs,
  is_function_obj E = true ->
  exists extra, key_texts (st_types (handle_all E 0 fs (init_state E))) = sig_names E ++ extra.
Proof.
  intros E fs Hfun. destruct (types_keys_all E fs 0 (init_state E)) as [x Hx]. exists x. rewrite Hx. f_equal.
  unfold init_state, is_function_obj, sig_names, key_texts in *. cbn [st_types].
  destruct (e_obj E); try discriminate. rewrite map_map. reflexivity.
Qed.

(* values are stored under their own name *)
Definition keys_match (d : list (pname * pdesc)) : Prop :=
  Forall (fun e => pn_text (fst e) = pn_text (pd_name (snd e))) d.

Lemma dict_set_keys_match : forall (p : pdesc) d, keys_match d -> keys_match (dict_set (pd_name p) p d).
Proof.
  intros p d H. induction H as [|[k0 v0] d Hk Hd IH]; cbn [dict_set].
  - constructor; [reflexivity | constructor].
  - destruct (text_eqb (pn_text k0) (pn_text (pd_name p))) eqn:Ek.
    + constructor; [cbn [fst snd]; apply text_eqb_eq; exact Ek | exact Hd].
    + constructor; [exact Hk | exact IH].
Qed.

Lemma params_dict_keys_match : forall ds, keys_match (params_dict ds).
Proof.
  intros ds. unfold params_dict. assert (G : forall d, keys_match d -> keys_match (fold_left (fun d p => dict_set (pd_name p) p d) ds d)).
  { induction ds as [|p ds IH]; intros d H; cbn [fold_left]; [exact H | apply IH; apply dict_set_keys_match; exact H]. }
  apply G. constructor.
Qed.

Lemma dict_pop_shape : forall k (d : list (pname * pdesc)) v d',
  dict_pop k d = Some (v, d') ->
  exists l1 k0 l2, d = l1 ++ (k0, v) :: l2 /\ d' = l1 ++ l2 /\ pn_text k0 = k /\ Forall (fun e => pn_text (fst e) <> k) l1.
Proof.
  intros k d. induction d as [|[k0 v0] d IH]; intros v d' H; cbn [dict_pop] in H; [discriminate|].
  destruct (text_eqb (pn_text k0) k) eqn:Ek.
  - inversion H; subst. exists [], k0. eexists. repeat split; [apply text_eqb_eq; exact Ek | constructor].
  - destruct (dict_pop k d) as [[v1 r]|] eqn:Ep; [|discriminate]. inversion H; subst.
    destruct (IH _ _ eq_refl) as (l1 & k1 & l2 & H1 & H2 & H3 & H4).
    exists ((k0, v0) :: l1), k1, l2. subst. repeat split. constructor; [|exact H4].
    cbn [fst]. intro Heq. rewrite Heq in Ek. rewrite text_eqb_refl in Ek. discriminate.
Qed.

Definition kept_types (E : env) (types : list (pname * option (tyref * origin))) (params : list (pname * pdesc))
  : list (pname * option (tyref * origin)) :=
  match types with
  | e :: t => if strip_first E (fst e) && negb (has_key (pn_text (fst e)) params) then t else types
  | [] => []
  end.

Lemma has_key_pop_none : forall n (d : list (pname * pdesc)), dict_pop n d = None -> has_key n d = false.
Proof.
  intros n d. induction d as [|[k0 v0] d IH]; intro H; [reflexivity|]. cbn [dict_pop] in H. unfold has_key. cbn [existsb fst].
  destruct (text_eqb (pn_text k0) n); [discriminate|]. cbn [orb].
  destruct (dict_pop n d) as [[v r]|]; [discriminate|]. apply IH. reflexivity.
Qed.

Lemma subseq_In : forall {X} (a b : list X) x, subseq a b -> In x a -> In x b.
Proof.
  intros X a b x H. induction H; intro Hin; [contradiction | | right; auto].
  destruct Hin as [-> | Hin]; [left; reflexivity | right; auto].
Qed.

Lemma subseq_refl : forall {X} (l : list X), subseq l l.
Proof. induction l; constructor; assumption. Qed.

Lemma subseq_app_skip : forall {X} (a l1 l2 : list X) x, subseq a (l1 ++ l2) -> subseq a (l1 ++ x :: l2).
Proof.
  intros X a l1. revert a. induction l1 as [|y l1 IH]; intros a l2 x H; cbn [app] in *.
  - constructor. exact H.
  - inversion H; subst; [constructor | constructor; apply IH; assumption | apply subseq_skip; apply IH; assumption].
Qed.

(* one row per entry of self.types, in that order (minus an undocumented leading self/cls); what is left of the
   documented names keeps its order and is exactly the names that are not in self.types *)
Lemma rt_loop_rows : forall E types idx params any new lft ai,
  rt_loop E idx types params any = (new, lft, ai) -> keys_match params -> NoDup (key_texts params) ->
  row_names new = key_texts (if Nat.eqb idx 0 then kept_types E types params else types) /\
  subseq lft params /\
  (forall e, In e lft -> existsb (text_eqb (pn_text (fst e))) (key_texts types) = false) /\
  (forall e, In e params -> existsb (text_eqb (pn_text (fst e))) (key_texts types) = false -> In e lft).
Proof.
  intros E types. induction types as [|[nm pty] types IH]; intros idx params any new lft ai H Hk Hnd; cbn [rt_loop] in H.
  - inversion H; subst. split; [destruct (Nat.eqb idx 0); reflexivity|]. split; [apply subseq_refl|]. split; [reflexivity | auto].
  - destruct (dict_pop (pn_text nm) params) as [[p params']|] eqn:Ep.
    + destruct (rt_loop E (S idx) types params' any) as [[new1 lft1] ai1] eqn:Er. inversion H; subst.
      destruct (dict_pop_shape _ _ _ _ Ep) as (l1 & k0 & l2 & H1 & H2 & H3 & H4). subst params params'.
      assert (Hk' : keys_match (l1 ++ l2)).
      { unfold keys_match in *. apply Forall_app in Hk. destruct Hk as [Ha Hb]. inversion Hb; subst. apply Forall_app. split; assumption. }
      assert (Hnd' : NoDup (key_texts (l1 ++ l2)) /\ ~ In (pn_text nm) (key_texts (l1 ++ l2))).
      { unfold key_texts in *. rewrite map_app in *. cbn [map fst] in Hnd. rewrite H3 in Hnd.
        split; [apply NoDup_remove_1 in Hnd; exact Hnd | apply NoDup_remove_2 in Hnd; exact Hnd]. }
      destruct Hnd' as [Hnd1 Hnd2].
      destruct (IH _ _ _ _ _ _ Er Hk' Hnd1) as (I1 & I2 & I3 & I4). cbn [Nat.eqb] in I1.
      assert (Hname : pn_text (pd_name p) = pn_text nm).
      { unfold keys_match in Hk. apply Forall_app in Hk. destruct Hk as [_ Hb]. inversion Hb; subst. cbn [fst snd] in *. congruence. }
      split; [|split; [|split]].
      * assert (Hkept : (if Nat.eqb idx 0 then kept_types E ((nm, pty) :: types) (l1 ++ (k0, p) :: l2) else (nm, pty) :: types)
                        = (nm, pty) :: types).
        { destruct (Nat.eqb idx 0); [|reflexivity]. unfold kept_types. cbn [fst].
          replace (has_key (pn_text nm) (l1 ++ (k0, p) :: l2)) with true; [rewrite andb_false_r; reflexivity|].
          symmetry. unfold has_key. rewrite existsb_app. cbn [existsb fst]. rewrite H3, text_eqb_refl. rewrite orb_true_r. reflexivity. }
        rewrite Hkept. unfold row_names, key_texts in *. cbn [map pd_name fst]. rewrite I1, Hname. reflexivity.
      * apply subseq_app_skip. exact I2.
      * intros e He. cbn [key_texts map fst existsb]. fold (key_texts types). rewrite (I3 e He), orb_false_r.
        destruct (text_eqb (pn_text (fst e)) (pn_text nm)) eqn:Ee; [|reflexivity].
        exfalso. apply text_eqb_eq in Ee. apply Hnd2. rewrite <- Ee.
        unfold key_texts. apply in_map_iff. exists e. split; [reflexivity | apply (subseq_In _ _ _ I2 He)].
      * intros e He Hne. cbn [key_texts map fst existsb] in Hne. fold (key_texts types) in Hne.
        apply orb_false_iff in Hne. destruct Hne as [Hne1 Hne2]. apply I4; [|exact Hne2].
        apply in_app_or in He. apply in_or_app. destruct He as [He | [He | He]]; [left; exact He | | right; exact He].
        subst e. cbn [fst] in Hne1. rewrite H3, text_eqb_refl in Hne1. discriminate.
    + pose proof (has_key_pop_none _ _ Ep) as Hnk.
      assert (Hnone : forall e, In e params -> text_eqb (pn_text (fst e)) (pn_text nm) = false).
      { intros e He. destruct (text_eqb (pn_text (fst e)) (pn_text nm)) eqn:Ee; [|reflexivity].
        exfalso. destruct e as [ke ve]. apply (dict_pop_none _ _ Ep ke ve He). apply text_eqb_eq. exact Ee. }
      destruct (Nat.eqb idx 0 && strip_first E nm) eqn:Es.
      * destruct (IH _ _ _ _ _ _ H Hk Hnd) as (I1 & I2 & I3 & I4). cbn [Nat.eqb] in I1.
        apply andb_true_iff in Es. destruct Es as [Es1 Es2]. rewrite Es1.
        split; [|split; [exact I2 | split]].
        -- unfold kept_types. cbn [fst]. rewrite Es2, Hnk. cbn [negb andb]. exact I1.
        -- intros e He. cbn [key_texts map fst existsb]. fold (key_texts types). rewrite (I3 e He), orb_false_r.
           apply Hnone. apply (subseq_In _ _ _ I2 He).
        -- intros e He Hne. cbn [key_texts map fst existsb] in Hne. fold (key_texts types) in Hne.
           apply orb_false_iff in Hne. destruct Hne as [_ Hne2]. apply I4; assumption.
      * destruct (rt_loop E (S idx) types params _) as [[new1 lft1] ai1] eqn:Er. inversion H; subst.
        destruct (IH _ _ _ _ _ _ Er Hk Hnd) as (I1 & I2 & I3 & I4). cbn [Nat.eqb] in I1.
        split; [|split; [exact I2 | split]].
        -- assert (Hkept : (if Nat.eqb idx 0 then kept_types E ((nm, pty) :: types) params else (nm, pty) :: types)
                           = (nm, pty) :: types).
           { destruct (Nat.eqb idx 0) eqn:E0; [|reflexivity]. unfold kept_types. cbn [fst]. cbn [andb] in Es. rewrite Es. reflexivity. }
           rewrite Hkept. unfold row_names, key_texts in *. cbn [map pd_name fst]. rewrite I1. reflexivity.
        -- intros e He. cbn [key_texts map fst existsb]. fold (key_texts types). rewrite (I3 e He), orb_false_r.
           apply Hnone. apply (subseq_In _ _ _ I2 He).
        -- intros e He Hne. cbn [key_texts map fst existsb] in Hne. fold (key_texts types) in Hne.
           apply orb_false_iff in Hne. destruct Hne as [_ Hne2]. apply I4; assumption.
Qed.

Lemma NoDup_app_snoc : forall {X} (l : list X) x, NoDup l -> ~ In x l -> NoDup (l ++ [x]).
Proof.
  intros X l x H Hx. induction H as [|y l Hy Hl IH]; cbn [app].
  - constructor; [intros [] | constructor].
  - constructor.
    + intro Hin. apply in_app_or in Hin. destruct Hin as [Hin | [Hin | []]]; [contradiction | subst; apply Hx; left; reflexivity].
    + apply IH. intro Hin. apply Hx. right. exact Hin.
Qed.

(* the keys of params = {param.name: param ...} are pairwise different *)
Lemma dict_set_nodup : forall (k : pname) (v : pdesc) d, NoDup (key_texts d) -> NoDup (key_texts (dict_set k v d)).
Proof.
  intros k v d H. rewrite dict_set_keys. destruct (has_key (pn_text k) d) eqn:Eh; [rewrite app_nil_r; exact H|].
  apply NoDup_app_snoc; [exact H|].
  intro Hin. unfold key_texts in Hin. apply in_map_iff in Hin. destruct Hin as (e & He1 & He2).
  unfold has_key in Eh. rewrite <- not_true_iff_false in Eh. apply Eh. apply existsb_exists. exists e. split; [exact He2|].
  rewrite He1. apply text_eqb_refl.
Qed.

Lemma params_dict_nodup : forall ds, NoDup (key_texts (params_dict ds)).
Proof.
  intros ds. unfold params_dict.
  assert (G : forall d, NoDup (key_texts d) -> NoDup (key_texts (fold_left (fun d p => dict_set (pd_name p) p d) ds d))).
  { induction ds as [|p ds IH]; intros d H; cbn [fold_left]; [exact H | apply IH; apply dict_set_nodup; exact H]. }
  apply G. constructor.
Qed.

(* resolve_types: the rows, in order.  `descs` is the list before the **kwargs shuffle. *)
Theorem param_order_rows : forall E st,
  let params := params_dict (st_pdescs st) in
  forall new lft ai,
    rt_loop E 0 (st_types st) params (match params with [] => false | _ => true end) = (new, lft, ai) ->
    row_names new = key_texts (kept_types E (st_types st) params) /\
    subseq lft params /\
    (forall e, In e params -> (In e lft <-> existsb (text_eqb (pn_text (fst e))) (key_texts (st_types st)) = false)).
Proof.
  intros E st params new lft ai H.
  destruct (rt_loop_rows E _ _ _ _ _ _ _ H (params_dict_keys_match _) (params_dict_nodup _)) as (H1 & H2 & H3 & H4).
  cbn [Nat.eqb] in H1. split; [exact H1|]. split; [exact H2|].
  intros e He. split; [apply H3 | apply H4; exact He].
Qed.

(* ... and the **kwargs shuffle: the last row whose name is the KeywordArgument is moved to the end, or left out when it
   is undocumented and explicit keywords are documented; every other row stays where it is *)
Theorem param_order_kwargs : forall E st,
  exists descs,
    (st_pdescs (resolve_types E st) = descs \/
     exists k, In k descs /\ is_kw_name k = true /\
               (st_pdescs (resolve_types E st) = remove_first k descs ++ [k] \/
                (pdesc_documented k = false /\ st_pdescs (resolve_types E st) = remove_first k descs))) /\
    (descs = st_pdescs st \/
     exists new lft ai, rt_loop E 0 (st_types st) (params_dict (st_pdescs st))
                                (match params_dict (st_pdescs st) with [] => false | _ => true end) = (new, lft, ai) /\
                        descs = new ++ map snd lft).
Proof.
  intros E st. unfold resolve_types.
  destruct (rt_loop E 0 (st_types st) (params_dict (st_pdescs st)) _) as [[new lft] ai] eqn:Er.
  exists (if ai then new ++ map snd lft else st_pdescs st). split.
  - set (descs := if ai then new ++ map snd lft else st_pdescs st).
    destruct (fold_left (fun acc p => if is_kw_name p then Some p else acc) descs None) as [k|] eqn:Ek; st_simpl; [|left; reflexivity].
    right. exists k.
    assert (Hk : In k descs /\ is_kw_name k = true).
    { clear - Ek. assert (G : forall l acc, fold_left (fun acc p => if is_kw_name p then Some p else acc) l acc = Some k ->
                                    (In k l /\ is_kw_name k = true) \/ acc = Some k).
      { induction l as [|p l IH]; intros acc H; cbn [fold_left] in H; [right; exact H|].
        destruct (IH _ H) as [[H1 H2] | H1]; [left; split; [right; exact H1 | exact H2]|].
        destruct (is_kw_name p) eqn:Ep; [inversion H1; subst; left; split; [left; reflexivity | exact Ep] | right; exact H1]. }
      destruct (G _ _ Ek) as [H | H]; [exact H | discriminate]. }
    destruct Hk as [Hk1 Hk2]. split; [exact Hk1|]. split; [exact Hk2|].
    destruct (negb (existsb (fun p => negb (is_kw_name p) && pd_kw p) descs) || pdesc_documented k) eqn:Ec.
    + left. reflexivity.
    + right. apply orb_false_iff in Ec. destruct Ec as [_ Ec]. split; [exact Ec | reflexivity].
  - destruct ai; [right; exists new, lft, true; split; reflexivity | left; reflexivity].
Qed.

(* ======================================================================================================== *)
(* duplicates of a parameter that pydoctor warns about (guard class (d), exact)                               *)
(* ======================================================================================================== *)
Lemma has_key_in : forall {V} n (d : list (pname * V)), has_key n d = true <-> In n (key_texts d).
Proof.
  intros V n d. unfold has_key, key_texts. rewrite existsb_exists. split.
  - intros (e & He & Ht). apply text_eqb_eq in Ht. apply in_map_iff. exists e. split; assumption.
  - intro H. apply in_map_iff in H. destruct H as (e & He & Hin). exists e. split; [exact Hin|]. rewrite He. apply text_eqb_refl.
Qed.

Section DupWarned.
  Variable E : env.
  Hypothesis Hfun : is_function_obj E = true.

  Lemma has_key_step : forall n k g st, has_key n (st_types st) = true -> has_key n (st_types (handle E k g st)) = true.
  Proof.
    intros n k g st H. apply has_key_in. apply has_key_in in H. destruct (types_keys_step E k g st) as [x Hx].
    rewrite Hx. apply in_or_app. left. exact H.
  Qed.

  Lemma has_key_all : forall fs n k st, has_key n (st_types st) = true -> has_key n (st_types (handle_all E k fs st)) = true.
  Proof. induction fs as [|g fs IH]; intros n k st H; cbn [handle_all]; [exact H | apply IH; apply has_key_step; exact H]. Qed.

  Lemma sig_has_key : forall n, In n (sig_names E) -> has_key n (st_types (init_state E)) = true.
  Proof.
    intros n H. apply has_key_in. unfold init_state, is_function_obj, sig_names, key_texts in *. cbn [st_types].
    destruct (e_obj E); try discriminate. rewrite map_map. exact H.
  Qed.

  Lemma param_name_some : forall k g st n, arg_name g = Some n ->
    exists n', fst (handle_param_name E k g st) = Some n' /\ pn_text n' = n.
  Proof.
    intros k g st n Ha. unfold arg_name in Ha. destruct (f_arg g) as [a|] eqn:Fa; [|discriminate].
    destruct (fst (handle_param_name E k g st)) as [n'|] eqn:Hn.
    - exists n'. split; [reflexivity|]. pose proof (param_name_text E k g st n' Hn) as H. unfold arg_name in H.
      rewrite Fa in H. cbn in *. congruence.
    - destruct (param_name_none E k g st Hn) as [H _]. congruence.
  Qed.

  Lemma type_adds_key : forall k g st n,
    lookup_handler (f_tag g) handler_table = Some HType -> arg_name g = Some n ->
    has_key n (st_types (handle E k g st)) = true.
  Proof.
    intros k g st n Hh Ha. pose proof (handle_effect E k g st) as HE. unfold effect in HE. rewrite Hh in HE.
    unfold is_function_obj in Hfun. destruct (e_obj E); try discriminate.
    destruct (param_name_some k g st n Ha) as (n' & Hn1 & Hn2). rewrite Hn1 in HE. cbn [apply_upd] in HE.
    destruct HE as (HE & _). rewrite HE. st_simpl. apply has_key_in. rewrite dict_set_keys.
    destruct (has_key (pn_text n') (st_types st)) eqn:Ek.
    - rewrite app_nil_r. apply has_key_in. rewrite <- Hn2. exact Ek.
    - apply in_or_app. right. left. exact Hn2.
  Qed.

  Lemma keyword_reported : forall k f st n,
    lookup_handler (f_tag f) handler_table = Some HKeyword ->
    fst (handle_param_name E k f st) = Some n -> has_key (pn_text n) (st_types st) = true ->
    exists r, In r (st_reports (handle E k f st)) /\ rp_kind r = RAsKeyword /\ rp_name r = pn_text n.
  Proof.
    intros k f st n Hh Hn Hk. unfold handle. rewrite Hh. unfold handle_keyword.
    pose proof (param_name_same E k f st) as HS.
    destruct (handle_param_name E k f st) as [nm st1]; cbn [fst snd] in *. subst nm.
    st_simpl. destruct HS as (HS & _). rewrite HS, Hk.
    eexists. split; [st_simpl; apply in_or_app; right; left; reflexivity | split; reflexivity].
  Qed.

  Lemma reports_in_step : forall r k g st, In r (st_reports st) -> In r (st_reports (handle E k g st)).
  Proof. intros r k g st H. destruct (handle_reports_mono E k g st) as [x Hx]. rewrite Hx. apply in_or_app. left. exact H. Qed.

  Lemma reports_in_all : forall fs r k st, In r (st_reports st) -> In r (st_reports (handle_all E k fs st)).
  Proof. induction fs as [|g fs IH]; intros r k st H; cbn [handle_all]; [exact H | apply IH; apply reports_in_step; exact H]. Qed.

  (* a later field for the same parameter that pydoctor warns about leaves a warning naming the parameter *)
  Theorem dup_warned_reported : forall fs i f j,
    nth_error fs i = Some f -> i < j -> is_tag param_tags f = true -> dup_warned_at E fs f j = true ->
    dup_reportedb f (st_reports (handle_all E 0 fs (init_state E))) = true.
  Proof.
    intros fs i f j Hi Hij Hpf Hw. unfold dup_warned_at in Hw.
    destruct (nth_error fs j) as [g|] eqn:Hj; [|discriminate].
    apply andb_true_iff in Hw. destruct Hw as [Hw Hwhy]. apply andb_true_iff in Hw. destruct Hw as [Hpg Hsame].
    unfold same_name in Hsame. destruct (arg_name f) as [n|] eqn:Haf; [|discriminate].
    destruct (arg_name g) as [ng|] eqn:Hag; [|discriminate]. apply text_eqb_eq in Hsame. subst ng.
    destruct (nth_error_split fs j Hj) as (pre2 & post2 & Hfs & Hlen).
    (* f is among the fields before g *)
    assert (Hfin : In f pre2).
    { assert (Hi' : nth_error pre2 i = Some f) by (rewrite Hfs in Hi; rewrite nth_error_app1 in Hi by lia; exact Hi).
      apply nth_error_In in Hi'. exact Hi'. }
    set (stj := handle_all E 0 pre2 (init_state E)).
    assert (Hnamed : pdesc_named n stj = true).
    { apply in_split in Hfin. destruct Hfin as (l1 & l2 & ->). unfold stj. rewrite handle_all_app. cbn [handle_all].
      apply pdesc_named_all. apply paramish_named; assumption. }
    destruct (param_name_some (List.length pre2) g stj n Hag) as (n' & Hn1 & Hn2).
    assert (Hrep : exists r, In r (st_reports (handle E (List.length pre2) g stj)) /\ rkind_dup (rp_kind r) = true /\ rp_name r = n).
    { destruct (lookup_handler (f_tag g) handler_table) as [h|] eqn:Hh.
      - destruct (known_handler_facts _ _ Hh) as (_ & _ & Ft & Fp & _). pose proof (keyword_handler_fact _ _ Hh) as Fk.
        change (tag_is param_tags (f_tag g)) with (is_tag param_tags g) in Fp. rewrite Hpg in Fp.
        change (tag_is ["keyword"%string] (f_tag g)) with (is_tag ["keyword"%string] g) in Fk.
        destruct h; try discriminate Fp.
        + (* @param / @arg *)
          rewrite <- Hn2 in Hnamed. destruct (dup_param_reported E _ g stj n' Hh Hn1 Hnamed) as (r & H1 & _ & H3 & H4).
          exists r. split; [exact H1|]. split; [rewrite H3; reflexivity | congruence].
        + (* @keyword *)
          rewrite Fk in Hwhy. cbn [handler_eqb negb orb] in Hwhy.
          assert (Hkey : has_key (pn_text n') (st_types stj) = true).
          { rewrite Hn2. apply orb_true_iff in Hwhy. destruct Hwhy as [Hs | Ht].
            - unfold in_sig in Hs. rewrite Haf in Hs. apply existsb_exists in Hs. destruct Hs as (x & Hx & Hxe).
              apply text_eqb_eq in Hxe. subst x. unfold stj. apply has_key_all. apply sig_has_key. exact Hx.
            - apply existsb_exists in Ht. destruct Ht as (h & Hh1 & Hh2). apply andb_true_iff in Hh2. destruct Hh2 as [Hty Hsn].
              rewrite Hfs in Hh1. rewrite <- Hlen in Hh1. rewrite firstn_app, Nat.sub_diag, firstn_all in Hh1. cbn [firstn] in Hh1.
              rewrite app_nil_r in Hh1.
              unfold same_name in Hsn. rewrite Haf in Hsn. destruct (arg_name h) as [nh|] eqn:Hah; [|discriminate].
              apply text_eqb_eq in Hsn. subst nh.
              assert (Hhh : lookup_handler (f_tag h) handler_table = Some HType).
              { destruct (lookup_handler (f_tag h) handler_table) as [hh|] eqn:Hl.
                - destruct (known_handler_facts _ _ Hl) as (_ & _ & Ft' & _).
                  change (tag_is ["type"%string] (f_tag h)) with (is_tag ["type"%string] h) in Ft'. rewrite Hty in Ft'.
                  destruct hh; try discriminate Ft'. reflexivity.
                - destruct (unknown_handler_facts _ Hl) as (_ & _ & Ft' & _).
                  change (tag_is ["type"%string] (f_tag h)) with (is_tag ["type"%string] h) in Ft'. congruence. }
              apply in_split in Hh1. destruct Hh1 as (l1 & l2 & ->). unfold stj. rewrite handle_all_app. cbn [handle_all].
              apply has_key_all. apply type_adds_key; assumption. }
          destruct (keyword_reported _ g stj n' Hh Hn1 Hkey) as (r & H1 & H2 & H3).
          exists r. split; [exact H1|]. split; [rewrite H2; reflexivity | congruence].
      - destruct (unknown_handler_facts _ Hh) as (_ & _ & _ & Fp & _).
        change (tag_is param_tags (f_tag g)) with (is_tag param_tags g) in Fp. congruence. }
    destruct Hrep as (r & Hr1 & Hr2 & Hr3).
    unfold dup_reportedb. rewrite Hpf, Haf. cbn [andb]. apply existsb_exists. exists r. split.
    - rewrite Hfs, handle_all_app. cbn [handle_all plus]. apply reports_in_all. exact Hr1.
    - rewrite Hr2, Hr3. cbn [andb]. apply text_eqb_refl.
  Qed.

  (* C09_fields_routed with the exact guard *)
  Theorem fields_routed : forall fs i f,
    no_silent_class E fs -> nth_error fs i = Some f ->
    routed i f (fst (fst (render E fs))) (snd (fst (render E fs))).
  Proof.
    intros fs i f Hguard Hnth. pose proof (Hguard i f Hnth) as Hg.
    destruct (is_tag param_tags f && existsb (fun g => is_tag param_tags g && same_name f g) (skipn (S i) fs)) eqn:Hlater.
    - (* a later field documents the same parameter: the guard says pydoctor warns about one of them *)
      right. right. rewrite (render_function E Hfun). cbn [fst snd].
      assert (Hw : later_dup_warned E fs i f = true).
      { unfold silently_lost in Hg. repeat (apply orb_false_iff in Hg; destruct Hg as [Hg ?]).
        match goal with H : _ && _ && negb (later_dup_warned E fs i f) = false |- _ => rename H into Hd end.
        rewrite Hlater in Hd. cbn [andb] in Hd. apply negb_false_iff in Hd. exact Hd. }
      unfold later_dup_warned in Hw. apply existsb_exists in Hw. destruct Hw as (j & Hj1 & Hj2).
      apply in_seq in Hj1. apply andb_true_iff in Hlater. destruct Hlater as [Hpf _].
      destruct (resolve_types_spec E (handle_all E 0 fs (init_state E))) as (descs & Hres & _). rewrite Hres. st_simpl.
      apply (dup_warned_reported fs i f j Hnth); [lia | exact Hpf | exact Hj2].
    - apply (fields_routed_nodup E Hfun fs i f Hg Hnth Hlater).
  Qed.
End DupWarned.
