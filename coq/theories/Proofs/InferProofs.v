(* Proofs/InferProofs.v -- soundness of Model.Infer.annotation_for_value w.r.t. Spec.PyBind.denotes. *)
From Coq Require Import ZArith NArith List Bool Lia.
From PydoctorVerif Require Import Base.Sexp Model.MiniPy Model.Infer Spec.PyBind.
Import ListNotations.

Lemma text_eqb_eq : forall a b, text_eqb a b = true <-> a = b.
Proof.
  induction a as [|x a IH]; destruct b as [|y b]; cbn; split; intro H; try congruence; try discriminate.
  - apply andb_true_iff in H. destruct H as [H1 H2]. apply N.eqb_eq in H1. apply IH in H2. congruence.
  - inversion H; subst. apply andb_true_iff. split. apply N.eqb_refl. apply IH. reflexivity.
Qed.

Lemma text_eqb_refl : forall a, text_eqb a a = true.
Proof. intro a. apply text_eqb_eq. reflexivity. Qed.

Lemma text_eqb_neq : forall a b, text_eqb a b = false <-> a <> b.
Proof.
  intros a b. split; intro H.
  - intro E. apply text_eqb_eq in E. congruence.
  - destruct (text_eqb a b) eqn:E; auto. apply text_eqb_eq in E. contradiction.
Qed.

Lemma text_eqb_sym : forall a b, text_eqb a b = text_eqb b a.
Proof.
  intros a b. destruct (text_eqb a b) eqn:E.
  - apply text_eqb_eq in E. subst. symmetry. apply text_eqb_refl.
  - symmetry. apply text_eqb_neq. apply text_eqb_neq in E. congruence.
Qed.

(* the model's type(value).__name__ table is the spec's *)
Lemma type_name_spec : forall v, type_name v = py_type_name v.
Proof. destruct v; reflexivity. Qed.

(* nested induction principle for values *)
Section ValueInd.
  Variable P : value -> Prop.
  Hypothesis Hint : forall z, P (LInt z).
  Hypothesis Hbool : forall b, P (LBool b).
  Hypothesis Hstr : forall s, P (LStr s).
  Hypothesis Hbytes : forall s, P (LBytes s).
  Hypothesis Hfloat : forall s, P (LFloat s).
  Hypothesis Hnone : P LNone.
  Hypothesis Hlist : forall l, Forall P l -> P (LList l).
  Hypothesis Htuple : forall l, Forall P l -> P (LTuple l).
  Hypothesis Hset : forall l, Forall P l -> P (LSet l).
  Hypothesis Hdict : forall ks vs, Forall P ks -> Forall P vs -> P (LDict ks vs).

  Fixpoint value_ind' (v : value) : P v :=
    let all := fix all (l : list value) : Forall P l :=
                 match l with [] => Forall_nil P | x :: r => Forall_cons x (value_ind' x) (all r) end in
    match v with
    | LInt z => Hint z | LBool b => Hbool b | LStr s => Hstr s | LBytes s => Hbytes s | LFloat s => Hfloat s
    | LNone => Hnone
    | LList l => Hlist l (all l)
    | LTuple l => Htuple l (all l)
    | LSet l => Hset l (all l)
    | LDict ks vs => Hdict ks vs (all ks) (all vs)
    end.
End ValueInd.

Lemma elems_fold_sound : forall anns seen res,
    elems_fold anns seen = Some res ->
    (forall m, seen = Some m -> res = Some m) /\ Forall (fun a => exists k, a = Some (AName k) /\ res = Some k) anns.
Proof.
  induction anns as [|a anns IH]; intros seen res H; cbn in H.
  - inversion H; subst. split; auto.
  - destruct a as [[k| | |]|]; try discriminate.
    destruct seen as [m|].
    + destruct (text_eqb m k) eqn:E; try discriminate.
      apply text_eqb_eq in E. subst k.
      destruct (IH _ _ H) as [H1 H2]. split; auto.
      constructor; auto. exists m. split; auto.
    + destruct (IH _ _ H) as [H1 H2]. split; [intros m Hm; discriminate|].
      constructor; auto. exists k. split; auto.
Qed.

Lemma annotation_for_elements_sound : forall anns n,
    annotation_for_elements anns = Some n -> Forall (fun a => a = Some (AName n)) anns.
Proof.
  intros anns n H. unfold annotation_for_elements in H.
  destruct (elems_fold anns None) as [[m|]|] eqn:E; try discriminate. inversion H; subst m.
  destruct (elems_fold_sound _ _ _ E) as [_ HF].
  eapply Forall_impl; [|exact HF]. cbn. intros a [k [Ha Hk]]. congruence.
Qed.

(* empty sequence: no element type *)
Lemma annotation_for_elements_nil : annotation_for_elements [] = None.
Proof. reflexivity. Qed.

Definition sound (v : value) : Prop := forall t, annotation_for_value v = Some t -> denotes t v.

Lemma elems_typed : forall l n,
    Forall sound l -> annotation_for_elements (map annotation_for_value l) = Some n ->
    Forall (fun x => py_type_name x = n) l.
Proof.
  intros l n HS H. apply annotation_for_elements_sound in H.
  rewrite Forall_map in H.
  induction l as [|x l IH]; constructor.
  - inversion HS; subst. inversion H; subst. apply (H2 (AName n)). assumption.
  - inversion HS; subst. inversion H; subst. auto.
Qed.

Lemma annotation_for_value_sound : forall v, sound v.
Proof.
  induction v as [z|b|s|s|s| |l IHl|l IHl|l IHl|ks vs IHk IHv] using value_ind'; unfold sound; intros t H; cbn in H; try (inversion H; subst; reflexivity); try discriminate.
  - (* list *)
    destruct (annotation_for_elements (map annotation_for_value l)) eqn:E; inversion H; subst; cbn.
    + split; [reflexivity|]. split; [exists l; auto|]. eapply elems_typed; eauto.
    + reflexivity.
  - (* tuple *)
    destruct (annotation_for_elements (map annotation_for_value l)) eqn:E; inversion H; subst; cbn.
    + split; [exists l; auto|]. eapply elems_typed; eauto.
    + reflexivity.
  - (* set *)
    destruct (annotation_for_elements (map annotation_for_value l)) eqn:E; inversion H; subst; cbn.
    + split; [reflexivity|]. split; [exists l; auto|]. eapply elems_typed; eauto.
    + reflexivity.
  - (* dict *)
    destruct (annotation_for_elements (map annotation_for_value vs)) eqn:Ev.
    + destruct (annotation_for_elements (map annotation_for_value ks)) eqn:Ek; inversion H; subst; cbn.
      * split; [exists ks, vs; auto|]. split; eapply elems_typed; eauto.
      * reflexivity.
    + inversion H; subst. reflexivity.
Qed.

(* a subscript is only produced for a non-empty container *)
Lemma subscript_nonempty : forall v t,
    annotation_for_value v = Some t -> (forall n, t <> AName n) -> py_elems v <> [].
Proof.
  intros v t H Hn. destruct v; cbn in H; try (inversion H; subst; exfalso; eapply Hn; reflexivity); try discriminate.
  - destruct l; cbn in *; [inversion H; subst; exfalso; eapply Hn; reflexivity | discriminate].
  - destruct l; cbn in *; [inversion H; subst; exfalso; eapply Hn; reflexivity | discriminate].
  - destruct l; cbn in *; [inversion H; subst; exfalso; eapply Hn; reflexivity | discriminate].
  - destruct ks; cbn in *; [|discriminate].
    destruct (annotation_for_elements (map annotation_for_value vs)); inversion H; subst; exfalso; eapply Hn; reflexivity.
Qed.
