(* Proofs/PyGrammarProofs.v -- facts about the spec reader Spec/PyGrammar.v alone.
   ES F r : "with enough fuel F answers r" (exists n, forall f >= n, F f = Some r).
   One lemma per clause of the reader, in that form, so that the printer proof never looks at fuel. *)
From Coq Require Import ZArith NArith List Bool Lia Arith.
From PydoctorVerif Require Import Base.Sexp Base.PyExpr Spec.PyGrammar.
Import ListNotations.

Definition ES {A : Type} (F : nat -> option A) (r : A) : Prop :=
  exists n, forall f, n <= f -> F f = Some r.

Lemma ES_ext {A} (F G : nat -> option A) r : (forall f, F f = G f) -> ES F r -> ES G r.
Proof. intros E [n H]. exists n. intros f Hf. rewrite <- E. auto. Qed.

(* the atom-then-trailers part of rd_prefix *)
Definition primary (f : nat) (ts : list token) : res expr :=
  match rd_atom f ts with
  | Some (a, r) => rd_trailers f a r
  | None => None
  end.

(* ---- which tokens stop climbing at minimum level m ---- *)
Definition stopsb (m : nat) (ts : list token) : bool :=
  match ts with
  | TOp o :: _ => match infix_of o with Some b => Nat.ltb (lbp b) m | None => true end
  | TAnd :: _ => Nat.ltb L_and m
  | TOr :: _ => Nat.ltb L_or m
  | _ => true
  end.

Definition no_trailer (ts : list token) : bool :=
  match ts with
  | TDot :: _ | TLP :: _ | TLB :: _ => false
  | _ => true
  end.

Lemma stopsb_mono m m' ts : m <= m' -> stopsb m ts = true -> stopsb m' ts = true.
Proof.
  intros Hm. unfold stopsb. destruct ts as [|t ts]; auto.
  destruct t; auto.
  - destruct (infix_of o); auto. intros H. apply Nat.ltb_lt in H. apply Nat.ltb_lt. lia.
  - intros H. apply Nat.ltb_lt in H. apply Nat.ltb_lt. lia.
  - intros H. apply Nat.ltb_lt in H. apply Nat.ltb_lt. lia.
Qed.

Lemma ES_climb_stop m lhs ts : stopsb m ts = true -> ES (fun f => climb f m lhs ts) (lhs, ts).
Proof.
  intros H. exists 1. intros f Hf. destruct f as [|f]; [lia|]. unfold stopsb in H. cbn [climb].
  destruct ts as [|t ts]; auto. destruct t; auto.
  - destruct (infix_of o); auto. apply Nat.ltb_lt in H. destruct (Nat.leb m (lbp b)) eqn:E; auto.
    apply Nat.leb_le in E. lia.
  - apply Nat.ltb_lt in H. destruct (Nat.leb m L_and) eqn:E; auto. apply Nat.leb_le in E. lia.
  - apply Nat.ltb_lt in H. destruct (Nat.leb m L_or) eqn:E; auto. apply Nat.leb_le in E. lia.
Qed.

Lemma ES_rd m ts lhs r1 res0 :
  ES (fun f => rd_prefix f m ts) (lhs, r1) -> ES (fun f => climb f m lhs r1) res0 -> ES (fun f => rd f m ts) res0.
Proof.
  intros [n1 H1] [n2 H2]. exists (S (n1 + n2)). intros f Hf. destruct f as [|f]; [lia|]. cbn.
  rewrite H1 by lia. apply H2. lia.
Qed.

Lemma ES_climb_bin m lhs o b r rhs r' res0 :
  infix_of o = Some b -> m <= lbp b ->
  ES (fun f => rd f (rbp b) r) (rhs, r') -> ES (fun f => climb f m (EBin b lhs rhs) r') res0 ->
  ES (fun f => climb f m lhs (TOp o :: r)) res0.
Proof.
  intros Ho Hm [n1 H1] [n2 H2]. exists (S (n1 + n2)). intros f Hf. destruct f as [|f]; [lia|]. cbn.
  rewrite Ho. apply Nat.leb_le in Hm. rewrite Hm. rewrite H1 by lia. apply H2. lia.
Qed.

Lemma ES_climb_and m lhs r xs r' res0 :
  m <= L_and ->
  ES (fun f => rd_chain f true r) (xs, r') -> ES (fun f => climb f m (EBool And (lhs :: xs)) r') res0 ->
  ES (fun f => climb f m lhs (TAnd :: r)) res0.
Proof.
  intros Hm [n1 H1] [n2 H2]. exists (S (n1 + n2)). intros f Hf. destruct f as [|f]; [lia|]. cbn.
  apply Nat.leb_le in Hm. rewrite Hm. rewrite H1 by lia. apply H2. lia.
Qed.

Lemma ES_climb_or m lhs r xs r' res0 :
  m <= L_or ->
  ES (fun f => rd_chain f false r) (xs, r') -> ES (fun f => climb f m (EBool Or (lhs :: xs)) r') res0 ->
  ES (fun f => climb f m lhs (TOr :: r)) res0.
Proof.
  intros Hm [n1 H1] [n2 H2]. exists (S (n1 + n2)). intros f Hf. destruct f as [|f]; [lia|]. cbn.
  apply Nat.leb_le in Hm. rewrite Hm. rewrite H1 by lia. apply H2. lia.
Qed.

Definition chain_lvl (is_and : bool) : nat := if is_and then L_not else L_and.
Definition chain_sep (is_and : bool) : token := if is_and then TAnd else TOr.
Definition starts_with_sep (is_and : bool) (ts : list token) : bool :=
  match is_and, ts with
  | true, TAnd :: _ | false, TOr :: _ => true
  | _, _ => false
  end.

Lemma ES_chain_last is_and ts x r :
  ES (fun f => rd f (chain_lvl is_and) ts) (x, r) -> starts_with_sep is_and r = false ->
  ES (fun f => rd_chain f is_and ts) ([x], r).
Proof.
  intros [n1 H1] Hs. exists (S n1). intros f Hf. destruct f as [|f]; [lia|]. cbn.
  unfold chain_lvl in H1. rewrite H1 by lia.
  destruct is_and; destruct r as [|t r]; auto; destruct t; auto; discriminate.
Qed.

Lemma ES_chain_cons is_and ts x r xs r' :
  ES (fun f => rd f (chain_lvl is_and) ts) (x, chain_sep is_and :: r) ->
  ES (fun f => rd_chain f is_and r) (xs, r') ->
  ES (fun f => rd_chain f is_and ts) (x :: xs, r').
Proof.
  intros [n1 H1] [n2 H2]. exists (S (n1 + n2)). intros f Hf. destruct f as [|f]; [lia|]. cbn.
  unfold chain_lvl, chain_sep in H1. rewrite H1 by lia.
  destruct is_and; cbn; rewrite H2 by lia; reflexivity.
Qed.

Lemma ES_prefix_not m r x r' :
  m <= L_not -> ES (fun f => rd f L_not r) (x, r') -> ES (fun f => rd_prefix f m (TNot :: r)) (EUn UNot x, r').
Proof.
  intros Hm [n1 H1]. exists (S n1). intros f Hf. destruct f as [|f]; [lia|]. cbn.
  apply Nat.leb_le in Hm. rewrite Hm. rewrite H1 by lia. reflexivity.
Qed.

Lemma ES_prefix_unary m o u r x r' :
  prefix_of o = Some u -> m <= L_factor ->
  ES (fun f => rd f L_factor r) (x, r') -> ES (fun f => rd_prefix f m (TOp o :: r)) (EUn u x, r').
Proof.
  intros Ho Hm [n1 H1]. exists (S n1). intros f Hf. destruct f as [|f]; [lia|]. cbn.
  rewrite Ho. apply Nat.leb_le in Hm. rewrite Hm. rewrite H1 by lia. reflexivity.
Qed.

(* tokens a primary can start with *)
Definition primary_head (t : token) : bool :=
  match t with TLeaf _ | TName _ | TLP | TLB | TLC => true | _ => false end.

Lemma ES_prefix_primary m t ts res0 :
  primary_head t = true -> ES (fun f => primary f (t :: ts)) res0 -> ES (fun f => rd_prefix f m (t :: ts)) res0.
Proof.
  intros Ht [n1 H1]. exists (S n1). intros f Hf. destruct f as [|f]; [lia|].
  specialize (H1 f ltac:(lia)). unfold primary in H1.
  destruct t; try discriminate; cbn; exact H1.
Qed.

Lemma ES_primary ts a r res0 :
  ES (fun f => rd_atom f ts) (a, r) -> ES (fun f => rd_trailers f a r) res0 -> ES (fun f => primary f ts) res0.
Proof.
  intros [n1 H1] [n2 H2]. exists (n1 + n2). intros f Hf. unfold primary. rewrite H1 by lia. apply H2. lia.
Qed.

Lemma ES_trailers_stop a ts : no_trailer ts = true -> ES (fun f => rd_trailers f a ts) (a, ts).
Proof.
  intros H. exists 1. intros f Hf. destruct f as [|f]; [lia|]. cbn.
  destruct ts as [|t ts]; auto. destruct t; auto; discriminate.
Qed.

Lemma ES_trailers_dot a s r res0 :
  ES (fun f => rd_trailers f (EAttr a s []) r) res0 -> ES (fun f => rd_trailers f a (TDot :: TName s :: r)) res0.
Proof.
  intros [n1 H1]. exists (S n1). intros f Hf. destruct f as [|f]; [lia|]. cbn. apply H1. lia.
Qed.

Lemma ES_trailers_call a r args kws r2 res0 :
  ES (fun f => rd_args f 0 r) ((args, kws), r2) -> ES (fun f => rd_trailers f (ECall a args kws) r2) res0 ->
  ES (fun f => rd_trailers f a (TLP :: r)) res0.
Proof.
  intros [n1 H1] [n2 H2]. exists (S (n1 + n2)). intros f Hf. destruct f as [|f]; [lia|]. cbn.
  rewrite H1 by lia. apply H2. lia.
Qed.

Lemma ES_trailers_index a r x r2 res0 :
  ES (fun f => rd_star f true r) (x, TRB :: r2) ->
  ES (fun f => rd_trailers f (ESub a (if is_starred x then ETuple [x] else x)) r2) res0 ->
  ES (fun f => rd_trailers f a (TLB :: r)) res0.
Proof.
  intros [n1 H1] [n2 H2]. exists (S (n1 + n2)). intros f Hf. destruct f as [|f]; [lia|]. cbn.
  rewrite H1 by lia. apply H2. lia.
Qed.

Lemma ES_trailers_index_tuple a r x r2 xs r3 res0 :
  ES (fun f => rd_star f true r) (x, TComma :: r2) ->
  ES (fun f => rd_elts f true CBracket r2) (xs, r3) ->
  ES (fun f => rd_trailers f (ESub a (ETuple (x :: xs))) r3) res0 ->
  ES (fun f => rd_trailers f a (TLB :: r)) res0.
Proof.
  intros [n1 H1] [n2 H2] [n3 H3]. exists (S (n1 + n2 + n3)). intros f Hf. destruct f as [|f]; [lia|]. cbn.
  rewrite H1 by lia. rewrite H2 by lia. apply H3. lia.
Qed.

(* ---- atoms ---- *)
Lemma ES_atom_leaf l r : ES (fun f => rd_atom f (TLeaf l :: r)) (ELeaf l, r).
Proof. exists 1. intros f Hf. destruct f; [lia|]. reflexivity. Qed.

Lemma ES_atom_name s r : ES (fun f => rd_atom f (TName s :: r)) (EName s, r).
Proof. exists 1. intros f Hf. destruct f; [lia|]. reflexivity. Qed.

Lemma ES_atom_unit r : ES (fun f => rd_atom f (TLP :: TRP :: r)) (ETuple [], r).
Proof. exists 1. intros f Hf. destruct f; [lia|]. reflexivity. Qed.

Definition is_rp (t : token) : bool := match t with TRP => true | _ => false end.

Lemma ES_atom_paren t ts x r2 :
  is_rp t = false -> ES (fun f => rd_star f false (t :: ts)) (x, TRP :: r2) -> is_starred x = false ->
  ES (fun f => rd_atom f (TLP :: t :: ts)) (x, r2).
Proof.
  intros Ht [n1 H1] Hx. exists (S n1). intros f Hf. destruct f as [|f]; [lia|].
  specialize (H1 f ltac:(lia)).
  destruct t; try discriminate; cbn; rewrite H1; rewrite Hx; reflexivity.
Qed.

Lemma ES_atom_tuple t ts x r2 xs r3 :
  is_rp t = false -> ES (fun f => rd_star f false (t :: ts)) (x, TComma :: r2) ->
  ES (fun f => rd_elts f false CParen r2) (xs, r3) ->
  ES (fun f => rd_atom f (TLP :: t :: ts)) (ETuple (x :: xs), r3).
Proof.
  intros Ht [n1 H1] [n2 H2]. exists (S (n1 + n2)). intros f Hf. destruct f as [|f]; [lia|].
  specialize (H1 f ltac:(lia)). specialize (H2 f ltac:(lia)).
  destruct t; try discriminate; cbn; rewrite H1; rewrite H2; reflexivity.
Qed.

Lemma ES_atom_list r xs r2 :
  ES (fun f => rd_elts f false CBracket r) (xs, r2) -> ES (fun f => rd_atom f (TLB :: r)) (EList xs, r2).
Proof.
  intros [n1 H1]. exists (S n1). intros f Hf. destruct f as [|f]; [lia|]. cbn. rewrite H1 by lia. reflexivity.
Qed.

Lemma ES_atom_dict_empty r : ES (fun f => rd_atom f (TLC :: TRC :: r)) (EDict [], r).
Proof. exists 1. intros f Hf. destruct f; [lia|]. reflexivity. Qed.

Lemma ES_atom_dict_unpack r items r2 :
  ES (fun f => rd_dict f (TOp ODStar :: r)) (items, r2) ->
  ES (fun f => rd_atom f (TLC :: TOp ODStar :: r)) (EDict items, r2).
Proof.
  intros [n1 H1]. exists (S n1). intros f Hf. destruct f as [|f]; [lia|]. cbn. rewrite H1 by lia. reflexivity.
Qed.

Lemma ES_atom_dict_one t ts k r2 v r3 :
  primary_head t = true ->
  ES (fun f => rd_star f false (t :: ts)) (k, TColon :: r2) -> is_starred k = false ->
  ES (fun f => rd f L_test r2) (v, TRC :: r3) ->
  ES (fun f => rd_atom f (TLC :: t :: ts)) (EDict [(Some k, v)], r3).
Proof.
  intros Ht [n1 H1] Hk [n2 H2]. exists (S (n1 + n2)). intros f Hf. destruct f as [|f]; [lia|].
  specialize (H1 f ltac:(lia)). specialize (H2 f ltac:(lia)).
  destruct t; try discriminate; cbn; rewrite H1; rewrite Hk; rewrite H2; reflexivity.
Qed.

Lemma ES_atom_dict_more t ts k r2 v r3 items r4 :
  primary_head t = true ->
  ES (fun f => rd_star f false (t :: ts)) (k, TColon :: r2) -> is_starred k = false ->
  ES (fun f => rd f L_test r2) (v, TComma :: r3) ->
  ES (fun f => rd_dict f r3) (items, r4) ->
  ES (fun f => rd_atom f (TLC :: t :: ts)) (EDict ((Some k, v) :: items), r4).
Proof.
  intros Ht [n1 H1] Hk [n2 H2] [n3 H3]. exists (S (n1 + n2 + n3)). intros f Hf. destruct f as [|f]; [lia|].
  specialize (H1 f ltac:(lia)). specialize (H2 f ltac:(lia)). specialize (H3 f ltac:(lia)).
  destruct t; try discriminate; cbn; rewrite H1; rewrite Hk; rewrite H2; rewrite H3; reflexivity.
Qed.

(* ---- starred items, element lists ---- *)
Definition is_star_tok (t : token) : bool := match t with TOp OStar => true | _ => false end.

Lemma ES_star_plain sl t ts r0 :
  is_star_tok t = false -> ES (fun f => rd f L_test (t :: ts)) r0 -> ES (fun f => rd_star f sl (t :: ts)) r0.
Proof.
  intros Ht [n1 H1]. exists (S n1). intros f Hf. destruct f as [|f]; [lia|].
  specialize (H1 f ltac:(lia)).
  destruct t; try (cbn; exact H1). destruct o; try (cbn; exact H1). discriminate.
Qed.

Lemma ES_star_starred (sl : bool) r x r' :
  ES (fun f => rd f (if sl then L_test else L_bitor) r) (x, r') -> ES (fun f => rd_star f sl (TOp OStar :: r)) (EStarred x, r').
Proof.
  intros [n1 H1]. exists (S n1). intros f Hf. destruct f as [|f]; [lia|]. cbn. rewrite H1 by lia. reflexivity.
Qed.

Lemma ES_elts_nil sl c t r : closes c t = true -> ES (fun f => rd_elts f sl c (t :: r)) ([], r).
Proof. intros H. exists 1. intros f Hf. destruct f; [lia|]. cbn. rewrite H. reflexivity. Qed.

Lemma ES_elts_last sl c t ts x t2 r2 :
  closes c t = false -> ES (fun f => rd_star f sl (t :: ts)) (x, t2 :: r2) -> closes c t2 = true ->
  ES (fun f => rd_elts f sl c (t :: ts)) ([x], r2).
Proof.
  intros Ht [n1 H1] H2. exists (S n1). intros f Hf. destruct f as [|f]; [lia|]. cbn.
  rewrite Ht. rewrite H1 by lia. rewrite H2. reflexivity.
Qed.

Lemma ES_elts_cons sl c t ts x r2 xs r3 :
  closes c t = false -> ES (fun f => rd_star f sl (t :: ts)) (x, TComma :: r2) ->
  ES (fun f => rd_elts f sl c r2) (xs, r3) ->
  ES (fun f => rd_elts f sl c (t :: ts)) (x :: xs, r3).
Proof.
  intros Ht [n1 H1] [n2 H2]. exists (S (n1 + n2)). intros f Hf. destruct f as [|f]; [lia|]. cbn.
  rewrite Ht. rewrite H1 by lia.
  replace (closes c TComma) with false by (destruct c; reflexivity).
  rewrite H2 by lia. reflexivity.
Qed.

(* ---- dict items ---- *)
Lemma ES_dict_nil r : ES (fun f => rd_dict f (TRC :: r)) ([], r).
Proof. exists 1. intros f Hf. destruct f; [lia|]. reflexivity. Qed.

Lemma ES_dict_unpack_last r v r2 :
  ES (fun f => rd f L_bitor r) (v, TRC :: r2) -> ES (fun f => rd_dict f (TOp ODStar :: r)) ([(None, v)], r2).
Proof.
  intros [n1 H1]. exists (S n1). intros f Hf. destruct f as [|f]; [lia|]. cbn. rewrite H1 by lia. reflexivity.
Qed.

Lemma ES_dict_unpack_cons r v r2 items r3 :
  ES (fun f => rd f L_bitor r) (v, TComma :: r2) -> ES (fun f => rd_dict f r2) (items, r3) ->
  ES (fun f => rd_dict f (TOp ODStar :: r)) ((None, v) :: items, r3).
Proof.
  intros [n1 H1] [n2 H2]. exists (S (n1 + n2)). intros f Hf. destruct f as [|f]; [lia|]. cbn.
  rewrite H1 by lia. rewrite H2 by lia. reflexivity.
Qed.

Lemma ES_dict_kv_last t ts k r2 v r3 :
  primary_head t = true ->
  ES (fun f => rd f L_test (t :: ts)) (k, TColon :: r2) -> ES (fun f => rd f L_test r2) (v, TRC :: r3) ->
  ES (fun f => rd_dict f (t :: ts)) ([(Some k, v)], r3).
Proof.
  intros Ht [n1 H1] [n2 H2]. exists (S (n1 + n2)). intros f Hf. destruct f as [|f]; [lia|].
  specialize (H1 f ltac:(lia)). specialize (H2 f ltac:(lia)).
  destruct t; try discriminate; cbn; rewrite H1; rewrite H2; reflexivity.
Qed.

Lemma ES_dict_kv_cons t ts k r2 v r3 items r4 :
  primary_head t = true ->
  ES (fun f => rd f L_test (t :: ts)) (k, TColon :: r2) -> ES (fun f => rd f L_test r2) (v, TComma :: r3) ->
  ES (fun f => rd_dict f r3) (items, r4) ->
  ES (fun f => rd_dict f (t :: ts)) ((Some k, v) :: items, r4).
Proof.
  intros Ht [n1 H1] [n2 H2] [n3 H3]. exists (S (n1 + n2 + n3)). intros f Hf. destruct f as [|f]; [lia|].
  specialize (H1 f ltac:(lia)). specialize (H2 f ltac:(lia)). specialize (H3 f ltac:(lia)).
  destruct t; try discriminate; cbn; rewrite H1; rewrite H2; rewrite H3; reflexivity.
Qed.

(* ---- call arguments ---- *)
Lemma ES_args_nil stt r : ES (fun f => rd_args f stt (TRP :: r)) (([], []), r).
Proof. exists 1. intros f Hf. destruct f; [lia|]. reflexivity. Qed.

Definition kw_start (ts : list token) : bool :=
  match ts with TName _ :: TEq :: _ => true | _ => false end.

(* a positional argument *)
Lemma ES_args_pos_last t ts x r2 :
  primary_head t = true -> kw_start (t :: ts) = false ->
  ES (fun f => rd f L_test (t :: ts)) (x, TRP :: r2) ->
  ES (fun f => rd_args f 0 (t :: ts)) (([x], []), r2).
Proof.
  intros Ht Hk [n1 H1]. exists (S n1). intros f Hf. destruct f as [|f]; [lia|].
  specialize (H1 f ltac:(lia)).
  destruct t; try discriminate; try (cbn; rewrite H1; reflexivity).
  destruct ts as [|t2 ts]; [cbn; rewrite H1; reflexivity|].
  destruct t2; try discriminate; cbn; rewrite H1; reflexivity.
Qed.

Lemma ES_args_pos_cons t ts x r2 a k r3 :
  primary_head t = true -> kw_start (t :: ts) = false ->
  ES (fun f => rd f L_test (t :: ts)) (x, TComma :: r2) ->
  ES (fun f => rd_args f 0 r2) ((a, k), r3) ->
  ES (fun f => rd_args f 0 (t :: ts)) ((x :: a, k), r3).
Proof.
  intros Ht Hk [n1 H1] [n2 H2]. exists (S (n1 + n2)). intros f Hf. destruct f as [|f]; [lia|].
  specialize (H1 f ltac:(lia)). specialize (H2 f ltac:(lia)).
  destruct t; try discriminate; try (cbn; rewrite H1; rewrite H2; reflexivity).
  destruct ts as [|t2 ts]; [cbn; rewrite H1; rewrite H2; reflexivity|].
  destruct t2; try discriminate; cbn; rewrite H1; rewrite H2; reflexivity.
Qed.

Lemma ES_args_star_last r x r2 :
  ES (fun f => rd f L_test r) (x, TRP :: r2) -> ES (fun f => rd_args f 0 (TOp OStar :: r)) (([EStarred x], []), r2).
Proof.
  intros [n1 H1]. exists (S n1). intros f Hf. destruct f as [|f]; [lia|]. cbn. rewrite H1 by lia. reflexivity.
Qed.

Lemma ES_args_star_cons r x r2 a k r3 :
  ES (fun f => rd f L_test r) (x, TComma :: r2) -> ES (fun f => rd_args f 0 r2) ((a, k), r3) ->
  ES (fun f => rd_args f 0 (TOp OStar :: r)) ((EStarred x :: a, k), r3).
Proof.
  intros [n1 H1] [n2 H2]. exists (S (n1 + n2)). intros f Hf. destruct f as [|f]; [lia|]. cbn.
  rewrite H1 by lia. rewrite H2 by lia. reflexivity.
Qed.

Lemma ES_args_dstar_last stt r x r2 :
  ES (fun f => rd f L_test r) (x, TRP :: r2) -> ES (fun f => rd_args f stt (TOp ODStar :: r)) (([], [(None, x)]), r2).
Proof.
  intros [n1 H1]. exists (S n1). intros f Hf. destruct f as [|f]; [lia|]. cbn. rewrite H1 by lia. reflexivity.
Qed.

Lemma ES_args_dstar_cons stt r x r2 k r3 :
  ES (fun f => rd f L_test r) (x, TComma :: r2) -> ES (fun f => rd_args f 2 r2) (([], k), r3) ->
  ES (fun f => rd_args f stt (TOp ODStar :: r)) (([], (None, x) :: k), r3).
Proof.
  intros [n1 H1] [n2 H2]. exists (S (n1 + n2)). intros f Hf. destruct f as [|f]; [lia|]. cbn.
  rewrite H1 by lia. rewrite H2 by lia. reflexivity.
Qed.

Lemma ES_args_kw_last stt s r x r2 :
  ES (fun f => rd f L_test r) (x, TRP :: r2) ->
  ES (fun f => rd_args f stt (TName s :: TEq :: r)) (([], [(Some s, x)]), r2).
Proof.
  intros [n1 H1]. exists (S n1). intros f Hf. destruct f as [|f]; [lia|]. cbn. rewrite H1 by lia. reflexivity.
Qed.

Lemma ES_args_kw_cons stt s r x r2 k r3 :
  ES (fun f => rd f L_test r) (x, TComma :: r2) -> ES (fun f => rd_args f (Nat.max stt 1) r2) (([], k), r3) ->
  ES (fun f => rd_args f stt (TName s :: TEq :: r)) (([], (Some s, x) :: k), r3).
Proof.
  intros [n1 H1] [n2 H2]. exists (S (n1 + n2)). intros f Hf. destruct f as [|f]; [lia|]. cbn.
  rewrite H1 by lia. rewrite H2 by lia. reflexivity.
Qed.
