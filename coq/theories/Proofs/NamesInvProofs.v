(* Proofs/NamesInvProofs.v -- C04, part 2 (Layer B): the visitor establishes the invariants that Layer A
   (Proofs/NamesProofs.v) needs, for every well-formed project of import statements / definitions / classes and
   every processing order; hence whole-project soundness of resolveName on that subset. *)
From Coq Require Import NArith List Bool Arith Lia.
From PydoctorVerif Require Import Base.ImportSyntax Model.Names Spec.PyImport Proofs.NamesProofs.
Import ListNotations.

Definition bound_of (x : name * option name) : name := def_or (snd x) (fst x).

Inductive wf_body : list stmt -> Prop :=
| wfb : forall body,
    (forall s n b, In s body -> stmt_binder s n = Some b -> binder_of body n = Some b) ->
    (forall lvl mn names, In (SFrom lvl mn names) body -> NoDup (map bound_of names)) ->
    (forall c base b, In (SClass c base b) body -> wf_body b) ->
    wf_body body.

(* the statements covered by the whole-project theorem: imports of every form, definitions, classes;
   no `import *`, no `x = y.z` alias, no base-class expression *)
Definition simple_stmt : stmt -> bool :=
  fix go (s : stmt) : bool :=
    match s with
    | SStar _ _ => false
    | SAlias _ _ => false
    | SClass _ (Some _) _ => false
    | SClass _ None body => forallb go body
    | _ => true
    end.

Definition from_names : stmt -> list name :=
  fix go (s : stmt) : list name :=
    match s with
    | SFrom _ _ names => map bound_of names
    | SClass _ _ body => flat_map go body
    | _ => []
    end.

Definition top_has_star (body : list stmt) : bool :=
  existsb (fun s => match s with SStar _ _ => true | _ => false end) body.

(* names a star import from X may bring (decidable over-approximation of "X exports n and binds it") *)
Definition star_cand (P : project) (X : path) (n : name) : bool :=
  exported P X n &&
  match find_module P X with
  | Some mx => is_some (m_all mx) || is_some (binder_of (m_body mx) n) || is_module P (X ++ [n])
               || top_has_star (m_body mx)
  | None => false
  end.

Record wf_project (P : project) : Prop := {
  W_nodup : NoDup (map m_path P);
  W_ne : forall mm, In mm P -> m_path mm <> [];
  W_find : forall mm, In mm P -> find_module P (m_path mm) = Some mm;
  W_pref : forall mm q n, In mm P -> m_path mm = q ++ [n] -> q <> [] ->
             exists pm, find_module P q = Some pm /\ m_pkg pm = true;
  W_sub : forall pm n, In pm P -> is_module P (m_path pm ++ [n]) = true -> binder_of (m_body pm) n = None;
  W_body : forall mm, In mm P -> wf_body (m_body mm);
  (* "each name is bound once per scope", for star imports: a name a star import may bring is not bound otherwise in
     the importing module, is not one of its submodules, and comes from one star import only *)
  W_star : forall mm level modname X n, In mm P -> In (SStar level modname) (m_body mm) ->
             resolve_relative (m_path mm) (m_pkg mm) level modname = Some X -> star_cand P X n = true ->
             binder_of (m_body mm) n = None /\ is_module P (m_path mm ++ [n]) = false /\
             (forall l' mn' X', In (SStar l' mn') (m_body mm) ->
                resolve_relative (m_path mm) (m_pkg mm) l' mn' = Some X' -> star_cand P X' n = true -> X' = X);
  (* `import *` only at module level (a SyntaxError elsewhere) *)
  W_star_top : forall mm, In mm P ->
             forallb (fun s => match s with SClass _ _ b => forallb no_star_stmt b | _ => true end) (m_body mm) = true
}.

(* no module lists in __all__ a name it from-imports (the situation in which _handleReExport moves objects) *)
Definition no_reexport (P : project) : Prop :=
  forall mm n, In mm P -> In n (flat_map from_names (m_body mm)) -> mem_name n (def_or (m_all mm) []) = false.

Definition simple_project (P : project) : bool := forallb (fun mm => forallb simple_stmt (m_body mm)) P.

Section StmtInd.
  Variable Q : stmt -> Prop.
  Hypothesis Himport : forall t a, Q (SImport t a).
  Hypothesis Hfrom : forall l m ns, Q (SFrom l m ns).
  Hypothesis Hstar : forall l m, Q (SStar l m).
  Hypothesis Hclass : forall c base body, Forall Q body -> Q (SClass c base body).
  Hypothesis Hdef : forall f, Q (SDef f).
  Hypothesis Halias : forall x e, Q (SAlias x e).
  Fixpoint stmt_ind2 (s : stmt) : Q s :=
    match s with
    | SImport t a => Himport t a
    | SFrom l m ns => Hfrom l m ns
    | SStar l m => Hstar l m
    | SClass c base body =>
      Hclass c base body ((fix go (l : list stmt) : Forall Q l :=
                             match l with
                             | [] => Forall_nil Q
                             | x :: r => Forall_cons x (stmt_ind2 x) (go r)
                             end) body)
    | SDef f => Hdef f
    | SAlias x e => Halias x e
    end.
End StmtInd.

Lemma fold_inv_gen : forall {A} (l : list A) (f : state -> A -> state) (R : state -> Prop) st,
  (forall a st, R st -> R (f st a)) -> R st -> R (fold_left f l st).
Proof.
  intros A l. induction l as [|x l IH]; intros f R st Hf Hst; [exact Hst|].
  cbn. apply IH; [exact Hf | apply Hf; exact Hst].
Qed.

Section Inv.
  Variable P : project.
  Hypothesis WF : wf_project P.

  Lemma find_module_some : forall m mm, find_module P m = Some mm -> In mm P /\ m_path mm = m.
  Proof.
    unfold find_module. intros m mm H. apply find_some in H. destruct H as [H1 H2].
    split; [exact H1 | apply path_eqb_eq; exact H2].
  Qed.

  Lemma is_module_find : forall m, is_module P m = true -> exists mm, find_module P m = Some mm.
  Proof. unfold is_module. intros m H. destruct (find_module P m); [eauto|discriminate]. Qed.

  Lemma find_is_module : forall m mm, find_module P m = Some mm -> is_module P m = true.
  Proof. unfold is_module. intros m mm H. rewrite H. reflexivity. Qed.

  Lemma star_cand_of_py : forall X n v, exported P X n = true -> py_ns P X [] n v -> star_cand P X n = true.
  Proof.
    intros X n v He Hns. unfold star_cand. rewrite He. cbn.
    inversion Hns as [m0 qual0 body0 n0 b0 v0 Hsb Hbo Hpb | m0 mm0 n0 Hfm0 Hpk0 Hbo0 Him0
                      | m0 mm0 l0 mn0 X0 n0 v0 Hfm0 Hin0 Hrr0 Him0 Hne0 Hex0 Hns0]; subst.
    - unfold scope_body in Hsb. destruct (find_module P X) as [mx|]; [|discriminate]. cbn in Hsb.
      inversion Hsb; subst. rewrite Hbo. cbn. rewrite orb_true_r. reflexivity.
    - rewrite Hfm0, Him0. rewrite orb_true_r. reflexivity.
    - rewrite Hfm0. apply orb_true_iff. right. unfold top_has_star. apply existsb_exists.
      eexists. split; [exact Hin0 | reflexivity].
  Qed.

  (* what a star-import derivation implies about the importing module (bound once per scope) *)
  Lemma ns_star_fresh : forall m mm level modname X n v,
    find_module P m = Some mm -> In (SStar level modname) (m_body mm) ->
    resolve_relative m (m_pkg mm) level modname = Some X -> exported P X n = true -> py_ns P X [] n v ->
    binder_of (m_body mm) n = None /\ is_module P (m ++ [n]) = false.
  Proof.
    intros m mm level modname X n v Hfm Hin Hrr Hex Hns.
    pose proof (find_module_some _ _ Hfm) as [Hinm Hpm].
    rewrite <- Hpm in Hrr.
    destruct (W_star P WF mm level modname X n Hinm Hin Hrr (star_cand_of_py _ _ _ Hex Hns)) as [H1 [H2 _]].
    rewrite Hpm in H2. auto.
  Qed.

  Lemma module_prefix : forall b a, is_module P (a ++ b) = true -> a <> [] -> is_module P a = true.
  Proof.
    induction b as [|n b IH] using rev_ind; intros a H Ha.
    - rewrite app_nil_r in H. exact H.
    - apply is_module_find in H. destruct H as [mm Hm]. apply find_module_some in Hm. destruct Hm as [Hin Hp].
      rewrite app_assoc in Hp.
      destruct (W_pref P WF mm (a ++ b) n Hin Hp) as [pm [Hpm _]].
      { destruct a; [congruence|discriminate]. }
      apply IH; [eapply find_is_module; eassumption | exact Ha].
  Qed.

  Lemma py_attrs_app_inv : forall r1 v r2 v2,
    py_attrs P v (r1 ++ r2) v2 -> exists v1, py_attrs P v r1 v1 /\ py_attrs P v1 r2 v2.
  Proof.
    induction r1 as [|n r1 IH]; intros v r2 v2 H.
    - exists v. split; [constructor | exact H].
    - cbn in H. inversion H; subst. destruct (IH _ _ _ H5) as [v1' [Ha Hb]].
      exists v1'. split; [econstructor; eassumption | exact Hb].
  Qed.

  Lemma py_abs_snoc_inv : forall q n v, q <> [] -> py_abs P (q ++ [n]) v ->
    exists v1, py_abs P q v1 /\ py_attr P v1 n v.
  Proof.
    intros q n v Hq H. destruct q as [|a q]; [congruence|].
    cbn in H. destruct H as [Hm Ha]. apply py_attrs_app_inv in Ha. destruct Ha as [v1 [H1 H2]].
    exists v1. split; [split; assumption|].
    inversion H2; subst. inversion H6; subst. assumption.
  Qed.

  Lemma scope_body_nil : forall m mm, find_module P m = Some mm -> scope_body P m [] = Some (m_body mm).
  Proof. intros m mm H. unfold scope_body. rewrite H. reflexivity. Qed.

  (* a module path evaluates to the module, and to nothing else *)
  Lemma py_abs_module : forall X mm, find_module P X = Some mm -> py_abs P X (VMod X).
  Proof.
    induction X as [|n q IH] using rev_ind; intros mm Hf.
    - apply find_module_some in Hf. destruct Hf as [Hin Hp]. exfalso. eapply (W_ne P WF); eassumption.
    - destruct q as [|a q'].
      + cbn. split; [eapply find_is_module; eassumption | constructor].
      + pose proof (find_module_some _ _ Hf) as [Hin Hp].
        destruct (W_pref P WF mm (a :: q') n Hin Hp) as [pm [Hpm Hpk]]; [discriminate|].
        eapply py_abs_snoc; [eapply IH; eassumption|].
        constructor. pose proof (find_module_some _ _ Hpm) as [Hinp Hpp].
        eapply ns_submod; try eassumption.
        * apply (W_sub P WF); [exact Hinp|]. rewrite Hpp. eapply find_is_module; eassumption.
        * eapply find_is_module; eassumption.
  Qed.

  Lemma py_abs_module_inv : forall X mm v, find_module P X = Some mm -> py_abs P X v -> v = VMod X.
  Proof.
    induction X as [|n q IH] using rev_ind; intros mm v Hf Ha.
    - destruct Ha.
    - destruct q as [|a q'].
      + cbn in Ha. destruct Ha as [_ Ha]. inversion Ha; subst. reflexivity.
      + pose proof (find_module_some _ _ Hf) as [Hin Hp].
        destruct (W_pref P WF mm (a :: q') n Hin Hp) as [pm [Hpm Hpk]]; [discriminate|].
        apply py_abs_snoc_inv in Ha; [|discriminate]. destruct Ha as [v1 [H1 H2]].
        rewrite (IH _ _ Hpm H1) in H2. inversion H2 as [X0 n0 v0 Hns | |]; subst.
        pose proof (find_module_some _ _ Hpm) as [Hinp Hpp].
        assert (Hnone : binder_of (m_body pm) n = None).
        { apply (W_sub P WF); [exact Hinp|]. rewrite Hpp. eapply find_is_module; eassumption. }
        inversion Hns as [m0 qual0 body0 n0 b0 v0 Hsb Hbo Hpb | m0 mm0 n0 Hfm0 Hpk0 Hbo0 Him0
                          | m0 mm0 l0 mn0 X0 n0 v0 Hfm0 Hin0 Hrr0 Him0 Hne0 Hex0 Hns0]; subst.
        * rewrite (scope_body_nil _ _ Hpm) in Hsb. inversion Hsb; subst. congruence.
        * reflexivity.
        * exfalso. destruct (ns_star_fresh _ _ _ _ _ _ _ Hfm0 Hin0 Hrr0 Hex0 Hns0) as [_ Hnm].
          rewrite (find_is_module _ _ Hf) in Hnm. discriminate.
  Qed.

  Lemma descend_app : forall q1 body q2,
    descend body (q1 ++ q2) = match descend body q1 with Some b => descend b q2 | None => None end.
  Proof.
    induction q1 as [|c q1 IH]; intros body q2; [reflexivity|].
    cbn. destruct (binder_of body c) as [[base b| | | | |]|]; try reflexivity. apply IH.
  Qed.

  Lemma scope_body_snoc : forall m qual c body,
    scope_body P m (qual ++ [c]) = Some body ->
    exists body' base, scope_body P m qual = Some body' /\ binder_of body' c = Some (BClass base body).
  Proof.
    unfold scope_body. intros m qual c body H. destruct (find_module P m); [|discriminate].
    rewrite descend_app in H. destruct (descend (m_body m0) qual) as [b'|]; [|discriminate].
    cbn in H. destruct (binder_of b' c) as [[base b| | | | |]|] eqn:E; try discriminate.
    inversion H; subst. eauto.
  Qed.

  Lemma scope_body_snoc_intro : forall m qual c body' base body,
    scope_body P m qual = Some body' -> binder_of body' c = Some (BClass base body) ->
    scope_body P m (qual ++ [c]) = Some body.
  Proof.
    unfold scope_body. intros m qual c body' base body H Hb. destruct (find_module P m); [|discriminate].
    rewrite descend_app. rewrite H. cbn. rewrite Hb. reflexivity.
  Qed.

  Lemma scope_body_module : forall m qual body, scope_body P m qual = Some body -> is_module P m = true.
  Proof. unfold scope_body, is_module. intros m qual body H. destruct (find_module P m); [reflexivity|discriminate]. Qed.

  Lemma scope_val_snoc : forall m qual c, scope_val m (qual ++ [c]) = VObj m (qual ++ [c]).
  Proof. intros m qual c. destruct qual; reflexivity. Qed.

  (* attribute c of a namespace whose body binds c by a class or def statement *)
  Lemma attr_def : forall m qual body c b v,
    scope_body P m qual = Some body -> binder_of body c = Some b ->
    (b = BDef \/ exists base bb, b = BClass base bb) ->
    py_attr P (scope_val m qual) c v -> v = VObj m (qual ++ [c]).
  Proof.
    intros m qual body c b v Hsb Hb Hk Ha.
    assert (Hns : py_ns P m qual c v -> v = VObj m (qual ++ [c])).
    { intro Hns. inversion Hns as [m0 qual0 body0 n0 b0 v0 Hsb0 Hbo Hpb | m0 mm0 n0 Hfm0 Hpk0 Hbo0 Him0
                                   | m0 mm0 l0 mn0 X0 n0 v0 Hfm0 Hin0 Hrr0 Him0 Hne0 Hex0 Hns0]; subst.
      - rewrite Hsb in Hsb0. inversion Hsb0; subst. rewrite Hb in Hbo. inversion Hbo; subst.
        destruct Hk as [Hk | [base [bb Hk]]]; subst; inversion Hpb; subst; reflexivity.
      - rewrite (scope_body_nil _ _ Hfm0) in Hsb. inversion Hsb; subst. congruence.
      - exfalso. destruct (ns_star_fresh _ _ _ _ _ _ _ Hfm0 Hin0 Hrr0 Hex0 Hns0) as [Hnb _].
        rewrite (scope_body_nil _ _ Hfm0) in Hsb. inversion Hsb; subst. congruence. }
    destruct qual as [|q0 qual]; cbn [scope_val] in Ha.
    - inversion Ha; subst. auto.
    - inversion Ha as [ | m0 qual0 n0 v0 Hq Hns' | m0 qual0 body0 n0 bexpr m' q' v0 Hq Hsb0 Hbo]; subst.
      + auto.
      + rewrite Hsb in Hsb0. inversion Hsb0; subst. congruence.
  Qed.

  (* the full name of a class scope evaluates to that class, and to nothing else *)
  Lemma abs_scope_inv : forall qual m body v,
    scope_body P m qual = Some body -> py_abs P (m ++ qual) v -> v = scope_val m qual.
  Proof.
    induction qual as [|c qual IH] using rev_ind; intros m body v Hsb Ha.
    - rewrite app_nil_r in Ha. cbn.
      apply scope_body_module in Hsb. apply is_module_find in Hsb. destruct Hsb as [mm Hm].
      eapply py_abs_module_inv; eassumption.
    - destruct (scope_body_snoc _ _ _ _ Hsb) as [body' [base [Hsb' Hb]]].
      rewrite app_assoc in Ha. apply py_abs_snoc_inv in Ha.
      + destruct Ha as [v1 [H1 H2]]. rewrite (IH _ _ _ Hsb' H1) in H2.
        rewrite scope_val_snoc. eapply attr_def; try eassumption. right. eauto.
      + apply scope_body_module in Hsb. apply is_module_find in Hsb. destruct Hsb as [mm Hm].
        apply find_module_some in Hm. destruct Hm as [Hin Hp]. pose proof (W_ne P WF mm Hin) as Hne.
        rewrite Hp in Hne. destruct m; [congruence|discriminate].
  Qed.

  Lemma module_ne : forall m, is_module P m = true -> m <> [].
  Proof.
    intros m H. apply is_module_find in H. destruct H as [mm Hm]. apply find_module_some in Hm.
    destruct Hm as [Hin Hp]. pose proof (W_ne P WF mm Hin). congruence.
  Qed.

  Lemma abs_def_inv : forall m qual body c b v,
    scope_body P m qual = Some body -> binder_of body c = Some b ->
    (b = BDef \/ exists base bb, b = BClass base bb) ->
    py_abs P (m ++ qual ++ [c]) v -> v = VObj m (qual ++ [c]).
  Proof.
    intros m qual body c b v Hsb Hb Hk Ha. rewrite app_assoc in Ha.
    apply py_abs_snoc_inv in Ha.
    - destruct Ha as [v1 [H1 H2]]. rewrite (abs_scope_inv _ _ _ _ Hsb H1) in H2.
      eapply attr_def; eassumption.
    - pose proof (module_ne _ (scope_body_module _ _ _ Hsb)). destruct m; [congruence|discriminate].
  Qed.

  (* a class path is not a module path *)
  Lemma class_not_module : forall m x rest body,
    scope_body P m (x :: rest) = Some body -> is_module P (m ++ [x]) = true -> False.
  Proof.
    intros m x rest body Hsb Hm.
    pose proof (scope_body_module _ _ _ Hsb) as Hmm. apply is_module_find in Hmm. destruct Hmm as [mm Hf].
    pose proof (find_module_some _ _ Hf) as [Hin Hp].
    assert (Hnone : binder_of (m_body mm) x = None) by (apply (W_sub P WF); [exact Hin | rewrite Hp; exact Hm]).
    unfold scope_body in Hsb. rewrite Hf in Hsb. cbn in Hsb. rewrite Hnone in Hsb. discriminate.
  Qed.

  Lemma split_unique : forall m1 q1 b1 m2 q2 b2,
    scope_body P m1 q1 = Some b1 -> scope_body P m2 q2 = Some b2 -> m1 ++ q1 = m2 ++ q2 ->
    m1 = m2 /\ q1 = q2.
  Proof.
    intros m1 q1 b1 m2 q2 b2 H1 H2 He.
    apply app_eq_app in He. destruct He as [l [[Ha Hb] | [Ha Hb]]].
    - destruct l as [|x l]; [rewrite app_nil_r in Ha; subst; auto|]. exfalso. subst.
      eapply (class_not_module m2 x (l ++ q1)); [eassumption|].
      eapply module_prefix with (b := l).
      + rewrite <- app_assoc. cbn. eapply scope_body_module; eassumption.
      + destruct m2; discriminate.
    - destruct l as [|x l]; [rewrite app_nil_r in Ha; subst; auto|]. exfalso. subst.
      eapply (class_not_module m1 x (l ++ q2)); [eassumption|].
      eapply module_prefix with (b := l).
      + rewrite <- app_assoc. cbn. eapply scope_body_module; eassumption.
      + destruct m1; discriminate.
  Qed.

  (* ---------------------------------------------------------------- the invariant, object by object *)
  Definition entry_ok (m qual : path) (n : name) (q : path) : Prop :=
    (forall v', py_attr P (scope_val m qual) n v' -> py_abs P q v') /\
    (forall body, scope_body P m qual = Some body ->
       binder_of body n <> None \/ (qual = [] /\ top_has_star body = true)).

  Inductive reg_ok (o : obj) : path -> path -> Prop :=
  | reg_mod : forall mm, find_module P (o_id o) = Some mm ->
      o_kind o = (if m_pkg mm then KPkg else KMod) -> reg_ok o (o_id o) []
  | reg_class : forall m qual n body base b,
      o_id o = m ++ qual ++ [n] -> scope_body P m qual = Some body ->
      binder_of body n = Some (BClass base b) -> o_kind o = KClass -> reg_ok o m (qual ++ [n])
  | reg_fun : forall m qual n body,
      o_id o = m ++ qual ++ [n] -> scope_body P m qual = Some body ->
      binder_of body n = Some BDef -> o_kind o = KFun -> reg_ok o m (qual ++ [n]).

  Definition good (o : obj) : Prop :=
    o_path o = o_id o /\ o_baseobj o = None /\ o_rawbase o = None /\
    exists m qual, reg_ok o m qual /\ forall n q, assoc n (o_amap o) = Some q -> entry_ok m qual n q.

  Definition Inv (st : state) : Prop := forall o, In o (objs st) -> good o.

  Lemma reg_id : forall o m qual, reg_ok o m qual -> o_id o = m ++ qual.
  Proof. intros o m qual H. destruct H; [rewrite app_nil_r; reflexivity | assumption | assumption]. Qed.

  Lemma reg_abs : forall o m qual v, reg_ok o m qual -> py_abs P (m ++ qual) v -> v = scope_val m qual.
  Proof.
    intros o m qual v H Ha. destruct H as [mm Hf Hk | m qual n body base b Hid Hsb Hb Hk | m qual n body Hid Hsb Hb Hk].
    - rewrite app_nil_r in Ha. cbn. eapply py_abs_module_inv; eassumption.
    - rewrite scope_val_snoc. eapply abs_def_inv; try eassumption. right. eauto.
    - rewrite scope_val_snoc. eapply abs_def_inv; try eassumption. left. reflexivity.
  Qed.

  Lemma reg_kind : forall o m qual, reg_ok o m qual -> is_modkind (o_kind o) = is_modv (scope_val m qual).
  Proof.
    intros o m qual H. destruct H as [mm Hf Hk | m qual n body base b Hid Hsb Hb Hk | m qual n body Hid Hsb Hb Hk].
    - rewrite Hk. destruct (m_pkg mm); reflexivity.
    - rewrite Hk, scope_val_snoc. reflexivity.
    - rewrite Hk, scope_val_snoc. reflexivity.
  Qed.

  Lemma flat_scope_val : forall m qual, flat (scope_val m qual) = m ++ qual.
  Proof. intros m qual. destruct qual; cbn; [rewrite app_nil_r|]; reflexivity. Qed.

  (* a registered class scope: its body is the one the path leads to *)
  Lemma reg_scope : forall o m qual, reg_ok o m qual -> o_kind o = KClass ->
    exists body, scope_body P m qual = Some body.
  Proof.
    intros o m qual H Hk. destruct H as [mm Hf Hk' | m qual n body base b Hid Hsb Hb Hk' | m qual n body Hid Hsb Hb Hk'].
    - rewrite Hk in Hk'. destruct (m_pkg mm); discriminate.
    - exists b. eapply scope_body_snoc_intro; eassumption.
    - congruence.
  Qed.

  Lemma find_member_nobase : forall fuel st c n,
    o_baseobj c = None -> child st c n = None -> find_member fuel st c n = None.
  Proof. intros fuel st c n Hb Hc. destruct fuel; cbn; rewrite Hc; [reflexivity | rewrite Hb; reflexivity]. Qed.

  Theorem inv_coherent : forall st, Inv st -> coherent P st.
  Proof.
    intros st HI. constructor.
    - (* C_reg *)
      intros o v Hin Ha. destruct (HI o Hin) as [Hp [_ [_ [m [qual [Hr _]]]]]].
      rewrite Hp, (reg_id _ _ _ Hr) in Ha. rewrite (reg_abs _ _ _ _ Hr Ha).
      split; [rewrite flat_scope_val; eapply reg_id; eassumption | eapply reg_kind; eassumption].
    - (* C_amap *)
      intros o n q vo v' Hin Has Ha Hat. destruct (HI o Hin) as [Hp [_ [_ [m [qual [Hr He]]]]]].
      rewrite Hp, (reg_id _ _ _ Hr) in Ha. rewrite (reg_abs _ _ _ _ Hr Ha) in Hat.
      destruct (He n q Has) as [H1 _]. apply H1. exact Hat.
    - (* C_own *)
      intros o m qual body n Hin Ha Hown Hsb. destruct (HI o Hin) as [Hp [_ [_ [m0 [qual0 [Hr He]]]]]].
      rewrite Hp, (reg_id _ _ _ Hr) in Ha. pose proof (reg_abs _ _ _ _ Hr Ha) as Hv.
      assert (Hmq : m0 = m /\ qual0 = qual).
      { destruct qual0; cbn in Hv; inversion Hv; subst; auto. }
      destruct Hmq; subst m0 qual0.
      apply orb_true_iff in Hown. destruct Hown as [Hch | Has].
      + destruct (child st o n) as [c|] eqn:Ec; [|discriminate].
        apply child_path in Ec. destruct Ec as [Hinc Hpc].
        destruct (HI c Hinc) as [Hpc' [_ [_ [mc [qualc [Hrc _]]]]]].
        rewrite Hp, (reg_id _ _ _ Hr) in Hpc. rewrite Hpc' in Hpc.
        destruct Hrc as [mm Hf Hk | mc qualc nc bodyc base b Hid Hsbc Hb Hk | mc qualc nc bodyc Hid Hsbc Hb Hk].
        * (* a module below a class path: impossible *)
          exfalso. destruct qual as [|x rest].
          { cbn in Hv. inversion Hv. }
          eapply (class_not_module m x rest); [eassumption|].
          eapply module_prefix with (b := rest ++ [n]).
          -- replace ((m ++ [x]) ++ rest ++ [n]) with (o_id c);
               [eapply find_is_module; eassumption | rewrite Hpc; rewrite <- !app_assoc; reflexivity].
          -- pose proof (module_ne _ (scope_body_module _ _ _ Hsb)). destruct m; [congruence|discriminate].
        * rewrite Hid in Hpc. rewrite !app_assoc in Hpc. apply app_inj_tail in Hpc. destruct Hpc as [Hpre Hn]. subst nc.
          destruct (split_unique _ _ _ _ _ _ Hsbc Hsb Hpre) as [? ?]; subst.
          rewrite Hsbc in Hsb. inversion Hsb; subst. congruence.
        * rewrite Hid in Hpc. rewrite !app_assoc in Hpc. apply app_inj_tail in Hpc. destruct Hpc as [Hpre Hn]. subst nc.
          destruct (split_unique _ _ _ _ _ _ Hsbc Hsb Hpre) as [? ?]; subst.
          rewrite Hsbc in Hsb. inversion Hsb; subst. congruence.
      + destruct (assoc n (o_amap o)) as [q|] eqn:Eas; [|discriminate].
        destruct (He n q Eas) as [_ H2]. destruct (H2 _ Hsb) as [H3 | [Hq _]]; [exact H3|].
        subst qual. cbn in Hv. discriminate.
    - (* C_find *)
      intros c n inh vo v' Hin Hch Has Hf. exfalso. destruct (HI c Hin) as [_ [Hb _]].
      unfold find_for in Hf. destruct (o_kind c); try discriminate.
      rewrite (find_member_nobase _ _ _ _ Hb Hch) in Hf. discriminate.
  Qed.

  (* ---------------------------------------------------------------- preservation by the primitive updates *)
  Definition Inv2 (st : state) : Prop :=
    Inv st /\ forall mm, In mm P -> exists o, In o (objs st) /\ o_id o = m_path mm.

  Lemma by_id_some : forall st i o, by_id st i = Some o -> In o (objs st) /\ o_id o = i.
  Proof.
    unfold by_id. intros st i o H. apply find_some in H. destruct H as [H1 H2].
    split; [exact H1 | apply path_eqb_eq; exact H2].
  Qed.

  Lemma by_id_exists : forall st i, (exists o, In o (objs st) /\ o_id o = i) -> exists o, by_id st i = Some o.
  Proof.
    intros st i [o [Hin Hid]]. unfold by_id.
    destruct (find (fun o0 => path_eqb (o_id o0) i) (objs st)) eqn:E; [eauto|].
    exfalso. pose proof (find_none _ _ E o Hin) as Hn. cbn in Hn. rewrite Hid, path_eqb_refl in Hn. discriminate.
  Qed.

  Lemma reg_ok_ext : forall o o' m qual, o_id o' = o_id o -> o_kind o' = o_kind o -> reg_ok o m qual -> reg_ok o' m qual.
  Proof.
    intros o o' m qual Hi Hk H. destruct H as [mm Hf Hk' | m qual n body base b Hid Hsb Hb Hk' | m qual n body Hid Hsb Hb Hk'].
    - rewrite <- Hi. eapply reg_mod; [rewrite Hi; eassumption | congruence].
    - eapply reg_class; try eassumption; congruence.
    - eapply reg_fun; try eassumption; congruence.
  Qed.

  Lemma good_set_state : forall s o, good o -> good (set_state s o).
  Proof.
    intros s o [Hp [Hb [Hr [m [qual [Hreg He]]]]]]. repeat split; try assumption.
    exists m, qual. split; [eapply reg_ok_ext; [| |eassumption]; reflexivity | exact He].
  Qed.

  Lemma assoc_set_assoc : forall {V} n (v : V) l k,
    assoc k (set_assoc n v l) = if N.eqb n k then Some v else assoc k l.
  Proof.
    intros V n v l k. induction l as [|[k0 w] l IH]; cbn.
    - destruct (N.eqb n k); reflexivity.
    - destruct (N.eqb k0 n) eqn:E1; cbn.
      + apply N.eqb_eq in E1. subst k0. destruct (N.eqb n k); reflexivity.
      + destruct (N.eqb k0 k) eqn:E2.
        * apply N.eqb_eq in E2. subst k0. rewrite N.eqb_sym in E1. rewrite E1. reflexivity.
        * exact IH.
  Qed.

  Lemma good_set_amap : forall n q o, good o ->
    (forall m qual, reg_ok o m qual -> entry_ok m qual n q) -> good (set_amap n q o).
  Proof.
    intros n q o [Hp [Hb [Hr [m [qual [Hreg He]]]]]] Hnew. repeat split; try assumption.
    exists m, qual. split; [eapply reg_ok_ext; [| |eassumption]; reflexivity|].
    intros k q' Hk. cbn [set_amap o_amap] in Hk. rewrite assoc_set_assoc in Hk.
    destruct (N.eqb n k) eqn:E.
    - apply N.eqb_eq in E. subst k. inversion Hk; subst. apply Hnew. exact Hreg.
    - apply He. exact Hk.
  Qed.

  Lemma upd_obj_in : forall st i f o', In o' (objs (upd_obj st i f)) ->
    exists o, In o (objs st) /\ o' = (if path_eqb (o_id o) i then f o else o).
  Proof.
    intros st i f o' H. cbn in H. apply in_map_iff in H. destruct H as [o [He Hin]]. eauto.
  Qed.

  Lemma Inv2_upd : forall st i f,
    Inv2 st -> (forall o, In o (objs st) -> o_id o = i -> good (f o) /\ o_id (f o) = o_id o) ->
    Inv2 (upd_obj st i f).
  Proof.
    intros st i f [HI HM] Hf. split.
    - intros o' Hin. apply upd_obj_in in Hin. destruct Hin as [o [Hin He]]. subst o'.
      destruct (path_eqb (o_id o) i) eqn:E; [|apply HI; exact Hin].
      apply path_eqb_eq in E. apply (Hf o Hin E).
    - intros mm Hmm. destruct (HM mm Hmm) as [o [Hin Hid]].
      exists (if path_eqb (o_id o) i then f o else o). split.
      + cbn. apply in_map_iff. exists o. split; [reflexivity | exact Hin].
      + destruct (path_eqb (o_id o) i) eqn:E; [|exact Hid].
        apply path_eqb_eq in E. rewrite (proj2 (Hf o Hin E)). exact Hid.
  Qed.

  Lemma Inv2_set_state : forall st i s, Inv2 st -> Inv2 (upd_obj st i (set_state s)).
  Proof.
    intros st i s H. apply Inv2_upd; [exact H|]. intros o Hin _. split; [|reflexivity].
    apply good_set_state. apply (proj1 H). exact Hin.
  Qed.

  Lemma Inv2_set_amap : forall st i n q, Inv2 st ->
    (forall o m qual, In o (objs st) -> o_id o = i -> reg_ok o m qual -> entry_ok m qual n q) ->
    Inv2 (upd_obj st i (set_amap n q)).
  Proof.
    intros st i n q H He. apply Inv2_upd; [exact H|]. intros o Hin Hid. split; [|reflexivity].
    apply good_set_amap; [apply (proj1 H); exact Hin|]. intros m qual Hr. eapply He; eassumption.
  Qed.

  Lemma Inv2_flag_leak : forall b st, Inv2 st -> Inv2 (flag_leak b st).
  Proof. intros b st H. exact H. Qed.

  Lemma Inv2_register : forall st o, Inv2 st -> good o -> Inv2 (register st o).
  Proof.
    intros st o [HI HM] Hg. unfold register. destruct (obj_for st (o_path o)).
    - split; [exact HI | exact HM].
    - split.
      + intros o' Hin. cbn in Hin. apply in_app_iff in Hin. destruct Hin as [Hin | [Hin | []]];
          [apply HI; exact Hin | subst; exact Hg].
      + intros mm Hmm. destruct (HM mm Hmm) as [o0 [Hin Hid]]. exists o0. split; [|exact Hid].
        cbn. apply in_app_iff. left. exact Hin.
  Qed.

  (* ---------------------------------------------------------------- which scope an object stands for *)
  Lemma def_not_module : forall m qual body n b,
    scope_body P m qual = Some body -> binder_of body n = Some b -> is_module P (m ++ qual ++ [n]) = true -> False.
  Proof.
    intros m qual body n b Hsb Hb Hm.
    pose proof (module_ne _ (scope_body_module _ _ _ Hsb)) as Hne.
    destruct qual as [|x rest].
    - cbn in Hm. pose proof (scope_body_module _ _ _ Hsb) as Hmm. apply is_module_find in Hmm. destruct Hmm as [mm Hf].
      pose proof (find_module_some _ _ Hf) as [Hin Hp].
      assert (Hnone : binder_of (m_body mm) n = None) by (apply (W_sub P WF); [exact Hin | rewrite Hp; exact Hm]).
      rewrite (scope_body_nil _ _ Hf) in Hsb. inversion Hsb; subst. congruence.
    - eapply (class_not_module m x rest); [eassumption|].
      eapply module_prefix with (b := rest ++ [n]).
      + rewrite <- app_assoc. exact Hm.
      + destruct m; [congruence|discriminate].
  Qed.

  Lemma reg_ctx : forall o m' qual' m qual body,
    reg_ok o m' qual' -> o_id o = m ++ qual -> scope_body P m qual = Some body -> m' = m /\ qual' = qual.
  Proof.
    intros o m' qual' m qual body Hr Hid Hsb.
    destruct Hr as [mm Hf Hk | m' qual0 n body0 base b Hid0 Hsb0 Hb Hk | m' qual0 n body0 Hid0 Hsb0 Hb Hk].
    - destruct qual as [|x rest].
      + rewrite app_nil_r in Hid. auto.
      + exfalso. eapply (class_not_module m x rest); [eassumption|].
        eapply module_prefix with (b := rest).
        * rewrite <- app_assoc. cbn. rewrite <- Hid. eapply find_is_module; eassumption.
        * pose proof (module_ne _ (scope_body_module _ _ _ Hsb)). destruct m; [congruence|discriminate].
    - eapply split_unique; [eapply scope_body_snoc_intro; eassumption | eassumption | congruence].
    - exfalso. destruct qual as [|c qual1] using rev_ind.
      + rewrite app_nil_r in Hid. eapply (def_not_module m' qual0 body0 n); try eassumption.
        rewrite <- Hid0, Hid. eapply scope_body_module; eassumption.
      + clear IHqual1. destruct (scope_body_snoc _ _ _ _ Hsb) as [body1 [base1 [Hsb1 Hb1]]].
        rewrite Hid0 in Hid. rewrite !app_assoc in Hid. apply app_inj_tail in Hid. destruct Hid as [Hpre Hn]. subst c.
        destruct (split_unique _ _ _ _ _ _ Hsb0 Hsb1 Hpre) as [? ?]; subst.
        rewrite Hsb0 in Hsb1. inversion Hsb1; subst. congruence.
  Qed.

  (* ---------------------------------------------------------------- the entries written by import statements *)
  Lemma attr_binder : forall m qual body n b v,
    scope_body P m qual = Some body -> binder_of body n = Some b ->
    py_attr P (scope_val m qual) n v -> py_binder P m qual n b v.
  Proof.
    intros m qual body n b v Hsb Hb Ha.
    assert (Hns : py_ns P m qual n v -> py_binder P m qual n b v).
    { intro Hns. inversion Hns as [m0 qual0 body0 n0 b0 v0 Hsb0 Hbo Hpb | m0 mm0 n0 Hfm0 Hpk0 Hbo0 Him0
                                   | m0 mm0 l0 mn0 X0 n0 v0 Hfm0 Hin0 Hrr0 Him0 Hne0 Hex0 Hns0]; subst.
      - rewrite Hsb in Hsb0. inversion Hsb0; subst. rewrite Hb in Hbo. inversion Hbo; subst. exact Hpb.
      - rewrite (scope_body_nil _ _ Hfm0) in Hsb. inversion Hsb; subst. congruence.
      - exfalso. destruct (ns_star_fresh _ _ _ _ _ _ _ Hfm0 Hin0 Hrr0 Hex0 Hns0) as [Hnb _].
        rewrite (scope_body_nil _ _ Hfm0) in Hsb. inversion Hsb; subst. congruence. }
    destruct qual as [|q0 qual]; cbn [scope_val] in Ha.
    - inversion Ha; subst. auto.
    - inversion Ha as [ | m0 qual0 n0 v0 Hq Hns' | m0 qual0 body0 n0 bexpr m' q' v0 Hq Hsb0 Hbo]; subst.
      + auto.
      + rewrite Hsb in Hsb0. inversion Hsb0; subst. congruence.
  Qed.

  Lemma wf_uniq : forall body s n b, wf_body body -> In s body -> stmt_binder s n = Some b -> binder_of body n = Some b.
  Proof. intros body s n b H. inversion H; subst. eauto. Qed.

  Lemma entry_import_top : forall m qual body a t,
    scope_body P m qual = Some body -> wf_body body -> In (SImport (a :: t) None) body ->
    entry_ok m qual a [a].
  Proof.
    intros m qual body a t Hsb Hwf Hin.
    assert (Hb : binder_of body a = Some (BImportTop a)).
    { eapply wf_uniq; try eassumption. cbn. rewrite N.eqb_refl. reflexivity. }
    split.
    - intros v' Ha. pose proof (attr_binder _ _ _ _ _ _ Hsb Hb Ha) as Hpb. inversion Hpb; subst.
      cbn. split; [assumption | constructor].
    - intros body' Hsb'. left. rewrite Hsb in Hsb'. inversion Hsb'; subst. congruence.
  Qed.

  Lemma entry_import_as : forall m qual body c t,
    scope_body P m qual = Some body -> wf_body body -> In (SImport t (Some c)) body ->
    entry_ok m qual c t.
  Proof.
    intros m qual body c t Hsb Hwf Hin.
    assert (Hb : binder_of body c = Some (BImportAs t)).
    { eapply wf_uniq; try eassumption. cbn. destruct t; rewrite N.eqb_refl; reflexivity. }
    split.
    - intros v' Ha. pose proof (attr_binder _ _ _ _ _ _ Hsb Hb Ha) as Hpb. inversion Hpb; subst.
      match goal with H : is_module P t = true |- _ => apply is_module_find in H; destruct H as [mm Hm] end.
      eapply py_abs_module; eassumption.
    - intros body' Hsb'. left. rewrite Hsb in Hsb'. inversion Hsb'; subst. congruence.
  Qed.

  Lemma from_binder_in : forall level modname names orig asname,
    NoDup (map bound_of names) -> In (orig, asname) names ->
    from_binder level modname names (bound_of (orig, asname)) = Some (BFrom level modname orig).
  Proof.
    induction names as [|[o a] names IH]; intros orig asname Hnd Hin; [destruct Hin|].
    cbn [map] in Hnd. inversion Hnd as [|x l Hnotin Hnd']; subst.
    cbn [from_binder]. destruct Hin as [He | Hin].
    - inversion He; subst.
      assert (Hnone : from_binder level modname names (bound_of (orig, asname)) = None).
      { clear IH Hnd Hnd'. induction names as [|[o2 a2] names IH2]; [reflexivity|].
        cbn [from_binder]. rewrite IH2.
        - destruct (N.eqb (match a2 with Some a0 => a0 | None => o2 end) (bound_of (orig, asname))) eqn:E; [|reflexivity].
          exfalso. apply Hnotin. cbn. left. apply N.eqb_eq in E. exact E.
        - intro H. apply Hnotin. cbn. right. exact H. }
      rewrite Hnone. unfold bound_of, def_or. cbn. rewrite N.eqb_refl. reflexivity.
    - rewrite (IH _ _ Hnd' Hin). reflexivity.
  Qed.

  Lemma entry_from : forall m qual body mm level modname names orig asname X,
    scope_body P m qual = Some body -> wf_body body -> find_module P m = Some mm ->
    In (SFrom level modname names) body -> In (orig, asname) names ->
    import_base m (m_pkg mm) level modname = Some X ->
    entry_ok m qual (bound_of (orig, asname)) (X ++ [orig]).
  Proof.
    intros m qual body mm level modname names orig asname X Hsb Hwf Hfm Hin Hin2 Hib.
    assert (Hnd : NoDup (map bound_of names)) by (inversion Hwf; subst; eauto).
    assert (Hb : binder_of body (bound_of (orig, asname)) = Some (BFrom level modname orig)).
    { eapply wf_uniq; try eassumption. cbn [stmt_binder]. apply from_binder_in; assumption. }
    assert (Hmne : m <> []) by (eapply module_ne; eapply find_is_module; eassumption).
    rewrite (relative_level m (m_pkg mm) level modname Hmne) in Hib.
    split.
    - intros v' Ha. pose proof (attr_binder _ _ _ _ _ _ Hsb Hb Ha) as Hpb.
      inversion Hpb as [ | | | | m0 qual0 n0 mm0 l0 mn0 o0 X0 v0 Hfm0 Hrr Him Hne Hns
                        | m0 qual0 n0 mm0 l0 mn0 o0 Hfm0 Hrr Him | ]; subst.
      + rewrite Hfm in Hfm0. inversion Hfm0; subst. rewrite Hib in Hrr. inversion Hrr; subst.
        apply is_module_find in Him. destruct Him as [mx Hmx].
        eapply py_abs_snoc; [eapply py_abs_module; eassumption | constructor; exact Hns].
      + rewrite Hfm in Hfm0. inversion Hfm0; subst. rewrite Hib in Hrr. inversion Hrr; subst.
        apply is_module_find in Him. destruct Him as [mx Hmx].
        eapply py_abs_module; eassumption.
    - intros body' Hsb'. left. rewrite Hsb in Hsb'. inversion Hsb'; subst. congruence.
  Qed.

  (* ---------------------------------------------------------------- the visitor keeps the invariant *)
  Lemma ctx_reg : forall st m qual body o,
    Inv2 st -> scope_body P m qual = Some body -> by_id st (m ++ qual) = Some o ->
    In o (objs st) /\ reg_ok o m qual /\ o_path o = m ++ qual.
  Proof.
    intros st m qual body o [HI _] Hsb Hby. apply by_id_some in Hby. destruct Hby as [Hin Hid].
    destruct (HI o Hin) as [Hp [_ [_ [m' [qual' [Hr _]]]]]].
    destruct (reg_ctx _ _ _ _ _ _ Hr Hid Hsb) as [? ?]; subst m' qual'.
    repeat split; [exact Hin | exact Hr | congruence].
  Qed.

  Lemma exports_none : forall st m qual body mm n,
    Inv2 st -> scope_body P m qual = Some body -> find_module P m = Some mm ->
    mem_name n (def_or (m_all mm) []) = false -> mem_name n (exports_of P st (m ++ qual)) = false.
  Proof.
    intros st m qual body mm n HI Hsb Hfm Hn. unfold exports_of.
    destruct (by_id st (m ++ qual)) as [c|] eqn:Eby; [|reflexivity].
    destruct (ctx_reg _ _ _ _ _ HI Hsb Eby) as [Hin [Hr Hp]].
    destruct (is_modkind (o_kind c)) eqn:Ek; [|reflexivity].
    rewrite (reg_kind _ _ _ Hr) in Ek. destruct qual; [|discriminate].
    rewrite (reg_id _ _ _ Hr), app_nil_r, Hfm. exact Hn.
  Qed.

  Lemma handle_reexport_false : forall st cid exports orig asn modid,
    mem_name asn exports = false -> handle_reexport P st cid exports orig asn modid = (st, false).
  Proof. intros. unfold handle_reexport. rewrite H. reflexivity. Qed.

  Section ExecInv.
    Variable gpm : state -> path -> state * option path.
    Hypothesis Hgpm : forall st q, Inv2 st -> Inv2 (fst (gpm st q)).

    Lemma import_loop_inv : forall names st m qual body mm level modname allnames X modo is_package exports,
      Inv2 st -> scope_body P m qual = Some body -> wf_body body -> find_module P m = Some mm ->
      In (SFrom level modname allnames) body -> (forall x, In x names -> In x allnames) ->
      import_base m (m_pkg mm) level modname = Some X ->
      (forall x, In x names -> mem_name (bound_of x) exports = false) ->
      Inv2 (import_names_loop P gpm st (m ++ qual) exports X modo is_package names).
    Proof.
      induction names as [|[orig asname] names IH];
        intros st m qual body mm level modname allnames X modo is_package exports HI Hsb Hwf Hfm Hin Hsub Hib Hexp;
        [exact HI|].
      cbn [import_names_loop].
      set (st1 := if is_package then fst (gpm st (X ++ [orig])) else st).
      assert (HI1 : Inv2 st1) by (unfold st1; destruct is_package; [apply Hgpm; exact HI | exact HI]).
      assert (Hx : mem_name (def_or asname orig) exports = false) by (apply (Hexp (orig, asname)); left; reflexivity).
      assert (Hre : match modo with
                    | Some modid => handle_reexport P st1 (m ++ qual) exports orig (def_or asname orig) modid
                    | None => (st1, false)
                    end = (st1, false)).
      { destruct modo; [apply handle_reexport_false; exact Hx | reflexivity]. }
      rewrite Hre.
      eapply IH; try eassumption.
      - apply Inv2_set_amap; [exact HI1|].
        intros o m' qual' Hino Hid Hr.
        destruct (reg_ctx _ _ _ _ _ _ Hr Hid Hsb) as [? ?]; subst m' qual'.
        change (def_or asname orig) with (bound_of (orig, asname)).
        eapply entry_from; try eassumption. apply Hsub. left. reflexivity.
      - intros x Hxin. apply Hsub. right. exact Hxin.
      - intros x Hxin. apply Hexp. right. exact Hxin.
    Qed.

    Definition stmt_inv (s : stmt) : Prop :=
      forall st m qual body mm,
        Inv2 st -> find_module P m = Some mm -> scope_body P m qual = Some body -> wf_body body ->
        In s body -> simple_stmt s = true ->
        (forall n, In n (from_names s) -> mem_name n (def_or (m_all mm) []) = false) ->
        Inv2 (exec_stmt P gpm m (m ++ qual) st s).


    Lemma fold_inv : forall (l : list stmt) (f : state -> stmt -> state) (R : state -> Prop) st,
      (forall s st, In s l -> R st -> R (f st s)) -> R st -> R (fold_left f l st).
    Proof.
      induction l as [|x l IH]; intros f R st Hf Hst; [exact Hst|].
      cbn. apply IH; [intros s st' Hs; apply Hf; right; exact Hs | apply Hf; [left; reflexivity | exact Hst]].
    Qed.

    Lemma mod_kind_pkg : forall st m mm mo,
      Inv2 st -> find_module P m = Some mm -> by_id st m = Some mo ->
      kind_eqb (o_kind mo) KPkg = m_pkg mm /\ o_path mo = m.
    Proof.
      intros st m mm mo HI Hfm Hby.
      pose proof (scope_body_nil _ _ Hfm) as Hsb.
      rewrite <- (app_nil_r m) in Hby.
      destruct (ctx_reg _ _ _ _ _ HI Hsb Hby) as [Hin [Hr Hp]]. rewrite app_nil_r in Hp.
      split; [|exact Hp].
      inversion Hr as [mm0 Hf0 Hk0 Hm Hq | m0 q0 n0 b0 base0 bb0 Hid0 Hsb0 Hb0 Hk0 Hm Hq | m0 q0 n0 b0 Hid0 Hsb0 Hb0 Hk0 Hm Hq].
      - rewrite Hm, Hfm in Hf0. inversion Hf0; subst. rewrite Hk0. destruct (m_pkg mm0); reflexivity.
      - destruct q0; discriminate.
      - destruct q0; discriminate.
    Qed.

    Lemma stmt_inv_all : forall s, stmt_inv s.
    Proof.
      induction s as [target asname | level modname names | level modname | n base cbody IHs | n | target expr]
        using stmt_ind2;
        unfold stmt_inv; intros st m qual body mm HI Hfm Hsb Hwf Hin Hsimple Hexp; cbn [exec_stmt].
      - (* import *)
        unfold visit_import. destruct asname as [c|].
        + apply Inv2_set_amap; [exact HI|]. intros o m' qual' Hino Hid Hr.
          destruct (reg_ctx _ _ _ _ _ _ Hr Hid Hsb) as [? ?]; subst m' qual'.
          eapply entry_import_as; eassumption.
        + destruct target as [|a t]; [exact HI|].
          apply Inv2_set_amap; [exact HI|]. intros o m' qual' Hino Hid Hr.
          destruct (reg_ctx _ _ _ _ _ _ Hr Hid Hsb) as [? ?]; subst m' qual'.
          eapply entry_import_top; eassumption.
      - (* from ... import names *)
        destruct (HI) as [_ HM]. pose proof (find_module_some _ _ Hfm) as [Hinm Hpm].
        destruct (by_id_exists st m) as [mo Hby]; [rewrite <- Hpm; apply HM; exact Hinm|].
        destruct (mod_kind_pkg _ _ _ _ HI Hfm Hby) as [Hk Hp].
        unfold cur_path. rewrite Hby, Hk, Hp.
        destruct (import_base m (m_pkg mm) level modname) as [X|] eqn:Eib; [|exact HI].
        unfold import_names. destruct (gpm st X) as [st1 modo] eqn:Eg.
        assert (HI1 : Inv2 st1) by (replace st1 with (fst (gpm st X)) by (rewrite Eg; reflexivity); apply Hgpm; exact HI).
        eapply import_loop_inv; try eassumption.
        * intros x Hx. exact Hx.
        * intros x Hx. eapply exports_none; try eassumption. apply Hexp. cbn. apply in_map. exact Hx.
      - (* star *) discriminate.
      - (* class *)
        destruct base as [b|]; [discriminate|]. cbn in Hsimple.
        destruct (by_id st (m ++ qual)) as [par|] eqn:Eby; [|exact HI].
        destruct (ctx_reg _ _ _ _ _ HI Hsb Eby) as [Hinp [Hrp Hpp]].
        assert (Hb : binder_of body n = Some (BClass None cbody)).
        { eapply wf_uniq; try eassumption. cbn. rewrite N.eqb_refl. reflexivity. }
        pose proof (proj2 (by_id_some _ _ _ Eby)) as Hidp.
        rewrite Hpp, Hidp. rewrite <- app_assoc.
        apply Inv2_set_state.
        apply fold_inv.
        + intros s' st' Hs' HI'. rewrite Forall_forall in IHs.
          apply (IHs s' Hs' st' m (qual ++ [n]) cbody mm); try assumption.
          * eapply scope_body_snoc_intro; eassumption.
          * inversion Hwf; subst. eauto.
          * rewrite forallb_forall in Hsimple. apply Hsimple. exact Hs'.
          * intros k Hk. apply Hexp. cbn. apply in_flat_map. exists s'. split; assumption.
        + apply Inv2_register; [apply Inv2_flag_leak; exact HI|].
          repeat split; try reflexivity.
          exists m, (qual ++ [n]). split.
          * eapply reg_class; try eassumption; reflexivity.
          * intros k q Hk. discriminate.
      - (* def *)
        destruct (by_id st (m ++ qual)) as [par|] eqn:Eby; [|exact HI].
        destruct (ctx_reg _ _ _ _ _ HI Hsb Eby) as [Hinp [Hrp Hpp]].
        assert (Hb : binder_of body n = Some BDef).
        { eapply wf_uniq; try eassumption. cbn. rewrite N.eqb_refl. reflexivity. }
        pose proof (proj2 (by_id_some _ _ _ Eby)) as Hidp.
        apply Inv2_register; [exact HI|].
        repeat split; try reflexivity.
        * cbn. rewrite Hpp, Hidp. reflexivity.
        * exists m, (qual ++ [n]). split.
          -- eapply reg_fun; try eassumption; try reflexivity. cbn. rewrite Hidp, app_assoc. reflexivity.
          -- intros k q Hk. discriminate.
      - (* alias *) discriminate.
    Qed.
  End ExecInv.

  Hypothesis SIMPLE : simple_project P = true.
  Hypothesis NOEXP : no_reexport P.

  Lemma process_module_inv : forall fuel st mid, Inv2 st -> Inv2 (process_module fuel P st mid).
  Proof.
    induction fuel as [|f IH]; intros st mid HI; cbn [process_module].
    - exact HI.
    - destruct (find_module P mid) as [mm|] eqn:Efm; [|exact HI].
      pose proof (find_module_some _ _ Efm) as [Hinm Hpm].
      apply Inv2_set_state.
      apply fold_inv; [|apply Inv2_set_state; exact HI].
      intros s st' Hs HI'.
      rewrite <- (app_nil_r mid) at 2.
      eapply (stmt_inv_all _ _ s st' mid [] (m_body mm) mm); try eassumption.
      + apply scope_body_nil. exact Efm.
      + apply (W_body P WF). exact Hinm.
      + unfold simple_project in SIMPLE. rewrite forallb_forall in SIMPLE.
        pose proof (SIMPLE mm Hinm) as Hs'. rewrite forallb_forall in Hs'. apply Hs'. exact Hs.
      + intros n Hn. apply (NOEXP mm n Hinm). apply in_flat_map. exists s. split; assumption.
      Unshelve.
      intros st0 q HI0. cbn.
      destruct (obj_for st0 q) as [mo|]; [|exact HI0].
      destruct (is_modkind (o_kind mo)); [|exact HI0].
      destruct (o_state mo); cbn; try exact HI0. apply IH. exact HI0.
  Qed.

  Lemma process_all_inv : forall order st, Inv2 st -> Inv2 (process_all P order st).
  Proof.
    intros order st HI. unfold process_all. apply fold_inv_gen with (R := Inv2); [|exact HI].
    intros mid st' HI'. destruct (by_id st' mid) as [mo|]; [|exact HI'].
    destruct (o_state mo); try exact HI'. apply process_module_inv. exact HI'.
  Qed.

  Lemma finalize_bases_id : forall st, Inv st -> objs (finalize_bases P st) = objs st.
  Proof.
    intros st HI. cbn. rewrite <- (map_id (objs st)) at 2. apply map_ext_in.
    intros o Hin. destruct (HI o Hin) as [_ [_ [Hr _]]]. unfold final_base. rewrite Hr.
    destruct (o_kind o); reflexivity.
  Qed.

  Lemma init_inv : Inv2 (init_state P).
  Proof.
    split.
    - intros o Hin. cbn in Hin. apply in_map_iff in Hin. destruct Hin as [mm [He Hin]]. subst o.
      repeat split; try reflexivity. cbn.
      exists (m_path mm), []. split.
      + match goal with |- reg_ok ?o _ _ => change (reg_ok o (o_id o) []) end.
        eapply (reg_mod _ mm); cbn; [apply (W_find P WF); exact Hin | reflexivity].
      + intros n q Hk. discriminate.
    - intros mm Hin. eexists. split; [cbn; apply in_map; exact Hin | reflexivity].
  Qed.

  Theorem final_coherent : forall order, coherent P (final_state P order).
  Proof.
    intros order. apply inv_coherent. unfold final_state.
    pose proof (process_all_inv order _ init_inv) as [HI _].
    intros o Hin. rewrite (finalize_bases_id _ HI) in Hin. apply HI. exact Hin.
  Qed.
End Inv.

(* Whole-project soundness on the subset: for every well-formed project built from import statements of every
   form, definitions and classes (no `import *`, no alias assignment, no base expression, no re-export), every
   processing order, every context and dotted name whose first part the context itself binds and that does not
   run into the class-to-enclosing-scope fallback: what resolveName returns is what Python binds. *)
Theorem expand_sound_project : forall P order ctx m qual dotted v o,
  wf_project P -> simple_project P = true -> no_reexport P ->
  let st := final_state P order in
  In ctx (objs st) -> py_abs P (o_path ctx) (scope_val m qual) ->
  py_lookup P m qual dotted v ->
  trail_ok st ctx true dotted = true ->
  resolve_name st ctx dotted = Some o ->
  denotes o v.
Proof.
  intros P order ctx m qual dotted v o WF SIMPLE NOEXP st Hin Habs Hpy Hok Hres.
  eapply resolve_sound; try eassumption. apply final_coherent; assumption.
Qed.
