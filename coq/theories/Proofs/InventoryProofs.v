(* Proofs/InventoryProofs.v -- lemmas behind Props/C17.v *)
From Coq Require Import ZArith NArith List Bool Lia Arith.
From PydoctorVerif Require Import Base.Sexp Model.Inventory Spec.InventorySpec.
Import ListNotations.
Local Open Scope N_scope.

(* ================================================================== text equality *)
Lemma text_eqb_refl t : text_eqb t t = true.
Proof. induction t as [|x t IH]; cbn [text_eqb]; [reflexivity|]. rewrite N.eqb_refl, IH. reflexivity. Qed.

Lemma text_eqb_eq a b : text_eqb a b = true <-> a = b.
Proof.
  split.
  - revert b. induction a as [|x a IH]; intros [|y b] H; cbn [text_eqb] in H; try discriminate; [reflexivity|].
    apply andb_true_iff in H as [Hx Hr]. apply N.eqb_eq in Hx. subst y. f_equal. apply IH, Hr.
  - intros ->. apply text_eqb_refl.
Qed.

Lemma text_eqb_neq a b : text_eqb a b = false <-> a <> b.
Proof.
  split.
  - intros H E. apply text_eqb_eq in E. congruence.
  - intros H. destruct (text_eqb a b) eqn:E; [|reflexivity]. apply text_eqb_eq in E. contradiction.
Qed.

(* ================================================================== str.split(c) / sep.join *)
Lemma split_on_nonempty c t : split_on c t <> [].
Proof.
  induction t as [|x r IH]; cbn [split_on]; [discriminate|].
  destruct (N.eqb x c); [discriminate|]. destruct (split_on c r); discriminate.
Qed.

Lemma split_on_notin c p : ~ In c p -> split_on c p = [p].
Proof.
  induction p as [|x p IH]; intros H; cbn [split_on]; [reflexivity|].
  destruct (N.eqb x c) eqn:E.
  - apply N.eqb_eq in E. exfalso. apply H. left. exact E.
  - rewrite IH; [reflexivity|]. intros Hin. apply H. right. exact Hin.
Qed.

(* split(a + sep + b) = split(a) ++ split(b) *)
Lemma split_on_app_sep c a b : split_on c (a ++ c :: b) = split_on c a ++ split_on c b.
Proof.
  induction a as [|x a IH]; cbn [app split_on].
  - rewrite N.eqb_refl. reflexivity.
  - destruct (N.eqb x c); [rewrite IH; reflexivity|].
    rewrite IH. destruct (split_on c a) as [|h tl] eqn:E; [exfalso; eapply split_on_nonempty; exact E|]. reflexivity.
Qed.

Lemma split_on_nosep c t : Forall (fun p => ~ In c p) (split_on c t).
Proof.
  induction t as [|x r IH]; cbn [split_on].
  - constructor; [intros []|constructor].
  - destruct (N.eqb x c) eqn:E.
    + constructor; [intros []|exact IH].
    + destruct (split_on c r) as [|h tl]; [constructor; [|constructor]|].
      * intros [H|[]]. subst x. rewrite N.eqb_refl in E. discriminate.
      * inversion IH as [|? ? Hh Htl]; subst. constructor; [|exact Htl].
        intros [H|H]; [subst x; rewrite N.eqb_refl in E; discriminate|exact (Hh H)].
Qed.

Lemma join_cons2 sep x y r : join sep (x :: y :: r) = x ++ sep ++ join sep (y :: r).
Proof. reflexivity. Qed.

Lemma join_split_on c t : join [c] (split_on c t) = t.
Proof.
  induction t as [|x r IH]; cbn [split_on]; [reflexivity|].
  destruct (N.eqb x c) eqn:E.
  - apply N.eqb_eq in E. subst x.
    destruct (split_on c r) as [|h tl] eqn:Es; [exfalso; eapply split_on_nonempty; exact Es|].
    rewrite join_cons2, IH. reflexivity.
  - destruct (split_on c r) as [|h tl] eqn:Es; [exfalso; eapply split_on_nonempty; exact Es|].
    destruct tl as [|h2 tl].
    + cbn [join] in *. rewrite IH. reflexivity.
    + rewrite join_cons2. rewrite join_cons2 in IH. rewrite <- IH. reflexivity.
Qed.

Lemma unwords_join parts : unwords parts = join sp parts.
Proof.
  destruct parts as [|p ps]; [reflexivity|]. cbn [unwords].
  revert p. induction ps as [|q ps IH]; intros p; cbn [flat_map].
  - cbn [join]. apply app_nil_r.
  - rewrite join_cons2. rewrite <- IH. reflexivity.
Qed.

(* the fields of a line are unique, and split(' ') computes them *)
Lemma split_on_join c parts :
  parts <> [] -> Forall (fun p => ~ In c p) parts -> split_on c (join [c] parts) = parts.
Proof.
  induction parts as [|p ps IH]; intros Hne Hall; [contradiction|].
  inversion Hall as [|? ? Hp Hps]; subst.
  destruct ps as [|q ps].
  - cbn [join]. apply split_on_notin, Hp.
  - rewrite join_cons2. cbn [app]. rewrite split_on_app_sep. rewrite (split_on_notin c p Hp).
    cbn [app]. f_equal. apply IH; [discriminate|exact Hps].
Qed.

Lemma is_fields_split line : is_fields line (split_on SP line).
Proof.
  split; [apply split_on_nonempty|]. split; [apply split_on_nosep|].
  rewrite unwords_join. symmetry. apply join_split_on.
Qed.

Lemma is_fields_unique line parts : is_fields line parts -> parts = split_on SP line.
Proof.
  intros (Hne & Hall & ->). rewrite unwords_join. symmetry. apply split_on_join; assumption.
Qed.

(* ================================================================== _parseInventoryLine *)
Section ReaderProofs.
  Variable int_of : text -> option Z.

  Lemma get_ok {X} (l : list X) i x : nth_error l i = Some x -> get l i = Ok x.
  Proof. unfold get. intros ->. reflexivity. Qed.

  Lemma get_cases {X} (l : list X) i :
    (exists x, nth_error l i = Some x /\ get l i = Ok x) \/ ((length l <= i)%nat /\ get l i = Raise IndexError).
  Proof.
    unfold get. destruct (nth_error l i) eqn:E; [left; eauto|right]. split; [apply nth_error_None, E|reflexivity].
  Qed.

  (* what the priority search returns, for every amount of fuel that covers the rest of the list *)
  Lemma find_prio_spec fuel : forall parts idx,
    (length parts - idx < fuel)%nat ->
    match find_prio int_of fuel parts idx with
    | Ok (k, z) => (idx <= k)%nat /\ (exists p, nth_error parts k = Some p /\ int_of p = Some z) /\
                   (forall j q, (idx <= j < k)%nat -> nth_error parts j = Some q -> int_of q = None)
    | Raise IndexError => forall j q, (idx <= j)%nat -> nth_error parts j = Some q -> int_of q = None
    | Raise _ => False
    end.
  Proof.
    induction fuel as [|f IH]; intros parts idx Hf; [lia|].
    cbn [find_prio]. destruct (get_cases parts idx) as [(p & Hn & ->)|(Hlen & ->)].
    - destruct (int_of p) as [z|] eqn:Hp.
      + split; [lia|]. split; [eauto|]. intros j q Hj. lia.
      + assert (Hlt : (idx < length parts)%nat) by (apply nth_error_Some; congruence).
        specialize (IH parts (S idx)).
        destruct (find_prio int_of f parts (S idx)) as [[k z]|[]]; try (apply IH; lia).
        * destruct IH as (Hk & Hex & Hbefore); [lia|]. split; [lia|]. split; [exact Hex|].
          intros j q Hj Hq. destruct (Nat.eq_dec j idx) as [->|Hne]; [congruence|]. apply (Hbefore j q); [lia|exact Hq].
        * intros j q Hj Hq. destruct (Nat.eq_dec j idx) as [->|Hne]; [congruence|].
          assert (IH' := IH ltac:(lia)). apply (IH' j q); [lia|exact Hq].
    - intros j q Hj Hq. assert (j < length parts)%nat by (apply nth_error_Some; congruence). lia.
  Qed.

  (* the search finds THE first integer field *)
  Lemma find_prio_hit fuel : forall parts idx k p z,
    (idx <= k)%nat -> nth_error parts k = Some p -> int_of p = Some z ->
    (forall j q, (idx <= j < k)%nat -> nth_error parts j = Some q -> int_of q = None) ->
    (k - idx < fuel)%nat ->
    find_prio int_of fuel parts idx = Ok (k, z).
  Proof.
    induction fuel as [|f IH]; intros parts idx k p z Hk Hn Hp Hbefore Hf; [lia|].
    cbn [find_prio]. assert (Hklt : (k < length parts)%nat) by (apply nth_error_Some; congruence).
    destruct (get_cases parts idx) as [(q & Hq & ->)|(Hlen & _)]; [|lia].
    destruct (Nat.eq_dec idx k) as [->|Hne].
    - rewrite Hn in Hq. inversion Hq; subst q. rewrite Hp. reflexivity.
    - rewrite (Hbefore idx q) by (lia || exact Hq).
      apply (IH parts (S idx) k p z); try assumption; try lia.
      intros j q' Hj. apply Hbefore. lia.
  Qed.

  Definition total_line (pl : text -> outcome columns) : Prop :=
    forall line, (exists c, pl line = Ok c) \/ pl line = Raise ValueError.

  (* C17_parse_total *)
  Lemma parse_line_total : total_line (parse_line int_of).
  Proof.
    intros line. unfold parse_line, parse_line_gen.
    set (parts := split_on SP line).
    assert (Hs := find_prio_spec (find_prio_fuel parts) parts 2 ltac:(unfold find_prio_fuel; lia)).
    destruct (find_prio int_of (find_prio_fuel parts) parts 2) as [[k z]|[]]; try contradiction; [|right; reflexivity].
    destruct Hs as (Hk & (p & Hp & _) & _).
    assert (Hklt : (k < length parts)%nat) by (apply nth_error_Some; congruence).
    destruct (get_cases parts (k - 1)) as [(typ & _ & ->)|(Hlen & _)]; [|lia].
    destruct (get_cases parts (k + 1)) as [(loc & _ & ->)|(_ & ->)]; [|right; reflexivity].
    destruct (is_empty _); [right; reflexivity|left; eauto].
  Qed.

  (* C17_parse_line_meaning, both directions *)
  Lemma parse_line_sound line c : parse_line int_of line = Ok c -> pd_line int_of line c.
  Proof.
    unfold parse_line, parse_line_gen. set (parts := split_on SP line).
    assert (Hs := find_prio_spec (find_prio_fuel parts) parts 2 ltac:(unfold find_prio_fuel; lia)).
    destruct (find_prio int_of (find_prio_fuel parts) parts 2) as [[k z]|[]]; try contradiction; try discriminate.
    destruct Hs as (Hk & (p & Hp & Hz) & Hbefore).
    unfold get. destruct (nth_error parts (k - 1)) as [typ|] eqn:Ht; [|discriminate].
    destruct (nth_error parts (k + 1)) as [loc|] eqn:Hl; [|discriminate].
    destruct (is_empty (join sp (skipn (k + 2) parts))) eqn:He; [discriminate|].
    intros H. inversion H; subst c; clear H.
    exists parts, k, p. cbn [c_name c_typ c_prio c_loc c_disp].
    split; [apply is_fields_split|]. split; [exact Hk|]. split; [exact Hp|]. split; [exact Hz|].
    split; [exact Hbefore|]. rewrite !unwords_join. split; [reflexivity|]. split; [exact Ht|]. split; [exact Hl|].
    split; [reflexivity|]. intros E. rewrite E in He. discriminate.
  Qed.

  Lemma parse_line_complete line c : pd_line int_of line c -> parse_line int_of line = Ok c.
  Proof.
    intros (parts & k & p & Hf & Hk & Hp & Hz & Hbefore & Hname & Ht & Hl & Hd & Hne).
    apply is_fields_unique in Hf. subst parts.
    unfold parse_line, parse_line_gen. set (parts := split_on SP line) in *.
    assert (Hklt : (k < length parts)%nat) by (apply nth_error_Some; congruence).
    rewrite (find_prio_hit (find_prio_fuel parts) parts 2 k p (c_prio c)); try assumption;
      [|unfold find_prio_fuel; lia].
    rewrite (get_ok _ _ _ Ht), (get_ok _ _ _ Hl). rewrite <- !unwords_join, <- Hd.
    destruct (c_disp c) eqn:Ed; [contradiction|]. cbn [is_empty]. rewrite <- Hname.
    destruct c; cbn in *; subst; reflexivity.
  Qed.

  (* ================================================================ written lines parse back *)
  Lemma nth_error_app_at {X} (l l' : list X) i : nth_error (l ++ l') (length l + i) = nth_error l' i.
  Proof. rewrite nth_error_app2 by lia. f_equal. lia. Qed.

  Lemma line_roundtrip name typ url :
    int_of minus_one = Some (-1)%Z ->
    ~ In SP typ -> ~ In SP url -> int_of typ = None ->
    (forall j q, (2 <= j)%nat -> nth_error (split_on SP name) j = Some q -> int_of q = None) ->
    parse_line int_of (line_body name typ url) = Ok (Cols name typ (-1) url dash).
  Proof.
    intros Hm1 Htyp Hurl Hity Hguard.
    apply parse_line_complete.
    set (P := split_on SP name).
    assert (HP : P <> []) by apply split_on_nonempty.
    set (n := length P).
    assert (Hn : (1 <= n)%nat) by (unfold n; destruct P; [contradiction|cbn; lia]).
    exists (P ++ [typ; minus_one; url; dash]), (n + 1)%nat, minus_one.
    cbn [c_name c_typ c_prio c_loc c_disp].
    assert (Hfields : is_fields (line_body name typ url) (P ++ [typ; minus_one; url; dash])).
    { assert (E : split_on SP (line_body name typ url) = P ++ [typ; minus_one; url; dash]).
      { unfold line_body, sp. cbn [app].
        rewrite split_on_app_sep. fold P. f_equal.
        rewrite split_on_app_sep, split_on_notin by exact Htyp. cbn [app]. f_equal.
        change (split_on SP (minus_one ++ SP :: url ++ SP :: dash) = [minus_one; url; dash]).
        rewrite split_on_app_sep, split_on_notin by (cbv; intuition discriminate). cbn [app]. f_equal.
        rewrite split_on_app_sep, split_on_notin by exact Hurl. cbn [app]. f_equal. }
      rewrite <- E. apply is_fields_split. }
    split; [exact Hfields|]. split; [lia|].
    split; [unfold n; rewrite nth_error_app_at; reflexivity|]. split; [exact Hm1|].
    split.
    { intros j q Hj Hq. destruct (Nat.lt_ge_cases j n) as [Hlt|Hge].
      - rewrite nth_error_app1 in Hq by exact Hlt. apply (Hguard j q); [lia|exact Hq].
      - assert (j = n) by lia. subst j. replace n with (n + 0)%nat in Hq by lia.
        unfold n in Hq. rewrite nth_error_app_at in Hq. cbn in Hq. congruence. }
    split.
    { replace (n + 1 - 1)%nat with n by lia. unfold n. rewrite firstn_app, Nat.sub_diag, firstn_all. cbn [firstn].
      rewrite app_nil_r. rewrite unwords_join. symmetry. apply join_split_on. }
    split.
    { replace (n + 1 - 1)%nat with (n + 0)%nat by lia. unfold n. rewrite nth_error_app_at. reflexivity. }
    split.
    { replace (n + 1 + 1)%nat with (n + 2)%nat by lia. unfold n. rewrite nth_error_app_at. reflexivity. }
    split; [|discriminate].
    replace (n + 1 + 2)%nat with (n + 3)%nat by lia. unfold n.
    rewrite skipn_app. rewrite skipn_all2 by lia. replace (length P + 3 - length P)%nat with 3%nat by lia. reflexivity.
  Qed.
End ReaderProofs.
