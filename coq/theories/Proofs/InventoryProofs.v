(* Proofs/InventoryProofs.v -- lemmas behind Props/C17.v *)
From Coq Require Import ZArith NArith List Bool Lia Arith.
From PydoctorVerif Require Import Base.Sexp Model.Inventory Spec.InventorySpec.
Import ListNotations.
Local Open Scope N_scope.

(* ================================================================== text equality *)
Lemma text_eqb_refl t : text_eqb t t = true.
Proof. induction t as [|x t IH]; cbn [text_eqb]; [reflexivity|]. rewrite N.eqb_refl, IH. reflexivity. Qed.

Lemma text_eqb_eq a b : text_eqb a b = true <-> a = b.
Proof.
  split.
  - revert b. induction a as [|x a IH]; intros [|y b] H; cbn [text_eqb] in H; try discriminate; [reflexivity|].
    apply andb_true_iff in H as [Hx Hr]. apply N.eqb_eq in Hx. subst y. f_equal. apply IH, Hr.
  - intros ->. apply text_eqb_refl.
Qed.

Lemma text_eqb_neq a b : text_eqb a b = false <-> a <> b.
Proof.
  split.
  - intros H E. apply text_eqb_eq in E. congruence.
  - intros H. destruct (text_eqb a b) eqn:E; [|reflexivity]. apply text_eqb_eq in E. contradiction.
Qed.

(* ================================================================== str.split(c) / sep.join *)
Lemma split_on_nonempty c t : split_on c t <> [].
Proof.
  induction t as [|x r IH]; cbn [split_on]; [discriminate|].
  destruct (N.eqb x c); [discriminate|]. destruct (split_on c r); discriminate.
Qed.

Lemma split_on_notin c p : ~ In c p -> split_on c p = [p].
Proof.
  induction p as [|x p IH]; intros H; cbn [split_on]; [reflexivity|].
  destruct (N.eqb x c) eqn:E.
  - apply N.eqb_eq in E. exfalso. apply H. left. exact E.
  - rewrite IH; [reflexivity|]. intros Hin. apply H. right. exact Hin.
Qed.

(* split(a + sep + b) = split(a) ++ split(b) *)
Lemma split_on_app_sep c a b : split_on c (a ++ c :: b) = split_on c a ++ split_on c b.
Proof.
  induction a as [|x a IH]; cbn [app split_on].
  - rewrite N.eqb_refl. reflexivity.
  - destruct (N.eqb x c); [rewrite IH; reflexivity|].
    rewrite IH. destruct (split_on c a) as [|h tl] eqn:E; [exfalso; eapply split_on_nonempty; exact E|]. reflexivity.
Qed.

Lemma split_on_nosep c t : Forall (fun p => ~ In c p) (split_on c t).
Proof.
  induction t as [|x r IH]; cbn [split_on].
  - constructor; [intros []|constructor].
  - destruct (N.eqb x c) eqn:E.
    + constructor; [intros []|exact IH].
    + destruct (split_on c r) as [|h tl]; [constructor; [|constructor]|].
      * intros [H|[]]. subst x. rewrite N.eqb_refl in E. discriminate.
      * inversion IH as [|? ? Hh Htl]; subst. constructor; [|exact Htl].
        intros [H|H]; [subst x; rewrite N.eqb_refl in E; discriminate|exact (Hh H)].
Qed.

Lemma join_cons2 sep x y r : join sep (x :: y :: r) = x ++ sep ++ join sep (y :: r).
Proof. reflexivity. Qed.

Lemma join_split_on c t : join [c] (split_on c t) = t.
Proof.
  induction t as [|x r IH]; cbn [split_on]; [reflexivity|].
  destruct (N.eqb x c) eqn:E.
  - apply N.eqb_eq in E. subst x.
    destruct (split_on c r) as [|h tl] eqn:Es; [exfalso; eapply split_on_nonempty; exact Es|].
    rewrite join_cons2, IH. reflexivity.
  - destruct (split_on c r) as [|h tl] eqn:Es; [exfalso; eapply split_on_nonempty; exact Es|].
    destruct tl as [|h2 tl].
    + cbn [join] in *. rewrite IH. reflexivity.
    + rewrite join_cons2. rewrite join_cons2 in IH. rewrite <- IH. reflexivity.
Qed.

Lemma unwords_join parts : unwords parts = join sp parts.
Proof.
  destruct parts as [|p ps]; [reflexivity|]. cbn [unwords].
  revert p. induction ps as [|q ps IH]; intros p; cbn [flat_map].
  - cbn [join]. apply app_nil_r.
  - rewrite join_cons2. rewrite <- IH. reflexivity.
Qed.

(* the fields of a line are unique, and split(' ') computes them *)
Lemma split_on_join c parts :
  parts <> [] -> Forall (fun p => ~ In c p) parts -> split_on c (join [c] parts) = parts.
Proof.
  induction parts as [|p ps IH]; intros Hne Hall; [contradiction|].
  inversion Hall as [|? ? Hp Hps]; subst.
  destruct ps as [|q ps].
  - cbn [join]. apply split_on_notin, Hp.
  - rewrite join_cons2. cbn [app]. rewrite split_on_app_sep. rewrite (split_on_notin c p Hp).
    cbn [app]. f_equal. apply IH; [discriminate|exact Hps].
Qed.

Lemma is_fields_split line : is_fields line (split_on SP line).
Proof.
  split; [apply split_on_nonempty|]. split; [apply split_on_nosep|].
  rewrite unwords_join. symmetry. apply join_split_on.
Qed.

Lemma is_fields_unique line parts : is_fields line parts -> parts = split_on SP line.
Proof.
  intros (Hne & Hall & ->). rewrite unwords_join. symmetry. apply split_on_join; assumption.
Qed.

(* ================================================================== _parseInventoryLine *)
Section ReaderProofs.
  Variable int_of : text -> option Z.

  Lemma get_ok {X} (l : list X) i x : nth_error l i = Some x -> get l i = Ok x.
  Proof. unfold get. intros ->. reflexivity. Qed.

  Lemma get_cases {X} (l : list X) i :
    (exists x, nth_error l i = Some x /\ get l i = Ok x) \/ ((length l <= i)%nat /\ get l i = Raise IndexError).
  Proof.
    unfold get. destruct (nth_error l i) eqn:E; [left; eauto|right]. split; [apply nth_error_None, E|reflexivity].
  Qed.

  (* what the priority search returns, for every amount of fuel that covers the rest of the list *)
  Lemma find_prio_spec fuel : forall parts idx,
    (length parts - idx < fuel)%nat ->
    match find_prio int_of fuel parts idx with
    | Ok (k, z) => (idx <= k)%nat /\ (exists p, nth_error parts k = Some p /\ int_of p = Some z) /\
                   (forall j q, (idx <= j < k)%nat -> nth_error parts j = Some q -> int_of q = None)
    | Raise IndexError => forall j q, (idx <= j)%nat -> nth_error parts j = Some q -> int_of q = None
    | Raise _ => False
    end.
  Proof.
    induction fuel as [|f IH]; intros parts idx Hf; [lia|].
    cbn [find_prio]. destruct (get_cases parts idx) as [(p & Hn & ->)|(Hlen & ->)].
    - destruct (int_of p) as [z|] eqn:Hp.
      + split; [lia|]. split; [eauto|]. intros j q Hj. lia.
      + assert (Hlt : (idx < length parts)%nat) by (apply nth_error_Some; congruence).
        specialize (IH parts (S idx)).
        destruct (find_prio int_of f parts (S idx)) as [[k z]|[]]; try (apply IH; lia).
        * destruct IH as (Hk & Hex & Hbefore); [lia|]. split; [lia|]. split; [exact Hex|].
          intros j q Hj Hq. destruct (Nat.eq_dec j idx) as [->|Hne]; [congruence|]. apply (Hbefore j q); [lia|exact Hq].
        * intros j q Hj Hq. destruct (Nat.eq_dec j idx) as [->|Hne]; [congruence|].
          assert (IH' := IH ltac:(lia)). apply (IH' j q); [lia|exact Hq].
    - intros j q Hj Hq. assert (j < length parts)%nat by (apply nth_error_Some; congruence). lia.
  Qed.

  (* the search finds THE first integer field *)
  Lemma find_prio_hit fuel : forall parts idx k p z,
    (idx <= k)%nat -> nth_error parts k = Some p -> int_of p = Some z ->
    (forall j q, (idx <= j < k)%nat -> nth_error parts j = Some q -> int_of q = None) ->
    (k - idx < fuel)%nat ->
    find_prio int_of fuel parts idx = Ok (k, z).
  Proof.
    induction fuel as [|f IH]; intros parts idx k p z Hk Hn Hp Hbefore Hf; [lia|].
    cbn [find_prio]. assert (Hklt : (k < length parts)%nat) by (apply nth_error_Some; congruence).
    destruct (get_cases parts idx) as [(q & Hq & ->)|(Hlen & _)]; [|lia].
    destruct (Nat.eq_dec idx k) as [->|Hne].
    - rewrite Hn in Hq. inversion Hq; subst q. rewrite Hp. reflexivity.
    - rewrite (Hbefore idx q) by (lia || exact Hq).
      apply (IH parts (S idx) k p z); try assumption; try lia.
      intros j q' Hj. apply Hbefore. lia.
  Qed.

  Definition total_line (pl : text -> outcome columns) : Prop :=
    forall line, (exists c, pl line = Ok c) \/ pl line = Raise ValueError.

  (* C17_parse_total *)
  Lemma parse_line_total : total_line (parse_line int_of).
  Proof.
    intros line. unfold parse_line, parse_line_gen.
    set (parts := split_on SP line).
    assert (Hs := find_prio_spec (find_prio_fuel parts) parts 2 ltac:(unfold find_prio_fuel; lia)).
    destruct (find_prio int_of (find_prio_fuel parts) parts 2) as [[k z]|[]]; try contradiction; [|right; reflexivity].
    destruct Hs as (Hk & (p & Hp & _) & _).
    assert (Hklt : (k < length parts)%nat) by (apply nth_error_Some; congruence).
    destruct (get_cases parts (k - 1)) as [(typ & _ & ->)|(Hlen & _)]; [|lia].
    destruct (get_cases parts (k + 1)) as [(loc & _ & ->)|(_ & ->)]; [|right; reflexivity].
    destruct (is_empty _); [right; reflexivity|left; eauto].
  Qed.

  (* C17_parse_line_meaning, both directions *)
  Lemma parse_line_sound line c : parse_line int_of line = Ok c -> pd_line int_of line c.
  Proof.
    unfold parse_line, parse_line_gen. set (parts := split_on SP line).
    assert (Hs := find_prio_spec (find_prio_fuel parts) parts 2 ltac:(unfold find_prio_fuel; lia)).
    destruct (find_prio int_of (find_prio_fuel parts) parts 2) as [[k z]|[]]; try contradiction; try discriminate.
    destruct Hs as (Hk & (p & Hp & Hz) & Hbefore).
    unfold get. destruct (nth_error parts (k - 1)) as [typ|] eqn:Ht; [|discriminate].
    destruct (nth_error parts (k + 1)) as [loc|] eqn:Hl; [|discriminate].
    destruct (is_empty (join sp (skipn (k + 2) parts))) eqn:He; [discriminate|].
    intros H. inversion H; subst c; clear H.
    exists parts, k, p. cbn [c_name c_typ c_prio c_loc c_disp].
    split; [apply is_fields_split|]. split; [exact Hk|]. split; [exact Hp|]. split; [exact Hz|].
    split; [exact Hbefore|]. rewrite !unwords_join. split; [reflexivity|]. split; [exact Ht|]. split; [exact Hl|].
    split; [reflexivity|]. intros E. rewrite E in He. discriminate.
  Qed.

  Lemma parse_line_complete line c : pd_line int_of line c -> parse_line int_of line = Ok c.
  Proof.
    intros (parts & k & p & Hf & Hk & Hp & Hz & Hbefore & Hname & Ht & Hl & Hd & Hne).
    apply is_fields_unique in Hf. subst parts.
    unfold parse_line, parse_line_gen. set (parts := split_on SP line) in *.
    assert (Hklt : (k < length parts)%nat) by (apply nth_error_Some; congruence).
    rewrite (find_prio_hit (find_prio_fuel parts) parts 2 k p (c_prio c)); try assumption;
      [|unfold find_prio_fuel; lia].
    rewrite (get_ok _ _ _ Ht), (get_ok _ _ _ Hl). rewrite <- !unwords_join, <- Hd.
    destruct (c_disp c) eqn:Ed; [contradiction|]. cbn [is_empty]. rewrite <- Hname.
    destruct c; cbn in *; subst; reflexivity.
  Qed.

  (* ================================================================ written lines parse back *)
  Lemma nth_error_app_at {X} (l l' : list X) i : nth_error (l ++ l') (length l + i) = nth_error l' i.
  Proof. rewrite nth_error_app2 by lia. f_equal. lia. Qed.

  Lemma line_roundtrip name typ url :
    int_of minus_one = Some (-1)%Z ->
    ~ In SP typ -> ~ In SP url -> int_of typ = None ->
    (forall j q, (2 <= j)%nat -> nth_error (split_on SP name) j = Some q -> int_of q = None) ->
    parse_line int_of (line_body name typ url) = Ok (Cols name typ (-1) url dash).
  Proof.
    intros Hm1 Htyp Hurl Hity Hguard.
    apply parse_line_complete.
    set (P := split_on SP name).
    assert (HP : P <> []) by apply split_on_nonempty.
    set (n := length P).
    assert (Hn : (1 <= n)%nat) by (unfold n; destruct P; [contradiction|cbn; lia]).
    exists (P ++ [typ; minus_one; url; dash]), (n + 1)%nat, minus_one.
    cbn [c_name c_typ c_prio c_loc c_disp].
    assert (Hfields : is_fields (line_body name typ url) (P ++ [typ; minus_one; url; dash])).
    { assert (E : split_on SP (line_body name typ url) = P ++ [typ; minus_one; url; dash]).
      { unfold line_body, sp. cbn [app].
        rewrite split_on_app_sep. fold P. f_equal.
        rewrite split_on_app_sep, split_on_notin by exact Htyp. cbn [app]. f_equal.
        change (split_on SP (minus_one ++ SP :: url ++ SP :: dash) = [minus_one; url; dash]).
        rewrite split_on_app_sep, split_on_notin by (cbv; intuition discriminate). cbn [app]. f_equal.
        rewrite split_on_app_sep, split_on_notin by exact Hurl. cbn [app]. f_equal. }
      rewrite <- E. apply is_fields_split. }
    split; [exact Hfields|]. split; [lia|].
    split; [unfold n; rewrite nth_error_app_at; reflexivity|]. split; [exact Hm1|].
    split.
    { intros j q Hj Hq. destruct (Nat.lt_ge_cases j n) as [Hlt|Hge].
      - rewrite nth_error_app1 in Hq by exact Hlt. apply (Hguard j q); [lia|exact Hq].
      - assert (j = n) by lia. subst j. replace n with (n + 0)%nat in Hq by lia.
        unfold n in Hq. rewrite nth_error_app_at in Hq. cbn in Hq. congruence. }
    split.
    { replace (n + 1 - 1)%nat with n by lia. unfold n. rewrite firstn_app, Nat.sub_diag, firstn_all. cbn [firstn].
      rewrite app_nil_r. rewrite unwords_join. symmetry. apply join_split_on. }
    split.
    { replace (n + 1 - 1)%nat with (n + 0)%nat by lia. unfold n. rewrite nth_error_app_at. reflexivity. }
    split.
    { replace (n + 1 + 1)%nat with (n + 2)%nat by lia. unfold n. rewrite nth_error_app_at. reflexivity. }
    split; [|discriminate].
    replace (n + 1 + 2)%nat with (n + 3)%nat by lia. unfold n.
    rewrite skipn_app. rewrite skipn_all2 by lia. replace (length P + 3 - length P)%nat with 3%nat by lia. reflexivity.
  Qed.
End ReaderProofs.

(* ================================================================== facts about py_int *)
Lemma rstrip_head c r : exists x, rstrip (c :: r) = [] /\ py_space c = true \/ rstrip (c :: r) = c :: x.
Proof.
  cbn [rstrip]. destruct (rstrip r) as [|y r'].
  - destruct (py_space c); [exists []; left; auto|exists []; right; reflexivity].
  - exists (y :: r'). right. reflexivity.
Qed.

(* a field whose first character is neither white space, a sign nor a digit is not an integer *)
Lemma py_int_head c r :
  py_space c = false -> N.eqb c 45 = false -> N.eqb c 43 = false -> digit_val c = None -> py_int (c :: r) = None.
Proof.
  intros Hsp H45 H43 Hd. unfold py_int. cbn [lstrip]. rewrite Hsp.
  destruct (rstrip_head c r) as (x & [[_ Hc]|E]); [congruence|]. rewrite E, H45, H43.
  cbn [digits_of]. rewrite Hd. rewrite andb_false_r. reflexivity.
Qed.

Lemma py_int_py_type kind : py_int (py_prefix ++ kind) = None.
Proof. apply py_int_head; reflexivity. Qed.

Lemma py_int_minus_one : py_int minus_one = Some (-1)%Z.
Proof. reflexivity. Qed.

(* ================================================================== str.splitlines *)
Definition no_break (t : text) : Prop := Forall (fun c => is_linebreak c = false) t.

Lemma splitlines_line b rest : no_break b -> splitlines (b ++ 10 :: rest) = b :: splitlines rest.
Proof.
  induction b as [|c b IH]; intros Hb; cbn [app splitlines].
  - change (is_linebreak 10) with true. cbv iota. destruct rest as [|x r']; [reflexivity|]. reflexivity.
  - inversion Hb as [|? ? Hc Hb']; subst. rewrite Hc, (IH Hb'). reflexivity.
Qed.

Lemma splitlines_lines bodies :
  Forall no_break bodies -> splitlines (concat (map (fun b => b ++ [10]) bodies)) = bodies.
Proof.
  induction bodies as [|b bs IH]; intros H; [reflexivity|].
  inversion H as [|? ? Hb Hbs]; subst. cbn [map concat]. rewrite <- app_assoc. cbn [app].
  rewrite splitlines_line by exact Hb. rewrite IH by exact Hbs. reflexivity.
Qed.

(* ================================================================== dict *)
Lemma lookup_set_same k v d : lookup k (dict_set k v d) = Some v.
Proof.
  induction d as [|[k' v'] d IH]; cbn [dict_set lookup].
  - rewrite text_eqb_refl. reflexivity.
  - destruct (text_eqb k k') eqn:E; cbn [lookup]; rewrite E; [reflexivity|exact IH].
Qed.

Lemma lookup_set_other k k' v d : k <> k' -> lookup k (dict_set k' v d) = lookup k d.
Proof.
  intros Hne. induction d as [|[k2 v2] d IH]; cbn [dict_set lookup].
  - apply text_eqb_neq in Hne. rewrite Hne. reflexivity.
  - destruct (text_eqb k' k2) eqn:E; cbn [lookup].
    + apply text_eqb_eq in E. subst k2. apply text_eqb_neq in Hne. rewrite Hne. reflexivity.
    + destruct (text_eqb k k2); [reflexivity|exact IH].
Qed.

Lemma lookup_none_notin k (d : dict) : ~ In k (map fst d) -> lookup k d = None.
Proof.
  induction d as [|[k' v'] d IH]; intros H; cbn [lookup]; [reflexivity|].
  destruct (text_eqb k k') eqn:E.
  - apply text_eqb_eq in E. exfalso. apply H. left. symmetry. exact E.
  - apply IH. intros Hin. apply H. right. exact Hin.
Qed.

Lemma lookup_in_nodup k v (d : dict) : NoDup (map fst d) -> In (k, v) d -> lookup k d = Some v.
Proof.
  induction d as [|[k' v'] d IH]; intros Hnd Hin; [contradiction|].
  cbn [map fst] in Hnd. inversion Hnd as [|? ? Hnotin Hnd']; subst. cbn [lookup].
  destruct Hin as [E|Hin].
  - inversion E; subst. rewrite text_eqb_refl. reflexivity.
  - destruct (text_eqb k k') eqn:E.
    + apply text_eqb_eq in E. subst k'. exfalso. apply Hnotin. change k with (fst (k, v)). apply in_map, Hin.
    + apply IH; assumption.
Qed.

Lemma lookup_some_in k v (d : dict) : lookup k d = Some v -> In (k, v) d.
Proof.
  induction d as [|[k' v'] d IH]; cbn [lookup]; [discriminate|].
  destruct (text_eqb k k') eqn:E.
  - apply text_eqb_eq in E. subst k'. intros H. inversion H; subst. left. reflexivity.
  - intros H. right. apply IH, H.
Qed.

Lemma dict_set_fresh k v (d : dict) : ~ In k (map fst d) -> dict_set k v d = d ++ [(k, v)].
Proof.
  induction d as [|[k' v'] d IH]; intros H; cbn [dict_set app]; [reflexivity|].
  destruct (text_eqb k k') eqn:E.
  - apply text_eqb_eq in E. exfalso. apply H. left. symmetry. exact E.
  - f_equal. apply IH. intros Hin. apply H. right. exact Hin.
Qed.

Lemma dict_update_nil d : dict_update d [] = d.
Proof. reflexivity. Qed.

(* setting pairwise distinct fresh keys one after the other appends them in order *)
Lemma fold_set_fresh (es : list (text * (text * text))) : forall d,
  NoDup (map fst es) -> (forall k, In k (map fst es) -> ~ In k (map fst d)) ->
  fold_left (fun acc kv => dict_set (fst kv) (snd kv) acc) es d = d ++ es.
Proof.
  induction es as [|[k v] es IH]; intros d Hnd Hfresh; cbn [fold_left]; [symmetry; apply app_nil_r|].
  cbn [map fst] in Hnd. inversion Hnd as [|? ? Hk Hnd']; subst. cbn [fst snd].
  rewrite dict_set_fresh by (apply Hfresh; left; reflexivity).
  rewrite IH; [rewrite <- app_assoc; reflexivity|exact Hnd'|].
  intros k' Hin. rewrite map_app, in_app_iff. intros [H|[H|[]]].
  - apply (Hfresh k'); [right; exact Hin|exact H].
  - cbn in H. subst k'. contradiction.
Qed.

(* ================================================================== _parseInventory *)
Section InventoryProofs.
  Variable pl : text -> outcome columns.
  Hypothesis pl_total : total_line pl.
  Variable base : text.

  Definition is_py (c : columns) : bool := starts_with py_prefix (c_typ c).

  (* what one line does to the map / to the reports *)
  Definition line_step (result : dict) (line : text) : dict :=
    match pl line with
    | Ok c => if is_py c then dict_set (c_name c) (base, c_loc c) result else result
    | Raise _ => result
    end.
  Definition line_reports (line : text) : list report :=
    match pl line with
    | Ok _ => []
    | Raise _ => [RLine line base]
    end.

  Lemma parse_lines_eq lines : forall result reps,
    parse_lines pl base lines result reps
    = Ok (fold_left line_step lines result, reps ++ flat_map line_reports lines).
  Proof.
    induction lines as [|l ls IH]; intros result reps; cbn [parse_lines fold_left flat_map].
    - rewrite app_nil_r. reflexivity.
    - unfold line_step at 2, line_reports at 1.
      destruct (pl_total l) as [(c & E)|E]; rewrite E.
      + fold (is_py c). destruct (is_py c); rewrite IH; reflexivity.
      + rewrite IH, <- app_assoc. reflexivity.
  Qed.

  (* the last usable line for a name decides *)
  Fixpoint last_def (n : text) (lines : list text) : option (text * text) :=
    match lines with
    | [] => None
    | l :: ls =>
      match last_def n ls with
      | Some v => Some v
      | None => match pl l with
                | Ok c => if is_py c && text_eqb n (c_name c) then Some (base, c_loc c) else None
                | Raise _ => None
                end
      end
    end.

  Lemma lookup_fold n lines : forall d,
    lookup n (fold_left line_step lines d)
    = match last_def n lines with Some v => Some v | None => lookup n d end.
  Proof.
    induction lines as [|l ls IH]; intros d; cbn [fold_left last_def]; [reflexivity|].
    rewrite IH. destruct (last_def n ls); [reflexivity|].
    unfold line_step. destruct (pl l) as [c|e]; [|reflexivity].
    destruct (is_py c); cbn [andb]; [|reflexivity].
    destruct (text_eqb n (c_name c)) eqn:E.
    - apply text_eqb_eq in E. subst n. apply lookup_set_same.
    - apply text_eqb_neq in E. apply lookup_set_other, E.
  Qed.

  Lemma last_def_none n lines :
    (forall l c, In l lines -> pl l = Ok c -> is_py c = true -> c_name c <> n) -> last_def n lines = None.
  Proof.
    induction lines as [|l ls IH]; intros H; cbn [last_def]; [reflexivity|].
    rewrite IH by (intros l' c' Hin; apply H; right; exact Hin).
    destruct (pl l) as [c|e] eqn:E; [|reflexivity].
    destruct (is_py c) eqn:Ep; cbn [andb]; [|reflexivity].
    destruct (text_eqb n (c_name c)) eqn:En; [|reflexivity].
    apply text_eqb_eq in En. exfalso. apply (H l c); [left; reflexivity|exact E|exact Ep|congruence].
  Qed.

  Lemma last_def_app n pre post :
    last_def n (pre ++ post) = match last_def n post with Some v => Some v | None => last_def n pre end.
  Proof.
    induction pre as [|l ls IH]; cbn [app last_def]; [destruct (last_def n post); reflexivity|].
    rewrite IH. destruct (last_def n post); reflexivity.
  Qed.

  Lemma last_def_some n lines v :
    last_def n lines = Some v ->
    exists l c, In l lines /\ pl l = Ok c /\ is_py c = true /\ c_name c = n /\ v = (base, c_loc c).
  Proof.
    induction lines as [|l ls IH]; cbn [last_def]; [discriminate|].
    destruct (last_def n ls) as [v'|].
    - intros H. inversion H; subst v'. destruct (IH eq_refl) as (l' & c & Hin & Hrest).
      exists l', c. split; [right; exact Hin|exact Hrest].
    - destruct (pl l) as [c|e] eqn:E; [|discriminate].
      destruct (is_py c) eqn:Ep; cbn [andb]; [|discriminate].
      destruct (text_eqb n (c_name c)) eqn:En; [|discriminate].
      apply text_eqb_eq in En. intros H. inversion H; subst v.
      exists l, c. split; [left; reflexivity|]. split; [exact E|]. split; [exact Ep|]. split; [congruence|reflexivity].
  Qed.

  (* C17_bad_parts_skipped, on a list of lines *)
  Lemma bad_parts_skipped lines :
    exists links,
      parse_lines pl base lines [] [] = Ok (links, flat_map line_reports lines) /\
      (forall pre l post c,
          lines = pre ++ l :: post -> pl l = Ok c -> is_py c = true ->
          (forall l' c', In l' post -> pl l' = Ok c' -> is_py c' = true -> c_name c' <> c_name c) ->
          lookup (c_name c) links = Some (base, c_loc c)) /\
      (forall n v, lookup n links = Some v ->
                   exists l c, In l lines /\ pl l = Ok c /\ is_py c = true /\ c_name c = n /\ v = (base, c_loc c)).
  Proof.
    exists (fold_left line_step lines []). split; [rewrite parse_lines_eq; reflexivity|]. split.
    - intros pre l post c -> Hl Hpy Hlater. rewrite lookup_fold.
      change (pre ++ l :: post) with (pre ++ [l] ++ post). rewrite app_assoc, last_def_app.
      rewrite (last_def_none (c_name c) post Hlater). rewrite last_def_app. cbn [last_def].
      rewrite Hl, Hpy, text_eqb_refl. reflexivity.
    - intros n v. rewrite lookup_fold. destruct (last_def n lines) as [v'|] eqn:E; [|discriminate].
      intros H. inversion H; subst v'. apply last_def_some, E.
  Qed.

  Lemma parse_inventory_eq payload :
    parse_inventory pl base payload
    = Ok (fold_left line_step (splitlines payload) [], flat_map line_reports (splitlines payload)).
  Proof. unfold parse_inventory. apply parse_lines_eq. Qed.
End InventoryProofs.

(* ================================================================== _getPayload / update *)
Lemma split1_some c t a b : split1 c t = Some (a, b) -> t = a ++ c :: b /\ ~ In c a.
Proof.
  revert a b. induction t as [|x r IH]; intros a b; cbn [split1]; [discriminate|].
  destruct (N.eqb x c) eqn:E.
  - apply N.eqb_eq in E. subst x. intros H. inversion H; subst. split; [reflexivity|intros []].
  - destruct (split1 c r) as [[a' b']|] eqn:Es; [|discriminate]. intros H. inversion H; subst.
    destruct (IH a' b eq_refl) as [-> Hn]. split; [reflexivity|].
    intros [Hx|Hin]; [subst x; rewrite N.eqb_refl in E; discriminate|exact (Hn Hin)].
Qed.

Lemma split1_none c t : split1 c t = None -> ~ In c t.
Proof.
  induction t as [|x r IH]; cbn [split1]; [intros _ []|].
  destruct (N.eqb x c) eqn:E; [discriminate|]. destruct (split1 c r) as [[a b]|]; [discriminate|].
  intros _ [Hx|Hin]; [subst x; rewrite N.eqb_refl in E; discriminate|exact (IH eq_refl Hin)].
Qed.

Lemma split1_first c a b : ~ In c a -> split1 c (a ++ c :: b) = Some (a, b).
Proof.
  induction a as [|x a IH]; intros H; cbn [app split1].
  - rewrite N.eqb_refl. reflexivity.
  - destruct (N.eqb x c) eqn:E; [apply N.eqb_eq in E; exfalso; apply H; left; exact E|].
    rewrite IH; [reflexivity|]. intros Hin. apply H. right. exact Hin.
Qed.

Lemma split1_notin c t : ~ In c t -> split1 c t = None.
Proof.
  induction t as [|x r IH]; intros H; cbn [split1]; [reflexivity|].
  destruct (N.eqb x c) eqn:E; [apply N.eqb_eq in E; exfalso; apply H; left; exact E|].
  rewrite IH; [reflexivity|]. intros Hin. apply H. right. exact Hin.
Qed.

Lemma rsplit1_none c t : rsplit1 c t = None <-> ~ In c t.
Proof.
  induction t as [|x r IH]; cbn [rsplit1]; [split; [intros _ []|reflexivity]|].
  destruct (rsplit1 c r) as [[a b]|].
  - split; [discriminate|]. intros H. exfalso. apply H. right.
    destruct (in_dec N.eq_dec c r) as [Hin|Hn]; [exact Hin|]. apply IH in Hn. discriminate.
  - destruct (N.eqb x c) eqn:E.
    + split; [discriminate|]. intros H. exfalso. apply H. left. apply N.eqb_eq, E.
    + split; [|reflexivity]. intros _ [Hx|Hin]; [subst x; rewrite N.eqb_refl in E; discriminate|].
      apply (proj1 IH eq_refl), Hin.
Qed.

Lemma rsplit1_some c t a b : rsplit1 c t = Some (a, b) -> t = a ++ c :: b /\ ~ In c b.
Proof.
  revert a b. induction t as [|x r IH]; intros a b; cbn [rsplit1]; [discriminate|].
  destruct (rsplit1 c r) as [[a' b']|] eqn:Es.
  - intros H. inversion H; subst. destruct (IH a' b eq_refl) as [-> Hn]. split; [reflexivity|exact Hn].
  - destruct (N.eqb x c) eqn:E; [|discriminate]. apply N.eqb_eq in E. subst x.
    intros H. inversion H; subst. split; [reflexivity|]. apply rsplit1_none, Es.
Qed.

Lemma rsplit1_last c base rest : ~ In c rest -> rsplit1 c (base ++ c :: rest) = Some (base, rest).
Proof.
  intros Hn. induction base as [|x b IH]; cbn [app rsplit1].
  - apply rsplit1_none in Hn. rewrite Hn, N.eqb_refl. reflexivity.
  - rewrite IH. reflexivity.
Qed.

(* the fuelled loop computes the specified stripping and never runs out of fuel *)
Lemma strip_comments_stripped fuel : forall data,
  (length data < fuel)%nat -> exists p, strip_comments fuel data = Ok p /\ stripped data p.
Proof.
  induction fuel as [|f IH]; intros data Hf; [lia|]. cbn [strip_comments].
  destruct (split1 10 data) as [[first rest]|] eqn:Es.
  - destruct (split1_some _ _ _ _ Es) as [-> Hn].
    destruct (starts_with_char 35 first) eqn:Eh.
    + destruct first as [|x first]; [discriminate|]. cbn [starts_with_char] in Eh. apply N.eqb_eq in Eh. subst x.
      destruct (IH rest) as (p & Hp & Hs).
      { rewrite app_length in Hf. cbn [length] in Hf. lia. }
      exists p. split; [exact Hp|]. apply stripped_comment; [|exact Hs].
      intros Hin. apply Hn. right. exact Hin.
    + eexists. split; [reflexivity|]. apply stripped_not_comment.
      destruct first; [reflexivity|exact Eh].
  - eexists. split; [reflexivity|]. apply stripped_no_newline, split1_none, Es.
Qed.

Lemma stripped_strip_comments data p : stripped data p -> forall fuel, (length data < fuel)%nat -> strip_comments fuel data = Ok p.
Proof.
  induction 1 as [d Hn|d Hh|l rest p Hn Hs IH]; intros fuel Hf; (destruct fuel as [|f]; [lia|]); cbn [strip_comments].
  - rewrite split1_notin by exact Hn. reflexivity.
  - destruct (split1 10 d) as [[first rest]|] eqn:Es; [|reflexivity].
    destruct (split1_some _ _ _ _ Es) as [-> _].
    destruct first; [reflexivity|]. cbn [app starts_with_char] in *. rewrite Hh. reflexivity.
  - rewrite split1_first.
    + cbn [starts_with_char]. rewrite N.eqb_refl. apply IH. rewrite app_length in Hf. cbn [length] in Hf. lia.
    + intros [H|H]; [discriminate|exact (Hn H)].
Qed.

Section UpdateProofs.
  Variable pl : text -> outcome columns.
  Hypothesis pl_total : total_line pl.
  Variable decompress : list N -> option (list N).
  Variable decode_utf8 : list N -> option text.

  Lemma get_payload_cases base data :
    exists p, stripped data p /\
      ((decompress p = None /\ get_payload decompress decode_utf8 base data = Ok ([], [RUncompress base])) \/
       (exists raw, decompress p = Some raw /\ decode_utf8 raw = None /\
                    get_payload decompress decode_utf8 base data = Ok ([], [RDecode base])) \/
       (exists raw t, decompress p = Some raw /\ decode_utf8 raw = Some t /\
                      get_payload decompress decode_utf8 base data = Ok (t, []))).
  Proof.
    unfold get_payload.
    assert (Hlt : (length data < strip_fuel data)%nat) by (unfold strip_fuel; lia).
    destruct (strip_comments_stripped _ _ Hlt) as (p & Hp & Hs). rewrite Hp.
    exists p. split; [exact Hs|].
    destruct (decompress p) as [raw|]; [|left; split; reflexivity]. right.
    destruct (decode_utf8 raw) as [t|] eqn:Eu.
    - right. exists raw, t. rewrite Eu. repeat split; reflexivity.
    - left. exists raw. rewrite Eu. repeat split; reflexivity.
  Qed.

  (* C17_update_total: for every byte string (and every URL, every behaviour of zlib and of the codec) update returns *)
  Lemma update_total links url data :
    exists links' reps, update pl decompress decode_utf8 links url data = Ok (links', reps).
  Proof.
    unfold update. destruct (rsplit1 47 url) as [[base rest]|]; [|eauto].
    destruct data as [[|b d]|]; [eauto| |eauto].
    destruct (get_payload_cases base (b :: d)) as (p & _ & [[_ ->]|[(raw & _ & _ & ->)|(raw & t & _ & _ & ->)]]);
      rewrite parse_inventory_eq by exact pl_total; eauto.
  Qed.

  (* C17_payload_stages *)
  Lemma stage_no_base links url data :
    ~ In 47 url -> update pl decompress decode_utf8 links url data = Ok (links, [RNoBase url]).
  Proof. intros H. unfold update. apply rsplit1_none in H. rewrite H. reflexivity. Qed.

  Lemma stage_no_data links url data :
    In 47 url -> data = None \/ data = Some [] ->
    update pl decompress decode_utf8 links url data = Ok (links, [RNoData url]).
  Proof.
    intros Hin Hd. unfold update. destruct (rsplit1 47 url) as [[base rest]|] eqn:E.
    - destruct Hd as [-> | ->]; reflexivity.
    - apply rsplit1_none in E. contradiction.
  Qed.

  Lemma stage_uncompress links base rest d p :
    ~ In 47 rest -> d <> [] -> stripped d p -> decompress p = None ->
    update pl decompress decode_utf8 links (base ++ 47 :: rest) (Some d) = Ok (links, [RUncompress base]).
  Proof.
    intros Hrest Hd Hs Hz. unfold update.
    rewrite rsplit1_last by exact Hrest. destruct d as [|x d]; [contradiction|].
    unfold get_payload. rewrite (stripped_strip_comments _ _ Hs) by (unfold strip_fuel; lia). rewrite Hz.
    rewrite parse_inventory_eq by exact pl_total. reflexivity.
  Qed.

  Lemma stage_decode links base rest d p raw :
    ~ In 47 rest -> d <> [] -> stripped d p -> decompress p = Some raw -> decode_utf8 raw = None ->
    update pl decompress decode_utf8 links (base ++ 47 :: rest) (Some d) = Ok (links, [RDecode base]).
  Proof.
    intros Hrest Hd Hs Hz Hu. unfold update.
    rewrite rsplit1_last by exact Hrest. destruct d as [|x d]; [contradiction|].
    unfold get_payload. rewrite (stripped_strip_comments _ _ Hs) by (unfold strip_fuel; lia). rewrite Hz, Hu.
    rewrite parse_inventory_eq by exact pl_total. reflexivity.
  Qed.
End UpdateProofs.

(* ================================================================== getLink *)
Lemma ends_with_char_last c t : ends_with_char c (t ++ [c]) = true.
Proof. unfold ends_with_char. rewrite rev_unit. apply N.eqb_refl. Qed.

Lemma get_link_dollar links name base loc :
  lookup name links = Some (base, loc ++ [36]) -> get_link links name = Some (base ++ [47] ++ loc ++ name).
Proof.
  intros H. unfold get_link. rewrite H. destruct (loc ++ [36]) eqn:E; [destruct loc; discriminate|].
  cbn [is_empty]. rewrite <- E. rewrite ends_with_char_last, removelast_last. reflexivity.
Qed.

Lemma get_link_plain links name base rel :
  lookup name links = Some (base, rel) -> rel <> [] -> ends_with_char 36 rel = false ->
  get_link links name = Some (base ++ [47] ++ rel).
Proof.
  intros H Hne He. unfold get_link. rewrite H, He. destruct rel; [contradiction|]. reflexivity.
Qed.

Lemma get_link_none links name :
  lookup name links = None \/ (exists base, lookup name links = Some (base, [])) -> get_link links name = None.
Proof. intros [H|(b & H)]; unfold get_link; rewrite H; reflexivity. Qed.

(* ================================================================== the writer *)
Lemma obj_ind' (P : obj -> Prop) :
  (forall n t h cs, Forall P cs -> P (Obj n t h cs)) -> forall o, P o.
Proof.
  intros H. fix IH 1. intros [n t h cs]. apply H.
  induction cs as [|c cs IHcs]; constructor; [apply IH|exact IHcs].
Qed.

Lemma over_map {X Y} (h : X -> Y) (f : obj -> list Y) (g : obj -> list X) cs :
  Forall (fun c => f c = map h (g c)) cs -> over f cs = map h (over g cs).
Proof.
  induction cs as [|c cs IH]; intros H; cbn [over]; [reflexivity|].
  inversion H as [|? ? Hc Hcs]; subst. rewrite map_app, Hc. f_equal. apply IH, Hcs.
Qed.

Lemma in_over {X} (f : obj -> list X) cs x : In x (over f cs) <-> exists c, In c cs /\ In x (f c).
Proof.
  induction cs as [|c cs IH]; cbn [over].
  - split; [intros []|intros (c & [] & _)].
  - rewrite in_app_iff, IH. split.
    + intros [H|(c' & Hc & Hx)]; [exists c; split; [left; reflexivity|exact H]|exists c'; split; [right; exact Hc|exact Hx]].
    + intros (c' & [->|Hc] & Hx); [left; exact Hx|right; exists c'; split; assumption].
Qed.

Definition body_of (e : entry) : text := line_body (e_name e) (py_prefix ++ domain_name (e_tag e)) (e_url e).

Lemma gen_obj_entries roots o : forall pf pvis,
  gen_obj roots pf pvis o = map (fun e => body_of e ++ [10]) (entries_obj roots pf pvis o).
Proof.
  induction o as [n t h cs IH] using obj_ind'. intros pf pvis. cbn [gen_obj entries_obj].
  destruct (negb h && pvis); [|reflexivity]. cbn [map]. f_equal.
  apply over_map. eapply Forall_impl; [|exact IH]. intros c Hc. apply Hc.
Qed.

Lemma gen_lines_entries roots subjects :
  gen_lines roots subjects = map (fun e => body_of e ++ [10]) (entries roots subjects).
Proof.
  unfold gen_lines, entries. apply over_map. apply Forall_forall. intros o _. apply gen_obj_entries.
Qed.

(* entries = the listed objects *)
Lemma listed_not_hidden subjects pf o : listed subjects pf o -> o_hidden o = false.
Proof. intros H. inversion H; assumption. Qed.

Lemma entries_obj_head roots pf o : o_hidden o = false -> In (entry_of roots pf o) (entries_obj roots pf true o).
Proof. destruct o as [n t h cs]. cbn [o_hidden]. intros ->. cbn [entries_obj negb andb]. left. reflexivity. Qed.

Lemma entries_obj_member roots pf p c e :
  o_hidden p = false -> In c (o_contents p) ->
  In e (entries_obj roots (Some (full_name pf (o_name p))) true c) -> In e (entries_obj roots pf true p).
Proof.
  destruct p as [n t h cs]. cbn [o_hidden o_contents o_name]. intros -> Hc He.
  cbn [entries_obj negb andb]. right. apply in_over. exists c. split; assumption.
Qed.

Lemma listed_incl roots subjects pf o :
  listed subjects pf o -> incl (entries_obj roots pf true o) (entries roots subjects).
Proof.
  induction 1 as [o Hin Hh|pf p c Hp IH Hc Hh]; intros e He.
  - apply in_over. exists o. split; assumption.
  - apply IH. eapply entries_obj_member; [eapply listed_not_hidden; exact Hp|exact Hc|exact He].
Qed.

Lemma listed_in_entries roots subjects pf o :
  listed subjects pf o -> In (entry_of roots pf o) (entries roots subjects).
Proof.
  intros H. apply (listed_incl roots _ _ _ H). apply entries_obj_head. eapply listed_not_hidden, H.
Qed.

Lemma entries_obj_listed roots subjects o : forall pf e,
  listed subjects pf o -> In e (entries_obj roots pf true o) ->
  exists pf' o', listed subjects pf' o' /\ e = entry_of roots pf' o'.
Proof.
  induction o as [n t h cs IH] using obj_ind'. intros pf e Hl He.
  assert (Hh := listed_not_hidden _ _ _ Hl). cbn [o_hidden] in Hh. subst h.
  cbn [entries_obj negb andb] in He. destruct He as [<-|He]; [eauto|].
  apply in_over in He. destruct He as (c & Hc & He).
  rewrite Forall_forall in IH.
  destruct (o_hidden c) eqn:Ehc.
  - destruct c as [n' t' h' cs']. cbn [o_hidden] in Ehc. subst h'. cbn [entries_obj negb andb] in He. contradiction.
  - apply (IH c Hc (Some (full_name pf n)) e); [|exact He].
    change (Some (full_name pf n)) with (Some (full_name pf (o_name (Obj n t false cs)))).
    apply listed_member; [exact Hl|exact Hc|exact Ehc].
Qed.

Lemma entries_listed roots subjects e :
  In e (entries roots subjects) <-> exists pf o, listed subjects pf o /\ e = entry_of roots pf o.
Proof.
  split.
  - intros He. apply in_over in He. destruct He as (o & Ho & He).
    destruct (o_hidden o) eqn:Eh.
    + destruct o as [n t h cs]. cbn [o_hidden] in Eh. subst h. cbn [entries_obj negb andb] in He. contradiction.
    + eapply entries_obj_listed; [apply listed_subject; eassumption|exact He].
  - intros (pf & o & Hl & ->). apply listed_in_entries, Hl.
Qed.

(* ---- characters of a written URL *)
Definition url_char (x : N) : Prop := 45 <= x <= 126 \/ x = 37 \/ x = 35.

Lemma quote_safe_range c : quote_safe c = true -> 45 <= c <= 126.
Proof.
  unfold quote_safe, is_alnum. rewrite !orb_true_iff, !andb_true_iff, !N.leb_le, !N.eqb_eq. lia.
Qed.

Lemma hex_digit_range n : n < 16 -> 48 <= hex_digit n <= 70.
Proof. intros H. unfold hex_digit. destruct (N.ltb n 10) eqn:E; [apply N.ltb_lt in E|apply N.ltb_ge in E]; lia. Qed.

Lemma pct_chars b x : In x (pct b) -> url_char x.
Proof.
  unfold pct. intros [<-|[<-|[<-|[]]]]; [right; left; reflexivity| |].
  - left. assert (H := hex_digit_range ((b / 16) mod 16) ltac:(apply N.mod_lt; discriminate)). lia.
  - left. assert (H := hex_digit_range (b mod 16) ltac:(apply N.mod_lt; discriminate)). lia.
Qed.

Lemma quote_chars t : Forall url_char (quote t).
Proof.
  apply Forall_forall. intros x Hx. unfold quote in Hx. apply in_flat_map in Hx. destruct Hx as (c & _ & Hx).
  unfold quote_char in Hx. destruct (quote_safe c) eqn:E.
  - destruct Hx as [<-|[]]. left. apply quote_safe_range, E.
  - apply in_flat_map in Hx. destruct Hx as (b & _ & Hx). eapply pct_chars, Hx.
Qed.

Lemma url_char_by_compute t : forallb (fun x => N.leb 45 x && N.leb x 126) t = true -> Forall url_char t.
Proof.
  intros H. apply Forall_forall. intros x Hx. rewrite forallb_forall in H. specialize (H x Hx).
  apply andb_true_iff in H. rewrite !N.leb_le in H. left. lia.
Qed.

Lemma page_url_chars roots pf : Forall url_char (page_url roots pf).
Proof.
  unfold page_url. destruct (is_only_root roots pf).
  - apply url_char_by_compute. reflexivity.
  - apply Forall_app. split; [apply quote_chars|apply url_char_by_compute; reflexivity].
Qed.

Lemma url_of_chars roots pf name tag : Forall url_char (url_of roots pf name tag).
Proof.
  unfold url_of. destruct pf as [p|]; [|apply page_url_chars].
  destruct (own_page tag); [apply page_url_chars|].
  apply Forall_app. split; [apply page_url_chars|]. apply Forall_app. split; [|apply quote_chars].
  constructor; [right; right; reflexivity|constructor].
Qed.

Lemma url_char_facts x : url_char x -> x <> 32 /\ x <> 36 /\ is_linebreak x = false.
Proof.
  intros H. split; [unfold url_char in H; lia|]. split; [unfold url_char in H; lia|].
  unfold is_linebreak. rewrite !orb_false_iff, !N.eqb_neq. unfold url_char in H. lia.
Qed.

Lemma url_of_nonempty roots pf name tag : url_of roots pf name tag <> [].
Proof.
  assert (Hp : forall f, page_url roots f <> []).
  { intros f. unfold page_url. destruct (is_only_root roots f); [discriminate|].
    intros E. apply app_eq_nil in E. destruct E as [_ E]. discriminate. }
  unfold url_of. destruct pf as [p|]; [|apply Hp]. destruct (own_page tag); [apply Hp|].
  intros E. apply app_eq_nil in E. destruct E as [E _]. exact (Hp _ E).
Qed.

Lemma no_break_by_compute t : forallb (fun c => negb (is_linebreak c)) t = true -> no_break t.
Proof.
  intros H. apply Forall_forall. intros x Hx. rewrite forallb_forall in H. specialize (H x Hx).
  apply negb_true_iff, H.
Qed.

Lemma notin_by_compute c t : forallb (fun x => negb (N.eqb x c)) t = true -> ~ In c t.
Proof.
  intros H Hin. rewrite forallb_forall in H. specialize (H c Hin). rewrite N.eqb_refl in H. discriminate.
Qed.

Lemma py_type_facts tag :
  no_break (py_prefix ++ domain_name tag) /\ ~ In SP (py_prefix ++ domain_name tag) /\
  starts_with py_prefix (py_prefix ++ domain_name tag) = true.
Proof.
  unfold domain_name.
  destruct (N.eqb tag 0); [|destruct (N.eqb tag 1); [|destruct (N.eqb tag 2); [|destruct (N.eqb tag 3); [|destruct (N.eqb tag 4)]]]];
    (split; [apply no_break_by_compute; reflexivity|split; [apply notin_by_compute; reflexivity|reflexivity]]).
Qed.

(* the guard of the line round trip: every space separated piece of the name from index 2 on is rejected by int() *)
Definition int_guard (int_of : text -> option Z) (name : text) : Prop :=
  forall j q, (2 <= j)%nat -> nth_error (split_on SP name) j = Some q -> int_of q = None.

Definition name_ok (name : text) : Prop := no_break name /\ int_guard py_int name.

Lemma entries_wf roots subjects e :
  In e (entries roots subjects) -> Forall url_char (e_url e) /\ e_url e <> [].
Proof.
  intros He. apply entries_listed in He. destruct He as (pf & o & _ & ->). cbn [entry_of e_url].
  split; [apply url_of_chars|apply url_of_nonempty].
Qed.

Lemma url_chars_no_break t : Forall url_char t -> no_break t.
Proof. intros H. eapply Forall_impl; [|exact H]. intros x Hx. apply url_char_facts, Hx. Qed.

Lemma url_chars_no_space t : Forall url_char t -> ~ In SP t.
Proof.
  intros H Hin. rewrite Forall_forall in H. destruct (url_char_facts _ (H _ Hin)) as (H32 & _). apply H32. reflexivity.
Qed.

Lemma url_chars_no_dollar t : Forall url_char t -> ends_with_char 36 t = false.
Proof.
  intros H. unfold ends_with_char. destruct (rev t) as [|x r] eqn:E; [reflexivity|].
  assert (Hin : In x t) by (apply in_rev; rewrite E; left; reflexivity).
  rewrite Forall_forall in H. destruct (url_char_facts _ (H _ Hin)) as (_ & H36 & _). apply N.eqb_neq, H36.
Qed.

Lemma body_no_break e : no_break (e_name e) -> Forall url_char (e_url e) -> no_break (body_of e).
Proof.
  intros Hn Hu. unfold body_of, line_body. destruct (py_type_facts (e_tag e)) as (Ht & _ & _).
  apply url_chars_no_break in Hu.
  set (typ := py_prefix ++ domain_name (e_tag e)) in *. unfold no_break in *.
  rewrite !Forall_app. repeat split; try assumption; apply no_break_by_compute; reflexivity.
Qed.

Lemma body_parses e :
  int_guard py_int (e_name e) -> Forall url_char (e_url e) ->
  parse_line py_int (body_of e)
  = Ok (Cols (e_name e) (py_prefix ++ domain_name (e_tag e)) (-1) (e_url e) dash).
Proof.
  intros Hg Hu. destruct (py_type_facts (e_tag e)) as (_ & Hsp & _).
  apply line_roundtrip; [reflexivity|exact Hsp|apply url_chars_no_space, Hu|apply py_int_py_type|exact Hg].
Qed.

(* ---- utf-8 *)
Lemma utf8_char_ascii c x : x < 128 -> In x (utf8_char c) -> x = c.
Proof.
  intros Hx. unfold utf8_char.
  assert (big : forall a b, 128 <=? a = true -> a + b < 128 -> False).
  { intros a b Ha Hab. apply N.leb_le in Ha. assert (a <= a + b) by apply N.le_add_r. lia. }
  destruct (N.ltb c 128); [intros [<-|[]]; reflexivity|].
  destruct (N.ltb c 2048); [intros [<-|[<-|[]]]; exfalso; eapply big; try exact Hx; reflexivity|].
  destruct (N.ltb c 65536);
    [intros [<-|[<-|[<-|[]]]]|intros [<-|[<-|[<-|[<-|[]]]]]]; exfalso; eapply big; try exact Hx; reflexivity.
Qed.

Lemma encode_utf8_ascii x t : x < 128 -> In x (encode_utf8 t) -> In x t.
Proof.
  intros Hx Hin. unfold encode_utf8 in Hin. apply in_flat_map in Hin. destruct Hin as (c & Hc & Hin).
  apply (utf8_char_ascii c x Hx) in Hin. subst x. exact Hc.
Qed.

Lemma encode_utf8_app a b : encode_utf8 (a ++ b) = encode_utf8 a ++ encode_utf8 b.
Proof. apply flat_map_app. Qed.

Lemma encode_utf8_concat ls : concat (map encode_utf8 ls) = encode_utf8 (concat ls).
Proof.
  induction ls as [|l ls IH]; [reflexivity|]. cbn [map concat]. rewrite encode_utf8_app, IH. reflexivity.
Qed.

(* ---- the header is four comment lines *)
Lemma header_stripped project version z :
  ~ In 10 project -> ~ In 10 version -> starts_with_char 35 z = false ->
  stripped (encode_utf8 (header project version) ++ z) z.
Proof.
  intros Hp Hv Hz. unfold header.
  rewrite !encode_utf8_app.
  match goal with
  | |- stripped ((encode_utf8 ?l1 ++ encode_utf8 ?l2 ++ ?ep ++ encode_utf8 [10] ++ encode_utf8 ?l3 ++ ?ev ++
                  encode_utf8 [10] ++ encode_utf8 ?l4) ++ z) z =>
    change (encode_utf8 l1) with l1; change (encode_utf8 l2) with l2; change (encode_utf8 l3) with l3;
    change (encode_utf8 l4) with l4; change (encode_utf8 [10]) with [10]
  end.
  assert (Hep : ~ In 10 (encode_utf8 project)) by (intros H; apply Hp, (encode_utf8_ascii 10); [reflexivity|exact H]).
  assert (Hev : ~ In 10 (encode_utf8 version)) by (intros H; apply Hv, (encode_utf8_ascii 10); [reflexivity|exact H]).
  set (ep := encode_utf8 project) in *. set (ev := encode_utf8 version) in *.
  cbn [app]. rewrite <- !app_assoc. cbn [app].
  assert (step : forall l rest p d, d = (35 :: l) ++ 10 :: rest -> ~ In 10 l -> stripped rest p -> stripped d p)
    by (intros l rest p d -> Hl Hs; apply stripped_comment; assumption).
  (* line 1 *)
  eapply (step [32; 83; 112; 104; 105; 110; 120; 32; 105; 110; 118; 101; 110; 116; 111; 114; 121; 32; 118; 101; 114; 115;
                105; 111; 110; 32; 50]); [reflexivity|apply notin_by_compute; reflexivity|].
  (* line 2 *)
  eapply (step ([32; 80; 114; 111; 106; 101; 99; 116; 58; 32] ++ ep)); [cbn [app]; rewrite <- ?app_assoc; reflexivity| |].
  { intros H. apply in_app_or in H. destruct H as [H|H]; [revert H; apply notin_by_compute; reflexivity|exact (Hep H)]. }
  (* line 3 *)
  eapply (step ([32; 86; 101; 114; 115; 105; 111; 110; 58; 32] ++ ev)); [cbn [app]; rewrite <- ?app_assoc; reflexivity| |].
  { intros H. apply in_app_or in H. destruct H as [H|H]; [revert H; apply notin_by_compute; reflexivity|exact (Hev H)]. }
  (* line 4 *)
  eapply (step [32; 84; 104; 101; 32; 114; 101; 115; 116; 32; 111; 102; 32; 116; 104; 105; 115; 32; 102; 105; 108; 101; 32;
                105; 115; 32; 99; 111; 109; 112; 114; 101; 115; 115; 101; 100; 32; 119; 105; 116; 104; 32; 122; 108; 105; 98;
                46]); [reflexivity|apply notin_by_compute; reflexivity|].
  apply stripped_not_comment, Hz.
Qed.

(* ================================================================== the whole inventory read back *)
Definition objects_inv : text := [111; 98; 106; 101; 99; 116; 115; 46; 105; 110; 118].   (* "objects.inv" *)

Definition link_of (base : text) (e : entry) : text * (text * text) := (e_name e, (base, e_url e)).

Section RoundTrip.
  Variable compress : list N -> list N.
  Variable decompress : list N -> option (list N).
  Variable decode_utf8 : list N -> option text.

  (* the bytes handed to zlib.compress, and the text they encode *)
  Definition content_text (roots : list text) (subjects : list obj) : text := concat (gen_lines roots subjects).
  Definition content_bytes (roots : list text) (subjects : list obj) : list N :=
    concat (map encode_utf8 (gen_lines roots subjects)).

  (* what is assumed of zlib and of the utf-8 codec, on this content only:
     decompress inverts compress, a zlib stream does not begin with '#', decoding inverts encoding *)
  Definition codec_contract (roots : list text) (subjects : list obj) : Prop :=
    decompress (compress (content_bytes roots subjects)) = Some (content_bytes roots subjects) /\
    starts_with_char 35 (compress (content_bytes roots subjects)) = false /\
    decode_utf8 (content_bytes roots subjects) = Some (content_text roots subjects).

  Lemma fold_line_step_entries base (es : list entry) : forall d,
    (forall e, In e es -> int_guard py_int (e_name e) /\ Forall url_char (e_url e)) ->
    fold_left (line_step (parse_line py_int) base) (map body_of es) d
    = fold_left (fun acc kv => dict_set (fst kv) (snd kv) acc) (map (link_of base) es) d.
  Proof.
    induction es as [|e es IH]; intros d H; [reflexivity|]. cbn [map fold_left].
    destruct (H e (or_introl eq_refl)) as (Hg & Hu).
    unfold line_step at 2. rewrite (body_parses e Hg Hu). unfold is_py. cbn [c_typ c_name c_loc].
    destruct (py_type_facts (e_tag e)) as (_ & _ & ->).
    apply IH. intros e' He'. apply H. right. exact He'.
  Qed.

  Lemma line_reports_entries base (es : list entry) :
    (forall e, In e es -> int_guard py_int (e_name e) /\ Forall url_char (e_url e)) ->
    flat_map (line_reports (parse_line py_int) base) (map body_of es) = [].
  Proof.
    induction es as [|e es IH]; intros H; [reflexivity|]. cbn [map flat_map].
    destruct (H e (or_introl eq_refl)) as (Hg & Hu).
    unfold line_reports at 1. rewrite (body_parses e Hg Hu). cbn [app].
    apply IH. intros e' He'. apply H. right. exact He'.
  Qed.

  (* C17_inventory_roundtrip *)
  Lemma inventory_roundtrip project version roots subjects base :
    codec_contract roots subjects ->
    ~ In 10 project -> ~ In 10 version ->
    (forall e, In e (entries roots subjects) -> name_ok (e_name e)) ->
    NoDup (map e_name (entries roots subjects)) ->
    update (parse_line py_int) decompress decode_utf8 [] (base ++ 47 :: objects_inv)
           (Some (generate compress project version roots subjects))
    = Ok (map (link_of base) (entries roots subjects), []).
  Proof.
    intros (zlib_inverse & zlib_magic & utf8_inverse) Hp Hv Hok Hnd. set (es := entries roots subjects) in *.
    unfold content_bytes, content_text in *.
    unfold update. rewrite rsplit1_last by (apply notin_by_compute; reflexivity).
    unfold generate.
    set (z := compress (concat (map encode_utf8 (gen_lines roots subjects)))).
    assert (Hs : stripped (encode_utf8 (header project version) ++ z) z)
      by (apply header_stripped; [exact Hp|exact Hv|apply zlib_magic]).
    destruct (encode_utf8 (header project version) ++ z) as [|b0 d0] eqn:Ed.
    { exfalso. unfold header in Ed. rewrite !encode_utf8_app in Ed. cbn in Ed. discriminate. }
    unfold get_payload. rewrite (stripped_strip_comments _ _ Hs) by (unfold strip_fuel; lia).
    unfold z. rewrite zlib_inverse, utf8_inverse.
    rewrite parse_inventory_eq by apply parse_line_total.
    rewrite gen_lines_entries. fold es.
    assert (Hwf : forall e, In e es -> int_guard py_int (e_name e) /\ Forall url_char (e_url e)).
    { intros e He. split; [apply (Hok e He)|apply (entries_wf roots subjects e He)]. }
    assert (Hlines : splitlines (concat (map (fun e => body_of e ++ [10]) es)) = map body_of es).
    { rewrite <- (map_map body_of (fun b => b ++ [10])). apply splitlines_lines.
      apply Forall_forall. intros b Hb. apply in_map_iff in Hb. destruct Hb as (e & <- & He).
      apply body_no_break; [apply (Hok e He)|apply (Hwf e He)]. }
    rewrite Hlines, (line_reports_entries base es Hwf), (fold_line_step_entries base es [] Hwf).
    assert (Hnd' : NoDup (map fst (map (link_of base) es))) by (rewrite map_map; exact Hnd).
    rewrite fold_set_fresh by (exact Hnd' || (intros k _ [])). cbn [app].
    unfold dict_update. rewrite fold_set_fresh by (exact Hnd' || (intros k _ [])). reflexivity.
  Qed.

  (* and every entry resolves through getLink to base/url *)
  Lemma roundtrip_get_link roots subjects base e :
    NoDup (map e_name (entries roots subjects)) -> In e (entries roots subjects) ->
    get_link (map (link_of base) (entries roots subjects)) (e_name e) = Some (base ++ [47] ++ e_url e).
  Proof.
    intros Hnd He. destruct (entries_wf roots subjects e He) as (Hu & Hne).
    apply get_link_plain; [|exact Hne|apply url_chars_no_dollar, Hu].
    apply lookup_in_nodup; [rewrite map_map; exact Hnd|].
    change (e_name e, (base, e_url e)) with (link_of base e). apply in_map, He.
  Qed.
End RoundTrip.

Lemma line_roundtrip_py name kind url :
  int_guard py_int name -> ~ In SP kind -> ~ In SP url ->
  parse_line py_int (line_body name (py_prefix ++ kind) url) = Ok (Cols name (py_prefix ++ kind) (-1) url dash).
Proof.
  intros Hg Hk Hu. apply line_roundtrip; [reflexivity| |exact Hu|apply py_int_py_type|exact Hg].
  intros H. apply in_app_or in H. destruct H as [H|H]; [revert H; apply notin_by_compute; reflexivity|exact (Hk H)].
Qed.

(* ================================================================== written lines are in Sphinx's grammar *)
Lemma written_line_v2 name typ url :
  name <> [] -> typ <> [] -> non_space typ -> non_space url ->
  v2_line (line_body name typ url) (Cols name typ (-1) url dash).
Proof.
  intros Hn Ht Hts Hus. exists sp, sp, minus_one, sp, sp. cbn [c_name c_typ c_prio c_loc c_disp].
  assert (Hsp : ws_run sp) by (split; [discriminate|constructor; [reflexivity|constructor]]).
  split; [reflexivity|].
  split; [exact Hn|]. split; [exact Hsp|]. split; [exact Ht|]. split; [exact Hts|]. split; [exact Hsp|].
  split; [|split; [exact Hsp|split; [exact Hus|exact Hsp]]].
  exists true, [49]. split; [discriminate|]. split; [constructor; [reflexivity|constructor]|]. split; reflexivity.
Qed.

(* ================================================================== the statements of Props/C17.v *)
Lemma parse_line_meaning (int_of : text -> option Z) (line : text) (c : columns) :
  parse_line int_of line = Ok c <-> pd_line int_of line c.
Proof. split; [apply parse_line_sound|apply parse_line_complete]. Qed.

Lemma update_total_any (int_of : text -> option Z) (decompress : list N -> option (list N))
      (decode_utf8 : list N -> option text) (links : dict) (url : text) (data : option (list N)) :
  exists links' reps, update (parse_line int_of) decompress decode_utf8 links url data = Ok (links', reps).
Proof. exact (update_total _ (parse_line_total int_of) decompress decode_utf8 links url data). Qed.

Lemma bad_parts_skipped_payload (int_of : text -> option Z) (base payload : text) :
  let pl := parse_line int_of in
  let lines := splitlines payload in
  exists links,
    parse_inventory pl base payload = Ok (links, flat_map (line_reports pl base) lines) /\
    (forall pre l post c,
        lines = pre ++ l :: post -> pl l = Ok c -> is_py c = true ->
        (forall l' c', In l' post -> pl l' = Ok c' -> is_py c' = true -> c_name c' <> c_name c) ->
        lookup (c_name c) links = Some (base, c_loc c)) /\
    (forall n v, lookup n links = Some v ->
                 exists l c, In l lines /\ pl l = Ok c /\ is_py c = true /\ c_name c = n /\ v = (base, c_loc c)).
Proof. exact (bad_parts_skipped _ (parse_line_total int_of) base (splitlines payload)). Qed.

Lemma payload_stages (int_of : text -> option Z) (decompress : list N -> option (list N))
      (decode_utf8 : list N -> option text) (links : dict) :
  let upd := update (parse_line int_of) decompress decode_utf8 links in
  (forall url data, ~ In 47 url -> upd url data = Ok (links, [RNoBase url])) /\
  (forall url data, In 47 url -> data = None \/ data = Some [] -> upd url data = Ok (links, [RNoData url])) /\
  (forall base rest d p, ~ In 47 rest -> d <> [] -> stripped d p -> decompress p = None ->
                         upd (base ++ 47 :: rest) (Some d) = Ok (links, [RUncompress base])) /\
  (forall base rest d p raw, ~ In 47 rest -> d <> [] -> stripped d p -> decompress p = Some raw ->
                             decode_utf8 raw = None ->
                             upd (base ++ 47 :: rest) (Some d) = Ok (links, [RDecode base])).
Proof.
  cbv zeta.
  split; [intros url data; apply stage_no_base|].
  split; [intros url data; apply stage_no_data|].
  split; [intros base rest d p; apply stage_uncompress; apply parse_line_total|].
  intros base rest d p raw; apply stage_decode; apply parse_line_total.
Qed.

Lemma comment_stripping data : exists p, strip_comments (strip_fuel data) data = Ok p /\ stripped data p.
Proof. apply strip_comments_stripped. unfold strip_fuel. apply Nat.lt_succ_diag_r. Qed.

Lemma getlink_all (links : dict) (name base : text) :
  (forall loc, lookup name links = Some (base, loc ++ [36]) ->
               get_link links name = Some (base ++ [47] ++ loc ++ name)) /\
  (forall rel, lookup name links = Some (base, rel) -> rel <> [] -> ends_with_char 36 rel = false ->
               get_link links name = Some (base ++ [47] ++ rel)) /\
  (lookup name links = None \/ lookup name links = Some (base, []) -> get_link links name = None).
Proof.
  split; [intros loc; apply get_link_dollar|]. split; [intros rel; apply get_link_plain|].
  intros [H|H]; apply get_link_none; [left; exact H|right; exists base; exact H].
Qed.

(* System.fetchIntersphinxInventories: the loop over all configured inventories returns, whatever each one holds *)
Lemma update_all_total (int_of : text -> option Z) (decompress : list N -> option (list N))
      (decode_utf8 : list N -> option text) (fetches : list (text * option (list N))) :
  forall links reps,
    exists links' reps',
      update_all (update (parse_line int_of) decompress decode_utf8) links reps fetches = Ok (links', reps').
Proof.
  induction fetches as [|[url data] rest IH]; intros links reps; cbn [update_all]; [eauto|].
  destruct (update_total_any int_of decompress decode_utf8 links url data) as (l & r & ->). apply IH.
Qed.

(* ================================================================== driver.make: the subjects of the two writers *)
(* whenever HTML is written the inventory is written too, for exactly the objects whose pages are written;
   without HTML the inventory (if asked for) covers the root objects; otherwise nothing is written *)
Lemma make_subjects_agree {S} (o : make_options S) (roots : list S) :
  (o_makehtml o = true ->
     exists subjects, make_subjects o roots = (Some subjects, Some subjects) /\
       subjects = match o_htmlsubjects o with
                  | _ :: _ => o_htmlsubjects o
                  | [] => if o_summarypages o then [] else roots
                  end) /\
  (o_makehtml o = false -> o_makeintersphinx o = true -> make_subjects o roots = (None, Some roots)) /\
  (o_makehtml o = false -> o_makeintersphinx o = false -> make_subjects o roots = (None, None)).
Proof.
  unfold make_subjects. destruct (o_makehtml o), (o_makeintersphinx o);
    (split; [intros H; try discriminate; eexists; split; reflexivity|split; intros H1 H2; try discriminate; reflexivity]).
Qed.

(* ================================================================== through the docstring linker *)
(* every entry of a written inventory that has been loaded resolves, from every object of every system (whatever its
   root names -- also when they share the top-level package of the entry), to the page and anchor it is documented at *)
Lemma linker_resolves_entries roots subjects base e (root_names : list text) (obj_full : text) :
  NoDup (map e_name (entries roots subjects)) -> In e (entries roots subjects) ->
  look_for_intersphinx (map (link_of base) (entries roots subjects)) root_names obj_full (e_name e)
  = Some (base ++ [47] ++ e_url e).
Proof. unfold look_for_intersphinx. apply roundtrip_get_link. Qed.

(* and every usable line of any loaded payload resolves through the linker like through getLink *)
Lemma linker_is_getlink links (root_names : list text) (obj_full name : text) :
  look_for_intersphinx links root_names obj_full name = get_link links name.
Proof. reflexivity. Qed.

(* a subject that is not visible (itself hidden, or -- for an --html-subject below the roots -- any ancestor hidden:
   `hidden` of a subject is `not isVisible`) contributes nothing, whatever it contains *)
Lemma invisible_subject_lists_nothing roots n t cs rest :
  gen_lines roots (Obj n t true cs :: rest) = gen_lines roots rest /\
  entries roots (Obj n t true cs :: rest) = entries roots rest.
Proof. split; reflexivity. Qed.
