(* Proofs/ProjectReach.v -- after a re-export (Proofs/ProjectMove.v), the consumers of the moved object: a module
   that binds a name to R.n by its import statements, or that knows the defining module D under a module alias,
   reaches the moved object in the FINAL state of every schedule (name expansion, resolveName, link_to). *)
From Coq Require Import ZArith NArith List Bool Lia Permutation.
From PydoctorVerif Require Import Base.Sexp Model.Project Model.Linker Spec.ProjectStatic Proofs.ProjectBase Proofs.ProjectRegistry
     Proofs.ProjectKeep Proofs.ProjectAlias Proofs.ProjectMove Proofs.ProjectBases Proofs.LinkerProofs Proofs.ProjectRoots.
Import ListNotations.
Local Open Scope N_scope.

Section StaticChildren.
  Variable p : project.
  Hypothesis Hwf : parents_first p.

  (* the children of a module in the static reading: its definitions and its sub-modules *)
  Lemma module_child_names o C miC :
    sparent p o = Some (C, 0, 0) -> modinfo_of p C = Some miC ->
    In (sname p o) (def_names miC) \/ In (sname p o) (submodule_names p C).
  Proof.
    intros Hp HC. destruct (sparent_shape p Hwf o (C, 0, 0) Hp) as [Hd Hs]. destruct o as [[m i] j]. cbn [fst snd] in Hs.
    destruct Hs as [(-> & -> & _ & _ & _)|[(Hi & -> & E)|(Hi & Hj & E)]].
    - right. unfold sparent, sname, sobj in *. cbn [N.eqb] in *. destruct (modinfo_of p m) as [mi|] eqn:Em; [|congruence].
      cbn [s_parent s_name] in *. destruct (m_parent mi) as [q|] eqn:Eq; [|discriminate]. inversion Hp; subst q.
      unfold submodule_names. apply in_flat_map. exists mi. split; [unfold modinfo_of in Em; apply nth_error_In in Em; exact Em|].
      rewrite Eq, N.eqb_refl. left. reflexivity.
    - left. inversion E; subst m. unfold sname. unfold sobj in *. apply N.eqb_neq in Hi. rewrite Hi in *.
      destruct (stmt_at p C i) as [st|] eqn:Est; [|congruence]. unfold stmt_at in Est. rewrite HC, Hi in Est.
      apply nth_error_In in Est. unfold def_names. apply in_flat_map. exists st. split; [exact Est|].
      destruct st; cbn [stmt_info N.eqb s_name def_name] in *; try congruence; left; reflexivity.
    - exfalso. inversion E. congruence.
  Qed.
End StaticChildren.

Section Reach.
  Variable p : project.
  Variables (R D ix xname n : N).
  Notation x := (D, ix, 0).
  Notation Rm := (R, 0, 0).
  Notation Dm := (D, 0, 0).
  Notation nmA := (nm1 p D ix n).
  Notation parA := (par1 p R D ix).
  Notation keyA := (key p nmA parA).

  Hypothesis Hwf : parents_first p.
  Hypothesis H0 : keys_distinct p.
  Hypothesis HRD : R <> D.
  Hypothesis Hix : ix <> 0.
  Hypothesis Hxdom : sobj p x <> None.
  Hypothesis Hxname : sname p x = xname.
  Variables (miR miD : modinfo).
  Hypothesis HR_mod : modinfo_of p R = Some miR.
  Hypothesis HD_mod : modinfo_of p D = Some miD.
  (* the consumer *)
  Variables (C : N) (miC : modinfo).
  Hypothesis HC_mod : modinfo_of p C = Some miC.
  Hypothesis HC_R : C <> R.
  Notation Cm := (C, 0, 0).
  (* what the machine proofs (Proofs/ProjectMove.v, Proofs/ProjectMoveStar.v) establish about the final state *)
  Hypothesis Hfinal : forall sigma, Permutation sigma (module_ids p) ->
    exists s, run_state p sigma = Ok s /\ Inv p nmA parA (fun s => created_of p s x) s /\ frames s = [] /\ unproc s = [] /\
              (exists db, objs s Dm = Some db /\ nget xname (o_alias db) = Some (keyA x)) /\
              exists cb, objs s Cm = Some cb /\ o_alias cb = static_alias p C.

  Lemma keyA_x : keyA x = skey p Rm ++ [n].
  Proof.
    unfold key, depth_fuel. replace (length p + 4)%nat with (S (length p + 3)) by lia. cbn [qname_f].
    unfold par1 at 1. unfold nm1 at 2. rewrite oid_eqb_refl.
    rewrite (key1_nonsub_f p R D ix n Hix (length p + 3) Rm) by (apply Rm_nonsub; exact HRD).
    f_equal. unfold skey, depth_fuel.
    assert (HR : (N.to_nat R < length p)%nat) by (unfold modinfo_of in HR_mod; apply nth_error_Some; congruence).
    apply (qname_module_stable p Hwf (length p) R); lia.
  Qed.

  (* what the final state looks like for the consumer *)
  Record final_facts (s : state) : Prop := {
    ff_fuel : dfuel s <> 0%nat;
    ff_c : exists cb, objs s Cm = Some cb /\ is_module_tag (o_tag cb) = true /\ o_alias cb = static_alias p C /\
                      (forall a, ~ In a (def_names miC) -> ~ In a (submodule_names p C) -> nget a (o_contents cb) = None);
    ff_d : exists db, objs s Dm = Some db /\ is_module_tag (o_tag db) = true /\ nget xname (o_contents db) = None /\
                      nget xname (o_alias db) = Some (keyA x);
    ff_regx : pget (keyA x) (allobjs s) = Some x;
    ff_regd : pget (skey p Dm) (allobjs s) = Some Dm }.

  Lemma module_tag_static s m mi mb (nm' : oid -> N) (par' : oid -> option oid) (X : oid -> Prop) :
    OA p nm' par' X s -> modinfo_of p m = Some mi -> objs s (m, 0, 0) = Some mb -> is_module_tag (o_tag mb) = true.
  Proof.
    intros HA Hmi Hmb.
    assert (Hs : sobj p (m, 0, 0) = Some {| s_tag := if m_pkg mi then T_PACKAGE else T_MODULE; s_kind := if m_pkg mi then K_PACKAGE else K_MODULE;
                                          s_name := m_name mi; s_parent := match m_parent mi with Some q => Some (q, 0, 0) | None => None end;
                                          s_doc := m_doc mi |}) by (unfold sobj; cbn [N.eqb]; rewrite Hmi; reflexivity).
    destruct (oa_static _ _ _ _ _ HA _ mb _ Hmb Hs) as (Ht & _). cbn [s_tag] in Ht. rewrite Ht. destruct (m_pkg mi); reflexivity.
  Qed.

  Lemma final_state sigma : Permutation sigma (module_ids p) -> exists s, run_state p sigma = Ok s /\ final_facts s.
  Proof.
    intros Hperm.
    destruct (Hfinal sigma Hperm) as (s & Hrun & HI & Hfr & Hun & (db & Ed & Ea) & (cb & Ecb & Acb)).
    exists s. split; [exact Hrun|].
    pose proof (i_oa p _ _ _ s HI) as HA. pose proof (i_or p _ _ _ s HI) as HR'.
    assert (Hcr : forall o, created_of p s o <-> sobj p o <> None).
    { intros o. unfold created_of, pending_of. rewrite Hfr, Hun. split; [tauto|]. intros Hd. split; [exact Hd|]. right.
      intros [[]|(fr & st & [] & _)]. }
    assert (Hnx : nmA x = n /\ parA x = Some Rm) by (unfold nm1, par1; rewrite oid_eqb_refl; auto).
    destruct Hnx as [Hnx Hpx].
    assert (Hother : forall o, o <> x -> nmA o = sname p o /\ parA o = sparent p o).
    { intros o Ho. unfold nm1, par1. rewrite (oid_eqb_neq o x Ho). auto. }
    assert (Cx : created_of p s x) by (apply Hcr; exact Hxdom).
    constructor.
    - rewrite (oa_fuel _ _ _ _ _ HA). unfold depth_fuel. lia.
    - exists cb. split; [exact Ecb|]. split; [exact (module_tag_static s C miC cb _ _ _ HA HC_mod Ecb)|]. split; [exact Acb|].
      intros a Hnd Hns. destruct (nget a (o_contents cb)) as [o|] eqn:Eg; [|reflexivity]. exfalso.
      destruct (oa_contents _ _ _ _ _ HA Cm cb a o Ecb Eg) as (Co & Po & No).
      assert (Hox : o <> x) by (intros ->; rewrite Hpx in Po; inversion Po; congruence).
      destruct (Hother o Hox) as [En Ep]. rewrite En in No. rewrite Ep in Po.
      destruct (module_child_names p Hwf o C miC Po HC_mod) as [Hx|Hx]; rewrite No in Hx; contradiction.
    - exists db. split; [exact Ed|]. split; [exact (module_tag_static s D miD db _ _ _ HA HD_mod Ed)|]. split; [|exact Ea].
      destruct (nget xname (o_contents db)) as [o|] eqn:Eg; [|reflexivity]. exfalso.
      destruct (oa_contents _ _ _ _ _ HA Dm db xname o Ed Eg) as (Co & Po & No).
      assert (Hox : o <> x) by (intros ->; rewrite Hpx in Po; inversion Po; congruence).
      destruct (Hother o Hox) as [En Ep]. rewrite En in No. rewrite Ep in Po. apply Hox.
      apply H0; [apply (oa_dom _ _ _ _ _ HA); exact Co|exact Hxdom|].
      apply (key_same p (sname p) (sparent p)); [rewrite (sparent_x p D ix Hix Hxdom); exact Po|congruence].
    - apply (or_complete _ _ _ _ _ HR'). exact Cx.
    - assert (HkD : keyA Dm = skey p Dm) by (apply (key1_nonsub p R D ix n Hix); apply Dm_nonsub; exact Hix).
      rewrite <- HkD. apply (or_complete _ _ _ _ _ HR'). apply Hcr. unfold sobj. cbn [N.eqb]. rewrite HD_mod. discriminate.
  Qed.

  (* `from R import n as a` (any spelling that makes the import statements of C bind a to R.n) *)
  Theorem reach_via_reexporter a :
    nget a (static_alias p C) = Some (skey p Rm ++ [n]) -> ~ In a (def_names miC) -> ~ In a (submodule_names p C) ->
    forall sigma, Permutation sigma (module_ids p) ->
    exists s, run_state p sigma = Ok s /\
              expand_name s Cm [a] = keyA x /\ resolve_name s Cm [a] = Some x /\ link_to s Cm [a] = Some x.
  Proof.
    intros Ha Hnd Hns sigma Hperm. destruct (final_state sigma Hperm) as (s & Hrun & [Hfuel (cb & Ecb & Tcb & Acb & Ccb) _ Hrx _]).
    exists s. split; [exact Hrun|].
    apply (reach_by_alias s Cm cb a (keyA x) x Hfuel Ecb Tcb (Ccb a Hnd Hns)); [|exact Hrx].
    rewrite Acb, keyA_x. exact Ha.
  Qed.

  (* `import D as d` (any spelling that makes the import statements of C bind d to the module D): d.xname *)
  Theorem reach_via_module_alias d :
    nget d (static_alias p C) = Some (skey p Dm) -> ~ In d (def_names miC) -> ~ In d (submodule_names p C) ->
    forall sigma, Permutation sigma (module_ids p) ->
    exists s, run_state p sigma = Ok s /\
              expand_name s Cm [d; xname] = keyA x /\ resolve_name s Cm [d; xname] = Some x /\ link_to s Cm [d; xname] = Some x.
  Proof.
    intros Ha Hnd Hns sigma Hperm.
    destruct (final_state sigma Hperm) as (s & Hrun & [Hfuel (cb & Ecb & Tcb & Acb & Ccb) (db & Ed & Td & Cd & Ad) Hrx Hrd]).
    exists s. split; [exact Hrun|].
    apply (reach_by_module_alias s Cm cb d (skey p Dm) Dm db xname (keyA x) x Hfuel Ecb Tcb (Ccb d Hnd Hns)); try assumption.
    - rewrite Acb. exact Ha.
    - rewrite keyA_x. pose proof (skey_nonempty p Rm) as Hne. destruct (skey p Rm) as [|h t]; [congruence|].
      destruct t; discriminate.
  Qed.
End Reach.

(* System.find_object with the OLD qualified name of the moved object, D a top-level module *)
Section FindOld.
  Variable p : project.
  Variables (R D ix xname n : N).
  Notation x := (D, ix, 0).
  Notation Rm := (R, 0, 0).
  Notation Dm := (D, 0, 0).
  Notation nmA := (nm1 p D ix n).
  Notation parA := (par1 p R D ix).
  Notation keyA := (key p nmA parA).

  Hypothesis Hwf : parents_first p.
  Hypothesis H0 : keys_distinct p.
  Hypothesis H1 : forall o o', sobj p o <> None -> sobj p o' <> None -> keyA o = keyA o' -> o = o'.
  Hypothesis HRD : R <> D.
  Hypothesis Hix : ix <> 0.
  Hypothesis Hxdom : sobj p x <> None.
  Hypothesis Hxname : sname p x = xname.
  Variables (miR miD : modinfo) (spre spost : list stmt) (lvl : N) (mn : path) (npre npost : list (N * N)).
  Hypothesis HR_mod : modinfo_of p R = Some miR.
  Hypothesis HR_stmts : m_stmts miR = spre ++ SImportFrom lvl mn (npre ++ (xname, n) :: npost) :: spost.
  Hypothesis HR_once_names : forall oa, In oa (npre ++ npost) -> snd oa <> n.
  Hypothesis HR_once_stmts : forall lv m' nms oa, In (SImportFrom lv m' nms) (spre ++ spost) -> In oa nms -> snd oa <> n.
  Hypothesis HR_exp : In n (exports_of_mod miR).
  Hypothesis HR_res : static_modname p R lvl mn = Some (skey p Dm).
  Hypothesis HD_mod : modinfo_of p D = Some miD.
  Hypothesis HD_leaf : forall st, In st (m_stmts miD) -> local_stmt st = true.
  Hypothesis HD_all : forall a, last_all (m_stmts miD) None = Some a -> ~ In xname a.
  Hypothesis Honly : forall m mi st, modinfo_of p m = Some mi -> In st (m_stmts mi) ->
    match st with
    | SImportFrom _ _ nms => forall oa, In oa nms -> In (snd oa) (exports_of_mod mi) -> m = R /\ snd oa = n
    | SImportStar _ _ => exports_of_mod mi = []
    | _ => True
    end.
  Hypothesis HD_root : m_parent miD = None.

  Lemma sobj_Dm : sobj p Dm = Some {| s_tag := if m_pkg miD then T_PACKAGE else T_MODULE; s_kind := if m_pkg miD then K_PACKAGE else K_MODULE;
                                      s_name := m_name miD; s_parent := None; s_doc := m_doc miD |}.
  Proof. unfold sobj. cbn [N.eqb]. rewrite HD_mod, HD_root. reflexivity. Qed.

  Lemma skey_x_old : skey p x = [m_name miD; xname].
  Proof.
    rewrite (skey_parent p Hwf x Dm (sparent_x p D ix Hix Hxdom)), Hxname.
    rewrite (skey_root p Dm) by (unfold sparent; rewrite sobj_Dm; reflexivity). unfold sname. rewrite sobj_Dm. reflexivity.
  Qed.

  Theorem find_object_old_name sigma :
    Permutation sigma (module_ids p) ->
    exists s, run_state p sigma = Ok s /\ find_object s (skey p x) = (1, Some x).
  Proof.
    intros Hperm.
    destruct (moved_final0 p R D ix xname n Hwf H0 H1 HRD Hix Hxdom Hxname miR miD spre spost lvl mn npre npost HR_mod HR_stmts
                HR_once_names HR_once_stmts HR_exp HR_res HD_mod HD_leaf HD_all Honly sigma Hperm)
      as (s & Hrun & HI & Hfr & Hun & (db & Ed & Ea)).
    exists s. split; [exact Hrun|].
    pose proof (i_oa p _ _ _ s HI) as HA. pose proof (i_or p _ _ _ s HI) as HR'.
    assert (Hroots : roots s = roots (init_state p sigma)) by (unfold run_state in Hrun; exact (run_machine_roots p _ _ _ Hrun)).
    assert (Hcr : forall o, created_of p s o <-> sobj p o <> None).
    { intros o. unfold created_of, pending_of. rewrite Hfr, Hun. split; [tauto|]. intros Hd. split; [exact Hd|]. right.
      intros [[]|(fr & st & [] & _)]. }
    assert (Hnx : nmA x = n /\ parA x = Some Rm) by (unfold nm1, par1; rewrite oid_eqb_refl; auto).
    destruct Hnx as [Hnx Hpx].
    assert (Hother : forall o, o <> x -> nmA o = sname p o /\ parA o = sparent p o).
    { intros o Ho. unfold nm1, par1. rewrite (oid_eqb_neq o x Ho). auto. }
    assert (Cx : created_of p s x) by (apply Hcr; exact Hxdom).
    assert (HkR : keyA x = skey p Rm ++ [n]).
    { unfold key, depth_fuel. replace (length p + 4)%nat with (S (length p + 3)) by lia. cbn [qname_f].
      unfold par1 at 1. unfold nm1 at 2. rewrite oid_eqb_refl.
      rewrite (key1_nonsub_f p R D ix n Hix (length p + 3) Rm) by (apply Rm_nonsub; exact HRD).
      f_equal. unfold skey, depth_fuel.
      assert (HR : (N.to_nat R < length p)%nat) by (unfold modinfo_of in HR_mod; apply nth_error_Some; congruence).
      apply (qname_module_stable p Hwf (length p) R); lia. }
    (* the old name is no longer registered *)
    assert (Hold : pget (skey p x) (allobjs s) = None).
    { destruct (pget (skey p x) (allobjs s)) as [o|] eqn:Eg; [|reflexivity]. exfalso.
      destruct (or_sound _ _ _ _ _ HR' _ o Eg) as [Co Ko]. apply Hcr in Co.
      destruct (oid_eq_dec o x) as [->|Hox].
      - rewrite HkR, (skey_parent p Hwf x Dm (sparent_x p D ix Hix Hxdom)) in Ko. apply app_inj_tail in Ko. destruct Ko as [Ko _].
        assert (E : Rm = Dm) by (apply H0; [unfold sobj; cbn [N.eqb]; rewrite HR_mod; discriminate|rewrite sobj_Dm; discriminate|exact Ko]).
        inversion E. congruence.
      - destruct (Hother o Hox) as [En Ep].
        destruct (sparent p o) as [q|] eqn:Eq.
        + (* o has a parent: either x itself (a member: the key is too long) or something outside the moved sub-tree *)
          destruct (oid_eq_dec q x) as [->|Hqx].
          * assert (Hlen : (3 <= length (keyA o))%nat).
            { unfold key, depth_fuel. replace (length p + 4)%nat with (S (S (S (length p + 1)))) by lia.
              change (qname_f nmA parA (S (S (S (length p + 1)))) o)
                with (match parA o with None => [nmA o] | Some q0 => qname_f nmA parA (S (S (length p + 1))) q0 ++ [nmA o] end).
              rewrite Ep.
              change (qname_f nmA parA (S (S (length p + 1))) x)
                with (match parA x with None => [nmA x] | Some q0 => qname_f nmA parA (S (length p + 1)) q0 ++ [nmA x] end).
              rewrite Hpx. rewrite !app_length. cbn [length].
              assert (1 <= length (qname_f nmA parA (S (length p + 1)) Rm))%nat.
              { cbn [qname_f]. destruct (parA Rm); [rewrite app_length; cbn [length]; lia|cbn [length]; lia]. }
              lia. }
            rewrite Ko, skey_x_old in Hlen. cbn [length] in Hlen. lia.
          * assert (Hns : ~ sub D ix o).
            { intros [Hs1 Hs2]. destruct o as [[om oi] oj]. cbn [fst snd] in Hs1, Hs2. subst om oi.
              destruct (sparent_shape p Hwf (D, ix, oj) q Eq) as [_ [(Hz & _)|[(_ & Hj & _)|(_ & _ & Hq)]]]; cbn [fst snd] in *.
              - contradiction.
              - subst oj. apply Hox. reflexivity.
              - apply Hqx. exact Hq. }
            rewrite (key1_nonsub p R D ix n Hix o Hns) in Ko. apply Hox. apply H0; [exact Co|exact Hxdom|exact Ko].
        + assert (Hns : ~ sub D ix o).
          { intros [Hs1 Hs2]. destruct o as [[om oi] oj]. cbn [fst snd] in Hs1, Hs2. subst om oi.
            unfold sparent in Eq. destruct (sobj p (D, ix, oj)) as [si|] eqn:Es; [|congruence].
            unfold sobj in Es. apply N.eqb_neq in Hix. rewrite Hix in Es. destruct (stmt_at p D ix) as [st|]; [|discriminate].
            destruct st; cbn [stmt_info] in Es; try discriminate.
            - destruct (N.eqb oj 0); [inversion Es; subst si; discriminate|].
              destruct (nth_error members (N.to_nat (oj - 1))) as [[[mk nn] dd]|]; [|discriminate].
              inversion Es; subst si. unfold member_info in Eq. destruct (N.eqb mk 0); discriminate.
            - destruct (N.eqb oj 0); [inversion Es; subst si; discriminate|discriminate].
            - destruct (N.eqb oj 0); [inversion Es; subst si; discriminate|discriminate]. }
          rewrite (key1_nonsub p R D ix n Hix o Hns) in Ko. apply Hox. apply H0; [exact Co|exact Hxdom|exact Ko]. }
    (* the defining module, found among the roots by its name *)
    assert (Hdmod : is_module_tag (o_tag db) = true).
    { destruct (oa_static _ _ _ _ _ HA Dm db _ Ed sobj_Dm) as (Ht & _). cbn [s_tag] in Ht. rewrite Ht. destruct (m_pkg miD); reflexivity. }
    assert (Hcont : nget xname (o_contents db) = None).
    { destruct (nget xname (o_contents db)) as [o|] eqn:Eg; [|reflexivity]. exfalso.
      destruct (oa_contents _ _ _ _ _ HA Dm db xname o Ed Eg) as (Co & Po & No).
      assert (Hox : o <> x) by (intros ->; rewrite Hpx in Po; inversion Po; congruence).
      destruct (Hother o Hox) as [En Ep]. rewrite En in No. rewrite Ep in Po. apply Hox.
      apply H0; [apply (oa_dom _ _ _ _ _ HA); exact Co|exact Hxdom|].
      apply (key_same p (sname p) (sparent p)); [rewrite (sparent_x p D ix Hix Hxdom); exact Po|congruence]. }
    assert (Hfind : find (fun r => match objs s r with Some rb => N.eqb (o_name rb) (m_name miD) | None => false end) (roots s) = Some Dm).
    { apply find_unique.
      - rewrite Hroots. apply roots_init. exists D, miD. auto.
      - rewrite Ed. destruct (oa_static _ _ _ _ _ HA Dm db _ Ed sobj_Dm) as (_ & _ & Hn & _).
        rewrite Hn. destruct (Hother Dm ltac:(intros E; inversion E; congruence)) as [-> _]. unfold sname. rewrite sobj_Dm. apply N.eqb_refl.
      - intros r Hr Hf. rewrite Hroots in Hr. apply roots_init in Hr. destruct Hr as (m & mi & Hm & Hp & ->).
        destruct (objs s (m, 0, 0)) as [rb|] eqn:Er; [|discriminate]. apply N.eqb_eq in Hf.
        assert (Hsm : sobj p (m, 0, 0) = Some {| s_tag := if m_pkg mi then T_PACKAGE else T_MODULE; s_kind := if m_pkg mi then K_PACKAGE else K_MODULE;
                                                s_name := m_name mi; s_parent := None; s_doc := m_doc mi |})
          by (unfold sobj; cbn [N.eqb]; rewrite Hm, Hp; reflexivity).
        destruct (oa_static _ _ _ _ _ HA (m, 0, 0) rb _ Er Hsm) as (_ & _ & Hn & _).
        destruct (Hother (m, 0, 0) ltac:(intros E; inversion E; congruence)) as [En _]. rewrite En in Hn. unfold sname in Hn. rewrite Hsm in Hn.
        cbn [s_name] in Hn.
        apply H0; [rewrite Hsm; discriminate|rewrite sobj_Dm; discriminate|].
        rewrite (skey_root p (m, 0, 0)) by (unfold sparent; rewrite Hsm; reflexivity).
        rewrite (skey_root p Dm) by (unfold sparent; rewrite sobj_Dm; reflexivity).
        unfold sname. rewrite Hsm, sobj_Dm. cbn [s_name]. congruence. }
    rewrite skey_x_old. rewrite skey_x_old in Hold.
    apply (find_object_old_root s (m_name miD) Dm db xname (keyA x) x); try assumption.
    - rewrite (oa_fuel _ _ _ _ _ HA). unfold depth_fuel. lia.
    - apply (or_complete _ _ _ _ _ HR'). exact Cx.
  Qed.
End FindOld.

