(* Proofs/ExprPrintProofs.v -- the tokens Model.ExprPrint.pp prints are read back by Spec.PyGrammar.rd as the
   same tree (up to Spec.PyGrammar.norm), for trees of any depth.

   Shape of the argument (DESIGN.md appendix A): continuation-passing over the fuelled reader.
     Gst e : reading pp pc e ++ rest at minimum level m continues like  climb m (norm e) rest
     Ast e : when pp pc e is primary-shaped, reading it as atom+trailers continues like  rd_trailers (norm e) rest
   by induction on e, with the side conditions on the context (cl pc, fl pc) discharged by the table facts prec_wf
   proved by vm_compute on the regenerated Gen/TablesC15.v. *)
From Coq Require Import ZArith NArith List Bool Lia Arith.
From PydoctorVerif Require Import Base.Sexp Base.PyExpr Gen.TablesC15 Model.StrEsc Model.Wrap Spec.PyGrammar Spec.PyLex
     Model.ExprPrint Proofs.PyGrammarProofs Proofs.PyGrammarFuel Proofs.WrapProofs.
Import ListNotations.

(* ------------------------------------------------------------------ induction principle for the nested type *)
Definition sub_elts (sl : expr) : list expr := match sl with ETuple es => es | _ => [] end.

Section ExprInd.
  Variable P : expr -> Prop.
  Hypothesis Hleaf : forall l, P (ELeaf l).
  Hypothesis Hname : forall s, P (EName s).
  Hypothesis Hattr : forall v a g, P v -> P (EAttr v a g).
  Hypothesis Hun : forall u x, P x -> P (EUn u x).
  Hypothesis Hbin : forall b l r, P l -> P r -> P (EBin b l r).
  Hypothesis Hbool : forall o es, Forall P es -> P (EBool o es).
  Hypothesis Htuple : forall es, Forall P es -> P (ETuple es).
  Hypothesis Hlist : forall es, Forall P es -> P (EList es).
  Hypothesis Hset : forall es, Forall P es -> P (ESet es).
  Hypothesis Hdict : forall items,
      Forall (fun kv : ditem => match fst kv with Some k => P k | None => True end /\ P (snd kv)) items -> P (EDict items).
  Hypothesis Hsub : forall v sl, P v -> P sl -> Forall P (sub_elts sl) -> P (ESub v sl).
  Hypothesis Hcall : forall f args kws, P f -> Forall P args -> Forall (fun kw : kwarg => P (snd kw)) kws -> P (ECall f args kws).
  Hypothesis Hstar : forall x, P x -> P (EStarred x).

  Definition Pd (kv : ditem) : Prop := match fst kv with Some k => P k | None => True end /\ P (snd kv).
  Definition Pk (kw : kwarg) : Prop := P (snd kw).

  Fixpoint expr_ind2 (e : expr) : P e.
  Proof.
    destruct e as [l|s|v a g|u x|b l r|o es|es|es|es|items|v sl|f args kws|x].
    - apply Hleaf.
    - apply Hname.
    - apply Hattr. apply expr_ind2.
    - apply Hun. apply expr_ind2.
    - apply Hbin; apply expr_ind2.
    - apply Hbool. revert es. fix go 1. intros [|x es]; constructor; [apply expr_ind2|apply go].
    - apply Htuple. revert es. fix go 1. intros [|x es]; constructor; [apply expr_ind2|apply go].
    - apply Hlist. revert es. fix go 1. intros [|x es]; constructor; [apply expr_ind2|apply go].
    - apply Hset. revert es. fix go 1. intros [|x es]; constructor; [apply expr_ind2|apply go].
    - apply Hdict. revert items. fix go 1. intros [|[k v] items]; constructor; [|apply go].
      split; [destruct k as [k|]; [apply expr_ind2|exact I]|apply expr_ind2].
    - apply Hsub; [apply expr_ind2|apply expr_ind2|].
      destruct sl; try (constructor; fail).
      cbn [sub_elts]. revert es. fix go 1. intros [|x es]; constructor; [apply expr_ind2|apply go].
    - apply Hcall; [apply expr_ind2| |].
      + revert args. fix go 1. intros [|x es]; constructor; [apply expr_ind2|apply go].
      + revert kws. fix go 1. intros [|[k v] kws]; constructor; [apply expr_ind2|apply go].
    - apply Hstar. apply expr_ind2.
  Qed.
End ExprInd.

(* ------------------------------------------------------------------ levels of the spec vs precedences of the tables *)
Definition lvl (o : opk) : nat :=
  match o with
  | OU UNot => L_not | OU _ => L_factor
  | OB b => lbp b
  | OO And => L_and | OO Or => L_or
  end.
(* the level at which what follows an unparenthesised operator must stop *)
Definition tight (o : opk) : nat :=
  match o with
  | OU UNot => L_not | OU _ => L_factor
  | OB b => rbp b
  | OO And => L_and | OO Or => L_or
  end.

(* for a child printed in context pc: the minimum level the reader is at when it reads the child (cl), and the level
   at which the tokens after the child are known to stop (fl) *)
Definition cl (pc : pctx) : nat :=
  match pc with
  | PNone => 0
  | PUnary u => lvl (OU u)
  | PBinL b => lbp b
  | PBinR b => rbp b
  | PBool o => S (lvl (OO o))
  | POther None => 12
  | POther (Some _) => 0
  end.
Definition fl (pc : pctx) : nat :=
  match pc with
  | PBinL b => S (lbp b)
  | PNone | POther _ => 0
  | _ => cl pc
  end.

Definition all_pctx : list pctx :=
  [PNone; POther None; POther (Some prec_comma)] ++ map PUnary all_unops ++ map PBinL all_binops
  ++ map PBinR all_binops ++ map PBool all_boolops.

Definition good_pc (pc : pctx) : Prop :=
  match pc with POther (Some x) => x = prec_comma | _ => True end.

(* Tables.prec_wf: whenever the colouriser leaves an operator without parentheses in a context, the grammar level of
   the operator is high enough for that context; and under any other expression parent every operator gets them. *)
Definition prec_wf_b : bool :=
  forallb (fun pc =>
             forallb (fun o =>
                        (if needs_paren pc o then true
                         else Nat.leb (cl pc) (lvl o) && Nat.leb (fl pc) (tight o))
                        && match pc with POther None => needs_paren pc o | _ => true end)
                     all_opks)
          all_pctx.

Lemma prec_wf : prec_wf_b = true.
Proof. vm_compute. reflexivity. Qed.

Lemma all_opks_complete o : In o all_opks.
Proof. destruct o as [u|b|o]; [destruct u|destruct b|destruct o]; cbn; tauto. Qed.

Lemma all_pctx_complete pc : good_pc pc -> In pc all_pctx.
Proof.
  unfold all_pctx. intros H.
  destruct pc as [|u|b|b|o|ex].
  - cbn. tauto.
  - apply in_or_app. right. apply in_or_app. left. apply in_map. destruct u; cbn; tauto.
  - apply in_or_app. right. apply in_or_app. right. apply in_or_app. left. apply in_map. destruct b; cbn; tauto.
  - apply in_or_app. right. apply in_or_app. right. apply in_or_app. right. apply in_or_app. left.
    apply in_map. destruct b; cbn; tauto.
  - apply in_or_app. right. apply in_or_app. right. apply in_or_app. right. apply in_or_app. right.
    apply in_map. destruct o; cbn; tauto.
  - destruct ex as [x|]; cbn in H; [subst x|]; cbn; tauto.
Qed.

Lemma ctx_ok pc o :
  good_pc pc -> needs_paren pc o = false -> cl pc <= lvl o /\ fl pc <= tight o.
Proof.
  intros Hg Hn. pose proof prec_wf as W. unfold prec_wf_b in W.
  rewrite forallb_forall in W. specialize (W pc (all_pctx_complete pc Hg)).
  rewrite forallb_forall in W. specialize (W o (all_opks_complete o)).
  rewrite Hn in W. apply andb_true_iff in W. destruct W as [W _].
  apply andb_true_iff in W. destruct W as [W1 W2].
  apply Nat.leb_le in W1. apply Nat.leb_le in W2. auto.
Qed.

Lemma other_parens o : needs_paren (POther None) o = true.
Proof.
  pose proof prec_wf as W. unfold prec_wf_b in W.
  rewrite forallb_forall in W. assert (G : good_pc (POther None)) by exact I. specialize (W (POther None) (all_pctx_complete _ G)).
  rewrite forallb_forall in W. specialize (W o (all_opks_complete o)).
  apply andb_true_iff in W. destruct W as [_ W]. exact W.
Qed.

(* ------------------------------------------------------------------ the shape of pp *)
Definition top_op (e : expr) : option opk :=
  match e with
  | EUn u _ => Some (OU u) | EBin b _ _ => Some (OB b) | EBool o _ => Some (OO o)
  | _ => None
  end.

Definition paren (pc : pctx) (e : expr) : bool :=
  match top_op e with Some o => needs_paren pc o | None => false end.

(* pp pc e can be read as atom + trailers *)
Definition prim (pc : pctx) (e : expr) : bool :=
  match top_op e with Some o => needs_paren pc o | None => negb (is_starred e) end.

Lemma pp_par pc e : pp pc e = par (paren pc e) (pp PNone e).
Proof. destruct e; try reflexivity. Qed.

Lemma pp_nonop pc e : top_op e = None -> pp pc e = pp PNone e.
Proof. intros H. rewrite pp_par. unfold paren. rewrite H. reflexivity. Qed.

Lemma paren_none e : paren PNone e = false.
Proof. unfold paren. destruct (top_op e); reflexivity. Qed.

Lemma infix_btok b : exists o, btok b = TOp o /\ infix_of o = Some b.
Proof. destruct b; eexists; split; reflexivity. Qed.

Lemma is_starred_norm e : is_starred (norm e) = is_starred e.
Proof. destruct e; try reflexivity. cbn. destruct (name_chain e); reflexivity. Qed.

(* ------------------------------------------------------------------ the guard, in the form the induction uses *)
Definition nst (e : expr) : bool := negb (is_starred e).

Fixpoint ok (e : expr) : bool :=
  match e with
  | ELeaf _ | EName _ => true
  | EAttr _ _ _ => true
  | EUn _ x => ok x && nst x
  | EBin _ l r => (ok l && nst l) && (ok r && nst r)
  | EBool _ es => Nat.leb 2 (length es) && forallb (fun x => ok x && nst x) es
  | ETuple es => negb (Nat.eqb (length es) 1) && forallb ok es
  | EList es | ESet es => forallb ok es
  | EDict items =>
    forallb (fun kv : ditem => match fst kv with Some k => ok k && nst k | None => true end && (ok (snd kv) && nst (snd kv))) items
  | ESub v sl =>
    (ok v && nst v) && match sl with
                       | ETuple es => forallb ok es
                       | _ => ok sl && nst sl
                       end
  | ECall f args kws => (ok f && nst f) && forallb ok args && forallb (fun kw : kwarg => ok (snd kw) && nst (snd kw)) kws
  | EStarred x => ok x && nst x
  end.

(* ------------------------------------------------------------------ first tokens *)
Definition body_head (t : token) : bool :=
  primary_head t ||
  match t with TNot | TOp OMinus | TOp OPlus | TOp OTilde => true | _ => false end.

Lemma primary_body_head t : primary_head t = true -> body_head t = true.
Proof. intros H. unfold body_head. rewrite H. reflexivity. Qed.

Lemma body_head_facts t :
  body_head t = true -> is_rp t = false /\ is_star_tok t = false /\ (forall c, closes c t = false).
Proof.
  destruct t; try discriminate; cbn; try (repeat split; try reflexivity; intros c; destruct c; reflexivity).
  destruct o; try discriminate; repeat split; try reflexivity; intros c; destruct c; reflexivity.
Qed.

Lemma dotted_nonempty e parts : dotted e = Some parts -> parts <> [].
Proof.
  destruct e; cbn; try discriminate.
  - intros H. inversion H. discriminate.
  - destruct (dotted e); try discriminate. intros H. inversion H. destruct l; discriminate.
Qed.

Lemma dotted_tokens_head parts : parts <> [] -> exists p ts, dotted_tokens parts = TName p :: ts.
Proof.
  destruct parts as [|p parts]; [congruence|]. intros _.
  destruct parts; cbn; eauto.
Qed.

Lemma prim_other e : nst e = true -> prim (POther None) e = true.
Proof.
  intros H. unfold prim. destruct (top_op e) eqn:E; [apply other_parens|exact H].
Qed.

Definition Hst (e : expr) : Prop :=
  ok e = true -> nst e = true ->
  forall pc, exists t ts, pp pc e = t :: ts /\ body_head t = true /\ (prim pc e = true -> primary_head t = true).

Lemma head_all e : Hst e.
Proof.
  induction e using expr_ind2; unfold Hst; intros Hok Hns pc.
  - eexists; eexists; split; [reflexivity|]. split; auto.
  - eexists; eexists; split; [reflexivity|]. split; auto.
  - cbn [pp]. destruct (dotted (EAttr e a g)) as [parts|] eqn:E.
    + destruct (dotted_tokens_head parts (dotted_nonempty _ _ E)) as [p [ts Hp]].
      rewrite Hp. eexists; eexists; split; [reflexivity|]. split; auto.
    + eexists; eexists; split; [reflexivity|]. split; auto.
  - cbn [pp]. unfold prim. cbn [top_op]. destruct (needs_paren pc (OU u)); cbn [par].
    + eexists; eexists; split; [reflexivity|]. split; auto.
    + eexists; eexists; split; [reflexivity|]. split; [destruct u; reflexivity|discriminate].
  - cbn [pp]. unfold prim. cbn [top_op]. destruct (needs_paren pc (OB b)); cbn [par].
    + eexists; eexists; split; [reflexivity|]. split; auto.
    + cbn [ok] in Hok. apply andb_true_iff in Hok. destruct Hok as [Hl _]. apply andb_true_iff in Hl.
      destruct Hl as [Hl1 Hl2].
      destruct (IHe1 Hl1 Hl2 (PBinL b)) as [t [ts [Hp [Hb _]]]]. rewrite Hp.
      eexists; eexists; split; [reflexivity|]. split; [exact Hb|discriminate].
  - cbn [pp]. unfold prim. cbn [top_op]. destruct (needs_paren pc (OO o)); cbn [par].
    + eexists; eexists; split; [reflexivity|]. split; auto.
    + cbn [ok] in Hok. apply andb_true_iff in Hok. destruct Hok as [Hlen Hall].
      destruct es as [|x es]; [discriminate|]. destruct es as [|y es]; [discriminate|].
      cbn [forallb] in Hall. apply andb_true_iff in Hall. destruct Hall as [Hx _].
      apply andb_true_iff in Hx. destruct Hx as [Hx1 Hx2].
      inversion H as [|? ? Hhx _]; subst.
      destruct (Hhx Hx1 Hx2 (PBool o)) as [t [ts [Hp [Hb _]]]].
      cbn [map sep_by]. rewrite Hp.
      eexists; eexists; split; [reflexivity|]. split; [exact Hb|discriminate].
  - eexists; eexists; split; [reflexivity|]. split; auto.
  - eexists; eexists; split; [reflexivity|]. split; auto.
  - eexists; eexists; split; [reflexivity|]. split; auto.
  - eexists; eexists; split; [reflexivity|]. split; auto.
  - cbn [ok] in Hok. apply andb_true_iff in Hok. destruct Hok as [Hv _]. apply andb_true_iff in Hv.
    destruct Hv as [Hv1 Hv2].
    destruct (IHe1 Hv1 Hv2 (POther None)) as [t [ts [Hp [Hb Hpr]]]].
    cbn [pp]. rewrite Hp. eexists; eexists; split; [reflexivity|].
    specialize (Hpr (prim_other _ Hv2)). split; [apply primary_body_head|]; auto.
  - cbn [ok] in Hok. apply andb_true_iff in Hok. destruct Hok as [Hf _]. apply andb_true_iff in Hf.
    destruct Hf as [Hf _]. apply andb_true_iff in Hf. destruct Hf as [Hf1 Hf2].
    destruct (IHe Hf1 Hf2 (POther None)) as [t [ts [Hp [Hb Hpr]]]].
    cbn [pp]. rewrite Hp. eexists; eexists; split; [reflexivity|].
    specialize (Hpr (prim_other _ Hf2)). split; [apply primary_body_head|]; auto.
  - discriminate.
Qed.

Lemma head_prim e pc :
  ok e = true -> nst e = true -> prim pc e = true -> exists t ts, pp pc e = t :: ts /\ primary_head t = true.
Proof.
  intros H1 H2 H3. destruct (head_all e H1 H2 pc) as [t [ts [Hp [_ Hpr]]]]. eauto.
Qed.

Lemma head_body e pc :
  ok e = true -> nst e = true -> exists t ts, pp pc e = t :: ts /\ body_head t = true.
Proof.
  intros H1 H2. destruct (head_all e H1 H2 pc) as [t [ts [Hp [Hb _]]]]. eauto.
Qed.

(* ------------------------------------------------------------------ the statements *)
Definition Gst (e : expr) : Prop :=
  forall pc m rest res0, good_pc pc -> m <= cl pc -> no_trailer rest = true -> stopsb (fl pc) rest = true ->
    ES (fun f => climb f m (norm e) rest) res0 -> ES (fun f => rd f m (pp pc e ++ rest)) res0.

Definition Ast (e : expr) : Prop :=
  forall pc rest res0, good_pc pc -> prim pc e = true ->
    ES (fun f => rd_trailers f (norm e) rest) res0 -> ES (fun f => primary f (pp pc e ++ rest)) res0.

(* unparenthesised operator *)
Definition Bst (e : expr) (o : opk) : Prop :=
  forall m rest res0, m <= lvl o -> no_trailer rest = true -> stopsb (tight o) rest = true ->
    ES (fun f => climb f m (norm e) rest) res0 -> ES (fun f => rd f m (pp PNone e ++ rest)) res0.

Lemma G_of_A e : top_op e = None -> ok e = true -> nst e = true -> Ast e -> Gst e.
Proof.
  intros Ht Hok Hns HA pc m rest res0 Hg Hm Hnt Hst Hc.
  assert (Hpr : prim pc e = true) by (unfold prim; rewrite Ht; exact Hns).
  destruct (head_prim e pc Hok Hns Hpr) as [t [ts [Hp Hh]]].
  apply ES_rd with (lhs := norm e) (r1 := rest); [|exact Hc].
  rewrite Hp. cbn [app]. apply ES_prefix_primary; [exact Hh|].
  change (t :: ts ++ rest) with ((t :: ts) ++ rest). rewrite <- Hp.
  apply HA; auto. apply ES_trailers_stop. exact Hnt.
Qed.

Lemma closer_follow c t r : closes c t = true -> no_trailer (t :: r) = true /\ forall m, stopsb m (t :: r) = true.
Proof. destruct c, t; try discriminate; auto. Qed.

Lemma A_of_B e o : top_op e = Some o -> ok e = true -> nst e = true -> Bst e o -> Ast e.
Proof.
  intros Ht Hok Hns HB pc rest res0 Hg Hpr Hc.
  unfold prim in Hpr. rewrite Ht in Hpr.
  rewrite pp_par. unfold paren. rewrite Ht, Hpr. cbn [par].
  destruct (head_body e PNone Hok Hns) as [t [ts [Hp Hb]]].
  destruct (body_head_facts t Hb) as [Hrp [Hstar _]].
  cbn [app]. rewrite <- app_assoc. cbn [app].
  apply ES_primary with (a := norm e) (r := rest); [|exact Hc].
  rewrite Hp. cbn [app]. apply ES_atom_paren; [exact Hrp| |rewrite is_starred_norm; unfold nst in Hns; destruct (is_starred e); [discriminate|reflexivity]].
  apply ES_star_plain; [exact Hstar|].
  change (t :: ts ++ TRP :: rest) with ((t :: ts) ++ TRP :: rest). rewrite <- Hp.
  apply HB; [apply Nat.le_0_l|reflexivity|reflexivity|].
  apply ES_climb_stop. reflexivity.
Qed.

Lemma G_of_B e o : top_op e = Some o -> ok e = true -> nst e = true -> Bst e o -> Gst e.
Proof.
  intros Ht Hok Hns HB pc m rest res0 Hg Hm Hnt Hst Hc.
  destruct (needs_paren pc o) eqn:Hn.
  - (* parenthesised: an atom *)
    assert (Hpr : prim pc e = true) by (unfold prim; rewrite Ht; exact Hn).
    destruct (head_prim e pc Hok Hns Hpr) as [t [ts [Hp Hh]]].
    apply ES_rd with (lhs := norm e) (r1 := rest); [|exact Hc].
    rewrite Hp. cbn [app]. apply ES_prefix_primary; [exact Hh|].
    change (t :: ts ++ rest) with ((t :: ts) ++ rest). rewrite <- Hp.
    apply (A_of_B e o Ht Hok Hns HB); auto. apply ES_trailers_stop. exact Hnt.
  - rewrite pp_par. unfold paren. rewrite Ht, Hn. cbn [par].
    destruct (ctx_ok pc o Hg Hn) as [H1 H2].
    apply HB; [lia|exact Hnt| |exact Hc].
    eapply stopsb_mono; [exact H2|exact Hst].
Qed.

(* ------------------------------------------------------------------ operators *)
Lemma B_un u x : Gst x -> Bst (EUn u x) (OU u).
Proof.
  intros Gx m rest res0 Hm Hnt Hst Hc.
  cbn [pp norm]. cbn [needs_paren parent_prec par app].
  apply ES_rd with (lhs := EUn u (norm x)) (r1 := rest); [|exact Hc].
  assert (Hop : ES (fun f => rd f (lvl (OU u)) (pp (PUnary u) x ++ rest)) (norm x, rest)).
  { apply Gx; [exact I|cbn [cl]; lia|exact Hnt|exact Hst|]. apply ES_climb_stop. exact Hst. }
  destruct u; cbn [utok].
  - apply ES_prefix_unary with (u := USub); [reflexivity|exact Hm|exact Hop].
  - apply ES_prefix_unary with (u := UAdd); [reflexivity|exact Hm|exact Hop].
  - apply ES_prefix_not; [exact Hm|exact Hop].
  - apply ES_prefix_unary with (u := UInvert); [reflexivity|exact Hm|exact Hop].
Qed.

Lemma B_bin b l r : Gst l -> Gst r -> Bst (EBin b l r) (OB b).
Proof.
  intros Gl Gr m rest res0 Hm Hnt Hst Hc.
  cbn [pp norm]. cbn [needs_paren parent_prec par].
  rewrite <- app_assoc. rewrite <- app_comm_cons.
  destruct (infix_btok b) as [o [Hbt Hinf]]. rewrite Hbt.
  cbn [lvl] in Hm. cbn [tight] in Hst.
  apply Gl; [exact I|cbn [cl]; exact Hm|reflexivity| |].
  - cbn [fl]. unfold stopsb. rewrite Hinf. apply Nat.ltb_lt. lia.
  - apply ES_climb_bin with (b := b) (rhs := norm r) (r' := rest); [exact Hinf|exact Hm| |exact Hc].
    apply Gr; [exact I|cbn [cl]; lia|exact Hnt|exact Hst|].
    apply ES_climb_stop. exact Hst.
Qed.

Definition is_and (o : boolop) : bool := match o with And => true | Or => false end.

Lemma chain_lvl_o o : chain_lvl (is_and o) = S (lvl (OO o)).
Proof. destruct o; reflexivity. Qed.
Lemma chain_sep_o o : chain_sep (is_and o) = otok o.
Proof. destruct o; reflexivity. Qed.

Lemma stops_after_sep o r : stopsb (S (lvl (OO o))) (otok o :: r) = true.
Proof. destruct o; reflexivity. Qed.

Lemma stops_no_sep o rest : stopsb (lvl (OO o)) rest = true -> starts_with_sep (is_and o) rest = false.
Proof.
  destruct o; cbn; destruct rest as [|t rest]; auto; destruct t; auto; cbn; discriminate.
Qed.

Lemma chain_read o xs :
  xs <> [] -> Forall Gst xs ->
  forall rest, no_trailer rest = true -> stopsb (lvl (OO o)) rest = true ->
    ES (fun f => rd_chain f (is_and o) (sep_by (otok o) (map (pp (PBool o)) xs) ++ rest)) (map norm xs, rest).
Proof.
  induction xs as [|x xs IH]; [congruence|]. intros _ HF rest Hnt Hst.
  inversion HF as [|? ? Gx HF']; subst.
  destruct xs as [|y ys].
  - cbn [map sep_by]. apply ES_chain_last; [|apply stops_no_sep; exact Hst].
    rewrite chain_lvl_o. apply Gx; [exact I|cbn [cl]; lia|exact Hnt| |].
    + cbn [fl cl]. eapply stopsb_mono; [|exact Hst]. lia.
    + apply ES_climb_stop. eapply stopsb_mono; [|exact Hst]. lia.
  - change (sep_by (otok o) (map (pp (PBool o)) (x :: y :: ys)))
      with (pp (PBool o) x ++ otok o :: sep_by (otok o) (map (pp (PBool o)) (y :: ys))).
    rewrite <- app_assoc. rewrite <- app_comm_cons.
    change (map norm (x :: y :: ys)) with (norm x :: map norm (y :: ys)).
    apply ES_chain_cons with (r := sep_by (otok o) (map (pp (PBool o)) (y :: ys)) ++ rest).
    + rewrite chain_lvl_o, chain_sep_o.
      apply Gx; [exact I|cbn [cl]; lia|destruct o; reflexivity|cbn [fl cl]; apply stops_after_sep|].
      apply ES_climb_stop. apply stops_after_sep.
    + apply IH; [discriminate|exact HF'|exact Hnt|exact Hst].
Qed.

Lemma B_bool o es : 2 <= length es -> Forall Gst es -> Bst (EBool o es) (OO o).
Proof.
  intros Hlen HF m rest res0 Hm Hnt Hst Hc.
  destruct es as [|x es]; [cbn in Hlen; lia|]. destruct es as [|y ys]; [cbn in Hlen; lia|].
  inversion HF as [|? ? Gx HF']; subst.
  cbn [pp norm]. cbn [needs_paren parent_prec par].
  change (sep_by (otok o) (map (pp (PBool o)) (x :: y :: ys)))
    with (pp (PBool o) x ++ otok o :: sep_by (otok o) (map (pp (PBool o)) (y :: ys))).
  rewrite <- app_assoc. rewrite <- app_comm_cons.
  change (map norm (x :: y :: ys)) with (norm x :: map norm (y :: ys)) in Hc.
  cbn [tight] in Hst.
  assert (Hst' : stopsb (lvl (OO o)) rest = true) by (destruct o; exact Hst).
  apply Gx; [exact I|cbn [cl]; lia|destruct o; reflexivity|cbn [fl cl]; apply stops_after_sep|].
  pose proof (chain_read o (y :: ys) ltac:(discriminate) HF' rest Hnt Hst') as HC.
  destruct o; cbn [otok is_and] in *.
  - apply ES_climb_and with (xs := map norm (y :: ys)) (r' := rest); [exact Hm|exact HC|exact Hc].
  - apply ES_climb_or with (xs := map norm (y :: ys)) (r' := rest); [exact Hm|exact HC|exact Hc].
Qed.

(* ------------------------------------------------------------------ children under any other expression parent *)
(* read as a whole, at any minimum level *)
Definition Rst (x : expr) : Prop :=
  forall m rest, m <= 12 -> no_trailer rest = true -> stopsb 0 rest = true ->
    ES (fun f => rd f m (pp (POther None) x ++ rest)) (norm x, rest).

Lemma R_of_G x : Gst x -> Rst x.
Proof.
  intros G m rest Hm Hnt Hst. apply G; [exact I|exact Hm|exact Hnt|exact Hst|].
  apply ES_climb_stop. eapply stopsb_mono; [|exact Hst]. lia.
Qed.

(* dict values: explicit precedence Comma *)
Definition Rcst (x : expr) : Prop :=
  forall rest, no_trailer rest = true -> stopsb 0 rest = true ->
    ES (fun f => rd f L_test (pp (POther (Some prec_comma)) x ++ rest)) (norm x, rest).

Lemma Rc_of_G x : Gst x -> Rcst x.
Proof.
  intros G rest Hnt Hst. apply G; [reflexivity|cbn [cl]; unfold L_test; lia|exact Hnt|exact Hst|].
  apply ES_climb_stop. exact Hst.
Qed.

(* an element of a display / subscript tuple: possibly starred *)
Definition Est (x : expr) : Prop :=
  forall sl rest, no_trailer rest = true -> stopsb 0 rest = true ->
    ES (fun f => rd_star f sl (pp (POther None) x ++ rest)) (norm x, rest).

Definition Pst (e : expr) : Prop :=
  ok e = true -> (nst e = true -> Gst e /\ Ast e) /\ (forall y, e = EStarred y -> Gst y).

Lemma ok_starred y : ok (EStarred y) = true -> ok y = true /\ nst y = true.
Proof. cbn [ok]. intros H. apply andb_true_iff in H. exact H. Qed.

Lemma nst_cases x : (nst x = true) \/ (exists y, x = EStarred y).
Proof. destruct x; try (left; reflexivity). right. eauto. Qed.

Lemma E_of_P x : Pst x -> ok x = true -> Est x.
Proof.
  intros HP Hok sl rest Hnt Hst. destruct (HP Hok) as [H1 H2].
  destruct (nst_cases x) as [Hns|[y Hy]].
  - destruct (H1 Hns) as [G _].
    destruct (head_prim x (POther None) Hok Hns (prim_other _ Hns)) as [t [ts [Hp Hh]]].
    rewrite Hp. cbn [app]. apply ES_star_plain.
    + destruct t; try discriminate; reflexivity.
    + change (t :: ts ++ rest) with ((t :: ts) ++ rest). rewrite <- Hp.
      apply (R_of_G x G); [unfold L_test; lia|exact Hnt|exact Hst].
  - subst x. cbn [pp norm app]. apply ES_star_starred.
    apply (R_of_G y (H2 y eq_refl)); [destruct sl; unfold L_bitor, L_test; lia|exact Hnt|exact Hst].
Qed.

Lemma elt_head x :
  ok x = true -> exists t ts, pp (POther None) x = t :: ts /\ is_rp t = false /\ (forall c, closes c t = false).
Proof.
  intros Hok. destruct (nst_cases x) as [Hns|[y Hy]].
  - destruct (head_body x (POther None) Hok Hns) as [t [ts [Hp Hb]]].
    destruct (body_head_facts t Hb) as [H1 [_ H3]]. eauto.
  - subst x. cbn [pp]. eexists; eexists; split; [reflexivity|]. split; [reflexivity|]. intros c; destruct c; reflexivity.
Qed.

Lemma commas_cons a L : commas (a :: L) = match L with [] => a | _ => a ++ TComma :: commas L end.
Proof. destruct L; reflexivity. Qed.

Lemma elts_read es :
  Forall Est es -> forallb ok es = true ->
  forall sl c tk rest, closes c tk = true ->
    ES (fun f => rd_elts f sl c (commas (map (pp (POther None)) es) ++ tk :: rest)) (map norm es, rest).
Proof.
  induction es as [|x es IH]; intros HF Hok sl c tk rest Hc.
  - cbn. apply ES_elts_nil. exact Hc.
  - inversion HF as [|? ? Ex HF']; subst.
    cbn [forallb] in Hok. apply andb_true_iff in Hok. destruct Hok as [Hx Hes].
    destruct (elt_head x Hx) as [t [ts [Hp [_ Hcl]]]].
    cbn [map]. rewrite commas_cons.
    destruct (closer_follow c tk rest Hc) as [Hnt Hst].
    destruct (map (pp (POther None)) es) as [|b L] eqn:EL.
    + assert (es = []) by (destruct es; [reflexivity|discriminate]). subst es. cbn [map].
      assert (Hr : ES (fun f => rd_star f sl (pp (POther None) x ++ tk :: rest)) (norm x, tk :: rest))
        by (apply Ex; [exact Hnt|apply Hst]).
      rewrite Hp in *. cbn [app] in *.
      apply ES_elts_last with (t2 := tk); [apply Hcl|exact Hr|exact Hc].
    + rewrite <- app_assoc. rewrite <- app_comm_cons.
      assert (Hr : ES (fun f => rd_star f sl (pp (POther None) x ++ TComma :: commas (b :: L) ++ tk :: rest))
                      (norm x, TComma :: commas (b :: L) ++ tk :: rest))
        by (apply Ex; reflexivity).
      rewrite Hp in *. cbn [app] in *.
      apply ES_elts_cons with (r2 := commas (b :: L) ++ tk :: rest); [apply Hcl|exact Hr|].
      apply IH; assumption.
Qed.

Lemma Forall_E es : Forall Pst es -> forallb ok es = true -> Forall Est es.
Proof.
  induction es as [|x es IH]; intros HF Hok; constructor.
  - inversion HF; subst. cbn in Hok. apply andb_true_iff in Hok. apply E_of_P; tauto.
  - inversion HF; subst. cbn in Hok. apply andb_true_iff in Hok. apply IH; tauto.
Qed.

Lemma Forall_G es : Forall Pst es -> forallb (fun x => ok x && nst x) es = true -> Forall Gst es.
Proof.
  induction es as [|x es IH]; intros HF Hok; constructor.
  - inversion HF as [|? ? HP _]; subst. cbn in Hok. apply andb_true_iff in Hok. destruct Hok as [Hx _].
    apply andb_true_iff in Hx. destruct Hx as [H1 H2]. destruct (HP H1) as [HG _]. apply HG. exact H2.
  - inversion HF; subst. cbn in Hok. apply andb_true_iff in Hok. apply IH; tauto.
Qed.

Ltac norm_app := repeat (rewrite <- app_assoc || rewrite <- app_comm_cons).

(* ------------------------------------------------------------------ dict displays *)
Definition itemtoks (kv : ditem) : list token :=
  match fst kv with
  | Some k => pp (POther None) k ++ TColon :: pp (POther (Some prec_comma)) (snd kv)
  | None => TOp ODStar :: pp (POther None) (snd kv)
  end.
Definition normitem (kv : ditem) : ditem :=
  (match fst kv with Some k => Some (norm k) | None => None end, norm (snd kv)).

Lemma pp_dict pc items : pp pc (EDict items) = TLC :: commas (map itemtoks items) ++ [TRC].
Proof. reflexivity. Qed.
Lemma norm_dict items : norm (EDict items) = EDict (map normitem items).
Proof. reflexivity. Qed.

Definition Dst (kv : ditem) : Prop :=
  match fst kv with
  | Some k => (ok k = true /\ nst k = true /\ Rst k) /\ Rcst (snd kv)
  | None => Rst (snd kv)
  end.

Definition okitem (kv : ditem) : bool :=
  match fst kv with Some k => ok k && nst k | None => true end && (ok (snd kv) && nst (snd kv)).

Lemma G_of_P x : Pst x -> ok x = true -> nst x = true -> Gst x.
Proof. intros HP H1 H2. destruct (HP H1) as [HG _]. apply HG. exact H2. Qed.
Lemma A_of_P x : Pst x -> ok x = true -> nst x = true -> Ast x.
Proof. intros HP H1 H2. destruct (HP H1) as [HG _]. apply HG. exact H2. Qed.

Lemma Forall_D items :
  Forall (fun kv : ditem => match fst kv with Some k => Pst k | None => True end /\ Pst (snd kv)) items ->
  forallb okitem items = true -> Forall Dst items.
Proof.
  induction items as [|[k v] items IH]; intros HF Hok; constructor.
  - inversion HF as [|? ? [Hk Hv] _]; subst. cbn [forallb] in Hok. apply andb_true_iff in Hok. destruct Hok as [Hkv _].
    unfold okitem in Hkv. cbn [fst snd] in *. apply andb_true_iff in Hkv. destruct Hkv as [Hk' Hv'].
    apply andb_true_iff in Hv'. destruct Hv' as [Hv1 Hv2].
    unfold Dst. cbn [fst snd]. destruct k as [k|].
    + apply andb_true_iff in Hk'. destruct Hk' as [Hk1 Hk2]. split; [split; [exact Hk1|split; [exact Hk2|]]|].
      * apply R_of_G. apply G_of_P; assumption.
      * apply Rc_of_G. apply G_of_P; assumption.
    + apply R_of_G. apply G_of_P; assumption.
  - inversion HF; subst. cbn [forallb] in Hok. apply andb_true_iff in Hok. apply IH; tauto.
Qed.

Lemma dict_read items :
  Forall Dst items ->
  forall rest, ES (fun f => rd_dict f (commas (map itemtoks items) ++ TRC :: rest)) (map normitem items, rest).
Proof.
  induction items as [|[k v] items IH]; intros HF rest.
  - cbn. apply ES_dict_nil.
  - inversion HF as [|? ? HD HF']; subst. cbn [map]. rewrite commas_cons.
    unfold Dst in HD. cbn [fst snd] in HD.
    destruct k as [k|].
    + destruct HD as [[Hk1 [Hk2 Rk]] Rv].
      destruct (head_prim k (POther None) Hk1 Hk2 (prim_other _ Hk2)) as [t [ts [Hp Hh]]].
      change (itemtoks (Some k, v)) with (pp (POther None) k ++ TColon :: pp (POther (Some prec_comma)) v).
      change (normitem (Some k, v)) with (Some (norm k), norm v).
      destruct (map itemtoks items) as [|b L] eqn:EL.
      * assert (items = []) by (destruct items; [reflexivity|discriminate]). subst items. cbn [map].
        norm_app.
        assert (Hr : ES (fun f => rd f L_test (pp (POther None) k ++ TColon :: pp (POther (Some prec_comma)) v ++ TRC :: rest))
                        (norm k, TColon :: pp (POther (Some prec_comma)) v ++ TRC :: rest))
          by (apply Rk; [unfold L_test; lia|reflexivity|reflexivity]).
        rewrite Hp in *. cbn [app] in *.
        apply ES_dict_kv_last with (r2 := pp (POther (Some prec_comma)) v ++ TRC :: rest); [exact Hh|exact Hr|].
        apply Rv; reflexivity.
      * norm_app.
        assert (Hr : ES (fun f => rd f L_test (pp (POther None) k ++ TColon :: pp (POther (Some prec_comma)) v
                                                  ++ TComma :: commas (b :: L) ++ TRC :: rest))
                        (norm k, TColon :: pp (POther (Some prec_comma)) v ++ TComma :: commas (b :: L) ++ TRC :: rest))
          by (apply Rk; [unfold L_test; lia|reflexivity|reflexivity]).
        rewrite Hp in *. cbn [app] in *.
        apply ES_dict_kv_cons with (r2 := pp (POther (Some prec_comma)) v ++ TComma :: commas (b :: L) ++ TRC :: rest)
                                   (r3 := commas (b :: L) ++ TRC :: rest); [exact Hh|exact Hr| |].
        -- apply Rv; reflexivity.
        -- apply IH. exact HF'.
    + change (itemtoks (None, v)) with (TOp ODStar :: pp (POther None) v).
      change (normitem (None, v)) with (@None expr, norm v).
      destruct (map itemtoks items) as [|b L] eqn:EL.
      * assert (items = []) by (destruct items; [reflexivity|discriminate]). subst items. cbn [map].
        norm_app. apply ES_dict_unpack_last. apply HD; [unfold L_bitor; lia|reflexivity|reflexivity].
      * norm_app. apply ES_dict_unpack_cons with (r2 := commas (b :: L) ++ TRC :: rest).
        -- apply HD; [unfold L_bitor; lia|reflexivity|reflexivity].
        -- apply IH. exact HF'.
Qed.

(* ------------------------------------------------------------------ call arguments *)
Definition kwtoks (kw : kwarg) : list token :=
  match fst kw with
  | Some name => TName name :: TEq :: pp (POther None) (snd kw)
  | None => TOp ODStar :: pp (POther None) (snd kw)
  end.
Definition normkw (kw : kwarg) : kwarg := (fst kw, norm (snd kw)).

Lemma pp_call pc f args kws :
  pp pc (ECall f args kws) =
  pp (POther None) f ++ TLP :: commas (map (pp (POther None)) args ++ map kwtoks kws) ++ [TRP].
Proof. reflexivity. Qed.
Lemma norm_call f args kws : norm (ECall f args kws) = ECall (norm f) (map norm args) (map normkw kws).
Proof. reflexivity. Qed.

Lemma kws_read kws :
  Forall (fun kw : kwarg => Rst (snd kw)) kws ->
  forall stt rest, ES (fun f => rd_args f stt (commas (map kwtoks kws) ++ TRP :: rest)) (([], map normkw kws), rest).
Proof.
  induction kws as [|[k v] kws IH]; intros HF stt rest.
  - cbn. apply ES_args_nil.
  - inversion HF as [|? ? Rv HF']; subst. cbn [snd] in Rv. cbn [map]. rewrite commas_cons.
    change (normkw (k, v)) with (k, norm v).
    assert (Ek : kwtoks (k, v) = match k with
                                 | Some name => TName name :: TEq :: pp (POther None) v
                                 | None => TOp ODStar :: pp (POther None) v
                                 end) by reflexivity.
    rewrite Ek. clear Ek.
    destruct (map kwtoks kws) as [|b L] eqn:EL.
    + assert (kws = []) by (destruct kws; [reflexivity|discriminate]). subst kws. cbn [map].
      destruct k as [name|]; norm_app.
      * apply ES_args_kw_last. apply Rv; [unfold L_test; lia|reflexivity|reflexivity].
      * apply ES_args_dstar_last. apply Rv; [unfold L_test; lia|reflexivity|reflexivity].
    + destruct k as [name|]; norm_app.
      * apply ES_args_kw_cons with (r2 := commas (b :: L) ++ TRP :: rest).
        -- apply Rv; [unfold L_test; lia|reflexivity|reflexivity].
        -- apply IH. exact HF'.
      * apply ES_args_dstar_cons with (r2 := commas (b :: L) ++ TRP :: rest).
        -- apply Rv; [unfold L_test; lia|reflexivity|reflexivity].
        -- apply IH. exact HF'.
Qed.

(* no positional argument looks like the start of a keyword argument *)
Definition not_eq_head (ts : list token) : Prop := match ts with TEq :: _ => False | _ => True end.

Lemma dotted_attr_tokens v a g parts :
  dotted (EAttr v a g) = Some parts -> exists p ts, dotted_tokens parts = TName p :: TDot :: ts.
Proof.
  cbn [dotted]. destruct (dotted v) as [ps|] eqn:E; [|discriminate]. intros H. inversion H; subst. clear H.
  pose proof (dotted_nonempty v ps E) as Hne.
  destruct ps as [|p ps]; [congruence|].
  destruct ps as [|q ps]; cbn; eauto.
Qed.

Definition Kst (x : expr) : Prop :=
  ok x = true -> nst x = true -> forall rest, not_eq_head rest -> kw_start (pp (POther None) x ++ rest) = false.

Lemma no_kw_start x : Kst x.
Proof.
  induction x using expr_ind2; unfold Kst; intros Hok Hns rest Hr.
  - reflexivity.
  - cbn. destruct rest as [|t rest]; [reflexivity|]. destruct t; try reflexivity. destruct Hr.
  - cbn [pp]. destruct (dotted (EAttr x a g)) as [parts|] eqn:E.
    + destruct (dotted_attr_tokens _ _ _ _ E) as [p [ts Hp]]. rewrite Hp. reflexivity.
    + reflexivity.
  - cbn [pp]. rewrite other_parens. reflexivity.
  - cbn [pp]. rewrite other_parens. reflexivity.
  - cbn [pp]. rewrite other_parens. reflexivity.
  - reflexivity.
  - reflexivity.
  - reflexivity.
  - reflexivity.
  - cbn [ok] in Hok. apply andb_true_iff in Hok. destruct Hok as [Hv _]. apply andb_true_iff in Hv.
    cbn [pp]. norm_app. apply IHx1; [tauto|tauto|exact I].
  - cbn [ok] in Hok. apply andb_true_iff in Hok. destruct Hok as [Hf _]. apply andb_true_iff in Hf.
    destruct Hf as [Hf _]. apply andb_true_iff in Hf.
    cbn [pp]. norm_app. apply IHx; [tauto|tauto|exact I].
  - discriminate.
Qed.

(* a positional argument: plain, or * expression *)
Definition Argst (x : expr) : Prop :=
  ok x = true /\ match x with
                 | EStarred y => Rst y
                 | _ => nst x = true /\ Rst x
                 end.

Lemma Arg_of_P x : Pst x -> ok x = true -> Argst x.
Proof.
  intros HP Hok. split; [exact Hok|]. destruct (HP Hok) as [H1 H2].
  destruct x; try (split; [reflexivity|apply R_of_G; apply H1; reflexivity]).
  apply R_of_G. apply (H2 x eq_refl).
Qed.

Lemma Forall_Arg es : Forall Pst es -> forallb ok es = true -> Forall Argst es.
Proof.
  induction es as [|x es IH]; intros HF Hok; constructor.
  - inversion HF; subst. cbn in Hok. apply andb_true_iff in Hok. apply Arg_of_P; tauto.
  - inversion HF; subst. cbn in Hok. apply andb_true_iff in Hok. apply IH; tauto.
Qed.

Lemma args_read args kws :
  Forall Argst args -> Forall (fun kw : kwarg => Rst (snd kw)) kws ->
  forall rest,
    ES (fun f => rd_args f 0 (commas (map (pp (POther None)) args ++ map kwtoks kws) ++ TRP :: rest))
       ((map norm args, map normkw kws), rest).
Proof.
  induction args as [|x args IH]; intros HA HK rest.
  - cbn [map app]. apply kws_read. exact HK.
  - inversion HA as [|? ? [Hok Hx] HA']; subst. cbn [map]. rewrite <- app_comm_cons. rewrite commas_cons.
    destruct (map (pp (POther None)) args ++ map kwtoks kws) as [|b L] eqn:EL.
    + apply app_eq_nil in EL. destruct EL as [E1 E2].
      assert (args = []) by (destruct args; [reflexivity|discriminate]).
      assert (kws = []) by (destruct kws; [reflexivity|discriminate]). subst. cbn [map].
      destruct (nst_cases x) as [Hns|[y Hy]].
      * assert (Rx : Rst x) by (destruct x; try (apply Hx); discriminate).
        destruct (head_prim x (POther None) Hok Hns (prim_other _ Hns)) as [t [ts [Hp Hh]]].
        pose proof (no_kw_start x Hok Hns (TRP :: rest) I) as Hk.
        assert (Hr : ES (fun f => rd f L_test (pp (POther None) x ++ TRP :: rest)) (norm x, TRP :: rest))
          by (apply Rx; [unfold L_test; lia|reflexivity|reflexivity]).
        rewrite Hp in *. cbn [app] in *.
        apply ES_args_pos_last; assumption.
      * subst x. cbn [pp norm]. norm_app. apply ES_args_star_last.
        apply Hx; [unfold L_test; lia|reflexivity|reflexivity].
    + specialize (IH HA' HK rest). norm_app.
      destruct (nst_cases x) as [Hns|[y Hy]].
      * assert (Rx : Rst x) by (destruct x; try (apply Hx); discriminate).
        destruct (head_prim x (POther None) Hok Hns (prim_other _ Hns)) as [t [ts [Hp Hh]]].
        pose proof (no_kw_start x Hok Hns (TComma :: commas (b :: L) ++ TRP :: rest) I) as Hk.
        assert (Hr : ES (fun f => rd f L_test (pp (POther None) x ++ TComma :: commas (b :: L) ++ TRP :: rest))
                        (norm x, TComma :: commas (b :: L) ++ TRP :: rest))
          by (apply Rx; [unfold L_test; lia|reflexivity|reflexivity]).
        rewrite Hp in *. cbn [app] in *.
        apply ES_args_pos_cons with (r2 := commas (b :: L) ++ TRP :: rest); assumption.
      * subst x. cbn [pp norm]. norm_app.
        apply ES_args_star_cons with (r2 := commas (b :: L) ++ TRP :: rest); [|exact IH].
        apply Hx; [unfold L_test; lia|reflexivity|reflexivity].
Qed.

(* ------------------------------------------------------------------ dotted names *)
Lemma dotted_tokens_snoc parts a :
  parts <> [] -> dotted_tokens (parts ++ [a]) = dotted_tokens parts ++ [TDot; TName a].
Proof.
  induction parts as [|p parts IH]; [congruence|]. intros _.
  destruct parts as [|q parts].
  - reflexivity.
  - change (dotted_tokens ((p :: q :: parts) ++ [a])) with (TName p :: TDot :: dotted_tokens ((q :: parts) ++ [a])).
    rewrite IH by discriminate. reflexivity.
Qed.

Lemma dotted_read v :
  name_chain v = true ->
  exists parts, dotted v = Some parts /\ parts <> [] /\
                forall rest res0, ES (fun f => rd_trailers f (norm v) rest) res0 ->
                                  ES (fun f => primary f (dotted_tokens parts ++ rest)) res0.
Proof.
  induction v; try discriminate.
  - intros _. exists [id]. split; [reflexivity|]. split; [discriminate|].
    intros rest res0 H. cbn [dotted_tokens app norm] in *.
    apply ES_primary with (a := EName id) (r := rest); [apply ES_atom_name|exact H].
  - cbn [name_chain]. intros Hc. destruct (IHv Hc) as [parts [Hd [Hne Hr]]].
    exists (parts ++ [attr]). split; [cbn [dotted]; rewrite Hd; reflexivity|].
    split; [destruct parts; discriminate|].
    intros rest res0 H. rewrite dotted_tokens_snoc by exact Hne. norm_app.
    apply Hr. apply ES_trailers_dot. cbn [norm] in H. rewrite Hc in H. exact H.
Qed.

Lemma dotted_none v : name_chain v = false -> dotted v = None.
Proof.
  induction v; try reflexivity; try discriminate.
  cbn [name_chain dotted]. intros H. rewrite (IHv H). reflexivity.
Qed.

(* ------------------------------------------------------------------ the induction *)
Lemma P_nonop e : top_op e = None -> nst e = true -> (ok e = true -> Ast e) -> Pst e.
Proof.
  intros Ht Hns HA Hok. split.
  - intros _. split; [apply G_of_A; auto|auto].
  - intros y Hy. subst e. discriminate.
Qed.

Lemma P_op e o : top_op e = Some o -> nst e = true -> (ok e = true -> Bst e o) -> Pst e.
Proof.
  intros Ht Hns HB Hok. split.
  - intros _. split; [apply (G_of_B e o); auto|apply (A_of_B e o); auto].
  - intros y Hy. subst e. discriminate.
Qed.

Lemma norm_set es : norm (ESet es) = ECall (EName T_set) [EList (map norm es)] [].
Proof. reflexivity. Qed.

Theorem read_print_all e : Pst e.
Proof.
  induction e using expr_ind2.
  - (* leaf *)
    apply P_nonop; [reflexivity|reflexivity|]. intros _ pc rest res0 _ _ H. cbn [pp app norm] in *.
    apply ES_primary with (a := ELeaf l) (r := rest); [apply ES_atom_leaf|exact H].
  - (* name *)
    apply P_nonop; [reflexivity|reflexivity|]. intros _ pc rest res0 _ _ H. cbn [pp app norm] in *.
    apply ES_primary with (a := EName s) (r := rest); [apply ES_atom_name|exact H].
  - (* attribute *)
    apply P_nonop; [reflexivity|reflexivity|]. intros _ pc rest res0 _ _ H.
    destruct (name_chain (EAttr e a g)) eqn:Hc.
    + destruct (dotted_read _ Hc) as [parts [Hd [_ Hr]]]. cbn [pp]. rewrite Hd. apply Hr. exact H.
    + cbn [pp]. rewrite (dotted_none _ Hc). cbn [name_chain] in Hc. cbn [norm] in H. rewrite Hc in H.
      cbn [app]. apply ES_primary with (a := ELeaf (LGen g)) (r := rest); [apply ES_atom_leaf|exact H].
  - (* unary *)
    apply (P_op _ (OU u)); [reflexivity|reflexivity|]. intros Hok. cbn [ok] in Hok. apply andb_true_iff in Hok.
    apply B_un. apply G_of_P; tauto.
  - (* binary *)
    apply (P_op _ (OB b)); [reflexivity|reflexivity|]. intros Hok. cbn [ok] in Hok.
    apply andb_true_iff in Hok. destruct Hok as [Hl Hr]. apply andb_true_iff in Hl. apply andb_true_iff in Hr.
    apply B_bin; apply G_of_P; tauto.
  - (* boolean *)
    apply (P_op _ (OO o)); [reflexivity|reflexivity|]. intros Hok. cbn [ok] in Hok.
    apply andb_true_iff in Hok. destruct Hok as [Hlen Hall]. apply Nat.leb_le in Hlen.
    apply B_bool; [exact Hlen|]. apply Forall_G; assumption.
  - (* tuple *)
    apply P_nonop; [reflexivity|reflexivity|]. intros Hok pc rest res0 _ _ Hcont. cbn [ok] in Hok.
    apply andb_true_iff in Hok. destruct Hok as [Hlen Hall].
    pose proof (Forall_E es H Hall) as HE. clear H.
    destruct es as [|x es].
    + cbn [pp map commas app norm] in *. apply ES_primary with (a := ETuple []) (r := rest); [apply ES_atom_unit|exact Hcont].
    + destruct es as [|y ys]; [discriminate|].
      inversion HE as [|? ? Ex HE']; subst.
      cbn [forallb] in Hall. apply andb_true_iff in Hall. destruct Hall as [Hx Hys].
      destruct (elt_head x Hx) as [t [ts [Hp [Hrp _]]]].
      cbn [pp norm] in *. cbn [map]. rewrite commas_cons. norm_app.
      apply ES_primary with (a := ETuple (norm x :: map norm (y :: ys))) (r := rest); [|exact Hcont].
      assert (Hr : ES (fun f => rd_star f false (pp (POther None) x ++ TComma :: commas (map (pp (POther None)) (y :: ys)) ++ TRP :: rest))
                      (norm x, TComma :: commas (map (pp (POther None)) (y :: ys)) ++ TRP :: rest))
        by (apply Ex; reflexivity).
      cbn [map] in Hr. rewrite Hp in *. cbn [app] in *.
      apply ES_atom_tuple with (r2 := commas (pp (POther None) y :: map (pp (POther None)) ys) ++ TRP :: rest);
        [exact Hrp|exact Hr|].
      apply (elts_read (y :: ys) HE' Hys false CParen TRP rest). reflexivity.
  - (* list *)
    apply P_nonop; [reflexivity|reflexivity|]. intros Hok pc rest res0 _ _ Hcont. cbn [ok] in Hok.
    pose proof (Forall_E es H Hok) as HE.
    cbn [pp norm] in *. norm_app.
    apply ES_primary with (a := EList (map norm es)) (r := rest); [|exact Hcont].
    apply ES_atom_list. apply (elts_read es HE Hok false CBracket TRB rest). reflexivity.
  - (* set: displayed as set([...]) *)
    apply P_nonop; [reflexivity|reflexivity|]. intros Hok pc rest res0 _ _ Hcont. cbn [ok] in Hok.
    pose proof (Forall_E es H Hok) as HE.
    rewrite norm_set in Hcont. cbn [pp]. norm_app.
    apply ES_primary with (a := EName T_set) (r := TLP :: TLB :: commas (map (pp (POther None)) es) ++ TRB :: TRP :: rest);
      [apply ES_atom_name|].
    apply ES_trailers_call with (args := [EList (map norm es)]) (kws := []) (r2 := rest); [|exact Hcont].
    apply ES_args_pos_last; [reflexivity|reflexivity|].
    apply ES_rd with (lhs := EList (map norm es)) (r1 := TRP :: rest); [|apply ES_climb_stop; reflexivity].
    apply ES_prefix_primary; [reflexivity|].
    apply ES_primary with (a := EList (map norm es)) (r := TRP :: rest); [|apply ES_trailers_stop; reflexivity].
    apply ES_atom_list. apply (elts_read es HE Hok false CBracket TRB (TRP :: rest)). reflexivity.
  - (* dict *)
    apply P_nonop; [reflexivity|reflexivity|]. intros Hok pc rest res0 _ _ Hcont. cbn [ok] in Hok.
    pose proof (Forall_D items H Hok) as HD. clear H.
    rewrite pp_dict. rewrite norm_dict in Hcont. norm_app.
    apply ES_primary with (a := EDict (map normitem items)) (r := rest); [|exact Hcont].
    destruct items as [|[k v] items].
    + cbn. apply ES_atom_dict_empty.
    + destruct k as [k|].
      * inversion HD as [|? ? HD1 HD']; subst. unfold Dst in HD1. cbn [fst snd] in HD1.
        destruct HD1 as [[Hk1 [Hk2 Rk]] Rv].
        destruct (head_prim k (POther None) Hk1 Hk2 (prim_other _ Hk2)) as [t [ts [Hp Hh]]].
        cbn [map]. rewrite commas_cons.
        change (itemtoks (Some k, v)) with (pp (POther None) k ++ TColon :: pp (POther (Some prec_comma)) v).
        change (normitem (Some k, v)) with (Some (norm k), norm v).
        assert (Hns : is_starred (norm k) = false)
          by (rewrite is_starred_norm; unfold nst in Hk2; destruct (is_starred k); [discriminate|reflexivity]).
        destruct (map itemtoks items) as [|b L] eqn:EL.
        -- assert (items = []) by (destruct items; [reflexivity|discriminate]). subst items. cbn [map]. norm_app.
           assert (Hr : ES (fun f => rd f L_test (pp (POther None) k ++ TColon :: pp (POther (Some prec_comma)) v ++ TRC :: rest))
                           (norm k, TColon :: pp (POther (Some prec_comma)) v ++ TRC :: rest))
             by (apply Rk; [unfold L_test; lia|reflexivity|reflexivity]).
           rewrite Hp in *. cbn [app] in *.
           apply ES_atom_dict_one with (r2 := pp (POther (Some prec_comma)) v ++ TRC :: rest); [exact Hh| |exact Hns|].
           ++ apply ES_star_plain; [destruct t; try discriminate; reflexivity|exact Hr].
           ++ apply Rv; reflexivity.
        -- norm_app.
           assert (Hr : ES (fun f => rd f L_test (pp (POther None) k ++ TColon :: pp (POther (Some prec_comma)) v
                                                     ++ TComma :: commas (b :: L) ++ TRC :: rest))
                           (norm k, TColon :: pp (POther (Some prec_comma)) v ++ TComma :: commas (b :: L) ++ TRC :: rest))
             by (apply Rk; [unfold L_test; lia|reflexivity|reflexivity]).
           rewrite Hp in *. cbn [app] in *.
           apply ES_atom_dict_more with (r2 := pp (POther (Some prec_comma)) v ++ TComma :: commas (b :: L) ++ TRC :: rest)
                                        (r3 := commas (b :: L) ++ TRC :: rest); [exact Hh| |exact Hns| |].
           ++ apply ES_star_plain; [destruct t; try discriminate; reflexivity|exact Hr].
           ++ apply Rv; reflexivity.
           ++ rewrite <- EL. apply dict_read. exact HD'.
      * pose proof (dict_read ((None, v) :: items) HD rest) as HR.
        cbn [map] in *. rewrite commas_cons in *.
        change (itemtoks (None, v)) with (TOp ODStar :: pp (POther None) v) in *.
        destruct (map itemtoks items) as [|b L] eqn:EL; norm_app; revert HR; norm_app; intros HR;
          apply ES_atom_dict_unpack; exact HR.
  - (* subscript *)
    apply P_nonop; [reflexivity|reflexivity|]. intros Hok pc rest res0 _ _ Hcont. cbn [ok] in Hok.
    apply andb_true_iff in Hok. destruct Hok as [Hv Hsl]. apply andb_true_iff in Hv. destruct Hv as [Hv1 Hv2].
    pose proof (A_of_P e1 IHe1 Hv1 Hv2) as Av.
    assert (Hgen : forall toks,
               ES (fun f => rd_trailers f (norm e1) (TLB :: toks ++ TRB :: rest))
                  res0 ->
               ES (fun f => primary f (pp (POther None) e1 ++ TLB :: toks ++ TRB :: rest)) res0).
    { intros toks Hx. apply Av; [exact I|apply prim_other; exact Hv2|exact Hx]. }
    assert (Hplain : ok e2 = true -> nst e2 = true ->
                     pp pc (ESub e1 e2) = pp (POther None) e1 ++ TLB :: pp (POther None) e2 ++ [TRB] ->
                     norm (ESub e1 e2) = ESub (norm e1) (norm e2) ->
                     ES (fun f => primary f (pp pc (ESub e1 e2) ++ rest)) res0).
    { intros Ho Hn Epp Enorm. rewrite Epp. rewrite Enorm in Hcont. norm_app.
      apply (Hgen (pp (POther None) e2)).
      assert (Hn' : is_starred (norm e2) = false)
        by (rewrite is_starred_norm; unfold nst in Hn; destruct (is_starred e2); [discriminate|reflexivity]).
      apply ES_trailers_index with (x := norm e2) (r2 := rest); [|rewrite Hn'; exact Hcont].
      apply (E_of_P e2 IHe2 Ho); reflexivity. }
    destruct e2; try (apply andb_true_iff in Hsl; destruct Hsl as [Hs1 Hs2]; apply Hplain; [exact Hs1|exact Hs2|reflexivity|reflexivity]).
    (* a tuple in the slice position *)
    cbn [sub_elts] in H. destruct es as [|x xs].
    + apply Hplain; reflexivity.
    + pose proof (Forall_E (x :: xs) H Hsl) as HE. inversion HE as [|? ? Ex HE']; subst.
      cbn [forallb] in Hsl. apply andb_true_iff in Hsl. destruct Hsl as [Hx Hxs].
      destruct (elt_head x Hx) as [t [ts [Hp _]]].
      cbn [pp norm] in *. cbn [map] in *. rewrite commas_cons.
      destruct xs as [|y ys].
      * cbn [map]. norm_app. cbn [app].
        apply Av; [exact I|apply prim_other; exact Hv2|].
        apply ES_trailers_index_tuple with (x := norm x) (r2 := TRB :: rest) (xs := []) (r3 := rest); [| |exact Hcont].
        -- apply Ex; reflexivity.
        -- apply ES_elts_nil. reflexivity.
      * cbn [map]. norm_app. cbn [app]. norm_app.
        apply Av; [exact I|apply prim_other; exact Hv2|].
        apply ES_trailers_index_tuple with (x := norm x) (xs := map norm (y :: ys)) (r3 := rest)
                                           (r2 := commas (map (pp (POther None)) (y :: ys)) ++ TRB :: rest);
          [| |exact Hcont].
        -- apply Ex; reflexivity.
        -- apply (elts_read (y :: ys) HE' Hxs true CBracket TRB rest). reflexivity.
  - (* call *)
    apply P_nonop; [reflexivity|reflexivity|]. intros Hok pc rest res0 _ _ Hcont. cbn [ok] in Hok.
    apply andb_true_iff in Hok. destruct Hok as [Hok Hkws]. apply andb_true_iff in Hok. destruct Hok as [Hf Hargs].
    apply andb_true_iff in Hf. destruct Hf as [Hf1 Hf2].
    rewrite pp_call. rewrite norm_call in Hcont. norm_app.
    apply (A_of_P e IHe Hf1 Hf2); [exact I|apply prim_other; exact Hf2|].
    apply ES_trailers_call with (args := map norm args) (kws := map normkw kws) (r2 := rest); [|exact Hcont].
    apply args_read.
    + apply Forall_Arg; assumption.
    + clear - H0 Hkws. induction kws as [|[k v] kws IH]; constructor.
      * inversion H0 as [|? ? Hv _]; subst. cbn [snd] in *. cbn [forallb snd] in Hkws.
        apply andb_true_iff in Hkws. destruct Hkws as [Hv' _]. apply andb_true_iff in Hv'.
        apply R_of_G. apply G_of_P; tauto.
      * inversion H0; subst. cbn [forallb] in Hkws. apply andb_true_iff in Hkws. apply IH; tauto.
  - (* starred *)
    intros Hok. split; [discriminate|]. intros y Hy. inversion Hy; subst y.
    destruct (ok_starred e Hok) as [H1 H2]. apply G_of_P; assumption.
Qed.

(* ------------------------------------------------------------------ from the guards of the statement to ok *)
Lemma wf_elt_eq x : wf_elt wf_source x = wf_source x.
Proof. destruct x; reflexivity. Qed.

Definition OKst (e : expr) : Prop := wf_source e = true -> no_one_tuple e = true -> ok e = true.

Lemma plain_split x : wf_source x && negb (is_starred x) = true -> wf_source x = true /\ nst x = true.
Proof. intros H. apply andb_true_iff in H. exact H. Qed.

Lemma forallb_ok_elts es :
  Forall OKst es -> forallb (wf_elt wf_source) es = true -> forallb no_one_tuple es = true -> forallb ok es = true.
Proof.
  induction es as [|x es IH]; intros HF H1 H2; [reflexivity|].
  inversion HF; subst. cbn [forallb] in *. apply andb_true_iff in H1. apply andb_true_iff in H2.
  destruct H1 as [H1 H1']. destruct H2 as [H2 H2']. rewrite wf_elt_eq in H1.
  apply andb_true_iff. split; [auto|apply IH; auto].
Qed.

Lemma forallb_ok_plain es :
  Forall OKst es -> forallb (fun x => wf_source x && negb (is_starred x)) es = true ->
  forallb no_one_tuple es = true -> forallb (fun x => ok x && nst x) es = true.
Proof.
  induction es as [|x es IH]; intros HF H1 H2; [reflexivity|].
  inversion HF; subst. cbn [forallb] in *. apply andb_true_iff in H1. apply andb_true_iff in H2.
  destruct H1 as [H1 H1']. destruct H2 as [H2 H2']. destruct (plain_split _ H1) as [Hw Hn].
  apply andb_true_iff. split; [|apply IH; auto].
  apply andb_true_iff. split; auto.
Qed.

Lemma ok_of_guards e : OKst e.
Proof.
  induction e using expr_ind2; unfold OKst; intros Hw Hn; try reflexivity.
  - cbn [wf_source no_one_tuple ok] in *. destruct (plain_split _ Hw) as [H1 H2].
    apply andb_true_iff; split; auto.
  - cbn [wf_source no_one_tuple ok] in *. apply andb_true_iff in Hw. apply andb_true_iff in Hn.
    destruct Hw as [Hl Hr]. destruct Hn as [Hnl Hnr].
    destruct (plain_split _ Hl) as [H1 H2]. destruct (plain_split _ Hr) as [H3 H4].
    apply andb_true_iff; split; apply andb_true_iff; split; auto.
  - cbn [wf_source no_one_tuple ok] in *. apply andb_true_iff in Hw. destruct Hw as [Hlen Hall].
    apply andb_true_iff; split; [exact Hlen|]. apply forallb_ok_plain; auto.
  - cbn [wf_source no_one_tuple ok] in *. apply andb_true_iff in Hn. destruct Hn as [Hlen Hall].
    apply andb_true_iff; split; [exact Hlen|]. apply forallb_ok_elts; auto.
  - cbn [wf_source no_one_tuple ok] in *. apply forallb_ok_elts; auto.
  - cbn [wf_source no_one_tuple ok] in *. apply forallb_ok_elts; auto.
  - cbn [wf_source no_one_tuple ok] in *.
    induction items as [|[k v] items IH]; [reflexivity|].
    inversion H as [|? ? [Hk Hv] HF']; subst. cbn [forallb fst snd] in *.
    apply andb_true_iff in Hw. apply andb_true_iff in Hn. destruct Hw as [Hw1 Hw2]. destruct Hn as [Hn1 Hn2].
    apply andb_true_iff in Hw1. apply andb_true_iff in Hn1. destruct Hw1 as [Hwk Hwv]. destruct Hn1 as [Hnk Hnv].
    destruct (plain_split _ Hwv) as [Hv1 Hv2].
    apply andb_true_iff; split; [|apply IH; auto].
    apply andb_true_iff; split.
    + destruct k as [k|]; [|reflexivity]. destruct (plain_split _ Hwk) as [Hk1 Hk2].
      apply andb_true_iff; split; auto.
    + apply andb_true_iff; split; auto.
  - cbn [wf_source no_one_tuple ok] in *. apply andb_true_iff in Hw. apply andb_true_iff in Hn.
    destruct Hw as [Hwv Hws]. destruct Hn as [Hnv Hns]. destruct (plain_split _ Hwv) as [H1 H2].
    apply andb_true_iff; split; [apply andb_true_iff; split; auto|].
    destruct e2; try (destruct (plain_split _ Hws) as [H3 H4]; apply andb_true_iff; split; auto).
    cbn [sub_elts] in H. apply forallb_ok_elts; auto.
  - cbn [wf_source no_one_tuple ok] in *. apply andb_true_iff in Hw. apply andb_true_iff in Hn.
    destruct Hw as [Hw Hwk]. destruct Hn as [Hn Hnk]. apply andb_true_iff in Hw. apply andb_true_iff in Hn.
    destruct Hw as [Hwf Hwa]. destruct Hn as [Hnf Hna]. destruct (plain_split _ Hwf) as [H1 H2].
    apply andb_true_iff; split; [apply andb_true_iff; split|].
    + apply andb_true_iff; split; auto.
    + apply forallb_ok_elts; auto.
    + clear - H0 Hwk Hnk. induction kws as [|[k v] kws IH]; [reflexivity|].
      inversion H0 as [|? ? Hv HF']; subst. cbn [forallb snd] in *. apply andb_true_iff in Hwk. apply andb_true_iff in Hnk.
      destruct Hwk as [Hw1 Hw2]. destruct Hnk as [Hn1 Hn2]. destruct (plain_split _ Hw1) as [Hp1 Hp2].
      apply andb_true_iff; split; [apply andb_true_iff; split; auto|apply IH; auto].
  - cbn [wf_source no_one_tuple ok] in *. destruct (plain_split _ Hw) as [H1 H2].
    apply andb_true_iff; split; auto.
Qed.

(* ------------------------------------------------------------------ C15_read_print, "enough fuel" form *)
Theorem read_print_ES e pc :
  good_pc pc -> wf_source e = true -> is_starred e = false -> no_one_tuple e = true ->
  ES (fun f => rd f L_test (pp pc e)) (norm e, []).
Proof.
  intros Hg Hw Hs Hn.
  pose proof (ok_of_guards e Hw Hn) as Hok.
  assert (Hns : nst e = true) by (unfold nst; rewrite Hs; reflexivity).
  rewrite <- (app_nil_r (pp pc e)).
  apply (G_of_P e (read_print_all e) Hok Hns); [exact Hg|apply Nat.le_0_l|reflexivity|reflexivity|].
  apply ES_climb_stop. reflexivity.
Qed.

(* with the reader's own fuel (8 * number of tokens + 8) *)
Theorem read_print e pc :
  good_pc pc -> wf_source e = true -> is_starred e = false -> no_one_tuple e = true ->
  read (pp pc e) = Some (norm e).
Proof. intros Hg Hw Hs Hn. apply read_of_ES. apply read_print_ES; assumption. Qed.

(* the recorded defect: the one-element tuple *)
Lemma one_tuple_witness :
  let e := ETuple [EName [98%N]] in
  wf_source e = true /\ read (pp PNone e) = Some (EName [98%N]) /\ norm e = ETuple [EName [98%N]].
Proof. vm_compute. repeat split. Qed.

(* ------------------------------------------------------------------ the operator symbols the colouriser writes (read from its
   source into Gen/TablesC15.v) are Python's spelling of the token pp prints for that operator *)
Definition spelled (t : token) (pre post : text) (shown : text) : Prop :=
  match tok_text t with Some sp => shown = pre ++ sp ++ post | None => False end.

Lemma operator_spelling :
  (forall b : binop, spelled (btok b) [] [] (bop_text b)) /\
  (forall u : unop, spelled (utok u) [] (match u with UNot => [32%N] | _ => [] end) (uop_text u)) /\
  (forall o : boolop, spelled (otok o) [32%N] [32%N] (boolop_text o)).
Proof.
  split; [|split].
  - intros b; destruct b; reflexivity.
  - intros u; destruct u; reflexivity.
  - intros o; destruct o; reflexivity.
Qed.

(* ------------------------------------------------------------------ the tree of output calls built for an expression whose
   names, numbers and delegated texts contain no newline is simple (WrapProofs.simple_cmd) *)
Definition nonl (t : text) : bool := negb (has_nl t).

Fixpoint simple_expr (e : expr) : bool :=
  match e with
  | ELeaf (LConst (KNum t)) => nonl t
  | ELeaf (LConst _) => true
  | ELeaf (LGen t) => nonl t
  | EName s => nonl s
  | EAttr v a g => simple_expr v && nonl a && nonl g
  | EUn _ x => simple_expr x
  | EBin _ l r => simple_expr l && simple_expr r
  | EBool _ es | ETuple es | EList es | ESet es => forallb simple_expr es
  | EDict items =>
    forallb (fun kv : ditem => match fst kv with Some k => simple_expr k | None => true end && simple_expr (snd kv)) items
  | ESub v sl => simple_expr v && simple_expr sl
  | ECall f args kws =>
    simple_expr f && forallb simple_expr args
    && forallb (fun kw : kwarg => match fst kw with Some n => nonl n | None => true end && simple_expr (snd kw)) kws
  | EStarred x => simple_expr x
  end.

Lemma simple_out t : nonl t = true -> simple_cmd (out t) = true.
Proof. intros H. unfold out. cbn [simple_cmd plain_kind]. unfold nonl in H. rewrite H. reflexivity. Qed.

Lemma simple_iter_body items : forall first, forallb simple_cmd items = true -> forallb simple_cmd (iter_body first items) = true.
Proof.
  induction items as [|c items IH]; intros first H; [reflexivity|].
  cbn [forallb] in H. apply andb_true_iff in H. destruct H as [H1 H2].
  cbn [iter_body]. rewrite forallb_app. apply andb_true_iff. split; [destruct first; reflexivity|].
  cbn [app forallb simple_cmd]. rewrite H1. cbn [andb]. apply IH. exact H2.
Qed.

Lemma simple_iter_cmd pre suf items :
  match pre with Some t => nonl t | None => true end = true ->
  match suf with Some t => nonl t | None => true end = true ->
  forallb simple_cmd items = true -> simple_cmd (iter_cmd pre suf items) = true.
Proof.
  intros H1 H2 H3. unfold iter_cmd. cbn [simple_cmd]. rewrite !forallb_app. cbn [forallb simple_cmd].
  rewrite (simple_iter_body items true H3).
  destruct pre as [t|]; destruct suf as [t'|]; cbn [opt_out forallb simple_cmd plain_kind];
    unfold nonl in *; rewrite ?H1, ?H2; reflexivity.
Qed.

Lemma simple_intersperse sep l :
  simple_cmd sep = true -> forallb simple_cmd l = true -> forallb simple_cmd (intersperse sep l) = true.
Proof.
  intros Hs. induction l as [|c l IH]; intros H; [reflexivity|].
  cbn [forallb] in H. apply andb_true_iff in H. destruct H as [H1 H2].
  destruct l as [|c2 l]; cbn [intersperse forallb]; [rewrite H1; reflexivity|].
  rewrite H1, Hs. cbn [andb]. apply IH. exact H2.
Qed.

Lemma forallb_map_simple (f : expr -> cmd) es :
  Forall (fun x => simple_expr x = true -> simple_cmd (f x) = true) es ->
  forallb simple_expr es = true -> forallb simple_cmd (map f es) = true.
Proof.
  induction es as [|x es IH]; intros HF H; [reflexivity|].
  inversion HF as [|? ? Hx HF']; subst. cbn [forallb map] in *. apply andb_true_iff in H. destruct H as [Ha Hb].
  apply andb_true_iff. split; auto.
Qed.

Lemma dotted_simple e : forall parts, simple_expr e = true -> dotted e = Some parts -> forallb nonl parts = true.
Proof.
  induction e; intros parts Hs Hd; try discriminate.
  - cbn in Hd. inversion Hd; subst. cbn in *. rewrite Hs. reflexivity.
  - cbn [dotted] in Hd. destruct (dotted e) as [ps|] eqn:E; [|discriminate]. inversion Hd; subst.
    cbn [simple_expr] in Hs. apply andb_true_iff in Hs. destruct Hs as [Hs Hg]. apply andb_true_iff in Hs.
    destruct Hs as [Hv Ha]. rewrite forallb_app. rewrite (IHe ps Hv eq_refl). cbn. rewrite Ha. reflexivity.
Qed.

Lemma join_dot_nonl parts : forallb nonl parts = true -> nonl (join_dot parts) = true.
Proof.
  induction parts as [|p parts IH]; intros H; [reflexivity|].
  cbn [forallb] in H. apply andb_true_iff in H. destruct H as [H1 H2].
  destruct parts as [|q parts]; [exact H1|].
  change (join_dot (p :: q :: parts)) with (p ++ [46%N] ++ join_dot (q :: parts)).
  unfold nonl, has_nl in *. rewrite !existsb_app. apply negb_true_iff in H1. rewrite H1.
  specialize (IH H2). apply negb_true_iff in IH. rewrite IH. reflexivity.
Qed.

Lemma op_texts_nonl :
  (forall u, nonl (uop_text u) = true) /\ (forall b, nonl (bop_text b) = true) /\ (forall o, nonl (boolop_text o) = true).
Proof. repeat split; intros x; destruct x; reflexivity. Qed.

Lemma compile_simple e : forall pc, simple_expr e = true -> simple_cmd (compile pc e) = true.
Proof.
  destruct op_texts_nonl as [Hu [Hb Ho]].
  induction e using expr_ind2; intros pc Hs.
  - destruct l as [c|t]; [destruct c|]; cbn [compile compile_const simple_cmd plain_kind] in *;
      try reflexivity; try (apply simple_out; exact Hs).
  - cbn [compile simple_cmd plain_kind]. cbn [simple_expr] in Hs. unfold nonl in Hs. rewrite Hs. reflexivity.
  - cbn [compile]. destruct (dotted (EAttr e a g)) as [parts|] eqn:E.
    + cbn [simple_cmd plain_kind]. pose proof (join_dot_nonl parts (dotted_simple _ parts Hs E)) as H.
      unfold nonl in H. rewrite H. reflexivity.
    + cbn [simple_expr] in Hs. apply andb_true_iff in Hs. destruct Hs as [_ Hg]. apply simple_out. exact Hg.
  - cbn [compile simple_cmd forallb]. rewrite (simple_out _ (Hu u)). cbn [simple_expr] in Hs. rewrite (IHe _ Hs). reflexivity.
  - cbn [compile simple_cmd forallb]. cbn [simple_expr] in Hs. apply andb_true_iff in Hs. destruct Hs as [H1 H2].
    rewrite (IHe1 _ H1), (IHe2 _ H2), (simple_out _ (Hb b)). reflexivity.
  - cbn [compile simple_cmd]. cbn [simple_expr] in Hs. apply simple_intersperse; [apply simple_out; apply Ho|].
    apply forallb_map_simple; [|exact Hs]. eapply Forall_impl; [|exact H]. intros x Hx. apply Hx.
  - cbn [compile simple_cmd]. cbn [simple_expr] in Hs. apply simple_iter_cmd; try reflexivity.
    apply forallb_map_simple; [|exact Hs]. eapply Forall_impl; [|exact H]. intros x Hx. apply Hx.
  - cbn [compile simple_cmd]. cbn [simple_expr] in Hs. apply simple_iter_cmd; try reflexivity.
    apply forallb_map_simple; [|exact Hs]. eapply Forall_impl; [|exact H]. intros x Hx. apply Hx.
  - cbn [compile simple_cmd]. cbn [simple_expr] in Hs. apply simple_iter_cmd; try reflexivity.
    apply forallb_map_simple; [|exact Hs]. eapply Forall_impl; [|exact H]. intros x Hx. apply Hx.
  - cbn [compile simple_cmd forallb]. cbn [simple_expr] in Hs.
    rewrite (simple_out [123%N] eq_refl), (simple_out [125%N] eq_refl). cbn [andb]. rewrite andb_true_r.
    apply simple_iter_body.
    induction items as [|[k v] items IHi]; [reflexivity|].
    inversion H as [|? ? [Hk Hv] HF]; subst. cbn [forallb map fst snd] in *.
    apply andb_true_iff in Hs. destruct Hs as [Hkv Hrest]. apply andb_true_iff in Hkv. destruct Hkv as [Hsk Hsv].
    apply andb_true_iff. split; [|apply IHi; assumption].
    destruct k as [k|]; cbn [simple_cmd forallb].
    + rewrite (Hk _ Hsk), (Hv _ Hsv), (simple_out [58%N; 32%N] eq_refl). reflexivity.
    + rewrite (Hv _ Hsv), (simple_out T_DSTAR eq_refl). reflexivity.
  - cbn [simple_expr] in Hs. apply andb_true_iff in Hs. destruct Hs as [Hv Hsl].
    cbn [compile simple_cmd forallb]. rewrite (IHe1 _ Hv), (simple_out T_LB eq_refl), (simple_out T_RB eq_refl).
    cbn [andb]. rewrite andb_true_r.
    destruct e2; try (cbn [simple_cmd forallb]; rewrite (IHe2 _ Hsl); reflexivity).
    destruct es as [|x xs]; [reflexivity|].
    cbn [simple_cmd]. cbn [sub_elts] in H. cbn [simple_expr] in Hsl.
    apply simple_iter_cmd; [reflexivity|destruct xs; reflexivity|].
    apply forallb_map_simple; [|exact Hsl]. eapply Forall_impl; [|exact H]. intros y Hy. apply Hy.
  - cbn [simple_expr] in Hs. apply andb_true_iff in Hs. destruct Hs as [Hs Hkws]. apply andb_true_iff in Hs.
    destruct Hs as [Hf Hargs].
    cbn [compile simple_cmd forallb]. rewrite (IHe _ Hf), (simple_out T_LP eq_refl), (simple_out T_RP eq_refl).
    cbn [andb]. rewrite andb_true_r. rewrite forallb_app. apply andb_true_iff. split.
    + cbn [forallb simple_cmd]. rewrite andb_true_r. apply simple_iter_cmd; try reflexivity.
      apply forallb_map_simple; [|exact Hargs]. eapply Forall_impl; [|exact H]. intros y Hy. apply Hy.
    + destruct kws as [|kw kws]; [reflexivity|]. rewrite forallb_app. apply andb_true_iff. split; [destruct args; reflexivity|].
      cbn [forallb simple_cmd]. rewrite andb_true_r. apply simple_iter_cmd; try reflexivity.
      clear - H0 Hkws. revert H0 Hkws. generalize (kw :: kws) as l. intros l.
      induction l as [|[k v] l IHl]; intros HF Hk; [reflexivity|].
      inversion HF as [|? ? Hv HF']; subst. cbn [forallb map fst snd] in *.
      apply andb_true_iff in Hk. destruct Hk as [Hkv Hrest]. apply andb_true_iff in Hkv. destruct Hkv as [Hn Hsv].
      apply andb_true_iff. split; [|apply IHl; assumption].
      destruct k as [name|]; cbn [simple_cmd forallb].
      * rewrite (simple_out name Hn), (simple_out [61%N] eq_refl), (Hv _ Hsv). reflexivity.
      * rewrite (simple_out T_DSTAR eq_refl), (Hv _ Hsv). reflexivity.
  - cbn [compile simple_cmd forallb]. cbn [simple_expr] in Hs. rewrite (IHe _ Hs), (simple_out T_STAR eq_refl). reflexivity.
Qed.

(* colorize_inline_pyval never cuts an expression whose names, numbers and delegated texts are one-line *)
Theorem inline_expr_complete e pc ml :
  simple_expr e = true ->
  c_complete (colorize (Params 0 ml false) (compile pc e)) = true /\
  c_fuel_ok (colorize (Params 0 ml false) (compile pc e)) = true /\
  nodes_text (c_nodes (colorize (Params 0 ml false) (compile pc e))) = flat (compile pc e).
Proof. intros H. apply inline_complete. apply compile_simple. exact H. Qed.
