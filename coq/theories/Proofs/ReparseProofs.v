(* Proofs/ReparseProofs.v -- lemmas for C10: docutils encode/attval, html2stan(encode t), start tags. *)
From Coq Require Import ZArith NArith List Bool Lia Arith.
From PydoctorVerif Require Import Base.Sexp Gen.TablesC10 Model.Stan Model.DocutilsEsc Model.Html2Stan
  Spec.Xml Spec.StanXml Proofs.EscProofs.
Import ListNotations.
Local Open Scope N_scope.

(* ------------------------------------------------------------------ any escaping of text that the reader inverts *)
Section GenText.
  Variable f : N -> text.        (* how one character is written *)
  Variable d : N -> text.        (* what the reader makes of it *)
  Variable ok : N -> bool.       (* the characters considered *)
  Hypothesis f_head : forall c, ok c = true -> exists x tl, f c = x :: tl /\ (x =? 60) = false.
  Hypothesis f_no : forall c, ok c = true -> ~ In 60 (f c) /\ ~ In 62 (f c).
  Hypothesis f_unesc : forall c rest, ok c = true ->
    unesc None (f c ++ rest) = match unesc None rest with Some r => Some (d c ++ r) | None => None end.

  Lemma gen_unesc : forall t rest, forallb ok t = true ->
    unesc None (flat_map f t ++ rest) = match unesc None rest with Some r => Some (flat_map d t ++ r) | None => None end.
  Proof.
    induction t as [|c t IH]; intros rest Ht; simpl.
    - destruct (unesc None rest); reflexivity.
    - simpl in Ht. apply andb_true_iff in Ht. destruct Ht as [Hc Ht].
      rewrite <- app_assoc, f_unesc by assumption. rewrite IH by assumption.
      destruct (unesc None rest); [rewrite <- app_assoc|]; reflexivity.
  Qed.

  Lemma gen_not_in : forall x t, (x = 60 \/ x = 62) -> forallb ok t = true -> ~ In x (flat_map f t).
  Proof.
    intros x t Hx Ht Hin. apply in_flat_map in Hin. destruct Hin as [c [Hc Hin]].
    rewrite forallb_forall in Ht. destruct (f_no c (Ht c Hc)) as [H60 H62].
    destruct Hx; subst x; auto.
  Qed.

  Lemma gen_char_data : forall t, forallb ok t = true -> char_data (flat_map f t) = Some (flat_map d t).
  Proof.
    intros t Ht. unfold char_data. rewrite no_gt_no_cdata_end by (apply gen_not_in; auto).
    unfold unescape. rewrite <- (app_nil_r (flat_map f t)). rewrite gen_unesc by assumption.
    simpl. rewrite app_nil_r. reflexivity.
  Qed.

  Lemma gen_text_prefix : forall t fu s',
    t <> [] -> forallb ok t = true -> head_fails (not_char 60) s' ->
    read_content (S fu) (flat_map f t ++ s') =
    match read_content fu s' with Some (sibs, r') => Some (XText (flat_map d t) :: sibs, r') | None => None end.
  Proof.
    intros t fu s' Hne Ht Hs'.
    destruct t as [|c t]; [congruence|].
    assert (Hc : ok c = true) by (simpl in Ht; apply andb_true_iff in Ht; tauto).
    destruct (f_head c Hc) as [x [tl [Ex Hx]]].
    assert (Hshape : exists tl', flat_map f (c :: t) ++ s' = x :: tl').
    { simpl. rewrite Ex. simpl. eexists. reflexivity. }
    destruct Hshape as [tl' Etl]. rewrite Etl. rewrite read_content_text by assumption. rewrite <- Etl.
    rewrite span_app; [| | assumption].
    - rewrite gen_char_data by assumption. reflexivity.
    - apply forallb_not_char. apply gen_not_in; auto.
  Qed.
End GenText.

(* ------------------------------------------------------------------ docutils encode as a character map *)
Definition enc_d (c : N) : text :=
  match assoc_N c docutils_special with Some r => r | None => [c] end.

Lemma encode_map : forall t, encode t = flat_map enc_d t.
Proof. reflexivity. Qed.

(* the characters docutils writes as references, and the one it writes as an entity XML does not define *)
Definition enc_special (c : N) : bool := (c =? 34) || (c =? 38) || (c =? 60) || (c =? 62) || (c =? 64) || (c =? 160).

Lemma enc_d_plain : forall c, enc_special c = false -> enc_d c = [c].
Proof.
  intros c H. unfold enc_special in H.
  repeat (apply orb_false_iff in H; let H' := fresh "E" in destruct H as [H H']).
  unfold enc_d, docutils_special. cbn [assoc_N]. rewrite H, E3, E2, E1, E0, E. reflexivity.
Qed.

Lemma enc_special_cases : forall c, enc_special c = true ->
  c = 34 \/ c = 38 \/ c = 60 \/ c = 62 \/ c = 64 \/ c = 160.
Proof.
  intros c H. unfold enc_special in H.
  repeat (apply orb_true_iff in H; destruct H as [H|H]); apply N.eqb_eq in H; auto 7.
Qed.

Lemma unesc_enc_d : forall c rest, xml_char c = true -> c <> 160 ->
  unesc None (enc_d c ++ rest) = opt_cons c (unesc None rest).
Proof.
  intros c rest Hc H160.
  destruct (enc_special c) eqn:Es.
  - destruct (enc_special_cases c Es) as [-> | [-> | [-> | [-> | [-> | ->]]]]]; try reflexivity. congruence.
  - rewrite (enc_d_plain c Es). unfold enc_special in Es.
    repeat (apply orb_false_iff in Es; let H' := fresh "E" in destruct Es as [Es H']).
    apply unesc_plain; assumption.
Qed.

Lemma enc_d_no : forall c x, (x = 60 \/ x = 62 \/ x = 34) -> ~ In x (enc_d c).
Proof.
  intros c x Hx.
  destruct (enc_special c) eqn:Es.
  - destruct (enc_special_cases c Es) as [-> | [-> | [-> | [-> | [-> | ->]]]]]; simpl;
      destruct Hx as [-> | [-> | ->]]; intuition discriminate.
  - rewrite (enc_d_plain c Es). unfold enc_special in Es.
    repeat (apply orb_false_iff in Es; let H' := fresh "E" in destruct Es as [Es H']).
    nb. simpl. intros [H|[]]. destruct Hx as [-> | [-> | ->]]; congruence.
Qed.

Theorem encode_no_markup : forall t, ~ In 60 (encode t) /\ ~ In 62 (encode t) /\ ~ In 34 (encode t).
Proof.
  intro t. rewrite encode_map. repeat split; apply not_in_flat_map; intro c; apply enc_d_no; auto.
Qed.

Theorem unescape_encode : forall t, forallb xml_char t = true -> ~ In 160 t -> unescape (encode t) = Some t.
Proof.
  intros t Ht H160. unfold unescape. rewrite encode_map.
  assert (H : forall rest, unesc None (flat_map enc_d t ++ rest)
                           = match unesc None rest with Some r => Some (t ++ r) | None => None end).
  { induction t as [|c t IH]; intro rest; simpl.
    - destruct (unesc None rest); reflexivity.
    - simpl in Ht. apply andb_true_iff in Ht. destruct Ht as [Hc Ht].
      rewrite <- app_assoc, unesc_enc_d; [| assumption | intro E; apply H160; left; auto].
      rewrite IH; [| assumption | intro Hin; apply H160; right; exact Hin].
      destruct (unesc None rest); reflexivity. }
  rewrite <- (app_nil_r (flat_map enc_d t)). rewrite H. simpl. rewrite app_nil_r. reflexivity.
Qed.

(* the entity docutils emits for U+00A0 is not an XML entity *)
Lemma unescape_encode_nbsp : unescape (encode [160]) = None.
Proof. reflexivity. Qed.

(* attval: white space first becomes a space *)
Definition ws_space (c : N) : N := if memN c attval_ws then 32 else c.

Lemma attval_map : forall t, attval t = encode (map ws_space t).
Proof. reflexivity. Qed.

Lemma ws_space_char : forall c, xml_char c = true \/ memN c attval_ws = true -> xml_char (ws_space c) = true.
Proof.
  intros c [H|H]; unfold ws_space; destruct (memN c attval_ws); try reflexivity; try assumption. discriminate.
Qed.

Theorem attval_no_markup : forall t, ~ In 60 (attval t) /\ ~ In 62 (attval t) /\ ~ In 34 (attval t).
Proof. intro t. rewrite attval_map. apply encode_no_markup. Qed.

Theorem unescape_attval : forall t,
  forallb (fun c => xml_char c || memN c attval_ws) t = true -> ~ In 160 t ->
  unescape (attval t) = Some (map ws_space t).
Proof.
  intros t Ht H160. rewrite attval_map. apply unescape_encode.
  - rewrite forallb_forall. intros x Hx. apply in_map_iff in Hx. destruct Hx as [c [<- Hc]].
    rewrite forallb_forall in Ht. apply ws_space_char. specialize (Ht c Hc).
    apply orb_true_iff in Ht. exact Ht.
  - intro Hin. apply in_map_iff in Hin. destruct Hin as [c [Ec Hc]]. unfold ws_space in Ec.
    destruct (memN c attval_ws); [discriminate|]. subst c. auto.
Qed.

(* ------------------------------------------------------------------ html2stan (encode t) *)
(* what the re-parse path writes for one character of the original text: encode, then the control neutralisation *)
Definition reparse_c (c : N) : text := flat_map neutralise_char (enc_d c).

Lemma neutralise_encode : forall t, neutralise (encode t) = flat_map reparse_c t.
Proof. intro t. unfold neutralise. rewrite encode_map. apply flat_map_flat_map. Qed.

(* characters for which the path is meant to work: XML Chars and the C0 controls; two exceptions, see the _refuted
   witnesses: FORM FEED (not neutralised, not an XML Char) and NO-BREAK SPACE (written as an undefined entity) *)
Definition is_c0 (c : N) : bool := c <? 32.
Definition reparse_ok (c : N) : bool := (xml_char c || is_c0 c) && negb (c =? 12) && negb (c =? 160).

Lemma memN_spec : forall c l, memN c l = true <-> In c l.
Proof.
  intros c l. unfold memN. rewrite existsb_exists. split.
  - intros [x [Hx E]]. apply N.eqb_eq in E. subst. exact Hx.
  - intro H. exists c. split; [exact H | apply N.eqb_refl].
Qed.

(* the table facts the proofs need, checked by computation on the regenerated tables *)
Lemma control_table_complete :
  forallb (fun c => memN c re_control || (c =? 9) || (c =? 10) || (c =? 13) || (c =? 12))
          (map N.of_nat (seq 0 32)) = true.
Proof. vm_compute. reflexivity. Qed.

Lemma control_table_sound : forallb (fun c => (c <? 32) && negb (xml_char c) && negb (c =? 12)) re_control = true.
Proof. vm_compute. reflexivity. Qed.

(* every substitute: non-empty, made of XML Chars that are plain for the reader, and it is its own decoding *)
Definition plain_char (c : N) : bool := xml_char c && negb (c =? 38) && negb (c =? 60) && negb (c =? 62) && negb (c =? 13) && negb (c =? 10).
Lemma control_repl_plain :
  forallb (fun c => match assoc_N c re_control_repl with
                    | Some (x :: tl) => forallb plain_char (x :: tl)
                    | _ => false
                    end) re_control = true.
Proof. vm_compute. reflexivity. Qed.

Lemma in_small_range : forall c, c < 32 -> In c (map N.of_nat (seq 0 32)).
Proof.
  intros c H. apply in_map_iff. exists (N.to_nat c). split; [apply N2Nat.id|].
  apply in_seq. lia.
Qed.

Lemma c0_in_table : forall c, c < 32 -> c <> 9 -> c <> 10 -> c <> 13 -> c <> 12 -> memN c re_control = true.
Proof.
  intros c H H9 H10 H13 H12.
  pose proof control_table_complete as T. rewrite forallb_forall in T.
  specialize (T c (in_small_range c H)).
  apply orb_true_iff in T. destruct T as [T|T]; [|apply N.eqb_eq in T; congruence].
  apply orb_true_iff in T. destruct T as [T|T]; [|apply N.eqb_eq in T; congruence].
  apply orb_true_iff in T. destruct T as [T|T]; [|apply N.eqb_eq in T; congruence].
  apply orb_true_iff in T. destruct T as [T|T]; [|apply N.eqb_eq in T; congruence].
  exact T.
Qed.

Lemma table_not_xml : forall c, memN c re_control = true -> c < 32 /\ xml_char c = false /\ c <> 12.
Proof.
  intros c H. apply memN_spec in H.
  pose proof control_table_sound as T. rewrite forallb_forall in T. specialize (T c H).
  nb. repeat split; try assumption.
Qed.

Lemma plain_unesc : forall s rest, forallb plain_char s = true ->
  unesc None (s ++ rest) = match unesc None rest with Some r => Some (s ++ r) | None => None end.
Proof.
  induction s as [|c s IH]; intros rest H; simpl app.
  - destruct (unesc None rest); reflexivity.
  - simpl in H. apply andb_true_iff in H. destruct H as [Hc Hs]. unfold plain_char in Hc. nb.
    rewrite unesc_plain; [| apply N.eqb_neq; assumption | apply N.eqb_neq; assumption | assumption].
    rewrite IH by assumption. destruct (unesc None rest); reflexivity.
Qed.

Lemma plain_no : forall s x, forallb plain_char s = true -> (x = 60 \/ x = 62 \/ x = 13 \/ x = 10) -> ~ In x s.
Proof.
  intros s x H Hx Hin. rewrite forallb_forall in H. specialize (H x Hin). unfold plain_char in H. nb.
  destruct Hx as [->|[-> | [-> | ->]]]; congruence.
Qed.

(* what the reader makes of one character on this path *)
Definition reparse_d (c : N) : text := neutralise_char c.

Lemma reparse_c_control : forall c, memN c re_control = true ->
  reparse_c c = neutralise_char c /\
  exists x tl, neutralise_char c = x :: tl /\ forallb plain_char (x :: tl) = true.
Proof.
  intros c H. destruct (table_not_xml c H) as [Hlt [Hx H12]].
  assert (Es : enc_special c = false).
  { unfold enc_special. repeat (apply orb_false_iff; split); apply N.eqb_neq; lia. }
  unfold reparse_c. rewrite (enc_d_plain c Es). simpl. rewrite app_nil_r. split; [reflexivity|].
  pose proof control_repl_plain as T. rewrite forallb_forall in T.
  specialize (T c (proj1 (memN_spec c re_control) H)).
  unfold neutralise_char. rewrite H.
  destruct (assoc_N c re_control_repl) as [[|x tl]|]; try discriminate. eauto.
Qed.

Lemma reparse_c_special : forall c, enc_special c = true -> reparse_c c = enc_d c /\ memN c re_control = false.
Proof.
  intros c H. destruct (enc_special_cases c H) as [-> | [-> | [-> | [-> | [-> | ->]]]]]; split; reflexivity.
Qed.

Lemma reparse_c_other : forall c, enc_special c = false -> memN c re_control = false ->
  reparse_c c = [c] /\ neutralise_char c = [c].
Proof.
  intros c Es Hm. unfold reparse_c. rewrite (enc_d_plain c Es). simpl. unfold neutralise_char. rewrite Hm. auto.
Qed.

Lemma reparse_ok_cases : forall c, reparse_ok c = true ->
  (memN c re_control = true) \/
  (memN c re_control = false /\ xml_char c = true /\ c <> 160).
Proof.
  intros c H. unfold reparse_ok in H. nb.
  destruct (memN c re_control) eqn:Hm; [left; reflexivity|]. right. split; [reflexivity|].
  apply orb_true_iff in H. destruct H as [H|H]; [auto|].
  unfold is_c0 in H. nb.
  destruct (N.eq_dec c 9) as [->|N9]; [split; [reflexivity|lia]|].
  destruct (N.eq_dec c 10) as [->|N10]; [split; [reflexivity|lia]|].
  destruct (N.eq_dec c 13) as [->|N13]; [split; [reflexivity|lia]|].
  rewrite (c0_in_table c H N9 N10 N13 H1) in Hm. discriminate.
Qed.

Lemma reparse_head : forall c, reparse_ok c = true -> exists x tl, reparse_c c = x :: tl /\ (x =? 60) = false.
Proof.
  intros c H. destruct (reparse_ok_cases c H) as [Hm|[Hm [Hx H160]]].
  - destruct (reparse_c_control c Hm) as [-> [x [tl [-> Hp]]]]. exists x, tl. split; [reflexivity|].
    simpl in Hp. apply andb_true_iff in Hp. destruct Hp as [Hp _]. unfold plain_char in Hp. nb.
    apply N.eqb_neq. assumption.
  - destruct (enc_special c) eqn:Es.
    + destruct (reparse_c_special c Es) as [-> _].
      destruct (enc_special_cases c Es) as [-> | [-> | [-> | [-> | [-> | ->]]]]];
        eexists; eexists; split; try reflexivity; reflexivity.
    + destruct (reparse_c_other c Es Hm) as [-> _]. exists c, []. split; [reflexivity|].
      unfold enc_special in Es.
      repeat (apply orb_false_iff in Es; let H' := fresh "E" in destruct Es as [Es H']). assumption.
Qed.

Lemma reparse_no : forall c, reparse_ok c = true -> ~ In 60 (reparse_c c) /\ ~ In 62 (reparse_c c).
Proof.
  intros c H. destruct (reparse_ok_cases c H) as [Hm|[Hm [Hx H160]]].
  - destruct (reparse_c_control c Hm) as [-> [x [tl [-> Hp]]]]. split; apply (plain_no _ _ Hp); auto.
  - destruct (enc_special c) eqn:Es.
    + destruct (reparse_c_special c Es) as [-> _]. split; apply enc_d_no; auto.
    + destruct (reparse_c_other c Es Hm) as [-> _]. rewrite <- (enc_d_plain c Es). split; apply enc_d_no; auto.
Qed.

Lemma reparse_unesc : forall c rest, reparse_ok c = true ->
  unesc None (reparse_c c ++ rest) = match unesc None rest with Some r => Some (reparse_d c ++ r) | None => None end.
Proof.
  intros c rest H. unfold reparse_d. destruct (reparse_ok_cases c H) as [Hm|[Hm [Hx H160]]].
  - destruct (reparse_c_control c Hm) as [-> [x [tl [E Hp]]]]. rewrite E. apply plain_unesc. exact Hp.
  - assert (En : neutralise_char c = [c]) by (unfold neutralise_char; rewrite Hm; reflexivity).
    rewrite En.
    destruct (enc_special c) eqn:Es.
    + destruct (reparse_c_special c Es) as [-> _]. rewrite unesc_enc_d by assumption.
      destruct (unesc None rest); reflexivity.
    + destruct (reparse_c_other c Es Hm) as [-> _].
      pose proof (unesc_enc_d c rest Hx H160) as U. rewrite (enc_d_plain c Es) in U. rewrite U.
      destruct (unesc None rest); reflexivity.
Qed.

(* ---- end-of-line normalisation commutes with the path ---- *)
Lemma eol_from_plain : forall s b rest, forallb plain_char s = true -> s <> [] ->
  eol_from b (s ++ rest) = s ++ eol_from false rest.
Proof.
  induction s as [|c s IH]; intros b rest H Hne; [congruence|].
  simpl in H. apply andb_true_iff in H. destruct H as [Hc Hs].
  assert (H13 : (c =? 13) = false) by (unfold plain_char in Hc; nb; apply N.eqb_neq; assumption).
  assert (H10 : (c =? 10) = false) by (unfold plain_char in Hc; nb; apply N.eqb_neq; assumption).
  simpl. rewrite H13, H10. simpl. f_equal.
  destruct s as [|c' s']; [reflexivity|]. apply IH; [assumption|discriminate].
Qed.

Lemma eol_from_flag : forall rest, head_fails (fun c => c =? 10) rest -> eol_from true rest = eol_from false rest.
Proof.
  intros [|c r] H; [reflexivity|]. simpl in H. simpl. rewrite H. reflexivity.
Qed.

(* one character of the original text *)
Lemma reparse_c_eol : forall c b rest, reparse_ok c = true -> c <> 13 -> c <> 10 ->
  eol_from b (reparse_c c ++ rest) = reparse_c c ++ eol_from false rest.
Proof.
  intros c b rest H H13 H10. destruct (reparse_ok_cases c H) as [Hm|[Hm [Hx H160]]].
  - destruct (reparse_c_control c Hm) as [-> [x [tl [-> Hp]]]]. apply eol_from_plain; [assumption|discriminate].
  - destruct (enc_special c) eqn:Es.
    + destruct (reparse_c_special c Es) as [-> _].
      destruct (enc_special_cases c Es) as [-> | [-> | [-> | [-> | [-> | ->]]]]]; try reflexivity; try congruence.
    + destruct (reparse_c_other c Es Hm) as [-> _]. simpl.
      rewrite (eqb_false_of_neq c 13 H13), (eqb_false_of_neq c 10 H10). reflexivity.
Qed.

Lemma reparse_c_13 : reparse_c 13 = [13].
Proof. reflexivity. Qed.
Lemma reparse_c_10 : reparse_c 10 = [10].
Proof. reflexivity. Qed.

Lemma eol_reparse : forall t b rest, forallb reparse_ok t = true -> head_fails (fun c => c =? 10) rest ->
  eol_from b (flat_map reparse_c t ++ rest) = flat_map reparse_c (eol_from b t) ++ eol_from false rest.
Proof.
  induction t as [|c t IH]; intros b rest Ht Hrest.
  - simpl. destruct b; [apply eol_from_flag; assumption | reflexivity].
  - simpl in Ht. apply andb_true_iff in Ht. destruct Ht as [Hc Ht].
    cbn [flat_map]. rewrite <- app_assoc.
    destruct (N.eq_dec c 13) as [->|N13].
    + rewrite reparse_c_13. simpl. rewrite IH by assumption. reflexivity.
    + destruct (N.eq_dec c 10) as [->|N10].
      * rewrite reparse_c_10. destruct b; simpl; rewrite IH by assumption; reflexivity.
      * rewrite reparse_c_eol by assumption. rewrite IH by assumption.
        cbn [eol_from]. rewrite (eqb_false_of_neq c 13 N13), (eqb_false_of_neq c 10 N10). simpl.
        rewrite <- app_assoc. reflexivity.
Qed.

Lemma eol_from_ok : forall t b, forallb reparse_ok t = true -> forallb reparse_ok (eol_from b t) = true.
Proof.
  induction t as [|c t IH]; intros b H; [reflexivity|].
  simpl in H. apply andb_true_iff in H. destruct H as [Hc Ht]. simpl.
  destruct (c =? 13); [simpl; apply IH; assumption|].
  destruct ((c =? 10) && b); [apply IH; assumption|]. simpl. rewrite Hc. apply IH. assumption.
Qed.

(* eol normalisation and control neutralisation commute on the original text *)
Lemma neutralise_eol : forall t b, flat_map reparse_d (eol_from b t) = eol_from b (flat_map reparse_d t) \/ True.
Proof. intros. right. exact I. Qed.

(* ---- the wrapped document reads back as one element holding one text ---- *)
Definition text_kids (s : text) : list stan := match s with [] => [] | _ :: _ => [SText s] end.

Lemma wrap_tag_is_name : is_name wrap_tag = true.
Proof. vm_compute. reflexivity. Qed.

Lemma wrap_tag_plain : forallb (fun c => negb (c =? 13) && negb (c =? 10)) wrap_tag = true.
Proof. vm_compute. reflexivity. Qed.

Lemma eol_from_no_eol : forall s b rest, forallb (fun c => negb (c =? 13) && negb (c =? 10)) s = true -> s <> [] ->
  eol_from b (s ++ rest) = s ++ eol_from false rest.
Proof.
  induction s as [|c s IH]; intros b rest H Hne; [congruence|].
  simpl in H. apply andb_true_iff in H. destruct H as [Hc Hs]. nb.
  simpl. rewrite (eqb_false_of_neq c 13 H), (eqb_false_of_neq c 10 H0). simpl. f_equal.
  destruct s as [|c' s']; [reflexivity|]. apply IH; [assumption|discriminate].
Qed.

Lemma flat_map_d_nonempty : forall t, t <> [] -> forallb reparse_ok t = true -> flat_map reparse_d t <> [].
Proof.
  intros [|c t] Hne H; [congruence|]. simpl in H. apply andb_true_iff in H. destruct H as [Hc _].
  simpl. unfold reparse_d. destruct (reparse_ok_cases c Hc) as [Hm|[Hm _]].
  - destruct (reparse_c_control c Hm) as [_ [x [tl [-> _]]]]. discriminate.
  - unfold neutralise_char. rewrite Hm. discriminate.
Qed.

Local Opaque wrap_tag.

Lemma read_wrapped : forall T, forallb reparse_ok T = true ->
  read ([60] ++ wrap_tag ++ [62] ++ flat_map reparse_c T ++ [60; 47] ++ wrap_tag ++ [62])
  = Some [XElem wrap_tag [] (match flat_map reparse_d T with [] => [] | _ :: _ => [XText (flat_map reparse_d T)] end)].
Proof.
  intros T HT. unfold read.
  set (doc := [60] ++ wrap_tag ++ [62] ++ flat_map reparse_c T ++ [60; 47] ++ wrap_tag ++ [62]).
  assert (Hdoc : doc = 60 :: wrap_tag ++ [] ++ [] ++ 62 :: flat_map reparse_c T ++ 60 :: 47 :: wrap_tag ++ 62 :: []).
  { unfold doc. simpl. reflexivity. }
  remember (length doc) as n eqn:Hn.
  rewrite Hdoc.
  rewrite read_content_elem by reflexivity.
  rewrite read_name_app; [| apply wrap_tag_is_name | simpl; reflexivity].
  change ([] ++ [] ++ 62 :: flat_map reparse_c T ++ 60 :: 47 :: wrap_tag ++ [62])
    with (flat_map flatten_attr [] ++ [] ++ (62 :: flat_map reparse_c T ++ 60 :: 47 :: wrap_tag ++ [62])).
  rewrite read_attrs_pp; [| reflexivity | reflexivity | reflexivity | left; reflexivity | ].
  2:{ rewrite Hn, Hdoc. simpl. len. }
  rewrite strip_prefix_head_false by reflexivity.
  change (62 :: flat_map reparse_c T ++ 60 :: 47 :: wrap_tag ++ [62])
    with ([62] ++ (flat_map reparse_c T ++ 60 :: 47 :: wrap_tag ++ [62])).
  rewrite strip_prefix_app.
  assert (Hn1 : (2 <= n)%nat).
  { rewrite Hn, Hdoc. simpl. len. }
  destruct n as [|[|n']]; try lia.
  destruct T as [|c T'].
  - simpl flat_map. simpl app.
    rewrite read_content_boundary by (right; eexists; reflexivity).
    rewrite close_tag_ok by apply wrap_tag_is_name.
    simpl. reflexivity.
  - rewrite (gen_text_prefix reparse_c reparse_d reparse_ok reparse_head reparse_no reparse_unesc);
      [| discriminate | assumption | simpl; reflexivity].
    destruct n' as [|n''].
    { exfalso. assert (2 <= length doc)%nat by lia. rewrite Hdoc in Hn. simpl in Hn.
      rewrite !app_length in Hn. simpl in Hn. rewrite !app_length in Hn. simpl in Hn.
      destruct (reparse_head c) as [x [tl [E _]]];
        [simpl in HT; apply andb_true_iff in HT; tauto|].
      rewrite E in Hn. simpl in Hn.
      assert (1 <= length wrap_tag)%nat by (vm_compute; lia). lia. }
    rewrite read_content_boundary by (right; eexists; reflexivity).
    rewrite close_tag_ok by apply wrap_tag_is_name.
    simpl read_content.
    pose proof (flat_map_d_nonempty (c :: T') ltac:(discriminate) HT) as Hne.
    destruct (flat_map reparse_d (c :: T')) as [|y ys]; [congruence|]. reflexivity.
Qed.

Lemma starts_decl_false : forall T, forallb reparse_ok T = true -> starts xml_decl (flat_map reparse_c T) = false.
Proof.
  intros [|c T] H; [reflexivity|]. simpl in H. apply andb_true_iff in H. destruct H as [Hc _].
  destruct (reparse_head c Hc) as [x [tl [E Hx]]]. cbn [flat_map]. rewrite E. unfold xml_decl.
  change ((x :: tl) ++ flat_map reparse_c T) with (x :: (tl ++ flat_map reparse_c T)). cbn [starts].
  rewrite N.eqb_sym. rewrite Hx. reflexivity.
Qed.

Theorem html2stan_encode : forall t, forallb reparse_ok t = true ->
  html2stan (encode t) = H2Ok (STag [] [] (text_kids (flat_map reparse_d (eol_norm t)))).
Proof.
  intros t Ht. unfold html2stan. rewrite neutralise_encode.
  rewrite starts_decl_false by assumption.
  unfold xml_load, wrap, eol_norm.
  assert (E : eol_from false ([60] ++ wrap_tag ++ [62] ++ flat_map reparse_c t ++ [60; 47] ++ wrap_tag ++ [62])
              = [60] ++ wrap_tag ++ [62] ++ flat_map reparse_c (eol_from false t) ++ [60; 47] ++ wrap_tag ++ [62]).
  { change ([60] ++ wrap_tag ++ [62] ++ flat_map reparse_c t ++ [60; 47] ++ wrap_tag ++ [62])
      with (60 :: wrap_tag ++ 62 :: flat_map reparse_c t ++ 60 :: 47 :: wrap_tag ++ [62]).
    cbn [eol_from]. change (60 =? 13) with false. change ((60 =? 10) && false) with false. cbv iota.
    rewrite eol_from_no_eol; [| apply wrap_tag_plain | vm_compute; discriminate].
    cbn [eol_from]. change (62 =? 13) with false. change ((62 =? 10) && false) with false. cbv iota.
    rewrite eol_reparse; [| assumption | simpl; reflexivity].
    cbn [eol_from]. change (60 =? 13) with false. change ((60 =? 10) && false) with false. cbv iota.
    change (47 =? 13) with false. change ((47 =? 10) && false) with false. cbv iota.
    rewrite eol_from_no_eol; [| apply wrap_tag_plain | vm_compute; discriminate].
    simpl. reflexivity. }
  rewrite E. rewrite read_wrapped by (apply eol_from_ok; assumption).
  unfold text_kids. destruct (flat_map reparse_d (eol_from false t)); reflexivity.
Qed.

(* the two characters on which the path fails *)
Lemma html2stan_formfeed : html2stan (encode [12]) = H2ParseError.
Proof. vm_compute. reflexivity. Qed.
Lemma html2stan_nbsp : html2stan (encode [160]) = H2ParseError.
Proof. vm_compute. reflexivity. Qed.
