(* Proofs/ReparseProofs.v -- lemmas for C10: docutils encode/attval, html2stan(encode t), start tags. *)
From Coq Require Import ZArith NArith List Bool Lia Arith.
From PydoctorVerif Require Import Base.Sexp Gen.TablesC10 Model.Stan Model.DocutilsEsc Model.Html2Stan
  Spec.Xml Spec.StanXml Proofs.EscProofs.
Import ListNotations.
Local Open Scope N_scope.

(* ------------------------------------------------------------------ any escaping of text that the reader inverts *)
Section GenText.
  Variable f : N -> text.        (* how one character is written *)
  Variable d : N -> text.        (* what the reader makes of it *)
  Variable ok : N -> bool.       (* the characters considered *)
  Hypothesis f_head : forall c, ok c = true -> exists x tl, f c = x :: tl /\ (x =? 60) = false.
  Hypothesis f_no : forall c, ok c = true -> ~ In 60 (f c) /\ ~ In 62 (f c).
  Hypothesis f_unesc : forall c rest, ok c = true ->
    unesc None (f c ++ rest) = match unesc None rest with Some r => Some (d c ++ r) | None => None end.

  Lemma gen_unesc : forall t rest, forallb ok t = true ->
    unesc None (flat_map f t ++ rest) = match unesc None rest with Some r => Some (flat_map d t ++ r) | None => None end.
  Proof.
    induction t as [|c t IH]; intros rest Ht; simpl.
    - destruct (unesc None rest); reflexivity.
    - simpl in Ht. apply andb_true_iff in Ht. destruct Ht as [Hc Ht].
      rewrite <- app_assoc, f_unesc by assumption. rewrite IH by assumption.
      destruct (unesc None rest); [rewrite <- app_assoc|]; reflexivity.
  Qed.

  Lemma gen_not_in : forall x t, (x = 60 \/ x = 62) -> forallb ok t = true -> ~ In x (flat_map f t).
  Proof.
    intros x t Hx Ht Hin. apply in_flat_map in Hin. destruct Hin as [c [Hc Hin]].
    rewrite forallb_forall in Ht. destruct (f_no c (Ht c Hc)) as [H60 H62].
    destruct Hx; subst x; auto.
  Qed.

  Lemma gen_char_data : forall t, forallb ok t = true -> char_data (flat_map f t) = Some (flat_map d t).
  Proof.
    intros t Ht. unfold char_data. rewrite no_gt_no_cdata_end by (apply gen_not_in; auto).
    unfold unescape. rewrite <- (app_nil_r (flat_map f t)). rewrite gen_unesc by assumption.
    simpl. rewrite app_nil_r. reflexivity.
  Qed.

  Lemma gen_text_prefix : forall t fu s',
    t <> [] -> forallb ok t = true -> head_fails (not_char 60) s' ->
    read_content (S fu) (flat_map f t ++ s') =
    match read_content fu s' with Some (sibs, r') => Some (XText (flat_map d t) :: sibs, r') | None => None end.
  Proof.
    intros t fu s' Hne Ht Hs'.
    destruct t as [|c t]; [congruence|].
    assert (Hc : ok c = true) by (simpl in Ht; apply andb_true_iff in Ht; tauto).
    destruct (f_head c Hc) as [x [tl [Ex Hx]]].
    assert (Hshape : exists tl', flat_map f (c :: t) ++ s' = x :: tl').
    { simpl. rewrite Ex. simpl. eexists. reflexivity. }
    destruct Hshape as [tl' Etl]. rewrite Etl. rewrite read_content_text by assumption. rewrite <- Etl.
    rewrite span_app; [| | assumption].
    - rewrite gen_char_data by assumption. reflexivity.
    - apply forallb_not_char. apply gen_not_in; auto.
  Qed.
End GenText.

(* ------------------------------------------------------------------ docutils encode as a character map *)
Definition enc_d (c : N) : text :=
  match assoc_N c docutils_special with Some r => r | None => [c] end.

Lemma encode_map : forall t, encode t = flat_map enc_d t.
Proof. reflexivity. Qed.

(* the characters docutils writes as references, and the one it writes as an entity XML does not define *)
Definition enc_special (c : N) : bool := (c =? 34) || (c =? 38) || (c =? 60) || (c =? 62) || (c =? 64) || (c =? 160).

Lemma enc_d_plain : forall c, enc_special c = false -> enc_d c = [c].
Proof.
  intros c H. unfold enc_special in H.
  repeat (apply orb_false_iff in H; let H' := fresh "E" in destruct H as [H H']).
  unfold enc_d, docutils_special. cbn [assoc_N]. rewrite H, E3, E2, E1, E0, E. reflexivity.
Qed.

Lemma enc_special_cases : forall c, enc_special c = true ->
  c = 34 \/ c = 38 \/ c = 60 \/ c = 62 \/ c = 64 \/ c = 160.
Proof.
  intros c H. unfold enc_special in H.
  repeat (apply orb_true_iff in H; destruct H as [H|H]); apply N.eqb_eq in H; auto 7.
Qed.

Lemma unesc_enc_d : forall c rest, xml_char c = true -> c <> 160 ->
  unesc None (enc_d c ++ rest) = opt_cons c (unesc None rest).
Proof.
  intros c rest Hc H160.
  destruct (enc_special c) eqn:Es.
  - destruct (enc_special_cases c Es) as [-> | [-> | [-> | [-> | [-> | ->]]]]]; try reflexivity. congruence.
  - rewrite (enc_d_plain c Es). unfold enc_special in Es.
    repeat (apply orb_false_iff in Es; let H' := fresh "E" in destruct Es as [Es H']).
    apply unesc_plain; assumption.
Qed.

Lemma enc_d_no : forall c x, (x = 60 \/ x = 62 \/ x = 34) -> ~ In x (enc_d c).
Proof.
  intros c x Hx.
  destruct (enc_special c) eqn:Es.
  - destruct (enc_special_cases c Es) as [-> | [-> | [-> | [-> | [-> | ->]]]]]; simpl;
      destruct Hx as [-> | [-> | ->]]; intuition discriminate.
  - rewrite (enc_d_plain c Es). unfold enc_special in Es.
    repeat (apply orb_false_iff in Es; let H' := fresh "E" in destruct Es as [Es H']).
    nb. simpl. intros [H|[]]. destruct Hx as [-> | [-> | ->]]; congruence.
Qed.

Theorem encode_no_markup : forall t, ~ In 60 (encode t) /\ ~ In 62 (encode t) /\ ~ In 34 (encode t).
Proof.
  intro t. rewrite encode_map. repeat split; apply not_in_flat_map; intro c; apply enc_d_no; auto.
Qed.

Theorem unescape_encode : forall t, forallb xml_char t = true -> ~ In 160 t -> unescape (encode t) = Some t.
Proof.
  intros t Ht H160. unfold unescape. rewrite encode_map.
  assert (H : forall rest, unesc None (flat_map enc_d t ++ rest)
                           = match unesc None rest with Some r => Some (t ++ r) | None => None end).
  { induction t as [|c t IH]; intro rest; simpl.
    - destruct (unesc None rest); reflexivity.
    - simpl in Ht. apply andb_true_iff in Ht. destruct Ht as [Hc Ht].
      rewrite <- app_assoc, unesc_enc_d; [| assumption | intro E; apply H160; left; auto].
      rewrite IH; [| assumption | intro Hin; apply H160; right; exact Hin].
      destruct (unesc None rest); reflexivity. }
  rewrite <- (app_nil_r (flat_map enc_d t)). rewrite H. simpl. rewrite app_nil_r. reflexivity.
Qed.

(* the entity docutils emits for U+00A0 is not an XML entity *)
Lemma unescape_encode_nbsp : unescape (encode [160]) = None.
Proof. reflexivity. Qed.

(* attval: white space first becomes a space *)
Definition ws_space (c : N) : N := if memN c attval_ws then 32 else c.

Lemma attval_map : forall t, attval t = encode (map ws_space t).
Proof. reflexivity. Qed.

Lemma ws_space_char : forall c, xml_char c = true \/ memN c attval_ws = true -> xml_char (ws_space c) = true.
Proof.
  intros c [H|H]; unfold ws_space; destruct (memN c attval_ws); try reflexivity; try assumption. discriminate.
Qed.

Theorem attval_no_markup : forall t, ~ In 60 (attval t) /\ ~ In 62 (attval t) /\ ~ In 34 (attval t).
Proof. intro t. rewrite attval_map. apply encode_no_markup. Qed.

Theorem unescape_attval : forall t,
  forallb (fun c => xml_char c || memN c attval_ws) t = true -> ~ In 160 t ->
  unescape (attval t) = Some (map ws_space t).
Proof.
  intros t Ht H160. rewrite attval_map. apply unescape_encode.
  - rewrite forallb_forall. intros x Hx. apply in_map_iff in Hx. destruct Hx as [c [<- Hc]].
    rewrite forallb_forall in Ht. apply ws_space_char. specialize (Ht c Hc).
    apply orb_true_iff in Ht. exact Ht.
  - intro Hin. apply in_map_iff in Hin. destruct Hin as [c [Ec Hc]]. unfold ws_space in Ec.
    destruct (memN c attval_ws); [discriminate|]. subst c. auto.
Qed.

(* ------------------------------------------------------------------ html2stan (encode t) *)
(* what the re-parse path writes for one character of the original text: encode, then the control neutralisation *)
Definition reparse_c (c : N) : text := flat_map neutralise_char (enc_d c).

Lemma neutralise_encode : forall t, neutralise (encode t) = flat_map reparse_c t.
Proof. intro t. unfold neutralise. rewrite encode_map. apply flat_map_flat_map. Qed.

(* characters for which the path is meant to work: XML Chars and the C0 controls; one exception, see the _refuted
   witness: NO-BREAK SPACE (written as an undefined entity).  (FORM FEED was a second one before the repair cc2b510.) *)
Definition is_c0 (c : N) : bool := c <? 32.
Definition reparse_ok (c : N) : bool := (xml_char c || is_c0 c) && negb (c =? 160).

Lemma memN_spec : forall c l, memN c l = true <-> In c l.
Proof.
  intros c l. unfold memN. rewrite existsb_exists. split.
  - intros [x [Hx E]]. apply N.eqb_eq in E. subst. exact Hx.
  - intro H. exists c. split; [exact H | apply N.eqb_refl].
Qed.

(* the table facts the proofs need, checked by computation on the regenerated tables *)
Lemma control_table_complete :
  forallb (fun c => memN c re_control || (c =? 9) || (c =? 10) || (c =? 13))
          (map N.of_nat (seq 0 32)) = true.
Proof. vm_compute. reflexivity. Qed.

Lemma control_table_sound : forallb (fun c => (c <? 32) && negb (xml_char c)) re_control = true.
Proof. vm_compute. reflexivity. Qed.

(* every substitute: non-empty, made of XML Chars that are plain for the reader, and it is its own decoding *)
Definition plain_char (c : N) : bool := xml_char c && negb (c =? 38) && negb (c =? 60) && negb (c =? 62) && negb (c =? 13) && negb (c =? 10).
Lemma control_repl_plain :
  forallb (fun c => match assoc_N c re_control_repl with
                    | Some (x :: tl) => forallb plain_char (x :: tl)
                    | _ => false
                    end) re_control = true.
Proof. vm_compute. reflexivity. Qed.

Lemma in_small_range : forall c, c < 32 -> In c (map N.of_nat (seq 0 32)).
Proof.
  intros c H. apply in_map_iff. exists (N.to_nat c). split; [apply N2Nat.id|].
  apply in_seq. lia.
Qed.

Lemma c0_in_table : forall c, c < 32 -> c <> 9 -> c <> 10 -> c <> 13 -> memN c re_control = true.
Proof.
  intros c H H9 H10 H13.
  pose proof control_table_complete as T. rewrite forallb_forall in T.
  specialize (T c (in_small_range c H)).
  apply orb_true_iff in T. destruct T as [T|T]; [|apply N.eqb_eq in T; congruence].
  apply orb_true_iff in T. destruct T as [T|T]; [|apply N.eqb_eq in T; congruence].
  apply orb_true_iff in T. destruct T as [T|T]; [|apply N.eqb_eq in T; congruence].
  exact T.
Qed.

Lemma table_not_xml : forall c, memN c re_control = true -> c < 32 /\ xml_char c = false.
Proof.
  intros c H. apply memN_spec in H.
  pose proof control_table_sound as T. rewrite forallb_forall in T. specialize (T c H).
  nb. repeat split; try assumption.
Qed.

Lemma plain_unesc : forall s rest, forallb plain_char s = true ->
  unesc None (s ++ rest) = match unesc None rest with Some r => Some (s ++ r) | None => None end.
Proof.
  induction s as [|c s IH]; intros rest H; simpl app.
  - destruct (unesc None rest); reflexivity.
  - simpl in H. apply andb_true_iff in H. destruct H as [Hc Hs]. unfold plain_char in Hc. nb.
    rewrite unesc_plain; [| apply N.eqb_neq; assumption | apply N.eqb_neq; assumption | assumption].
    rewrite IH by assumption. destruct (unesc None rest); reflexivity.
Qed.

Lemma plain_no : forall s x, forallb plain_char s = true -> (x = 60 \/ x = 62 \/ x = 13 \/ x = 10) -> ~ In x s.
Proof.
  intros s x H Hx Hin. rewrite forallb_forall in H. specialize (H x Hin). unfold plain_char in H. nb.
  destruct Hx as [->|[-> | [-> | ->]]]; congruence.
Qed.

(* what the reader makes of one character on this path *)
Definition reparse_d (c : N) : text := neutralise_char c.

Lemma reparse_c_control : forall c, memN c re_control = true ->
  reparse_c c = neutralise_char c /\
  exists x tl, neutralise_char c = x :: tl /\ forallb plain_char (x :: tl) = true.
Proof.
  intros c H. destruct (table_not_xml c H) as [Hlt Hx].
  assert (Es : enc_special c = false).
  { unfold enc_special. repeat (apply orb_false_iff; split); apply N.eqb_neq; lia. }
  unfold reparse_c. rewrite (enc_d_plain c Es). simpl. rewrite app_nil_r. split; [reflexivity|].
  pose proof control_repl_plain as T. rewrite forallb_forall in T.
  specialize (T c (proj1 (memN_spec c re_control) H)).
  unfold neutralise_char. rewrite H.
  destruct (assoc_N c re_control_repl) as [[|x tl]|]; try discriminate. eauto.
Qed.

Lemma reparse_c_special : forall c, enc_special c = true -> reparse_c c = enc_d c /\ memN c re_control = false.
Proof.
  intros c H. destruct (enc_special_cases c H) as [-> | [-> | [-> | [-> | [-> | ->]]]]]; split; reflexivity.
Qed.

Lemma reparse_c_other : forall c, enc_special c = false -> memN c re_control = false ->
  reparse_c c = [c] /\ neutralise_char c = [c].
Proof.
  intros c Es Hm. unfold reparse_c. rewrite (enc_d_plain c Es). simpl. unfold neutralise_char. rewrite Hm. auto.
Qed.

Lemma reparse_ok_cases : forall c, reparse_ok c = true ->
  (memN c re_control = true) \/
  (memN c re_control = false /\ xml_char c = true /\ c <> 160).
Proof.
  intros c H. unfold reparse_ok in H. nb.
  destruct (memN c re_control) eqn:Hm; [left; reflexivity|]. right. split; [reflexivity|].
  apply orb_true_iff in H. destruct H as [H|H]; [auto|].
  unfold is_c0 in H. nb.
  destruct (N.eq_dec c 9) as [->|N9]; [split; [reflexivity|lia]|].
  destruct (N.eq_dec c 10) as [->|N10]; [split; [reflexivity|lia]|].
  destruct (N.eq_dec c 13) as [->|N13]; [split; [reflexivity|lia]|].
  rewrite (c0_in_table c H N9 N10 N13) in Hm. discriminate.
Qed.

Lemma reparse_head : forall c, reparse_ok c = true -> exists x tl, reparse_c c = x :: tl /\ (x =? 60) = false.
Proof.
  intros c H. destruct (reparse_ok_cases c H) as [Hm|[Hm [Hx H160]]].
  - destruct (reparse_c_control c Hm) as [-> [x [tl [-> Hp]]]]. exists x, tl. split; [reflexivity|].
    simpl in Hp. apply andb_true_iff in Hp. destruct Hp as [Hp _]. unfold plain_char in Hp. nb.
    apply N.eqb_neq. assumption.
  - destruct (enc_special c) eqn:Es.
    + destruct (reparse_c_special c Es) as [-> _].
      destruct (enc_special_cases c Es) as [-> | [-> | [-> | [-> | [-> | ->]]]]];
        eexists; eexists; split; try reflexivity; reflexivity.
    + destruct (reparse_c_other c Es Hm) as [-> _]. exists c, []. split; [reflexivity|].
      unfold enc_special in Es.
      repeat (apply orb_false_iff in Es; let H' := fresh "E" in destruct Es as [Es H']). assumption.
Qed.

Lemma reparse_no : forall c, reparse_ok c = true -> ~ In 60 (reparse_c c) /\ ~ In 62 (reparse_c c).
Proof.
  intros c H. destruct (reparse_ok_cases c H) as [Hm|[Hm [Hx H160]]].
  - destruct (reparse_c_control c Hm) as [-> [x [tl [-> Hp]]]]. split; apply (plain_no _ _ Hp); auto.
  - destruct (enc_special c) eqn:Es.
    + destruct (reparse_c_special c Es) as [-> _]. split; apply enc_d_no; auto.
    + destruct (reparse_c_other c Es Hm) as [-> _]. rewrite <- (enc_d_plain c Es). split; apply enc_d_no; auto.
Qed.

Lemma reparse_unesc : forall c rest, reparse_ok c = true ->
  unesc None (reparse_c c ++ rest) = match unesc None rest with Some r => Some (reparse_d c ++ r) | None => None end.
Proof.
  intros c rest H. unfold reparse_d. destruct (reparse_ok_cases c H) as [Hm|[Hm [Hx H160]]].
  - destruct (reparse_c_control c Hm) as [-> [x [tl [E Hp]]]]. rewrite E. apply plain_unesc. exact Hp.
  - assert (En : neutralise_char c = [c]) by (unfold neutralise_char; rewrite Hm; reflexivity).
    rewrite En.
    destruct (enc_special c) eqn:Es.
    + destruct (reparse_c_special c Es) as [-> _]. rewrite unesc_enc_d by assumption.
      destruct (unesc None rest); reflexivity.
    + destruct (reparse_c_other c Es Hm) as [-> _].
      pose proof (unesc_enc_d c rest Hx H160) as U. rewrite (enc_d_plain c Es) in U. rewrite U.
      destruct (unesc None rest); reflexivity.
Qed.

(* ---- end-of-line normalisation commutes with the path ---- *)
Lemma eol_from_plain : forall s b rest, forallb plain_char s = true -> s <> [] ->
  eol_from b (s ++ rest) = s ++ eol_from false rest.
Proof.
  induction s as [|c s IH]; intros b rest H Hne; [congruence|].
  simpl in H. apply andb_true_iff in H. destruct H as [Hc Hs].
  assert (H13 : (c =? 13) = false) by (unfold plain_char in Hc; nb; apply N.eqb_neq; assumption).
  assert (H10 : (c =? 10) = false) by (unfold plain_char in Hc; nb; apply N.eqb_neq; assumption).
  simpl. rewrite H13, H10. simpl. f_equal.
  destruct s as [|c' s']; [reflexivity|]. apply IH; [assumption|discriminate].
Qed.

Lemma eol_from_flag : forall rest, head_fails (fun c => c =? 10) rest -> eol_from true rest = eol_from false rest.
Proof.
  intros [|c r] H; [reflexivity|]. simpl in H. simpl. rewrite H. reflexivity.
Qed.

(* one character of the original text *)
Lemma reparse_c_eol : forall c b rest, reparse_ok c = true -> c <> 13 -> c <> 10 ->
  eol_from b (reparse_c c ++ rest) = reparse_c c ++ eol_from false rest.
Proof.
  intros c b rest H H13 H10. destruct (reparse_ok_cases c H) as [Hm|[Hm [Hx H160]]].
  - destruct (reparse_c_control c Hm) as [-> [x [tl [-> Hp]]]]. apply eol_from_plain; [assumption|discriminate].
  - destruct (enc_special c) eqn:Es.
    + destruct (reparse_c_special c Es) as [-> _].
      destruct (enc_special_cases c Es) as [-> | [-> | [-> | [-> | [-> | ->]]]]]; try reflexivity; try congruence.
    + destruct (reparse_c_other c Es Hm) as [-> _]. simpl.
      rewrite (eqb_false_of_neq c 13 H13), (eqb_false_of_neq c 10 H10). reflexivity.
Qed.

Lemma reparse_c_13 : reparse_c 13 = [13].
Proof. reflexivity. Qed.
Lemma reparse_c_10 : reparse_c 10 = [10].
Proof. reflexivity. Qed.

Lemma eol_reparse : forall t b rest, forallb reparse_ok t = true -> head_fails (fun c => c =? 10) rest ->
  eol_from b (flat_map reparse_c t ++ rest) = flat_map reparse_c (eol_from b t) ++ eol_from false rest.
Proof.
  induction t as [|c t IH]; intros b rest Ht Hrest.
  - simpl. destruct b; [apply eol_from_flag; assumption | reflexivity].
  - simpl in Ht. apply andb_true_iff in Ht. destruct Ht as [Hc Ht].
    cbn [flat_map]. rewrite <- app_assoc.
    destruct (N.eq_dec c 13) as [->|N13].
    + rewrite reparse_c_13. simpl. rewrite IH by assumption. reflexivity.
    + destruct (N.eq_dec c 10) as [->|N10].
      * rewrite reparse_c_10. destruct b; simpl; rewrite IH by assumption; reflexivity.
      * rewrite reparse_c_eol by assumption. rewrite IH by assumption.
        cbn [eol_from]. rewrite (eqb_false_of_neq c 13 N13), (eqb_false_of_neq c 10 N10). simpl.
        rewrite <- app_assoc. reflexivity.
Qed.

Lemma eol_from_ok : forall t b, forallb reparse_ok t = true -> forallb reparse_ok (eol_from b t) = true.
Proof.
  induction t as [|c t IH]; intros b H; [reflexivity|].
  simpl in H. apply andb_true_iff in H. destruct H as [Hc Ht]. simpl.
  destruct (c =? 13); [simpl; apply IH; assumption|].
  destruct ((c =? 10) && b); [apply IH; assumption|]. simpl. rewrite Hc. apply IH. assumption.
Qed.

(* ---- the wrapped document reads back as one element holding one text ---- *)
Definition text_kids (s : text) : list stan := match s with [] => [] | _ :: _ => [SText s] end.

Lemma wrap_tag_is_name : is_name wrap_tag = true.
Proof. vm_compute. reflexivity. Qed.

Lemma wrap_tag_plain : forallb (fun c => negb (c =? 13) && negb (c =? 10)) wrap_tag = true.
Proof. vm_compute. reflexivity. Qed.

Lemma eol_from_no_eol : forall s b rest, forallb (fun c => negb (c =? 13) && negb (c =? 10)) s = true -> s <> [] ->
  eol_from b (s ++ rest) = s ++ eol_from false rest.
Proof.
  induction s as [|c s IH]; intros b rest H Hne; [congruence|].
  simpl in H. apply andb_true_iff in H. destruct H as [Hc Hs]. nb.
  simpl. rewrite (eqb_false_of_neq c 13 H), (eqb_false_of_neq c 10 H0). simpl. f_equal.
  destruct s as [|c' s']; [reflexivity|]. apply IH; [assumption|discriminate].
Qed.

Lemma flat_map_d_nonempty : forall t, t <> [] -> forallb reparse_ok t = true -> flat_map reparse_d t <> [].
Proof.
  intros [|c t] Hne H; [congruence|]. simpl in H. apply andb_true_iff in H. destruct H as [Hc _].
  simpl. unfold reparse_d. destruct (reparse_ok_cases c Hc) as [Hm|[Hm _]].
  - destruct (reparse_c_control c Hm) as [_ [x [tl [-> _]]]]. discriminate.
  - unfold neutralise_char. rewrite Hm. discriminate.
Qed.

Local Opaque wrap_tag.

Lemma read_wrapped : forall T, forallb reparse_ok T = true ->
  read ([60] ++ wrap_tag ++ [62] ++ flat_map reparse_c T ++ [60; 47] ++ wrap_tag ++ [62])
  = Some [XElem wrap_tag [] (match flat_map reparse_d T with [] => [] | _ :: _ => [XText (flat_map reparse_d T)] end)].
Proof.
  intros T HT. unfold read.
  set (doc := [60] ++ wrap_tag ++ [62] ++ flat_map reparse_c T ++ [60; 47] ++ wrap_tag ++ [62]).
  assert (Hdoc : doc = 60 :: wrap_tag ++ [] ++ [] ++ 62 :: flat_map reparse_c T ++ 60 :: 47 :: wrap_tag ++ 62 :: []).
  { unfold doc. simpl. reflexivity. }
  remember (length doc) as n eqn:Hn.
  rewrite Hdoc.
  rewrite read_content_elem by reflexivity.
  rewrite read_name_app; [| apply wrap_tag_is_name | simpl; reflexivity].
  change ([] ++ [] ++ 62 :: flat_map reparse_c T ++ 60 :: 47 :: wrap_tag ++ [62])
    with (flat_map flatten_attr [] ++ [] ++ (62 :: flat_map reparse_c T ++ 60 :: 47 :: wrap_tag ++ [62])).
  rewrite read_attrs_pp; [| reflexivity | reflexivity | reflexivity | left; reflexivity | ].
  2:{ rewrite Hn, Hdoc. simpl. len. }
  rewrite strip_prefix_head_false by reflexivity.
  change (62 :: flat_map reparse_c T ++ 60 :: 47 :: wrap_tag ++ [62])
    with ([62] ++ (flat_map reparse_c T ++ 60 :: 47 :: wrap_tag ++ [62])).
  rewrite strip_prefix_app.
  assert (Hn1 : (2 <= n)%nat).
  { rewrite Hn, Hdoc. simpl. len. }
  destruct n as [|[|n']]; try lia.
  destruct T as [|c T'].
  - simpl flat_map. simpl app.
    rewrite read_content_boundary by (right; eexists; reflexivity).
    rewrite close_tag_ok by apply wrap_tag_is_name.
    simpl. reflexivity.
  - rewrite (gen_text_prefix reparse_c reparse_d reparse_ok reparse_head reparse_no reparse_unesc);
      [| discriminate | assumption | simpl; reflexivity].
    destruct n' as [|n''].
    { exfalso. assert (2 <= length doc)%nat by lia. rewrite Hdoc in Hn. simpl in Hn.
      rewrite !app_length in Hn. simpl in Hn. rewrite !app_length in Hn. simpl in Hn.
      destruct (reparse_head c) as [x [tl [E _]]];
        [simpl in HT; apply andb_true_iff in HT; tauto|].
      rewrite E in Hn. simpl in Hn.
      assert (1 <= length wrap_tag)%nat by (vm_compute; lia). lia. }
    rewrite read_content_boundary by (right; eexists; reflexivity).
    rewrite close_tag_ok by apply wrap_tag_is_name.
    simpl read_content.
    pose proof (flat_map_d_nonempty (c :: T') ltac:(discriminate) HT) as Hne.
    destruct (flat_map reparse_d (c :: T')) as [|y ys]; [congruence|]. reflexivity.
Qed.

Lemma starts_decl_false : forall T, forallb reparse_ok T = true -> starts xml_decl (flat_map reparse_c T) = false.
Proof.
  intros [|c T] H; [reflexivity|]. simpl in H. apply andb_true_iff in H. destruct H as [Hc _].
  destruct (reparse_head c Hc) as [x [tl [E Hx]]]. cbn [flat_map]. rewrite E. unfold xml_decl.
  change ((x :: tl) ++ flat_map reparse_c T) with (x :: (tl ++ flat_map reparse_c T)). cbn [starts].
  rewrite N.eqb_sym. rewrite Hx. reflexivity.
Qed.

Theorem html2stan_encode : forall t, forallb reparse_ok t = true ->
  html2stan (encode t) = H2Ok (STag [] [] (text_kids (flat_map reparse_d (eol_norm t)))).
Proof.
  intros t Ht. unfold html2stan. rewrite neutralise_encode.
  rewrite starts_decl_false by assumption.
  unfold xml_load, wrap, eol_norm.
  assert (E : eol_from false ([60] ++ wrap_tag ++ [62] ++ flat_map reparse_c t ++ [60; 47] ++ wrap_tag ++ [62])
              = [60] ++ wrap_tag ++ [62] ++ flat_map reparse_c (eol_from false t) ++ [60; 47] ++ wrap_tag ++ [62]).
  { change ([60] ++ wrap_tag ++ [62] ++ flat_map reparse_c t ++ [60; 47] ++ wrap_tag ++ [62])
      with (60 :: wrap_tag ++ 62 :: flat_map reparse_c t ++ 60 :: 47 :: wrap_tag ++ [62]).
    cbn [eol_from]. change (60 =? 13) with false. change ((60 =? 10) && false) with false. cbv iota.
    rewrite eol_from_no_eol; [| apply wrap_tag_plain | vm_compute; discriminate].
    cbn [eol_from]. change (62 =? 13) with false. change ((62 =? 10) && false) with false. cbv iota.
    rewrite eol_reparse; [| assumption | simpl; reflexivity].
    cbn [eol_from]. change (60 =? 13) with false. change ((60 =? 10) && false) with false. cbv iota.
    change (47 =? 13) with false. change ((47 =? 10) && false) with false. cbv iota.
    rewrite eol_from_no_eol; [| apply wrap_tag_plain | vm_compute; discriminate].
    simpl. reflexivity. }
  rewrite E. rewrite read_wrapped by (apply eol_from_ok; assumption).
  unfold text_kids. destruct (flat_map reparse_d (eol_from false t)); reflexivity.
Qed.

(* the two characters on which the path fails *)
(* before the repair cc2b510 the FORM FEED was not neutralised and the parser refused it; now it is shown as \x0c *)
Lemma html2stan_formfeed_old : html2stan_old (encode [12]) = H2ParseError /\
  html2stan (encode [12]) = H2Ok (STag [] [] [SText [92; 120; 48; 99]]).
Proof. split; vm_compute; reflexivity. Qed.
Lemma html2stan_nbsp : html2stan (encode [160]) = H2ParseError.
Proof. vm_compute. reflexivity. Qed.

Local Transparent wrap_tag.

(* ------------------------------------------------------------------ start tags *)
(* attributes written as  SPACE key = QUOTE escaped-value QUOTE  with any escaping the reader inverts *)
Definition pp_triple (x : text * text * text) : text := 32 :: fst (fst x) ++ 61 :: 34 :: snd (fst x) ++ [34].
Definition triple_attr (x : text * text * text) : text * text := (fst (fst x), snd x).
Definition triple_ok (x : text * text * text) : Prop :=
  is_name (fst (fst x)) = true /\ ~ In 34 (snd (fst x)) /\ unescape (snd (fst x)) = Some (snd x).

Lemma read_attrs_vals : forall (l : list (text * text * text)) fuel ws e,
  Forall triple_ok l -> nodup_keys (map triple_attr l) = true ->
  forallb is_space ws = true -> tag_end e ->
  (length (flat_map pp_triple l ++ ws ++ e) < fuel)%nat ->
  read_attrs fuel (flat_map pp_triple l ++ ws ++ e) = Some (map triple_attr l, e).
Proof.
  induction l as [|[[k ev] v] l IH]; intros fuel ws e Hok Hnd Hws He Hfuel.
  - destruct fuel as [|f]; [inversion Hfuel|].
    destruct (tag_end_head e He) as [Hsp _].
    simpl flat_map. simpl app. cbn [read_attrs].
    rewrite span_app by assumption.
    destruct He as [He|He]; rewrite He; [reflexivity|]. rewrite orb_true_r. reflexivity.
  - destruct fuel as [|f]; [inversion Hfuel|].
    inversion Hok as [|x l' Hx Hl]; subst. destruct Hx as [Hk [Hq Hu]]. simpl in Hk, Hq, Hu.
    destruct (is_name_cons k Hk) as [c [kr [Ek [Hc Hkr]]]].
    pose proof (name_start_range c Hc) as Hrange.
    change (flat_map pp_triple ((k, ev, v) :: l)) with (pp_triple (k, ev, v) ++ flat_map pp_triple l).
    rewrite <- app_assoc. unfold pp_triple at 1. cbn [fst snd].
    assert (Eform : (32 :: k ++ 61 :: 34 :: ev ++ [34]) ++ flat_map pp_triple l ++ ws ++ e
                    = [32] ++ (k ++ 61 :: 34 :: ev ++ 34 :: flat_map pp_triple l ++ ws ++ e)).
    { simpl. rewrite <- !app_assoc. simpl. rewrite <- !app_assoc. reflexivity. }
    rewrite Eform in *.
    cbn [read_attrs].
    rewrite span_app; [| reflexivity | subst k; simpl; unfold is_space; nsolve ].
    assert (Hsw : starts_with [62] (k ++ 61 :: 34 :: ev ++ 34 :: flat_map pp_triple l ++ ws ++ e)
                  || starts_with [47; 62] (k ++ 61 :: 34 :: ev ++ 34 :: flat_map pp_triple l ++ ws ++ e) = false).
    { subst k. simpl app. rewrite !starts_with_head_false by nsolve. reflexivity. }
    rewrite Hsw.
    rewrite read_name_app; [| assumption | simpl; reflexivity ].
    rewrite skip_space_head by reflexivity.
    change (61 :: 34 :: ev ++ 34 :: flat_map pp_triple l ++ ws ++ e)
      with ([61] ++ (34 :: ev ++ 34 :: flat_map pp_triple l ++ ws ++ e)).
    rewrite strip_prefix_app.
    rewrite skip_space_head by reflexivity.
    change ((34 =? 34) || (34 =? 39)) with true. cbv iota.
    rewrite span_app; [| apply forallb_not_char; exact Hq | simpl; reflexivity ].
    rewrite Hu.
    rewrite IH; try assumption.
    + change (map triple_attr ((k, ev, v) :: l)) with ((k, v) :: map triple_attr l) in *.
      rewrite (has_key_nodup k v _ Hnd). reflexivity.
    + change (map triple_attr ((k, ev, v) :: l)) with ((k, v) :: map triple_attr l) in Hnd.
      simpl in Hnd. nb. assumption.
    + cbn [flat_map] in Hfuel. unfold pp_triple at 1 in Hfuel. cbn [fst snd] in Hfuel. len.
Qed.

Lemma join_space : forall t l, join [32] (t :: l) = t ++ flat_map (fun x => 32 :: x) l.
Proof. reflexivity. Qed.

(* attribute lists whose keys are lower-case XML names, pairwise different *)
Definition attr_triple (kv : text * aval) : text * text * text :=
  (lower_ascii (fst kv), attval (aval_text (snd kv)), map ws_space (aval_text (snd kv))).

Definition value_ok (kv : text * aval) : bool :=
  forallb (fun c => (xml_char c || memN c attval_ws) && negb (c =? 160)) (aval_text (snd kv)).

Lemma open_tag_shape : forall t a e,
  open_tag t a e = 60 :: t ++ flat_map pp_triple (map attr_triple a) ++ (if e then [32; 47] else []) ++ [62].
Proof.
  intros t a e. unfold open_tag. rewrite join_space. simpl. rewrite <- app_assoc. f_equal. f_equal. f_equal.
  induction a as [|kv a IH]; [reflexivity|]. simpl. rewrite IH. unfold pp_triple, attr_triple, render_attr. simpl.
  rewrite <- !app_assoc. reflexivity.
Qed.

Lemma value_ok_triple : forall kv, is_name (lower_ascii (fst kv)) = true -> value_ok kv = true -> triple_ok (attr_triple kv).
Proof.
  intros kv Hk Hv. unfold triple_ok, attr_triple. cbn [fst snd]. split; [assumption|]. split.
  - apply attval_no_markup.
  - apply unescape_attval.
    + unfold value_ok in Hv. rewrite forallb_forall in *. intros c Hc. specialize (Hv c Hc).
      apply andb_true_iff in Hv. tauto.
    + intro Hin. unfold value_ok in Hv. rewrite forallb_forall in Hv. specialize (Hv 160 Hin).
      apply andb_true_iff in Hv. destruct Hv as [_ Hv]. discriminate.
Qed.

Definition rendered_attrs (a : dict) : list (text * text) := map triple_attr (map attr_triple a).

Theorem open_tag_reads_back : forall t a e,
  is_name t = true ->
  forallb (fun kv => is_name (lower_ascii (fst kv))) a = true ->
  forallb value_ok a = true ->
  nodup_keys (rendered_attrs a) = true ->
  read (open_tag t a e ++ (if e then [] else 60 :: 47 :: t ++ [62])) = Some [XElem t (rendered_attrs a) []].
Proof.
  intros t a e Ht Hkeys Hvals Hnd. unfold read.
  destruct (is_name_cons t Ht) as [c [tr [Et [Hc Htr]]]].
  pose proof (name_start_range c Hc) as Hrange.
  assert (Hok : Forall triple_ok (map attr_triple a)).
  { apply Forall_forall. intros x Hx. apply in_map_iff in Hx. destruct Hx as [kv [<- Hkv]].
    rewrite forallb_forall in Hkeys, Hvals. apply value_ok_triple; auto. }
  rewrite open_tag_shape.
  set (L := map attr_triple a) in *.
  destruct e.
  - (* empty-element tag *)
    rewrite app_nil_r.
    assert (Edoc : 60 :: t ++ flat_map pp_triple L ++ [32; 47] ++ [62]
                   = 60 :: (t ++ flat_map pp_triple L ++ [32] ++ [47; 62])) by reflexivity.
    rewrite Edoc. remember (length (60 :: t ++ flat_map pp_triple L ++ [32] ++ [47; 62])) as n eqn:Hn.
    rewrite read_content_elem; [| subst t; simpl app; apply starts_with_head_false; nsolve ].
    rewrite read_name_app; [| assumption |].
    2:{ destruct L as [|x L']; simpl; reflexivity. }
    rewrite (read_attrs_vals L n [32] [47; 62]); try assumption; try reflexivity.
    2:{ right. reflexivity. }
    2:{ rewrite Hn. len. }
    change [47; 62] with ([47; 62] ++ []). rewrite strip_prefix_app.
    destruct n as [|n']; [simpl in Hn; discriminate|]. reflexivity.
  - assert (Edoc : (60 :: t ++ flat_map pp_triple L ++ [] ++ [62]) ++ 60 :: 47 :: t ++ [62]
                   = 60 :: (t ++ flat_map pp_triple L ++ [] ++ (62 :: 60 :: 47 :: t ++ [62]))).
    { simpl. rewrite <- !app_assoc. reflexivity. }
    rewrite Edoc. remember (length (60 :: t ++ flat_map pp_triple L ++ [] ++ 62 :: 60 :: 47 :: t ++ [62])) as n eqn:Hn.
    rewrite read_content_elem; [| subst t; simpl app; apply starts_with_head_false; nsolve ].
    rewrite read_name_app; [| assumption |].
    2:{ destruct L as [|x L']; simpl; reflexivity. }
    rewrite (read_attrs_vals L n [] (62 :: 60 :: 47 :: t ++ [62])); try assumption; try reflexivity.
    2:{ left. reflexivity. }
    2:{ rewrite Hn. len. }
    rewrite strip_prefix_head_false by reflexivity.
    change (62 :: 60 :: 47 :: t ++ [62]) with ([62] ++ (60 :: 47 :: t ++ [62])). rewrite strip_prefix_app.
    assert (Hn2 : (3 <= n)%nat) by (rewrite Hn; len).
    destruct n as [|[|n']]; try lia.
    rewrite read_content_boundary by (right; eexists; reflexivity).
    change (60 :: 47 :: t ++ [62]) with (60 :: 47 :: t ++ 62 :: []).
    rewrite close_tag_ok by assumption.
    destruct n' as [|n'']; [lia|]. reflexivity.
Qed.

(* ------------------------------------------------------------------ the attribute dict of starttag: lower-case, distinct keys *)
Lemma text_eq_eq : forall a b, text_eq a b = true -> a = b.
Proof.
  induction a as [|c a IH]; intros [|d b] H; simpl in H; try discriminate; [reflexivity|].
  apply andb_true_iff in H. destruct H as [H1 H2]. apply N.eqb_eq in H1. subst. f_equal. apply IH. assumption.
Qed.

Lemma text_eq_refl : forall a, text_eq a a = true.
Proof. induction a as [|c a IH]; simpl; [reflexivity|]. rewrite N.eqb_refl, IH. reflexivity. Qed.

Definition keys (d : dict) : list text := map fst d.
Definition lowered (k : text) : Prop := lower_ascii k = k.
Definition Inv (d : dict) : Prop := NoDup (keys d) /\ Forall lowered (keys d).

Lemma lower_char_idem : forall c,
  (let l := if (65 <=? c) && (c <=? 90) then c + 32 else c in if (65 <=? l) && (l <=? 90) then l + 32 else l)
  = (if (65 <=? c) && (c <=? 90) then c + 32 else c).
Proof.
  intro c. cbv zeta. destruct ((65 <=? c) && (c <=? 90)) eqn:E.
  - nb. assert (H1 : (65 <=? c + 32) && (c + 32 <=? 90) = false).
    { apply andb_false_iff. right. apply N.leb_gt. lia. }
    rewrite H1. reflexivity.
  - rewrite E. reflexivity.
Qed.

Lemma lower_idem : forall k, lowered (lower_ascii k).
Proof.
  intro k. unfold lowered, lower_ascii. rewrite map_map. apply map_ext. intro c. apply lower_char_idem.
Qed.

Lemma in_keys_dict_set : forall d k v x, In x (keys (dict_set d k v)) -> x = k \/ In x (keys d).
Proof.
  induction d as [|[k' v'] d IH]; intros k v x H; simpl in H.
  - destruct H as [H|[]]. auto.
  - destruct (text_eq k k') eqn:E; simpl in H.
    + apply text_eq_eq in E. subst k'. destruct H as [H|H]; [auto|]. right. right. exact H.
    + destruct H as [H|H]; [right; left; exact H|]. destruct (IH k v x H) as [H'|H']; [auto|]. right. right. exact H'.
Qed.

Lemma Inv_nil : Inv [].
Proof. split; constructor. Qed.

Lemma Inv_set : forall d k v, Inv d -> lowered k -> Inv (dict_set d k v).
Proof.
  induction d as [|[k' v'] d IH]; intros k v [Hnd Hlow] Hk; simpl.
  - split; simpl; [constructor; [intros []|constructor] | constructor; [assumption|constructor]].
  - destruct (text_eq k k') eqn:E.
    + apply text_eq_eq in E. subst k'. split; assumption.
    + simpl in Hnd, Hlow. inversion Hnd as [|x l Hnotin Hnd']; subst. inversion Hlow as [|x l Hk' Hlow']; subst.
      destruct (IH k v (conj Hnd' Hlow') Hk) as [H1 H2].
      split; simpl.
      * constructor; [|exact H1]. intro Hin. apply in_keys_dict_set in Hin. destruct Hin as [->|Hin].
        -- rewrite text_eq_refl in E. discriminate.
        -- contradiction.
      * constructor; assumption.
Qed.

Lemma Inv_del : forall d k, Inv d -> Inv (dict_del d k).
Proof.
  induction d as [|[k' v'] d IH]; intros k [Hnd Hlow]; [split; constructor|].
  simpl in Hnd, Hlow. inversion Hnd as [|x l Hnotin Hnd']; subst. inversion Hlow as [|x l Hk' Hlow']; subst.
  destruct (IH k (conj Hnd' Hlow')) as [H1 H2].
  unfold dict_del. simpl. destruct (negb (text_eq k k')).
  - split; simpl.
    + constructor; [|exact H1]. intro Hin. apply Hnotin.
      unfold dict_del, keys in *. apply in_map_iff in Hin. destruct Hin as [kv [<- Hkv]].
      apply filter_In in Hkv. apply in_map. tauto.
    + constructor; assumption.
  - split; assumption.
Qed.

Lemma in_keys_insert : forall d kv x, In x (keys (insert_sorted kv d)) <-> x = fst kv \/ In x (keys d).
Proof.
  induction d as [|kv' d IH]; intros kv x; simpl.
  - intuition.
  - destruct (text_ltb (fst kv') (fst kv)); simpl.
    + rewrite IH. intuition.
    + intuition.
Qed.

Lemma Inv_insert : forall d kv, Inv d -> lowered (fst kv) -> ~ In (fst kv) (keys d) -> Inv (insert_sorted kv d).
Proof.
  induction d as [|kv' d IH]; intros kv [Hnd Hlow] Hk Hnotin; simpl.
  - split; simpl; [constructor; [intros []|constructor] | constructor; [assumption|constructor]].
  - simpl in Hnd, Hlow. inversion Hnd as [|x l Hn' Hnd']; subst. inversion Hlow as [|x l Hk' Hlow']; subst.
    destruct (text_ltb (fst kv') (fst kv)).
    + destruct (IH kv (conj Hnd' Hlow') Hk) as [H1 H2]; [intro H; apply Hnotin; right; exact H|].
      split; simpl.
      * constructor; [|exact H1]. intro Hin. apply (proj1 (in_keys_insert _ _ _)) in Hin. destruct Hin as [E|Hin].
        -- apply Hnotin. left. auto.
        -- contradiction.
      * constructor; assumption.
    + split; simpl.
      * constructor; [exact Hnotin | constructor; assumption].
      * constructor; [assumption | constructor; assumption].
Qed.

Lemma in_keys_sort : forall d x, In x (keys (sort_items d)) <-> In x (keys d).
Proof.
  induction d as [|kv d IH]; intro x; simpl; [tauto|].
  rewrite in_keys_insert. rewrite IH. intuition.
Qed.

Lemma Inv_sort : forall d, Inv d -> Inv (sort_items d).
Proof.
  induction d as [|kv d IH]; intros [Hnd Hlow]; [exact Inv_nil|].
  simpl in Hnd, Hlow. inversion Hnd as [|x l Hn' Hnd']; subst. inversion Hlow as [|x l Hk' Hlow']; subst.
  simpl. apply Inv_insert; [apply IH; split; assumption | assumption |].
  intro H. apply (proj1 (in_keys_sort _ _)) in H. apply Hn'. exact H.
Qed.

Lemma Inv_fold : forall l acc, Inv acc ->
  Inv (fold_left (fun acc kv => dict_set acc (lower_ascii (fst kv)) (snd kv)) l acc).
Proof.
  induction l as [|kv l IH]; intros acc H; simpl; [exact H|].
  apply IH. apply Inv_set; [exact H | apply lower_idem].
Qed.

Lemma starttag_parts_inv : forall i p t a s, starttag_parts i = Some (p, t, a, s) ->
  Inv a /\ t = lower_ascii (st_tag i).
Proof.
  intros i p t a s H. unfold starttag_parts in H.
  set (atts0 := fold_left (fun acc kv => dict_set acc (lower_ascii (fst kv)) (snd kv)) _ []) in H.
  assert (H0 : Inv atts0) by (apply Inv_fold; exact Inv_nil).
  set (atts1 := dict_del (dict_del atts0 s_classes) s_class) in H.
  assert (H1 : Inv atts1) by (apply Inv_del; apply Inv_del; exact H0).
  destruct (class_loop _ _ _) as [classes languages] in H.
  set (atts2 := match languages with l :: _ => dict_set atts1 s_lang (AStr l) | [] => atts1 end) in H.
  assert (H2 : Inv atts2) by (unfold atts2; destruct languages; [exact H1 | apply Inv_set; [exact H1 | reflexivity]]).
  set (atts3 := match classes with _ :: _ => dict_set atts2 s_class (AStr (join [32] classes)) | [] => atts2 end) in H.
  assert (H3 : Inv atts3) by (unfold atts3; destruct classes; [exact H2 | apply Inv_set; [exact H2 | reflexivity]]).
  destruct (dict_get atts3 s_id); [discriminate|].
  inversion H; subst. split; [|reflexivity].
  apply Inv_sort.
  match goal with |- Inv (match ?ids with _ => _ end) => destruct ids end.
  - apply Inv_del. exact H3.
  - apply Inv_set; [apply Inv_del; exact H3 | reflexivity].
Qed.

Lemma has_key_in : forall k l, has_key k l = true -> In k (map fst l).
Proof.
  induction l as [|[k' v'] l IH]; intro H; simpl in H; [discriminate|].
  apply orb_true_iff in H. destruct H as [H|H]; [left; symmetry; apply text_eqb_eq; exact H | right; apply IH; exact H].
Qed.

Lemma nodup_keys_of_NoDup : forall l, NoDup (map fst l) -> nodup_keys l = true.
Proof.
  induction l as [|[k v] l IH]; intro H; [reflexivity|]. simpl in H. inversion H as [|x l' Hn Hnd]; subst.
  simpl. apply andb_true_iff. split; [|apply IH; exact Hnd].
  apply negb_true_iff. destruct (has_key k l) eqn:E; [|reflexivity]. exfalso. apply Hn. apply has_key_in. exact E.
Qed.

Lemma rendered_keys : forall a, Forall lowered (keys a) -> map fst (rendered_attrs a) = keys a.
Proof.
  induction a as [|kv a IH]; intro H; [reflexivity|]. simpl in H. inversion H as [|x l Hk Hl]; subst.
  unfold rendered_attrs in *. simpl. rewrite IH by assumption. unfold triple_attr, attr_triple. simpl.
  rewrite Hk. reflexivity.
Qed.

Theorem starttag_reads_back : forall i p t a s,
  starttag_parts i = Some (p, t, a, s) ->
  is_name t = true -> forallb (fun kv => is_name (fst kv)) a = true -> forallb value_ok a = true ->
  read (open_tag t a (st_empty i) ++ (if st_empty i then [] else 60 :: 47 :: t ++ [62]))
  = Some [XElem t (rendered_attrs a) []].
Proof.
  intros i p t a s H Ht Hkeys Hvals. destruct (starttag_parts_inv i p t a s H) as [[Hnd Hlow] _].
  apply open_tag_reads_back; try assumption.
  - rewrite forallb_forall in *. intros kv Hkv.
    assert (Hl : lowered (fst kv)).
    { rewrite Forall_forall in Hlow. apply Hlow. apply in_map. exact Hkv. }
    rewrite Hl. apply Hkeys. exact Hkv.
  - apply nodup_keys_of_NoDup. rewrite rendered_keys by assumption. exact Hnd.
Qed.
