(* Proofs/MroIRProofs.v -- the interpretation of the bodies translated from the CURRENT pydoctor/mro.py
   (Gen/MroCode.v) is the hand-written Model/Mro.v, for every input.
   The proofs are symbolic executions of the generated code: they never mention a local variable by name or
   number (parameters are referred to by position, the two long-lived locals of _merge by the roles the
   translator computes), so renaming locals or re-ordering independent statements does not disturb them. *)
From Coq Require Import NArith List Bool Lia Arith.
From PydoctorVerif Require Import Model.Mro Model.MroIR Gen.MroCode Proofs.MroProofs.
Import ListNotations.

(* ---- generic facts about the interpreter ------------------------------------------------------------ *)
Lemma existsb_veq_obj c t : existsb (veq (VObj c)) (map VObj t) = mem c t.
Proof. unfold mem. rewrite existsb_map_. reflexivity. Qed.

Lemma map_eres_map {X} (f : value -> eres) (g k : X -> value) xs :
  (forall x, In x xs -> f (g x) = EV (k x)) -> map_eres f (map g xs) = EV (VList (map k xs)).
Proof.
  induction xs as [|x xs IH]; intros H; [reflexivity|]. cbn [map map_eres].
  rewrite (H x) by now left. rewrite IH; [reflexivity|]. intros y Hy. apply H. now right.
Qed.

Lemma truths_bools {X} (b : X -> bool) xs : truths (map (fun x => VBool (b x)) xs) = Some (map b xs).
Proof. induction xs as [|x xs IH]; [reflexivity|]. cbn [map truths truth]. now rewrite IH. Qed.

Lemma existsb_id_map {X} (b : X -> bool) xs : existsb (fun y => y) (map b xs) = existsb b xs.
Proof. now rewrite existsb_map_. Qed.

Lemma forallb_id_map {X} (b : X -> bool) xs : forallb (fun y => y) (map b xs) = forallb b xs.
Proof. induction xs as [|x xs IH]; [reflexivity|]. cbn. now rewrite IH. Qed.

Lemma objs_map l : objs (map VObj l) = Some l.
Proof. induction l as [|c l IH]; [reflexivity|]. cbn [map objs]. now rewrite IH. Qed.

Lemma of_seq_app acc c : VList (map VObj acc ++ [VObj c]) = of_seq (acc ++ [c]).
Proof. unfold of_seq. now rewrite map_app. Qed.

Definition eres_of_mres (m : mres) : eres :=
  match m with MOk r => EV (of_seq r) | MValueError => EX ValueError | MOutOfFuel => EFuel end.

(* ---- layer 0: Dependency.head / Dependency.tail ------------------------------------------------------- *)
Lemma head_ir_eq d : head_ir mro_code (of_seq d) = EV (of_head (d_head d)).
Proof. destruct d; reflexivity. Qed.

Lemma tail_ir_eq d : tail_ir mro_code (of_seq d) = EV (of_seq (d_tail d)).
Proof.
  destruct d as [|x t]; [reflexivity|]. unfold tail_ir, call0, call_value, call. cbn.
  rewrite ?Nat.sub_0_r, ?firstn_all. reflexivity.
Qed.

(* ---- layer 1: DependencyList ------------------------------------------------------------------------- *)
Ltac open1 := unfold contains_ir, heads_ir, tails_ir, exhausted_ir, remove_ir, newdl_ir, call1, call1_self,
                     call_self, call_value, call.

Lemma contains_ir_eq ls c :
  contains_ir mro_code (VDL (of_seqs ls)) (VObj c) = EV (VBool (in_tails c ls)).
Proof.
  open1. cbn -[map_eres head_ir tail_ir].
  rewrite (map_eres_map _ of_seq (fun d => VBool (mem c (d_tail d)))).
  - cbn -[truths]. rewrite truths_bools, existsb_id_map. reflexivity.
  - intros d _. cbn -[head_ir tail_ir]. rewrite tail_ir_eq. cbn. unfold mem. now rewrite existsb_map_.
Qed.

Lemma heads_ir_eq ls : heads_ir mro_code (VDL (of_seqs ls)) = EV (VList (map of_head (heads ls))).
Proof.
  open1. cbn -[map_eres head_ir tail_ir].
  rewrite (map_eres_map _ of_seq (fun d => of_head (d_head d))).
  - cbn. unfold heads. now rewrite map_map.
  - intros d _. cbn -[head_ir tail_ir]. now rewrite head_ir_eq.
Qed.

Lemma tails_ir_eq v : tails_ir mro_code (VDL v) = EV (VDL v).
Proof. reflexivity. Qed.

Lemma exhausted_ir_eq ls : exhausted_ir mro_code (VDL (of_seqs ls)) = EV (VBool (exhausted ls)).
Proof.
  open1. cbn -[map_eres head_ir tail_ir].
  rewrite (map_eres_map _ of_seq (fun d => VBool (Nat.eqb (length d) 0))).
  - cbn -[truths]. rewrite truths_bools, forallb_id_map. reflexivity.
  - intros d _. cbn -[head_ir tail_ir]. now rewrite ?map_length.
Qed.

Lemma newdl_ir_eq ls : newdl_ir mro_code (of_seqs ls) = EV (VDL (of_seqs ls)).
Proof.
  open1. cbn -[map_eres head_ir tail_ir].
  rewrite (map_eres_map _ of_seq of_seq); [reflexivity|]. intros d _. reflexivity.
Qed.

Notation exec1 := (exec (prop0 mro_code) no_call2 no_call2 no_call1 no_bases no_mro no_merge 0).

(* the loop of DependencyList.remove: `item` is the second positional parameter *)
Lemma remove_step c d en :
  en 1%N = VObj c ->
  exists e1, exec1 code_DependencyList_remove_loop1_body (set en code_DependencyList_remove_loop1_var (of_seq d))
             = (e1, ONormal)
             /\ e1 code_DependencyList_remove_loop1_var = of_seq (rm1 c d) /\ e1 1%N = VObj c.
Proof.
  intros Hitem. unfold code_DependencyList_remove_loop1_body, code_DependencyList_remove_loop1_var.
  destruct d as [|x t].
  - cbn -[head_ir tail_ir]. eexists. split; [reflexivity|]. split; [reflexivity | exact Hitem].
  - cbn -[head_ir tail_ir]. rewrite (head_ir_eq (x :: t)). cbn -[head_ir tail_ir]. rewrite Hitem.
    cbn -[head_ir tail_ir]. destruct (N.eqb x c); cbn -[head_ir tail_ir];
      (eexists; split; [reflexivity|]; split; [reflexivity | exact Hitem]).
Qed.

Lemma remove_loop c ls : forall en,
  en 1%N = VObj c ->
  exists e1, forfield_loop code_DependencyList_remove_loop1_var (exec1 code_DependencyList_remove_loop1_body)
                           (map of_seq ls) en
             = (map of_seq (dl_remove c ls), (e1, ONormal)).
Proof.
  induction ls as [|d ls IH]; intros en Hitem.
  - eexists. reflexivity.
  - cbn [map forfield_loop]. rewrite dl_remove_cons. cbn [map].
    destruct (remove_step c d en Hitem) as (e' & Hs & Hv & Hi). rewrite Hs.
    destruct (IH e' Hi) as [e1 H1]. rewrite H1, Hv. eexists. reflexivity.
Qed.

Lemma remove_ir_eq ls c :
  remove_ir mro_code (VDL (of_seqs ls)) (VObj c) = EV (VDL (of_seqs (dl_remove c ls))).
Proof.
  open1. cbn [c_remove mro_code]. unfold code_DependencyList_remove, code_DependencyList_remove_loop1.
  cbn -[forfield_loop head_ir tail_ir code_DependencyList_remove_loop1_var code_DependencyList_remove_loop1_body].
  match goal with |- context [forfield_loop ?v ?st ?l ?e] => destruct (remove_loop c ls e) as [e1 H1] end.
  { reflexivity. }
  rewrite H1. cbn. reflexivity.
Qed.

(* ---- layer 2: _merge ------------------------------------------------------------------------------------- *)
Notation exec2 w := (exec (prop1 mro_code) (contains_ir mro_code) (remove_ir mro_code) (newdl_ir mro_code)
                          no_bases no_mro no_merge w).

Definition inv (en : env) (ls : list (list cls)) (acc : list cls) : Prop :=
  en role_merge_result = of_seq acc /\ en role_merge_lin = VDL (of_seqs ls).

Ltac keep := cbn -[heads_ir tails_ir exhausted_ir contains_ir remove_ir newdl_ir head_ir tail_ir for_loop while_loop].
(* the same, keeping the named loop blocks of _merge folded *)
Ltac keepb := cbn -[heads_ir tails_ir exhausted_ir contains_ir remove_ir newdl_ir head_ir tail_ir for_loop while_loop
                    code_merge_loop1 code_merge_loop1_body code_merge_loop2 code_merge_loop2_body code_merge_loop2_else
                    code_merge_loop2_var].

Definition cand (h : option cls) (ls : list (list cls)) : option cls :=
  match h with
  | Some c => if truthy c && negb (in_tails c ls) then Some c else None
  | None => None
  end.

Lemma first_candidate_cons h hs ls :
  first_candidate (h :: hs) ls = match cand h ls with Some c => Some c | None => first_candidate hs ls end.
Proof. destruct h as [c|]; cbn [first_candidate cand]; [destruct (truthy c && negb (in_tails c ls))|]; reflexivity. Qed.

(* one pass through the body of `for head in linearizations.heads` *)
Lemma merge_step w ls acc h en :
  inv en ls acc ->
  exists e1,
    exec2 w code_merge_loop2_body (set en code_merge_loop2_var (of_head h))
    = (e1, match cand h ls with Some _ => OBreak | None => ONormal end)
    /\ match cand h ls with Some c => inv e1 (dl_remove c ls) (acc ++ [c]) | None => inv e1 ls acc end.
Proof.
  unfold inv, role_merge_result, role_merge_lin. intros [Hres Hlin].
  unfold code_merge_loop2_body, code_merge_loop2_var.
  destruct h as [c|]; cbn [of_head cand].
  - keep. destruct (truthy c) eqn:Htr; keep; rewrite ?Htr; keep.
    + rewrite ?Hlin. keep; rewrite ?Htr; keep. rewrite tails_ir_eq. keep. rewrite contains_ir_eq. keep.
      destruct (in_tails c ls) eqn:Hin; keep.
      * eexists. split; [reflexivity|]. split; keep; assumption.
      * rewrite Hres. unfold of_seq at 1. keep. rewrite Hlin, remove_ir_eq. keep.
        eexists. split; [reflexivity|]. split; keep; [apply of_seq_app | reflexivity].
    + eexists. split; [reflexivity|]. split; keep; assumption.
  - keep. eexists. split; [reflexivity|]. split; keep; assumption.
Qed.

Lemma merge_for w ls acc hs : forall en,
  inv en ls acc ->
  exists e1,
    for_loop code_merge_loop2_var (exec2 w code_merge_loop2_body) (exec2 w code_merge_loop2_else) (map of_head hs) en
    = (e1, match first_candidate hs ls with Some _ => ONormal | None => ORaise ValueError end)
    /\ match first_candidate hs ls with Some c => inv e1 (dl_remove c ls) (acc ++ [c]) | None => True end.
Proof.
  induction hs as [|h hs IH]; intros en Hinv.
  - eexists. split; [reflexivity | exact I].
  - cbn [map for_loop]. rewrite first_candidate_cons.
    destruct (merge_step w ls acc h en Hinv) as (e' & Hs & Hi). rewrite Hs.
    destruct (cand h ls) as [c|].
    + exists e'. split; [reflexivity | exact Hi].
    + exact (IH e' Hi).
Qed.

Definition outcome_of (m : mres) : outcome :=
  match m with MOk r => OReturn (of_seq r) | MValueError => ORaise ValueError | MOutOfFuel => OFuel end.

Lemma merge_while w f : forall ls acc en,
  inv en ls acc ->
  exists e1, while_loop f (exec2 w code_merge_loop1_body) en = (e1, outcome_of (merge_loop f ls acc)).
Proof.
  induction f as [|f IH]; intros ls acc en Hinv.
  - eexists. reflexivity.
  - cbn [while_loop merge_loop]. unfold code_merge_loop1_body at 1.
    pose proof Hinv as [Hres Hlin]. unfold role_merge_result, role_merge_lin in Hres, Hlin.
    keepb. rewrite ?Hlin. keepb. rewrite exhausted_ir_eq. keepb.
    destruct (exhausted ls); keepb.
    + rewrite ?Hres. eexists. reflexivity.
    + unfold code_merge_loop2 at 1. keepb. rewrite ?Hlin. keepb. rewrite heads_ir_eq. keepb.
      destruct (merge_for w ls acc (heads ls) en Hinv) as (e1 & H1 & H2).
      rewrite H1. destruct (first_candidate (heads ls) ls) as [c|].
      * apply IH. exact H2.
      * eexists. reflexivity.
Qed.

Lemma args_fuel_seqs ls : args_fuel (map of_seq ls) = S (total_len ls).
Proof.
  unfold args_fuel. f_equal. induction ls as [|l ls IH]; [reflexivity|].
  cbn [map fold_right total_len of_seq]. rewrite map_length. f_equal. exact IH.
Qed.

Lemma merge_ir_eq ls : merge_ir mro_code (map of_seq ls) = eres_of_mres (merge ls).
Proof.
  unfold merge_ir, call_value, call, merge. rewrite args_fuel_seqs.
  remember (merge_loop (S (total_len ls)) ls []) as m eqn:Hm.
  cbn [c_merge mro_code]. unfold code_merge. keepb.
  change (VList (map of_seq ls)) with (of_seqs ls). rewrite newdl_ir_eq. keepb.
  unfold code_merge_loop1 at 1. cbn [exec].
  match goal with |- context [while_loop ?f ?st ?e] =>
    destruct (merge_while (S (total_len ls)) (S (total_len ls)) ls [] e) as [e1 H1] end.
  { split; reflexivity. }
  rewrite H1, <- Hm. destruct m; reflexivity.
Qed.

(* ---- layer 3: mro ------------------------------------------------------------------------------------------ *)
Lemma comp_mro (g : cls -> mres) (F : value -> eres) bs :
  (forall b, F (VObj b) = match g b with MOk l => EV (of_seq l) | MValueError => EX ValueError | MOutOfFuel => EFuel end) ->
  map_eres F (map VObj bs)
  = match mro_all g bs with
    | LOk ms => EV (VList (map of_seq ms))
    | LValueError => EX ValueError
    | LOutOfFuel => EFuel
    end.
Proof.
  intros HF. induction bs as [|b bs IH]; [reflexivity|].
  cbn [map map_eres mro_all]. rewrite HF. destruct (g b) as [l| |]; try reflexivity.
  rewrite IH. destruct (mro_all g bs); reflexivity.
Qed.

Ltac keep3 := cbn -[merge_ir map_eres mro_ir mro_all merge heads_ir tails_ir exhausted_ir contains_ir remove_ir newdl_ir].

Lemma mro_ir_eq h : forall f c, mro_ir mro_code (getbases h) f c = Some (mro f h c).
Proof.
  induction f as [|f IH]; intros c; [reflexivity|].
  cbn [mro_ir]. rewrite mro_S. unfold call_value, call. cbn [c_mro mro_code]. unfold code_mro.
  keep3.
  destruct (getbases h c) as [|b bs] eqn:Hb.
  - reflexivity.
  - cbv zeta. keep3.
    change (VObj b :: map VObj bs) with (map VObj (b :: bs)).
    rewrite (comp_mro (mro f h)).
    + destruct (mro_all (mro f h) (b :: bs)) as [ms| |]; try reflexivity.
      keep3. change [of_seq (b :: bs)] with (map of_seq [b :: bs]).
      rewrite <- map_app, merge_ir_eq.
      destruct (merge (ms ++ [b :: bs])) as [r| |]; try reflexivity.
      cbn. unfold mres_of. cbn. now rewrite objs_map.
    + intros x. cbn -[mro_ir]. now rewrite IH.
Qed.

(* the statements Props/C05.v closes *)
Lemma code_merge_is_model ls : merge_ir mro_code (map of_seq ls) = eres_of_mres (merge ls).
Proof. exact (merge_ir_eq ls). Qed.

(* the translated code computes CPython's MRO: composition with Proofs/MroProofs.v *)
From PydoctorVerif Require Import Spec.C3.
Lemma code_mro_is_python (h : hier) (rank : N -> nat) :
  acyclic h rank -> (forall c b, In b (getbases h c) -> truthy b = true) ->
  forall f c, option_map as_spec (mro_ir mro_code (getbases h) f c) = Some (cpython_mro f h c).
Proof.
  intros Ha Ht f c. rewrite mro_ir_eq. cbn [option_map]. f_equal. exact (mro_equal h rank Ha Ht f c).
Qed.
