(* Proofs/MroIRProofs.v -- the interpretation of the bodies translated from the CURRENT pydoctor/mro.py
   (Gen/MroCode.v) is the hand-written Model/Mro.v, for every input.
   The proofs are symbolic executions of the generated code.  They never mention a local variable by name or
   number (parameters are referred to by position, the two long-lived locals of _merge by the roles the
   translator computes); loops are handled by generic loop rules (first hit / no hit over a mapped list) whose
   premises are discharged by symbolic execution of whatever the loop body is; where the source may express
   the same thing with different control structure (comprehension vs. early-return loop, return inside the
   while vs. break and return after it, inline search vs. helper function) the scripts try each reading. *)
From Coq Require Import NArith List Bool Lia Arith.
From PydoctorVerif Require Import Model.Mro Model.MroIR Gen.MroCode Proofs.MroProofs.
Import ListNotations.

(* ---- generic facts about the interpreter ------------------------------------------------------------ *)
Lemma map_eres_map {X} (f : value -> eres) (g k : X -> value) xs :
  (forall x, In x xs -> f (g x) = EV (k x)) -> map_eres f (map g xs) = EV (VList (map k xs)).
Proof.
  induction xs as [|x xs IH]; intros H; [reflexivity|]. cbn [map map_eres].
  rewrite (H x) by now left. rewrite IH; [reflexivity|]. intros y Hy. apply H. now right.
Qed.

Lemma truths_bools {X} (b : X -> bool) xs : truths (map (fun x => VBool (b x)) xs) = Some (map b xs).
Proof. induction xs as [|x xs IH]; [reflexivity|]. cbn [map truths truth]. now rewrite IH. Qed.

Lemma truths_seqs ls : truths (map of_seq ls) = Some (map (fun d => negb (Nat.eqb (length d) 0)) ls).
Proof.
  induction ls as [|d ls IH]; [reflexivity|]. cbn [map truths truth of_seq]. now rewrite map_length, IH.
Qed.

Lemma existsb_id_map {X} (b : X -> bool) xs : existsb (fun y => y) (map b xs) = existsb b xs.
Proof. now rewrite existsb_map_. Qed.

Lemma forallb_id_map {X} (b : X -> bool) xs : forallb (fun y => y) (map b xs) = forallb b xs.
Proof. induction xs as [|x xs IH]; [reflexivity|]. cbn. now rewrite IH. Qed.

Lemma exhausted_not_any ls : negb (existsb (fun d => negb (Nat.eqb (length d) 0)) ls) = exhausted ls.
Proof.
  unfold exhausted. induction ls as [|d ls IH]; [reflexivity|]. cbn [existsb forallb].
  rewrite negb_orb, negb_involutive, IH. reflexivity.
Qed.

Lemma objs_map l : objs (map VObj l) = Some l.
Proof. induction l as [|c l IH]; [reflexivity|]. cbn [map objs]. now rewrite IH. Qed.

Lemma of_seq_app acc c : VList (map VObj acc ++ [VObj c]) = of_seq (acc ++ [c]).
Proof. unfold of_seq. now rewrite map_app. Qed.

Lemma existsb_veq_obj c t : existsb (veq (VObj c)) (map VObj t) = mem c t.
Proof. unfold mem. rewrite existsb_map_. reflexivity. Qed.

Definition eres_of_mres (m : mres) : eres :=
  match m with MOk r => EV (of_seq r) | MValueError => EX ValueError | MOutOfFuel => EFuel end.

(* ---- loop rules ------------------------------------------------------------------------------------------ *)
Definition passes (o : outcome) : Prop := o = ONormal \/ o = OContinue.
Definition stops (o : outcome) : Prop := match o with ONormal | OContinue => False | _ => True end.
Definition exit_of (o : outcome) : outcome := match o with OBreak => ONormal | _ => o end.

Section LoopRules.
  Context {X : Type}.
  Variable g : X -> value.                    (* the list iterated over is map g xs *)
  Variable hit : X -> option outcome.         (* Some o: on this element the body leaves the loop with outcome o *)
  Variable I : env -> Prop.                   (* holds before every pass *)
  Variable Post : X -> env -> Prop.           (* holds after the pass that leaves the loop *)

  Fixpoint first_hit (xs : list X) : option (X * outcome) :=
    match xs with
    | [] => None
    | a :: rest => match hit a with Some o => Some (a, o) | None => first_hit rest end
    end.

  Definition step_ok (x : var) (step : env -> res) (upd : X -> value) : Prop :=
    forall en a, I en ->
      exists e1 o, step (set en x (g a)) = (e1, o) /\
        match hit a with
        | Some o' => o = o' /\ stops o' /\ Post a e1
        | None => passes o /\ I e1 /\ e1 x = upd a
        end.

  Lemma for_loop_rule x step orelse upd :
    step_ok x step upd -> forall xs en, I en ->
    exists e1, match first_hit xs with
               | Some (a, o) => for_loop x step orelse (map g xs) en = (e1, exit_of o) /\ Post a e1
               | None => for_loop x step orelse (map g xs) en = orelse e1 /\ I e1
               end.
  Proof.
    intros Hs. induction xs as [|a xs IH]; intros en HI; cbn [map for_loop first_hit].
    - exists en. split; [reflexivity | assumption].
    - destruct (Hs en a HI) as (e1 & o & Hst & Hm). rewrite Hst. destruct (hit a) as [o'|].
      + destruct Hm as (-> & Hstop & HP). exists e1. destruct o'; cbn in Hstop; try contradiction; (split; [reflexivity | assumption]).
      + destruct Hm as ([-> | ->] & HI1 & _); apply IH; assumption.
  Qed.

  Lemma forfield_loop_rule x step upd :
    step_ok x step upd -> forall xs en, I en ->
    exists l' e1, match first_hit xs with
                  | Some (a, o) => forfield_loop x step (map g xs) en = (l', (e1, exit_of o)) /\ Post a e1
                  | None => forfield_loop x step (map g xs) en = (map upd xs, (e1, ONormal)) /\ I e1
                  end.
  Proof.
    intros Hs. induction xs as [|a xs IH]; intros en HI; cbn [map forfield_loop first_hit].
    - exists [], en. split; [reflexivity | assumption].
    - destruct (Hs en a HI) as (e1 & o & Hst & Hm). rewrite Hst. destruct (hit a) as [o'|].
      + destruct Hm as (-> & Hstop & HP).
        destruct o'; cbn in Hstop; try contradiction; (eexists; exists e1; split; [reflexivity | assumption]).
      + destruct Hm as (Hp & HI1 & Hx). destruct (IH e1 HI1) as (l' & e2 & H2).
        destruct (first_hit xs) as [[b ob]|]; destruct H2 as [H2 H3]; destruct Hp as [-> | ->];
          rewrite H2, ?Hx; [exists (upd a :: l'), e2 | exists (upd a :: l'), e2 | exists [], e2 | exists [], e2];
          (split; [reflexivity | assumption]).
  Qed.
End LoopRules.

(* for x, y in zip(s._lists, ws) without early exit *)
Lemma forfieldzip_loop_rule {X} (g g2 upd : X -> value) (I : env -> Prop) x y step :
  (forall en a, I en -> exists e1 o, step (set (set en x (g a)) y (g2 a)) = (e1, o) /\ passes o /\ I e1 /\ e1 x = upd a) ->
  forall xs en, I en ->
  exists e1, forfieldzip_loop x y step (map g xs) (map g2 xs) en = (map upd xs, (e1, ONormal)) /\ I e1.
Proof.
  intros Hs. induction xs as [|a xs IH]; intros en HI; cbn [map forfieldzip_loop].
  - exists en. split; [reflexivity | assumption].
  - destruct (Hs en a HI) as (e1 & o & Hst & Hp & HI1 & Hx). rewrite Hst.
    destruct (IH e1 HI1) as (e2 & H2 & H3). destruct Hp as [-> | ->]; rewrite H2, Hx; (exists e2; split; [reflexivity | assumption]).
Qed.

(* ---- symbolic execution ------------------------------------------------------------------------------------ *)
Ltac ksimp :=
  cbn -[head_ir tail_ir heads_ir tails_ir exhausted_ir contains_ir remove_ir newdl_ir helper_ir merge_ir mro_ir
        for_loop forfield_loop forfieldzip_loop while_loop map_eres mro_all merge first_candidate].

Ltac env_rw := repeat match goal with H : ?en ?k = _ |- context [?en ?k] => rewrite H end.

(* ---- layer 0: Dependency.head / Dependency.tail ------------------------------------------------------- *)
Lemma head_ir_eq d : head_ir mro_code (of_seq d) = EV (of_head (d_head d)).
Proof. destruct d; reflexivity. Qed.

Lemma tail_ir_eq d : tail_ir mro_code (of_seq d) = EV (of_seq (d_tail d)).
Proof.
  destruct d as [|x t]; [reflexivity|]. unfold tail_ir, call0, call_value, call. cbn.
  rewrite ?Nat.sub_0_r, ?firstn_all. reflexivity.
Qed.

(* ---- tactics for the bodies ---------------------------------------------------------------------------------- *)
Ltac open_calls := unfold contains_ir, heads_ir, tails_ir, exhausted_ir, remove_ir, newdl_ir, call1, call1_self,
                          call_self, call_value, call.
(* unfold the named loop block that is about to be executed *)
Ltac open_block := match goal with |- context [exec _ _ _ _ _ _ _ _ _ ?b _] => unfold b end.
Ltac bool_case :=
  match goal with
  | |- context [truthy ?c] => destruct (truthy c) eqn:?
  | |- context [in_tails ?c ?ls] => destruct (in_tails c ls) eqn:?
  | |- context [mem ?c ?l] => destruct (mem c l) eqn:?
  | |- context [N.eqb ?a ?b] => destruct (N.eqb a b) eqn:?
  | |- context [Nat.eqb (length ?d) 0] => destruct (Nat.eqb (length d) 0) eqn:?
  end.
Lemma existsb_eta c l : existsb (fun x => N.eqb c x) l = mem c l.
Proof. reflexivity. Qed.
Ltac sym0 := ksimp; env_rw; rewrite ?head_ir_eq, ?tail_ir_eq, ?map_length, ?existsb_map_; cbn beta; rewrite ?existsb_eta.
Ltac close_step :=
  do 2 eexists; (split; [reflexivity|]); cbn; unfold passes; repeat split; ksimp; env_rw; auto.

Lemma first_hit_if {X} (P : X -> bool) (o : outcome) xs :
  match first_hit (fun a => if P a then Some o else None) xs with
  | Some (_, o') => o' = o /\ existsb P xs = true
  | None => existsb P xs = false
  end.
Proof.
  induction xs as [|a xs IH]; cbn [first_hit existsb]; [reflexivity|].
  destruct (P a); cbn [orb]; [split; reflexivity | exact IH].
Qed.

(* ---- layer 1a: the read-only members of DependencyList --------------------------------------------------------- *)
Lemma contains_ir_eq ls c :
  contains_ir mro_code (VDL (of_seqs ls)) (VObj c) = EV (VBool (in_tails c ls)).
Proof.
  open_calls. cbn [c_contains mro_code]. ksimp.
  first
  [ (* any([item in l.tail for l in self._lists]) *)
    rewrite (map_eres_map _ of_seq (fun d => VBool (mem c (d_tail d))));
    [ cbn -[truths]; rewrite truths_bools, existsb_id_map; reflexivity
    | intros d _; repeat sym0; reflexivity ]
  | (* for l in self._lists: if item in l.tail: return True / return False *)
    open_block; ksimp;
    match goal with |- context [forfield_loop ?x ?st (map of_seq ls) ?en9] =>
      destruct (forfield_loop_rule of_seq (fun d => if mem c (d_tail d) then Some (OReturn (VBool true)) else None)
                                   (fun e => e 1%N = VObj c) (fun _ _ => True) x st of_seq) with (xs := ls) (en := en9)
        as (l' & e1 & Hloop)
    end;
    [ intros en0 d Hi; open_block; repeat sym0; repeat (bool_case; repeat sym0); close_step
    | reflexivity
    | pose proof (first_hit_if (fun d => mem c (d_tail d)) (OReturn (VBool true)) ls) as Hh;
      unfold in_tails;
      destruct (first_hit _ ls) as [[a o]|]; destruct Hloop as [Hloop Hp];
      [ destruct Hh as [-> Hh] | ]; rewrite Hloop, Hh; repeat sym0; reflexivity ] ].
Qed.

Lemma heads_ir_eq ls : heads_ir mro_code (VDL (of_seqs ls)) = EV (VList (map of_head (heads ls))).
Proof.
  open_calls. cbn [c_heads mro_code]. ksimp.
  rewrite (map_eres_map _ of_seq (fun d => of_head (d_head d))).
  - cbn. unfold heads. now rewrite map_map.
  - intros d _. repeat sym0. reflexivity.
Qed.

Lemma tails_ir_eq v : tails_ir mro_code (VDL v) = EV (VDL v).
Proof. reflexivity. Qed.

Lemma exhausted_ir_eq ls : exhausted_ir mro_code (VDL (of_seqs ls)) = EV (VBool (exhausted ls)).
Proof.
  open_calls. cbn [c_exhausted mro_code]. ksimp.
  first
  [ (* all(map(lambda x: len(x) == 0, self._lists)) *)
    rewrite (map_eres_map _ of_seq (fun d => VBool (Nat.eqb (length d) 0)));
    [ cbn -[truths]; rewrite truths_bools, forallb_id_map; reflexivity
    | intros d _; repeat sym0; reflexivity ]
  | (* not any(self._lists) *)
    rewrite truths_seqs; ksimp; rewrite existsb_id_map, exhausted_not_any; reflexivity
  | (* for l in self._lists: if len(l) != 0: return False / return True *)
    open_block; ksimp;
    match goal with |- context [forfield_loop ?x ?st (map of_seq ls) ?en9] =>
      destruct (forfield_loop_rule of_seq (fun d => if negb (Nat.eqb (length d) 0) then Some (OReturn (VBool false)) else None)
                                   (fun e => True) (fun _ _ => True) x st of_seq) with (xs := ls) (en := en9)
        as (l' & e1 & Hloop)
    end;
    [ intros en0 d Hi; open_block; repeat sym0; repeat (bool_case; repeat sym0); close_step
    | exact I
    | pose proof (first_hit_if (fun d => negb (Nat.eqb (length d) 0)) (OReturn (VBool false)) ls) as Hh;
      rewrite <- exhausted_not_any;
      destruct (first_hit _ ls) as [[a o]|]; destruct Hloop as [Hloop Hp];
      [ destruct Hh as [-> Hh] | ]; rewrite Hloop, Hh; repeat sym0; reflexivity ] ].
Qed.

(* ---- layer 1b: __init__ and remove ----------------------------------------------------------------------------- *)
Lemma head_ir_cons y t : head_ir mro_code (VList (VObj y :: map VObj t)) = EV (VObj y).
Proof. exact (head_ir_eq (y :: t)). Qed.
Lemma head_ir_nil : head_ir mro_code (VList []) = EV VNone.
Proof. exact (head_ir_eq []). Qed.
Lemma tail_ir_cons y t : tail_ir mro_code (VList (VObj y :: map VObj t)) = EV (of_seq t).
Proof. exact (tail_ir_eq (y :: t)). Qed.

Ltac sym1 := sym0; rewrite ?head_ir_cons, ?head_ir_nil, ?tail_ir_cons, ?heads_ir_eq, ?tails_ir_eq, ?exhausted_ir_eq, ?contains_ir_eq.

Lemma newdl_ir_eq ls : newdl_ir mro_code (of_seqs ls) = EV (VDL (of_seqs ls)).
Proof.
  open_calls. cbn [c_init mro_code]. ksimp.
  rewrite (map_eres_map _ of_seq of_seq); [reflexivity|]. intros d _. reflexivity.
Qed.

Lemma of_seqs_remove c ls : VList (map (fun d => of_seq (rm1 c d)) ls) = of_seqs (dl_remove c ls).
Proof. unfold of_seqs. now rewrite dl_remove_map, map_map. Qed.

Lemma remove_ir_eq ls c :
  remove_ir mro_code (VDL (of_seqs ls)) (VObj c) = EV (VDL (of_seqs (dl_remove c ls))).
Proof.
  open_calls. cbn [c_remove mro_code]. ksimp. repeat open_block. repeat (progress sym1).
  first
  [ (* for i in self._lists: ... i.popleft() *)
    match goal with |- context [forfield_loop ?x ?st (map of_seq ls) ?en9] =>
      destruct (forfield_loop_rule of_seq (fun _ => None) (fun e => e 1%N = VObj c) (fun _ _ => True) x st
                                   (fun d => of_seq (rm1 c d))) with (xs := ls) (en := en9) as (l' & e1 & Hloop)
    end;
    [ intros en0 d Hi; open_block; destruct d as [|y t]; repeat (progress sym1);
      repeat (bool_case; repeat (progress sym1)); close_step
    | reflexivity
    | replace (first_hit (fun _ : list cls => None) ls) with (@None (list cls * outcome)) in Hloop
        by (clear; induction ls; [reflexivity | assumption]);
      destruct Hloop as [Hloop _]; rewrite Hloop; ksimp; now rewrite of_seqs_remove ]
  | (* for i, h in zip(self._lists, self.heads): ... i.popleft() *)
    unfold heads; rewrite map_map;
    match goal with |- context [forfieldzip_loop ?x ?y ?st (map of_seq ls) _ ?en9] =>
      destruct (forfieldzip_loop_rule of_seq (fun d => of_head (d_head d)) (fun d => of_seq (rm1 c d))
                                      (fun e => e 1%N = VObj c) x y st) with (xs := ls) (en := en9) as (e1 & Hloop & _)
    end;
    [ intros en0 d Hi; open_block; destruct d as [|y0 t]; repeat (progress sym1);
      repeat (bool_case; repeat (progress sym1)); close_step
    | reflexivity
    | rewrite Hloop; ksimp; now rewrite of_seqs_remove ] ].
Qed.

(* ---- the search for the next candidate ------------------------------------------------------------------------- *)
Definition cand (h : option cls) (ls : list (list cls)) : option cls :=
  match h with
  | Some c => if truthy c && negb (in_tails c ls) then Some c else None
  | None => None
  end.

Lemma first_candidate_cons h hs ls :
  first_candidate (h :: hs) ls = match cand h ls with Some c => Some c | None => first_candidate hs ls end.
Proof. destruct h as [c|]; cbn [first_candidate cand]; [destruct (truthy c && negb (in_tails c ls))|]; reflexivity. Qed.

Lemma first_hit_cand (o : cls -> outcome) hs ls :
  match first_candidate hs ls with
  | Some c => exists h, first_hit (fun h => option_map o (cand h ls)) hs = Some (h, o c) /\ cand h ls = Some c
  | None => first_hit (fun h => option_map o (cand h ls)) hs = None
  end.
Proof.
  induction hs as [|h hs IH]; [reflexivity|]. rewrite first_candidate_cons. cbn [first_hit].
  destruct (cand h ls) as [c|] eqn:Hc; cbn [option_map]; [|exact IH].
  exists h. split; [reflexivity | exact Hc].
Qed.

Ltac sym2 := sym1; rewrite ?remove_ir_eq, ?newdl_ir_eq.

(* layer 1c: a helper function, if there is one, returns the first acceptable head or raises ValueError *)
Lemma helper0_eq body :
  nth_error (c_helpers mro_code) 0 = Some body -> forall ls,
  helper_ir mro_code 0 (VDL (of_seqs ls))
  = match first_candidate (heads ls) ls with Some c => EV (VObj c) | None => EX ValueError end.
Proof.
  intros Hb ls.
  first
  [ cbn in Hb; discriminate Hb
  | unfold helper_ir; rewrite Hb; cbn in Hb; injection Hb as <-; unfold call_value, call; ksimp;
    repeat open_block; repeat (progress sym2);
    match goal with |- context [for_loop ?x ?st ?el (map of_head (heads ls)) ?en9] =>
      destruct (for_loop_rule of_head (fun h => option_map (fun c => OReturn (VObj c)) (cand h ls))
                              (fun e => e 0%N = VDL (of_seqs ls)) (fun _ _ => True) x st el of_head)
        with (xs := heads ls) (en := en9) as (e1 & Hloop)
    end;
    [ intros en0 h Hi; open_block; destruct h as [c0|]; unfold cand; repeat (progress sym2);
      repeat (bool_case; repeat (progress sym2)); close_step
    | reflexivity
    | pose proof (first_hit_cand (fun c => OReturn (VObj c)) (heads ls) ls) as Hh;
      destruct (first_candidate (heads ls) ls) as [c|];
      [ destruct Hh as (h & Hh & _); rewrite Hh in Hloop; destruct Hloop as [Hloop _]; rewrite Hloop; reflexivity
      | rewrite Hh in Hloop; destruct Hloop as [Hloop _]; rewrite Hloop; repeat open_block; ksimp; reflexivity ] ] ].
Qed.

(* ---- layer 2: _merge ------------------------------------------------------------------------------------- *)
Notation exec2 w := (exec (prop1 mro_code) (contains_ir mro_code) (remove_ir mro_code) (newdl_ir mro_code)
                          no_bases no_mro no_merge (helper_ir mro_code) w).

Definition inv (en : env) (ls : list (list cls)) (acc : list cls) : Prop :=
  en role_merge_result = of_seq acc /\ en role_merge_lin = VDL (of_seqs ls).

(* one pass of the while loop; b: the loop is left by `return result` (true) or by break / a false condition (false) *)
Definition merge_step_spec (b : bool) (step : env -> res) : Prop :=
  forall en ls acc, inv en ls acc ->
    exists e1 o, step en = (e1, o) /\
      if exhausted ls then (if b then o = OReturn (of_seq acc) else o = OBreak /\ inv e1 ls acc)
      else match first_candidate (heads ls) ls with
           | Some c => passes o /\ inv e1 (dl_remove c ls) (acc ++ [c])
           | None => o = ORaise ValueError
           end.

Lemma while_merge b step :
  merge_step_spec b step ->
  forall f ls acc en, inv en ls acc ->
    exists e1 o, while_loop f step en = (e1, o) /\
      match merge_loop f ls acc with
      | MOk r => if b then o = OReturn (of_seq r) else o = ONormal /\ exists ls', inv e1 ls' r
      | MValueError => o = ORaise ValueError
      | MOutOfFuel => o = OFuel
      end.
Proof.
  intros Hstep. induction f as [|f IH]; intros ls acc en Hinv.
  - do 2 eexists. split; reflexivity.
  - cbn [while_loop merge_loop]. destruct (Hstep en ls acc Hinv) as (e1 & o & Hst & Hsp). rewrite Hst.
    destruct (exhausted ls).
    + destruct b.
      * subst o. do 2 eexists. split; reflexivity.
      * destruct Hsp as [-> Hi]. do 2 eexists. split; [reflexivity|]. split; [reflexivity | now exists ls].
    + destruct (first_candidate (heads ls) ls) as [c|].
      * destruct Hsp as [[-> | ->] Hi]; exact (IH _ _ _ Hi).
      * subst o. do 2 eexists. split; reflexivity.
Qed.

Ltac inv_goals := unfold inv, role_merge_result, role_merge_lin in *; repeat split; ksimp; env_rw; auto using of_seq_app.

Ltac merge_step_tac :=
  let en := fresh "en" in let ls := fresh "ls" in let acc := fresh "acc" in
  let Hinv := fresh "Hinv" in let Hres := fresh "Hres" in let Hlin := fresh "Hlin" in let Hex := fresh "Hex" in
  let Hloop := fresh "Hloop" in let Hh := fresh "Hh" in let Hc := fresh "Hc" in let Hp := fresh "Hp" in
  let Hr0 := fresh "Hr0" in let Hl0 := fresh "Hl0" in let e1 := fresh "e1" in let c := fresh "c" in
  let e0 := fresh "e0" in let h := fresh "h" in let c0 := fresh "c0" in
  intros en ls acc Hinv; pose proof Hinv as [Hres Hlin]; unfold role_merge_result, role_merge_lin in Hres, Hlin;
  open_block; repeat (progress sym2);
  destruct (exhausted ls) eqn:Hex; repeat (progress sym2);
  [ do 2 eexists; (split; [reflexivity|]); first [ reflexivity | split; [reflexivity | exact Hinv] ]
  | first
    [ (* for head in linearizations.heads: ... break / else: raise *)
      repeat open_block; repeat (progress sym2);
      match goal with |- context [for_loop ?x ?st ?el (map of_head (heads ls)) ?en9] =>
        destruct (for_loop_rule of_head (fun h => option_map (fun _ => OBreak) (cand h ls))
                                (fun e => inv e ls acc)
                                (fun h e => match cand h ls with Some c => inv e (dl_remove c ls) (acc ++ [c]) | None => False end)
                                x st el of_head) with (xs := heads ls) (en := en9) as (e1 & Hloop)
      end;
      [ intros e0 h [Hr0 Hl0]; unfold role_merge_result, role_merge_lin in Hr0, Hl0;
        open_block; destruct h as [c0|]; unfold cand; repeat (progress sym2);
        repeat (bool_case; repeat (progress sym2));
        do 2 eexists; (split; [reflexivity|]); cbn; unfold passes; repeat split; auto; inv_goals
      | exact Hinv
      | pose proof (first_hit_cand (fun _ => OBreak) (heads ls) ls) as Hh;
        destruct (first_candidate (heads ls) ls) as [c|];
        [ destruct Hh as (h & Hh & Hc); rewrite Hh in Hloop; destruct Hloop as [Hloop Hp]; rewrite Hloop;
          rewrite Hc in Hp; do 2 eexists; split; [reflexivity | split; [left; reflexivity | exact Hp]]
        | rewrite Hh in Hloop; destruct Hloop as [Hloop _]; rewrite Hloop; repeat open_block; ksimp;
          do 2 eexists; split; reflexivity ] ]
    | (* candidate = helper(linearizations) ... *)
      erewrite helper0_eq by reflexivity;
      destruct (first_candidate (heads ls) ls) as [c|]; repeat (progress sym2);
      do 2 eexists; (split; [reflexivity|]); first [ reflexivity | split; [unfold passes; auto | inv_goals] ] ] ].

Lemma args_fuel_seqs ls : args_fuel (map of_seq ls) = S (total_len ls).
Proof.
  unfold args_fuel. f_equal. induction ls as [|l ls IH]; [reflexivity|].
  cbn [map fold_right total_len of_seq]. rewrite map_length. f_equal. exact IH.
Qed.

Ltac merge_path b e1 o Hw Hsp :=
  match goal with |- context [while_loop ?f ?st ?en9] =>
    let Hstep := fresh "Hstep" in
    assert (Hstep : merge_step_spec b st) by merge_step_tac;
    match goal with ls : list (list cls) |- _ =>
      destruct (while_merge b st Hstep f ls [] en9) as (e1 & o & Hw & Hsp); [split; reflexivity|]
    end
  end.

Lemma merge_ir_eq ls : merge_ir mro_code (map of_seq ls) = eres_of_mres (merge ls).
Proof.
  unfold merge_ir, call_value, call, merge. rewrite args_fuel_seqs.
  remember (merge_loop (S (total_len ls)) ls []) as m eqn:Hm.
  cbn [c_merge mro_code]. unfold code_merge. ksimp. fold (of_seqs ls). repeat (progress sym2).
  repeat open_block. cbn [exec].
  first
  [ merge_path true e1 o Hw Hsp; rewrite Hw; rewrite <- Hm in Hsp; destruct m; subst o; reflexivity
  | merge_path false e1 o Hw Hsp; rewrite Hw; rewrite <- Hm in Hsp; destruct m;
    [ destruct Hsp as (-> & ls' & Hr & Hl); unfold role_merge_result in Hr; ksimp; env_rw; reflexivity
    | subst o; reflexivity | subst o; reflexivity ] ].
Qed.

(* ---- layer 3: mro ------------------------------------------------------------------------------------------ *)
Lemma comp_mro (g : cls -> mres) (F : value -> eres) bs :
  (forall b, F (VObj b) = match g b with MOk l => EV (of_seq l) | MValueError => EX ValueError | MOutOfFuel => EFuel end) ->
  map_eres F (map VObj bs)
  = match mro_all g bs with
    | LOk ms => EV (VList (map of_seq ms))
    | LValueError => EX ValueError
    | LOutOfFuel => EFuel
    end.
Proof.
  intros HF. induction bs as [|b bs IH]; [reflexivity|].
  cbn [map map_eres mro_all]. rewrite HF. destruct (g b) as [l| |]; try reflexivity.
  rewrite IH. destruct (mro_all g bs); reflexivity.
Qed.

Ltac keep3 := cbn -[merge_ir map_eres mro_ir mro_all merge heads_ir tails_ir exhausted_ir contains_ir remove_ir newdl_ir].

Lemma mro_ir_eq h : forall f c, mro_ir mro_code (getbases h) f c = Some (mro f h c).
Proof.
  induction f as [|f IH]; intros c; [reflexivity|].
  cbn [mro_ir]. rewrite mro_S. unfold call_value, call. cbn [c_mro mro_code]. unfold code_mro.
  keep3.
  destruct (getbases h c) as [|b bs] eqn:Hb; cbv zeta; repeat (progress (keep3; rewrite ?Hb)).
  - reflexivity.
  - change (VObj b :: map VObj bs) with (map VObj (b :: bs)).
    rewrite (comp_mro (mro f h)) by (intros x; cbn -[mro_ir]; now rewrite IH).
    destruct (mro_all (mro f h) (b :: bs)) as [ms| |]; repeat (progress (keep3; rewrite ?Hb)); try reflexivity.
    change (VObj b :: map VObj bs) with (map VObj (b :: bs)).
    change (VList (map VObj (b :: bs))) with (of_seq (b :: bs)).
    change [of_seq (b :: bs)] with (map of_seq [b :: bs]).
    rewrite <- map_app, merge_ir_eq.
    destruct (merge (ms ++ [b :: bs])) as [r| |]; keep3; try reflexivity.
    unfold mres_of. cbn. now rewrite objs_map.
Qed.

(* the translated code computes CPython's MRO: composition with Proofs/MroProofs.v *)
From PydoctorVerif Require Import Spec.C3.
Lemma code_mro_is_python (h : hier) (rank : N -> nat) :
  acyclic h rank -> (forall c b, In b (getbases h c) -> truthy b = true) ->
  forall f c, option_map as_spec (mro_ir mro_code (getbases h) f c) = Some (cpython_mro f h c).
Proof.
  intros Ha Ht f c. rewrite mro_ir_eq. cbn [option_map]. f_equal. exact (mro_equal h rank Ha Ht f c).
Qed.
