(* Proofs/ReexportReach.v -- the hypotheses of the code = model theorems (Proofs/ReexportIRProofs.v) hold in every state
   the machine of Model/Project.v goes through: so at every from-import / star import of every run (no re-export before),
   what the translated Python code does is what the model does. *)
From Coq Require Import ZArith NArith List Bool Lia Permutation.
From PydoctorVerif Require Import Base.Sexp Model.Project Model.ReexportIR Gen.ReexportCode Spec.ProjectStatic
     Proofs.ProjectBase Proofs.ProjectRegistry Proofs.ReexportIRProofs.
Import ListNotations.
Local Open Scope N_scope.

Section Reach.
  Variable p : project.
  Hypothesis Hwf : parents_first p.

  (* in the static reading, the parent of an object is a module, a package or a class *)
  Lemma sparent_scope_tag c q :
    sparent p c = Some q -> exists sq, sobj p q = Some sq /\ (is_module_tag (s_tag sq) = true \/ s_tag sq = T_CLASS).
  Proof.
    destruct c as [[m i] j]. unfold sparent. destruct (sobj p (m, i, j)) as [si|] eqn:Es; [|discriminate].
    intros Hq. unfold sobj in Es. destruct (N.eqb i 0) eqn:Ei.
    - destruct (N.eqb j 0); [|discriminate]. destruct (modinfo_of p m) as [mi|] eqn:Em; [|discriminate].
      inversion Es; subst si. cbn [s_parent] in Hq. destruct (m_parent mi) as [q0|] eqn:Eq; [|discriminate]. inversion Hq; subst q.
      pose proof (Hwf m mi q0 Em Eq) as Hlt.
      assert (Hm : (N.to_nat m < length p)%nat) by (unfold modinfo_of in Em; apply nth_error_Some; congruence).
      destruct (modinfo_of p q0) as [mq|] eqn:Emq; [|exfalso; unfold modinfo_of in Emq; apply nth_error_None in Emq; lia].
      eexists. split; [unfold sobj; cbn [N.eqb]; rewrite Emq; reflexivity|]. left. cbn [s_tag]. destruct (m_pkg mq); reflexivity.
    - destruct (stmt_at p m i) as [st|] eqn:Est; [|discriminate].
      assert (Hmod : exists mi, modinfo_of p m = Some mi) by (unfold stmt_at in Est; destruct (modinfo_of p m); [eauto|discriminate]).
      destruct Hmod as (mi & Em).
      assert (HM : exists sq, sobj p (m, 0, 0) = Some sq /\ is_module_tag (s_tag sq) = true).
      { eexists. split; [unfold sobj; cbn [N.eqb]; rewrite Em; reflexivity|]. cbn [s_tag]. destruct (m_pkg mi); reflexivity. }
      destruct st; cbn [stmt_info] in Es; try discriminate.
      + destruct (N.eqb j 0) eqn:Ej.
        * inversion Es; subst si. cbn [s_parent] in Hq. inversion Hq; subst q. destruct HM as (sq & A & B). eauto.
        * destruct (nth_error members (N.to_nat (j - 1))) as [[[mk nn] dd]|]; [|discriminate]. inversion Es; subst si.
          assert (Hq' : q = (m, i, 0)) by (unfold member_info in Hq; destruct (N.eqb mk 0); inversion Hq; reflexivity). subst q.
          eexists. split; [unfold sobj; rewrite Ei, Est; cbn [stmt_info N.eqb]; reflexivity|]. right. reflexivity.
      + destruct (N.eqb j 0); [|discriminate]. inversion Es; subst si. cbn [s_parent] in Hq. inversion Hq; subst q.
        destruct HM as (sq & A & B). eauto.
      + destruct (N.eqb j 0); [|discriminate]. inversion Es; subst si. cbn [s_parent] in Hq. inversion Hq; subst q.
        destruct HM as (sq & A & B). eauto.
  Qed.

  (* every state of the machine before any re-export (the invariant of C06_registry_static) is well formed *)
  Theorem Inv_wf_objs (Good : state -> Prop) s : Inv p (sname p) (sparent p) Good s -> wf_objs s.
  Proof.
    intros HI. pose proof (i_oa p _ _ _ s HI) as HA. pose proof (i_or p _ _ _ s HI) as HR.
    constructor.
    - intros S sb n c HS Hg. destruct (oa_contents _ _ _ _ _ HA S sb n c HS Hg) as (Cc & _). apply (oa_exists _ _ _ _ _ HA). exact Cc.
    - intros k c Hg. destruct (or_sound _ _ _ _ _ HR k c Hg) as (Cc & _). apply (oa_exists _ _ _ _ _ HA). exact Cc.
    - intros c cb q Hc Hp.
      assert (Cc : created_of p s c) by (apply (oa_exists _ _ _ _ _ HA); congruence).
      pose proof (oa_dom _ _ _ _ _ HA c Cc) as Hd. destruct (sobj p c) as [si|] eqn:Es; [|congruence].
      destruct (oa_static _ _ _ _ _ HA c cb si Hc Es) as (_ & _ & _ & Hpar & _). rewrite Hp in Hpar. symmetry in Hpar.
      pose proof (oa_closed _ _ _ _ _ HA c q Cc Hpar) as Cq.
      destruct (objs s q) as [qb|] eqn:Eq; [|exfalso; apply (oa_exists _ _ _ _ _ HA) in Cq; congruence].
      destruct (sparent_scope_tag c q Hpar) as (sq & Esq & Ht).
      destruct (oa_static _ _ _ _ _ HA q qb sq Eq Esq) as (Htag & _).
      unfold is_inst. rewrite Eq, Htag. destruct Ht as [Ht|Ht]; [rewrite Ht; reflexivity|rewrite Ht; apply orb_true_r].
  Qed.

  (* ... hence, at a module-level import of module m in such a state, the translated _handleReExport is the model's *)
  Corollary handle_code_in_machine_states (Good : state -> Prop) s m mi exports orgname asname origin :
    Inv p (sname p) (sparent p) Good s -> modinfo_of p m = Some mi -> is_inst s origin CModule = true ->
    handle_ir reexport_code s (m, 0, 0) exports orgname asname origin =
    Some (handle_reexport s (m, 0, 0) exports orgname asname origin).
  Proof.
    intros HI Hm Horg. apply handle_ir_eq; [|exact Horg|exact (Inv_wf_objs Good s HI)].
    pose proof (i_oa p _ _ _ s HI) as HA. pose proof (created_module p s m mi Hm) as CM.
    destruct (objs s (m, 0, 0)) as [mb|] eqn:Emb; [|exfalso; apply (oa_exists _ _ _ _ _ HA) in CM; congruence].
    assert (Hs : sobj p (m, 0, 0) = Some {| s_tag := if m_pkg mi then T_PACKAGE else T_MODULE; s_kind := if m_pkg mi then K_PACKAGE else K_MODULE;
                                          s_name := m_name mi; s_parent := match m_parent mi with Some q => Some (q, 0, 0) | None => None end;
                                          s_doc := m_doc mi |}) by (unfold sobj; cbn [N.eqb]; rewrite Hm; reflexivity).
    destruct (oa_static _ _ _ _ _ HA _ mb _ Emb Hs) as (Ht & _). cbn [s_tag] in Ht.
    unfold is_inst. rewrite Emb, Ht. destruct (m_pkg mi); reflexivity.
  Qed.
  Corollary exports_code_in_machine_states (Good : state -> Prop) s m mi :
    Inv p (sname p) (sparent p) Good s -> modinfo_of p m = Some mi ->
    exports_ir reexport_code s (m, 0, 0) = Some (exports_of s (m, 0, 0)).
  Proof.
    intros HI Hm. apply exports_ir_eq. intros mb Emb. left.
    pose proof (i_oa p _ _ _ s HI) as HA.
    assert (Hs : sobj p (m, 0, 0) = Some {| s_tag := if m_pkg mi then T_PACKAGE else T_MODULE; s_kind := if m_pkg mi then K_PACKAGE else K_MODULE;
                                          s_name := m_name mi; s_parent := match m_parent mi with Some q => Some (q, 0, 0) | None => None end;
                                          s_doc := m_doc mi |}) by (unfold sobj; cbn [N.eqb]; rewrite Hm; reflexivity).
    destruct (oa_static _ _ _ _ _ HA _ mb _ Emb Hs) as (Ht & _). cbn [s_tag] in Ht. rewrite Ht. destruct (m_pkg mi); reflexivity.
  Qed.
End Reach.
