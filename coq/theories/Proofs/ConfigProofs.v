(* Proofs/ConfigProofs.v -- lemmas for C20 (config values, unknown-key filter, merge contract, sections). *)
From Coq Require Import ZArith NArith List Bool Lia.
From PydoctorVerif Require Import Base.Sexp Model.ReDeriv Model.OptTypes Gen.TablesC20 Spec.PyStrLit Spec.PyListLit
     Model.Quote Model.IniValue Model.TomlValue Model.Validator Model.Merge Model.Options Proofs.QuoteProofs.
Import ListNotations.
Local Open Scope N_scope.

(* ------------------------------------------------------------------ texts *)
Lemma text_eqb_eq : forall a b, text_eqb a b = true <-> a = b.
Proof.
  induction a as [|x a IH]; destruct b as [|y b]; cbn; split; intros H; try discriminate; auto.
  - apply andb_true_iff in H. destruct H as [H1 H2]. apply N.eqb_eq in H1. apply IH in H2. congruence.
  - inversion H; subst. rewrite N.eqb_refl. cbn. apply IH. reflexivity.
Qed.

Lemma text_eqb_refl : forall a, text_eqb a a = true.
Proof. intros a. apply text_eqb_eq. reflexivity. Qed.

Lemma text_eqb_neq : forall a b, text_eqb a b = false <-> a <> b.
Proof.
  intros a b. split; intros H.
  - intros E. apply text_eqb_eq in E. congruence.
  - apply not_true_is_false. intros E. apply text_eqb_eq in E. auto.
Qed.

Lemma mem_text_In : forall t l, mem_text t l = true <-> In t l.
Proof.
  intros t l. unfold mem_text. rewrite existsb_exists. split.
  - intros (x & Hin & E). apply text_eqb_eq in E. subst. exact Hin.
  - intros H. exists t. split; auto using text_eqb_refl.
Qed.

(* ------------------------------------------------------------------ one INI value *)
Lemma triple_re_needs_quote : forall c r, c <> 34 -> c <> 39 -> re_match triple_re (c :: r) = false.
Proof.
  intros c r H1 H2. cbn [re_match].
  replace (deriv c triple_re) with Empty; [apply re_match_Empty|].
  unfold triple_re, triple_re_alts. cbn.
  apply N.eqb_neq in H1. apply N.eqb_neq in H2. rewrite H1, H2. reflexivity.
Qed.

Lemma not_quoted_without_quote : forall c r triple, c <> 34 -> c <> 39 -> is_quoted (c :: r) triple = false.
Proof.
  intros c r triple H1 H2. unfold is_quoted. rewrite quoted_regex_is_recogniser.
  unfold simple_rec.
  replace (c =? 34) with false by (symmetry; apply N.eqb_neq; exact H1).
  replace (c =? 39) with false by (symmetry; apply N.eqb_neq; exact H2).
  cbn [andb orb]. rewrite triple_re_needs_quote by assumption. apply andb_false_r.
Qed.

(* the decision tree, last branch: a value that is neither empty, nor [...], nor quoted, nor multi-line *)
Lemma ini_value_verbatim : forall split v,
  v <> [] ->
  starts_with 91 v && ends_with 93 v = false ->
  is_quoted v true = false ->
  existsb (N.eqb 10) (rstrip_nl v) = false ->
  ini_value split v = IVal (VStr v).
Proof.
  intros split v Hne Hl Hq Hnl. unfold ini_value.
  destruct v as [|c r]; [congruence|]. cbn [nonempty negb andb].
  rewrite Hl, Hq, Hnl. rewrite andb_false_r. reflexivity.
Qed.

Lemma rstrip_nl_sub : forall v x, In x (rstrip_nl v) -> In x v.
Proof.
  induction v as [|c r IH]; intros x H; [exact H|].
  cbn [rstrip_nl] in H. destruct (rstrip_nl r) as [|y r'] eqn:E.
  - destruct (c =? 10); [destruct H | destruct H as [H|[]]; left; exact H].
  - destruct H as [H|H]; [left; exact H | right; apply IH; exact H].
Qed.

(* a syntactic sufficient condition: starts with neither a quote nor `[`, has no LF *)
Lemma ini_value_plain : forall split c r,
  c <> 34 -> c <> 39 -> c <> 91 -> ~ In 10 (c :: r) ->
  ini_value split (c :: r) = IVal (VStr (c :: r)).
Proof.
  intros split c r H1 H2 H3 Hnl. apply ini_value_verbatim.
  - discriminate.
  - cbn [starts_with]. replace (c =? 91) with false by (symmetry; apply N.eqb_neq; exact H3). reflexivity.
  - apply not_quoted_without_quote; assumption.
  - apply not_true_is_false. intros H. apply existsb_exists in H. destruct H as (x & Hin & E).
    apply N.eqb_eq in E. subst x. apply Hnl. apply rstrip_nl_sub. exact Hin.
Qed.

(* what a quoting function emitted is read back *)
Lemma ini_value_quoted : forall split x s,
  (exists y, x = 34 :: y) \/ (exists y, x = 39 :: y) ->
  unquote_str x true = UOk s -> is_quoted x true = true ->
  ini_value split x = IVal (VStr s).
Proof.
  intros split x s Hx Hu Hq. unfold ini_value.
  destruct Hx as [[y ->] | [y ->]]; cbn [nonempty negb andb starts_with]; rewrite Hq, Hu; reflexivity.
Qed.

Lemma ini_value_repr : forall printable split s, Forall (repr_valid printable) s ->
  ini_value split (py_repr printable s) = IVal (VStr s).
Proof.
  intros printable split s H. apply ini_value_quoted.
  - unfold py_repr. destruct (repr_quote_is_quote s) as [E|E]; rewrite E; eauto.
  - apply unquote_repr. exact H.
  - apply (is_quoted_simple (repr_quote s)); auto using repr_quote_is_quote, repr_is_quoted.
Qed.

Lemma ini_value_dq_full : forall split s, Forall (fun c => c < 1114112) s ->
  ini_value split (dq_quote_full s) = IVal (VStr s).
Proof.
  intros split s H. apply ini_value_quoted.
  - left. unfold dq_quote_full. eauto.
  - apply unquote_dq_full. exact H.
  - apply (is_quoted_simple 34); auto.
    apply (dq_is_quoted dq_char_full (fun c => c < 1114112)); auto using dq_char_full_shape.
Qed.

Lemma ini_value_dq : forall split s, Forall (fun c => raw_ok c = true) s ->
  ini_value split (dq_quote s) = IVal (VStr s).
Proof.
  intros split s H. apply ini_value_quoted.
  - left. unfold dq_quote. eauto.
  - apply unquote_dq. exact H.
  - apply (is_quoted_simple 34); auto.
    apply (dq_is_quoted dq_char (fun c => raw_ok c = true)); auto using dq_char_shape.
Qed.
(* ------------------------------------------------------------------ multi-line values: one item per line *)
Fixpoint join_nl (l : list text) : text :=
  match l with
  | [] => []
  | [x] => x
  | x :: r => x ++ 10 :: join_nl r
  end.

Definition no_lf (t : text) : Prop := ~ In 10 t.

Lemma split_nl_app_nolf : forall x rest, no_lf x ->
  split_nl (x ++ 10 :: rest) = x :: split_nl rest.
Proof.
  induction x as [|c x IH]; intros rest H.
  - cbn [app split_nl]. destruct (split_nl rest) eqn:E.
    + destruct rest; cbn in E; [discriminate|]. destruct (split_nl rest); [discriminate|destruct (n =? 10); discriminate].
    + rewrite N.eqb_refl. reflexivity.
  - cbn [app split_nl]. rewrite IH by (intros Hin; apply H; right; exact Hin).
    replace (c =? 10) with false; [reflexivity|].
    symmetry. apply N.eqb_neq. intros E. apply H. left. auto.
Qed.

Lemma split_nl_nolf : forall x, no_lf x -> split_nl x = [x].
Proof.
  induction x as [|c x IH]; intros H; [reflexivity|].
  cbn [split_nl]. rewrite IH by (intros Hin; apply H; right; exact Hin).
  replace (c =? 10) with false; [reflexivity|].
  symmetry. apply N.eqb_neq. intros E. apply H. left. auto.
Qed.

Lemma split_join_nl : forall l, l <> [] -> Forall no_lf l -> split_nl (join_nl l) = l.
Proof.
  induction l as [|x l IH]; intros Hne H; [congruence|].
  inversion H; subst. destruct l as [|y l].
  - cbn [join_nl]. apply split_nl_nolf. assumption.
  - change (join_nl (x :: y :: l)) with (x ++ 10 :: join_nl (y :: l)).
    rewrite split_nl_app_nolf by assumption. f_equal. apply IH; [discriminate | assumption].
Qed.

Lemma filter_nonempty_id : forall l, Forall (fun t => t <> []) l -> filter nonempty l = l.
Proof.
  induction l as [|x l IH]; intros H; [reflexivity|]. inversion H; subst.
  cbn [filter]. destruct x; [congruence|]. cbn [nonempty]. f_equal. apply IH. assumption.
Qed.

Lemma rstrip_nl_last_nonempty : forall v c, c <> 10 -> rstrip_nl (v ++ [c]) = v ++ [c].
Proof.
  induction v as [|x v IH]; intros c Hc.
  - cbn. replace (c =? 10) with false by (symmetry; apply N.eqb_neq; exact Hc). reflexivity.
  - cbn [app rstrip_nl]. rewrite IH by exact Hc. destruct (v ++ [c]) eqn:E; [destruct v; discriminate | reflexivity].
Qed.

Lemma join_nl_ends : forall l x, l <> [] -> last l [] = x -> exists pre, join_nl l = pre ++ x.
Proof.
  induction l as [|y l IH]; intros x Hne Hl; [congruence|].
  destruct l as [|z l].
  - cbn in Hl. subst. exists []. reflexivity.
  - change (join_nl (y :: z :: l)) with (y ++ 10 :: join_nl (z :: l)).
    destruct (IH x) as (pre & E); [discriminate | exact Hl|]. rewrite E. exists (y ++ 10 :: pre).
    rewrite <- app_assoc. reflexivity.
Qed.

Lemma join_nl_has_lf : forall x y l, In 10 (join_nl (x :: y :: l)).
Proof.
  intros x y l. change (join_nl (x :: y :: l)) with (x ++ 10 :: join_nl (y :: l)).
  apply in_or_app. right. left. reflexivity.
Qed.

(* setup.cfg style: every non-empty line is one item, in order *)
Lemma ini_value_multiline : forall x y l,
  let items := x :: y :: l in
  let v := join_nl items in
  Forall no_lf items -> Forall (fun t => t <> []) items ->
  starts_with 91 v && ends_with 93 v = false -> is_quoted v true = false ->
  ini_value true v = IVal (VList items).
Proof.
  intros x y l items v Hnl Hne Hl Hq. unfold ini_value.
  assert (Hv : v <> []).
  { intros E. pose proof (join_nl_has_lf x y l) as H. fold items in H. fold v in H. rewrite E in H. destruct H. }
  destruct v as [|c r] eqn:Ev; [congruence|]. cbn [nonempty negb andb]. rewrite Hl, Hq. cbn [andb].
  assert (Hr : rstrip_nl (c :: r) = c :: r).
  { destruct (exists_last (l := items)) as (pre & z & Ez); [discriminate|].
    assert (Hz : z <> []).
    { rewrite Forall_forall in Hne. apply Hne. rewrite Ez. apply in_or_app. right. left. reflexivity. }
    assert (Hz10 : no_lf z).
    { rewrite Forall_forall in Hnl. apply Hnl. rewrite Ez. apply in_or_app. right. left. reflexivity. }
    destruct (join_nl_ends items z) as (p & Ep); [discriminate | rewrite Ez; apply last_last |].
    fold v in Ep. rewrite Ev in Ep. rewrite Ep.
    destruct (exists_last Hz) as (z' & w & Ew). rewrite Ew. rewrite app_assoc.
    apply rstrip_nl_last_nonempty. intros E. apply Hz10. rewrite Ew. apply in_or_app. right. left. auto. }
  rewrite Hr.
  assert (Hex : existsb (N.eqb 10) (c :: r) = true).
  { apply existsb_exists. exists 10. split; [| reflexivity]. rewrite <- Ev. apply join_nl_has_lf. }
  rewrite Hex. rewrite <- Ev. unfold v. rewrite split_join_nl by (assumption || discriminate).
  rewrite filter_nonempty_id by assumption. reflexivity.
Qed.
(* ------------------------------------------------------------------ the unknown-key filter *)
Lemma dict_set_fresh : forall (V : Type) k (v : V) d, ~ In k (map fst d) -> dict_set k v d = d ++ [(k, v)].
Proof.
  induction d as [|[k' v'] d IH]; intros H; [reflexivity|].
  cbn [dict_set]. replace (text_eqb k k') with false.
  - cbn [app]. f_equal. apply IH. intros Hin. apply H. right. exact Hin.
  - symmetry. apply text_eqb_neq. intros E. apply H. left. cbn. auto.
Qed.

(* what the filter is MEANT to do, stated on lists *)
Definition keep_known {V : Type} (known : list text) (data : list (text * V)) : list (text * V) :=
  filter (fun kv => mem_text (fst kv) known) data.
Definition unknown_keys {V : Type} (known : list text) (data : list (text * V)) : list text :=
  map fst (filter (fun kv => negb (mem_text (fst kv) known)) data).

Lemma validate_loop_spec : forall (V : Type) known (data : list (text * V)) acc warns,
  NoDup (map fst acc ++ map fst data) ->
  validate_loop known data acc warns = (acc ++ keep_known known data, warns ++ unknown_keys known data).
Proof.
  intros V known. induction data as [|[k v] data IH]; intros acc warns Hnd.
  - cbn. rewrite !app_nil_r. reflexivity.
  - cbn [map fst] in Hnd.
    assert (Hk : ~ In k (map fst acc)).
    { apply NoDup_remove_2 in Hnd. intros Hin. apply Hnd. apply in_or_app. left. exact Hin. }
    assert (Hnd' : NoDup (map fst acc ++ map fst data)) by (apply NoDup_remove_1 in Hnd; exact Hnd).
    unfold keep_known, unknown_keys. cbn [validate_loop filter fst].
    destruct (mem_text k known) eqn:E; cbn [negb map fst].
    + rewrite dict_set_fresh by exact Hk. rewrite IH.
      * unfold keep_known, unknown_keys. rewrite <- app_assoc. reflexivity.
      * rewrite map_app. cbn [map fst]. rewrite <- app_assoc. exact Hnd.
    + rewrite IH by exact Hnd'. unfold keep_known, unknown_keys. rewrite <- app_assoc. reflexivity.
Qed.

Theorem validate_spec : forall (V : Type) table (data : list (text * V)),
  NoDup (map fst data) ->
  validate table data = (keep_known (known_keys table) data, unknown_keys (known_keys table) data).
Proof.
  intros V table data H. unfold validate. rewrite validate_loop_spec by exact H. reflexivity.
Qed.

Theorem validate_keys_known : forall (V : Type) table (data : list (text * V)) k v,
  NoDup (map fst data) -> In (k, v) (fst (validate table data)) ->
  In k (known_keys table) /\ In (k, v) data.
Proof.
  intros V table data k v H Hin. rewrite validate_spec in Hin by exact H. cbn [fst] in Hin.
  unfold keep_known in Hin. apply filter_In in Hin. destruct Hin as [Hd Hk]. cbn [fst] in Hk.
  split; [apply mem_text_In; exact Hk | exact Hd].
Qed.

Lemma NoDup_map_filter : forall (A B : Type) (f : A -> B) (p : A -> bool) l,
  NoDup (map f l) -> NoDup (map f (filter p l)).
Proof.
  induction l as [|x l IH]; intros H; [constructor|].
  cbn [map] in H. inversion H as [|? ? Hx Hl]; subst. cbn [filter].
  destruct (p x); [|apply IH; exact Hl].
  cbn [map]. constructor; [|apply IH; exact Hl].
  intros Hin. apply Hx. apply in_map_iff in Hin. destruct Hin as (y & E & Hy).
  apply filter_In in Hy. destruct Hy as [Hy _]. apply in_map_iff. exists y. auto.
Qed.

(* exactly one warning per unknown key, none for a known key *)
Theorem validate_warnings : forall (V : Type) table (data : list (text * V)),
  NoDup (map fst data) ->
  NoDup (snd (validate table data)) /\
  forall k, In k (snd (validate table data)) <-> (In k (map fst data) /\ ~ In k (known_keys table)).
Proof.
  intros V table data H. rewrite validate_spec by exact H. cbn [snd]. unfold unknown_keys. split.
  - apply NoDup_map_filter. exact H.
  - intros k. rewrite in_map_iff. split.
    + intros ([k' v] & E & Hin). cbn [fst] in E. subst k'. apply filter_In in Hin. destruct Hin as [Hin Hk].
      cbn [fst] in Hk. apply negb_true_iff in Hk. split.
      * apply in_map_iff. exists (k, v). auto.
      * intros Hkn. apply mem_text_In in Hkn. congruence.
    + intros [Hin Hk]. apply in_map_iff in Hin. destruct Hin as ([k' v] & E & Hin). cbn [fst] in E. subst k'.
      exists (k, v). split; [reflexivity|]. apply filter_In. split; [exact Hin|]. cbn [fst].
      apply negb_true_iff. apply not_true_is_false. intros Hm. apply Hk. apply mem_text_In. exact Hm.
Qed.
(* ------------------------------------------------------------------ the merge contract *)
(* option strings identify one action; every action has at least one *)
Definition table_wf (table : list opt) : Prop :=
  NoDup (flat_map o_strings table) /\ Forall (fun o => o_strings o <> []) table.

Lemma NoDup_app_disjoint : forall (A : Type) (l1 l2 : list A) x,
  NoDup (l1 ++ l2) -> In x l1 -> In x l2 -> False.
Proof.
  induction l1 as [|a l1 IH]; intros l2 x H H1 H2; [destruct H1|].
  cbn [app] in H. inversion H as [|? ? Ha Hr]; subst. destruct H1 as [->|H1].
  - apply Ha. apply in_or_app. right. exact H2.
  - eapply IH; eauto.
Qed.

Lemma NoDup_app_tail : forall (A : Type) (l1 l2 : list A), NoDup (l1 ++ l2) -> NoDup l2.
Proof.
  induction l1 as [|a l1 IH]; intros l2 H; [exact H|].
  cbn [app] in H. inversion H; subst. apply IH. assumption.
Qed.

Lemma find_by_string_wf : forall table o s,
  NoDup (flat_map o_strings table) -> In o table -> In s (o_strings o) -> find_by_string table s = Some o.
Proof.
  unfold find_by_string. induction table as [|o' table IH]; intros o s Hnd Ho Hs; [destruct Ho|].
  cbn [flat_map] in Hnd. cbn [find].
  destruct Ho as [->|Ho].
  - replace (mem_text s (o_strings o)) with true by (symmetry; apply mem_text_In; exact Hs). reflexivity.
  - destruct (mem_text s (o_strings o')) eqn:E.
    + exfalso. apply mem_text_In in E. eapply NoDup_app_disjoint; [exact Hnd | exact E |].
      apply in_flat_map. exists o. auto.
    + apply IH; auto. eapply NoDup_app_tail. exact Hnd.
Qed.

Lemma find_by_key_in : forall table k o, find_by_key table k = Some o -> In o table /\ In k (o_keys o).
Proof.
  intros table k o H. unfold find_by_key in H. apply find_some in H. destruct H as [Hin Hk].
  split; [apply in_rev; exact Hin | apply mem_text_In; exact Hk].
Qed.

Lemma last_in : forall (A : Type) (l : list A) d, l <> [] -> In (last l d) l.
Proof.
  induction l as [|x l IH]; intros d H; [congruence|].
  destruct l as [|y l]; [left; reflexivity|]. right. apply IH. discriminate.
Qed.

Lemma last_string_in : forall table o, table_wf table -> In o table -> In (last_string o) (o_strings o).
Proof.
  intros table o [_ Hne] Hin. unfold last_string. apply last_in. rewrite Forall_forall in Hne. apply Hne. exact Hin.
Qed.

Lemma first_string_in : forall table o, table_wf table -> In o table -> In (first_string o) (o_strings o).
Proof.
  intros table o [_ Hne] Hin. unfold first_string. rewrite Forall_forall in Hne. specialize (Hne o Hin).
  destruct (o_strings o); [congruence | left; reflexivity].
Qed.

(* two command lines that differ only in which spelling of an option they use *)
Definition tok_equiv (table : list opt) (a b : tok) : Prop :=
  t_val a = t_val b /\ find_by_string table (t_name a) = find_by_string table (t_name b).

Lemma apply_tok_val : forall o a b ns, t_val a = t_val b -> apply_tok o a ns = apply_tok o b ns.
Proof. intros o a b ns H. unfold apply_tok. rewrite H. reflexivity. Qed.

Lemma argparse_respell : forall table a b, Forall2 (tok_equiv table) a b ->
  forall ns ex, argparse table a ns ex = argparse table b ns ex.
Proof.
  intros table a b H. induction H as [|x y a b [Hv Hf] Hr IH]; intros ns ex; [reflexivity|].
  cbn [argparse]. rewrite Hf. destruct (find_by_string table (t_name y)) as [o|]; [|apply IH].
  rewrite (apply_tok_val o x y ns Hv). destruct (apply_tok o y ns); auto.
Qed.

Lemma same_option_equiv : forall table o s1 s2 v, table_wf table -> In o table ->
  In s1 (o_strings o) -> In s2 (o_strings o) ->
  tok_equiv table {| t_name := s1; t_val := v |} {| t_name := s2; t_val := v |}.
Proof.
  intros table o s1 s2 v [Hnd _] Ho H1 H2. split; [reflexivity|]. cbn [t_name].
  rewrite (find_by_string_wf table o s1), (find_by_string_wf table o s2); auto.
Qed.

Section MergeFacts.
  Variable table : list opt.
  Hypothesis wf : table_wf table.

  (* a plain value: `key = v` in the file is `--opt=v` on the command line, whichever spelling *)
  Theorem file_value_equals_cli : forall key o v s,
    find_by_key table key = Some o -> is_flag_kind (o_kind o) = false -> In s (o_strings o) ->
    parse_known_args table [[(key, VStr v)]] [] = parse_known_args table [] [val_tok s v].
  Proof.
    intros key o v s Hk Hf Hs. destruct (find_by_key_in _ _ _ Hk) as [Ho _].
    unfold parse_known_args. cbn [merge_files file_tokens]. rewrite Hk.
    unfold on_command_line. cbn [existsb]. unfold convert_item. rewrite Hf. cbn [app].
    apply argparse_respell. constructor; [|constructor].
    apply (same_option_equiv table o); eauto using last_string_in.
  Qed.

  (* a list value on an append action: one `--opt=elem` per element, in order *)
  Theorem file_list_equals_cli : forall key o l s,
    find_by_key table key = Some o -> o_kind o = KAppend -> In s (o_strings o) ->
    parse_known_args table [[(key, VList l)]] [] = parse_known_args table [] (map (val_tok s) l).
  Proof.
    intros key o l s Hk Hf Hs. destruct (find_by_key_in _ _ _ Hk) as [Ho _].
    unfold parse_known_args. cbn [merge_files file_tokens]. rewrite Hk.
    unfold on_command_line. cbn [existsb]. unfold convert_item. rewrite Hf. cbn [is_flag_kind app].
    rewrite !app_nil_r. apply argparse_respell.
    induction l as [|x l IH]; constructor; auto.
    apply (same_option_equiv table o); eauto using last_string_in.
  Qed.

  (* flags *)
  Theorem file_true_equals_flag : forall key o w s,
    find_by_key table key = Some o -> is_flag_kind (o_kind o) = true -> In s (o_strings o) ->
    is_ascii w = true -> mem_text (lower w) w_true = true ->
    parse_known_args table [[(key, VStr w)]] [] = parse_known_args table [] [flag_tok s].
  Proof.
    intros key o w s Hk Hf Hs Ha Hw. destruct (find_by_key_in _ _ _ Hk) as [Ho _].
    unfold parse_known_args. cbn [merge_files file_tokens]. rewrite Hk.
    unfold on_command_line. cbn [existsb]. unfold convert_item. rewrite Hf, Ha, Hw. cbn [negb app].
    apply argparse_respell. constructor; [|constructor].
    apply (same_option_equiv table o); eauto using last_string_in.
  Qed.

  Theorem file_false_equals_absent : forall key o w,
    find_by_key table key = Some o -> is_flag_kind (o_kind o) = true ->
    is_ascii w = true -> mem_text (lower w) w_true = false -> mem_text (lower w) w_false = true ->
    parse_known_args table [[(key, VStr w)]] [] = parse_known_args table [] [].
  Proof.
    intros key o w Hk Hf Ha Hw1 Hw2.
    unfold parse_known_args. cbn [merge_files file_tokens]. rewrite Hk.
    unfold on_command_line. cbn [existsb]. unfold convert_item. rewrite Hf, Ha, Hw1, Hw2. reflexivity.
  Qed.

  Theorem file_count_equals_repeated_flag : forall key o w z s,
    find_by_key table key = Some o -> o_kind o = KCount -> In s (o_strings o) ->
    is_ascii w = true -> mem_text (lower w) w_true = false -> mem_text (lower w) w_false = false ->
    py_int w = IntOk z ->
    parse_known_args table [[(key, VStr w)]] [] = parse_known_args table [] (repeat (flag_tok s) (Z.to_nat z)).
  Proof.
    intros key o w z s Hk Hf Hs Ha Hw1 Hw2 Hz. destruct (find_by_key_in _ _ _ Hk) as [Ho _].
    unfold parse_known_args. cbn [merge_files file_tokens]. rewrite Hk.
    unfold on_command_line. cbn [existsb]. unfold convert_item. rewrite Hf, Ha, Hw1, Hw2, Hz. cbn [is_flag_kind negb app].
    rewrite !app_nil_r. apply argparse_respell.
    induction (Z.to_nat z) as [|n IH]; constructor; auto.
    apply (same_option_equiv table o); eauto using first_string_in.
  Qed.

  (* the command line overrides the file: an item whose action is named on the command line contributes nothing *)
  Definition overridden (cli : list tok) (kv : text * cval) : bool :=
    match find_by_key table (fst kv) with
    | Some o => on_command_line o cli
    | None => false
    end.

  Lemma file_tokens_override : forall items cli,
    file_tokens table items cli = file_tokens table (filter (fun kv => negb (overridden cli kv)) items) cli.
  Proof.
    induction items as [|[k v] items IH]; intros cli; [reflexivity|].
    cbn [filter]. unfold overridden at 1. cbn [fst].
    destruct (find_by_key table k) as [o|] eqn:Ek.
    - destruct (on_command_line o cli) eqn:Ec; cbn [negb].
      + cbn [file_tokens]. rewrite Ek, Ec. apply IH.
      + cbn [file_tokens]. rewrite Ek, Ec. rewrite <- IH. reflexivity.
    - cbn [negb file_tokens]. rewrite Ek. rewrite <- IH. reflexivity.
  Qed.

  Theorem cli_overrides_file : forall items cli,
    parse_known_args table [items] cli
    = parse_known_args table [filter (fun kv => negb (overridden cli kv)) items] cli.
  Proof.
    intros items cli. unfold parse_known_args. cbn [merge_files]. rewrite <- file_tokens_override. reflexivity.
  Qed.

  Corollary cli_overrides_file_one : forall key o v cli,
    find_by_key table key = Some o -> on_command_line o cli = true ->
    parse_known_args table [[(key, v)]] cli = parse_known_args table [] cli.
  Proof.
    intros key o v cli Hk Hc. rewrite cli_overrides_file. cbn [filter]. unfold overridden. cbn [fst].
    rewrite Hk, Hc. cbn [negb]. unfold parse_known_args. cbn [merge_files file_tokens app]. reflexivity.
  Qed.
End MergeFacts.
(* ------------------------------------------------------------------ repeated options accumulate in order *)
Lemma lookup_dict_set_same : forall (V : Type) k (v : V) d, lookup k (dict_set k v d) = Some v.
Proof.
  induction d as [|[k' v'] d IH]; cbn [dict_set lookup].
  - rewrite text_eqb_refl. reflexivity.
  - destruct (text_eqb k k') eqn:E; cbn [lookup]; rewrite ?text_eqb_refl, ?E; auto.
Qed.

Lemma dict_set_twice : forall (V : Type) k (v1 v2 : V) d, dict_set k v2 (dict_set k v1 d) = dict_set k v2 d.
Proof.
  induction d as [|[k' v'] d IH]; cbn [dict_set].
  - rewrite text_eqb_refl. reflexivity.
  - destruct (text_eqb k k') eqn:E; cbn [dict_set]; rewrite ?text_eqb_refl, ?E; [reflexivity|]. f_equal. exact IH.
Qed.

Definition ns_list (ns : namespace) (d : text) : list text :=
  match ns_get ns d with NList l => l | _ => [] end.

Lemma argparse_append_run : forall table o s, find_by_string table s = Some o -> o_kind o = KAppend ->
  forall l rest ns ex, l <> [] ->
  argparse table (map (val_tok s) l ++ rest) ns ex
  = argparse table rest (dict_set (o_dest o) (NList (ns_list ns (o_dest o) ++ l)) ns) ex.
Proof.
  intros table o s Hf Hk. induction l as [|v l IH]; intros rest ns ex Hne; [congruence|].
  change (map (val_tok s) (v :: l) ++ rest) with (val_tok s v :: (map (val_tok s) l ++ rest)).
  cbn [argparse]. change (t_name (val_tok s v)) with s. rewrite Hf.
  unfold apply_tok. rewrite Hk. change (t_val (val_tok s v)) with (Some v).
  fold (ns_list ns (o_dest o)).
  destruct l as [|v' l].
  - reflexivity.
  - rewrite IH by discriminate. unfold ns_list at 1, ns_get. rewrite lookup_dict_set_same.
    rewrite dict_set_twice, <- app_assoc. reflexivity.
Qed.

(* on the command line alone: --opt=a --opt=b ... gives default ++ [a; b; ...] *)
Theorem append_accumulates_in_order : forall table o s l, table_wf table -> In o table -> In s (o_strings o) ->
  o_kind o = KAppend -> l <> [] ->
  parse_known_args table [] (map (val_tok s) l)
  = MOk (dict_set (o_dest o) (NList (ns_list (default_ns table) (o_dest o) ++ l)) (default_ns table)).
Proof.
  intros table o s l [Hnd Hne] Ho Hs Hk Hl. unfold parse_known_args. cbn [merge_files].
  rewrite <- (app_nil_r (map (val_tok s) l)).
  rewrite (argparse_append_run table o s) by (auto using find_by_string_wf). reflexivity.
Qed.

(* ------------------------------------------------------------------ section lookup *)
Definition toml_absent (data : list (text * tomlv)) (p : list text) : Prop :=
  get_toml_section data p = SNone \/ get_toml_section data p = SFound [].

Theorem toml_first_section_wins : forall pre p post data kv,
  Forall (toml_absent data) pre -> get_toml_section data p = SFound kv -> kv <> [] ->
  toml_sections (pre ++ p :: post) data = toml_items kv [].
Proof.
  induction pre as [|x pre IH]; intros p post data kv Hpre Hp Hkv.
  - cbn [app toml_sections]. rewrite Hp. destruct kv; [congruence | reflexivity].
  - inversion Hpre as [|? ? Hx Hr]; subst. cbn [app toml_sections].
    destruct Hx as [Hx|Hx]; rewrite Hx; apply IH; assumption.
Qed.

Theorem toml_no_section : forall paths data, Forall (toml_absent data) paths -> toml_sections paths data = POk [].
Proof.
  induction paths as [|x paths IH]; intros data H; [reflexivity|].
  inversion H as [|? ? Hx Hr]; subst. cbn [toml_sections]. destruct Hx as [Hx|Hx]; rewrite Hx; apply IH; assumption.
Qed.

Lemma ini_sections_skip : forall sections split secs acc,
  Forall (fun s => mem_text (fst s) sections = false) secs -> ini_sections sections split secs acc = POk acc.
Proof.
  induction secs as [|[n items] secs IH]; intros acc H; [reflexivity|].
  inversion H as [|? ? Hx Hr]; subst. cbn [fst] in Hx. cbn [ini_sections]. rewrite Hx. apply IH. exact Hr.
Qed.

(* INI: section names are compared exactly; sections with other names do not contribute *)
Lemma ini_single_section_acc : forall sections split pre name items post acc,
  mem_text name sections = true ->
  Forall (fun s => mem_text (fst s) sections = false) pre ->
  Forall (fun s => mem_text (fst s) sections = false) post ->
  ini_sections sections split (pre ++ (name, items) :: post) acc = ini_items split items acc.
Proof.
  intros sections split pre name items post acc Hn Hpre Hpost.
  induction pre as [|[n its] pre IH].
  - cbn [app ini_sections]. rewrite Hn. destruct (ini_items split items acc) eqn:E; try reflexivity.
    apply ini_sections_skip. exact Hpost.
  - inversion Hpre as [|? ? Hx Hr]; subst. cbn [fst] in Hx. cbn [app ini_sections]. rewrite Hx. apply IH. exact Hr.
Qed.

Theorem ini_single_section : forall sections split pre name items post,
  mem_text name sections = true ->
  Forall (fun s => mem_text (fst s) sections = false) pre ->
  Forall (fun s => mem_text (fst s) sections = false) post ->
  ini_parse sections split (pre ++ (name, items) :: post) = ini_items split items [].
Proof. intros. unfold ini_parse. apply ini_single_section_acc; assumption. Qed.

(* ------------------------------------------------------------------ facts about the table the source has NOW *)
Definition nonempty_list {A : Type} (l : list A) : bool := match l with [] => false | _ => true end.

Fixpoint nodup_textb (l : list text) : bool :=
  match l with
  | [] => true
  | x :: r => negb (mem_text x r) && nodup_textb r
  end.

Lemma nodup_textb_sound : forall l, nodup_textb l = true -> NoDup l.
Proof.
  induction l as [|x l IH]; intros H; [constructor|].
  cbn [nodup_textb] in H. apply andb_true_iff in H. destruct H as [H1 H2]. constructor; [|apply IH; exact H2].
  intros Hin. apply mem_text_In in Hin. rewrite Hin in H1. discriminate.
Qed.

Lemma option_table_wf : table_wf option_table.
Proof.
  split.
  - apply nodup_textb_sound. vm_compute. reflexivity.
  - apply Forall_forall. intros o Ho.
    assert (H : forallb (fun o => nonempty_list (o_strings o)) option_table = true) by (vm_compute; reflexivity).
    rewrite forallb_forall in H. specialize (H o Ho). destruct (o_strings o); [discriminate | discriminate].
Qed.
(* ------------------------------------------------------------------ every option of the live table *)
Lemma find_proj_wf : forall (proj : opt -> list text) table o s,
  NoDup (flat_map proj table) -> In o table -> In s (proj o) ->
  find (fun o => mem_text s (proj o)) table = Some o.
Proof.
  intros proj. induction table as [|o' table IH]; intros o s Hnd Ho Hs; [destruct Ho|].
  cbn [flat_map] in Hnd. cbn [find].
  destruct Ho as [->|Ho].
  - replace (mem_text s (proj o)) with true by (symmetry; apply mem_text_In; exact Hs). reflexivity.
  - destruct (mem_text s (proj o')) eqn:E.
    + exfalso. apply mem_text_In in E. eapply NoDup_app_disjoint; [exact Hnd | exact E |].
      apply in_flat_map. exists o. auto.
    + apply IH; auto. eapply NoDup_app_tail. exact Hnd.
Qed.

Lemma option_keys_nodup : NoDup (flat_map o_keys (rev option_table)).
Proof. apply nodup_textb_sound. vm_compute. reflexivity. Qed.

Lemma option_key_resolves : forall o k, In o option_table -> In k (o_keys o) -> find_by_key option_table k = Some o.
Proof.
  intros o k Ho Hk. unfold find_by_key. apply find_proj_wf; auto using option_keys_nodup.
  apply in_rev. rewrite rev_involutive. exact Ho.
Qed.

Lemma option_key_known : forall o k, In o option_table -> In k (o_keys o) -> mem_text k (known_keys option_table) = true.
Proof. intros o k Ho Hk. apply mem_text_In. unfold known_keys. apply in_flat_map. exists o. auto. Qed.

Lemma section_paths_agree : map parse_toml_section_name config_sections = config_section_paths.
Proof. vm_compute. reflexivity. Qed.

(* ------------------------------------------------------------------ whole pipeline, one key in one file *)
Definition s_tool : text := [116; 111; 111; 108].
Definition s_pydoctor : text := [112; 121; 100; 111; 99; 116; 111; 114].
Definition s_tool_colon_pydoctor : text := [116; 111; 111; 108; 58; 112; 121; 100; 111; 99; 116; 111; 114].

(* pyproject.toml:  [tool.pydoctor]  key = <v> *)
Definition toml_file (key : text) (v : tomlv) : file_view :=
  {| fv_toml := Some [(s_tool, TTable [(s_pydoctor, TTable [(key, v)])])]; fv_ini := None |}.

(* setup.cfg / pydoctor.ini (not valid TOML):  [section]  key = <x>   as configparser hands it over *)
Definition ini_file (section key x : text) : file_view :=
  {| fv_toml := None; fv_ini := Some [(section, [(key, x)])] |}.

Lemma toml_file_parse : forall key t,
  composite_parse config_sections ini_split_ml (toml_file key (TStr t)) = POk [(key, VStr t)].
Proof.
  intros key t. unfold composite_parse, toml_file. cbn [fv_toml fv_ini].
  unfold toml_parse. rewrite section_paths_agree. reflexivity.
Qed.

Lemma toml_file_parse_list : forall key l ts, strs l = Some ts ->
  composite_parse config_sections ini_split_ml (toml_file key (TList l)) = POk [(key, VList ts)].
Proof.
  intros key l ts H. unfold composite_parse, toml_file. cbn [fv_toml fv_ini].
  unfold toml_parse. rewrite section_paths_agree.
  cbn. destruct l; cbn in *; [inversion H; reflexivity|]. rewrite H. reflexivity.
Qed.

Lemma ini_file_parse : forall section key x v, mem_text section config_sections = true ->
  ini_value ini_split_ml x = IVal v ->
  composite_parse config_sections ini_split_ml (ini_file section key x) = POk [(key, v)].
Proof.
  intros section key x v Hs Hv. unfold composite_parse, ini_file. cbn [fv_toml fv_ini].
  unfold ini_parse. cbn [ini_sections]. rewrite Hs. cbn [ini_items]. rewrite Hv. reflexivity.
Qed.

Lemma validate_single_known : forall o key (v : cval), In o option_table -> In key (o_keys o) ->
  validate option_table [(key, v)] = ([(key, v)], []).
Proof.
  intros o key v Ho Hk. unfold validate. cbn [validate_loop].
  rewrite (option_key_known o key Ho Hk). reflexivity.
Qed.

Lemma validate_single_unknown : forall key (v : cval), ~ In key (known_keys option_table) ->
  validate option_table [(key, v)] = ([], [key]).
Proof.
  intros key v H. unfold validate. cbn [validate_loop].
  replace (mem_text key (known_keys option_table)) with false; [reflexivity|].
  symmetry. apply not_true_is_false. intros E. apply H. apply mem_text_In. exact E.
Qed.

(* the pipeline on one file holding one key equals the merge contract on that key *)
Lemma pipeline_single : forall f key v cli,
  composite_parse config_sections ini_split_ml f = POk [(key, v)] ->
  validate option_table [(key, v)] = ([(key, v)], []) ->
  pydoctor_parse_args [f] cli
  = match parse_known_args option_table [[(key, v)]] cli with
    | MOk ns =>
        match ns_get ns d_verbosity, ns_get ns d_quietness with
        | NInt a, NInt b => RunOk (dict_set d_verbosity (NInt (a - b)%Z) ns) []
        | _, _ => RunRaise
        end
    | MExit c => RunExit c
    | MRaise => RunRaise
    | MUnsup => RunUnsup
    end.
Proof.
  intros f key v cli Hp Hv. unfold pydoctor_parse_args, parse_args. cbn [parse_files].
  rewrite Hp, Hv. reflexivity.
Qed.

Lemma pipeline_nofile : forall cli,
  pydoctor_parse_args [] cli
  = match parse_known_args option_table [] cli with
    | MOk ns =>
        match ns_get ns d_verbosity, ns_get ns d_quietness with
        | NInt a, NInt b => RunOk (dict_set d_verbosity (NInt (a - b)%Z) ns) []
        | _, _ => RunRaise
        end
    | MExit c => RunExit c
    | MRaise => RunRaise
    | MUnsup => RunUnsup
    end.
Proof. reflexivity. Qed.

Theorem pipeline_value_equals_cli : forall f o key v s,
  In o option_table -> In key (o_keys o) -> is_flag_kind (o_kind o) = false -> In s (o_strings o) ->
  composite_parse config_sections ini_split_ml f = POk [(key, VStr v)] ->
  pydoctor_parse_args [f] [] = pydoctor_parse_args [] [val_tok s v].
Proof.
  intros f o key v s Ho Hk Hf Hs Hp.
  rewrite (pipeline_single f key (VStr v) []); auto using (validate_single_known o).
  rewrite pipeline_nofile.
  rewrite (file_value_equals_cli option_table option_table_wf key o v s); auto using option_key_resolves.
Qed.

Theorem pipeline_list_equals_cli : forall f o key l s,
  In o option_table -> In key (o_keys o) -> o_kind o = KAppend -> In s (o_strings o) ->
  composite_parse config_sections ini_split_ml f = POk [(key, VList l)] ->
  pydoctor_parse_args [f] [] = pydoctor_parse_args [] (map (val_tok s) l).
Proof.
  intros f o key l s Ho Hk Hf Hs Hp.
  rewrite (pipeline_single f key (VList l) []); auto using (validate_single_known o).
  rewrite pipeline_nofile.
  rewrite (file_list_equals_cli option_table option_table_wf key o l s); auto using option_key_resolves.
Qed.

Theorem pipeline_cli_overrides : forall f o key v cli,
  In o option_table -> In key (o_keys o) -> on_command_line o cli = true ->
  composite_parse config_sections ini_split_ml f = POk [(key, v)] ->
  pydoctor_parse_args [f] cli = pydoctor_parse_args [] cli.
Proof.
  intros f o key v cli Ho Hk Hc Hp.
  rewrite (pipeline_single f key v cli); auto using (validate_single_known o).
  rewrite pipeline_nofile.
  rewrite (cli_overrides_file_one option_table key o v cli); auto using option_key_resolves.
Qed.

(* an unknown key: one warning, nothing applied, no abort *)
Theorem pipeline_unknown_key : forall f key v cli,
  ~ In key (known_keys option_table) ->
  composite_parse config_sections ini_split_ml f = POk [(key, v)] ->
  pydoctor_parse_args [f] cli
  = match pydoctor_parse_args [] cli with
    | RunOk ns _ => RunOk ns [key]
    | r => r
    end.
Proof.
  intros f key v cli Hk Hp. rewrite pipeline_nofile.
  unfold pydoctor_parse_args, parse_args. cbn [parse_files]. rewrite Hp, (validate_single_unknown key v Hk).
  cbn [app]. unfold parse_known_args. cbn [merge_files file_tokens app].
  destruct (argparse option_table cli (default_ns option_table) false); try reflexivity.
  destruct (ns_get ns d_verbosity); try reflexivity. destruct (ns_get ns d_quietness); reflexivity.
Qed.
(* ------------------------------------------------------------------ list displays of quoted items *)
Section RoundtripTail.
  Variable q : N.
  Variable esc : N -> text.
  Variable valid : N -> Prop.
  Hypothesis q_quote : q = 34 \/ q = 39.
  Hypothesis esc_body : forall c rest, valid c -> body q false (esc c ++ rest) = push c (body q false rest).
  Hypothesis esc_head : forall c, valid c -> exists x tl, esc c = x :: tl /\ x <> q.

  Lemma rt_body_tail : forall s tail, Forall valid s ->
    body q false ((flat_map esc s ++ [q]) ++ tail) = LOk s tail.
  Proof.
    induction s as [|c s IH]; intros tail H.
    - cbn. rewrite N.eqb_refl. reflexivity.
    - inversion H; subst. cbn [flat_map]. rewrite <- !app_assoc, esc_body by assumption.
      rewrite app_assoc, IH by assumption. reflexivity.
  Qed.

  Lemma rt_head_tail : forall s tail, Forall valid s -> (forall t r, tail = t :: r -> t <> q) ->
    open_quote q ((flat_map esc s ++ [q]) ++ tail) = (false, (flat_map esc s ++ [q]) ++ tail).
  Proof.
    intros s tail H Ht. destruct H as [|c s Hc Hs].
    - cbn [flat_map app]. unfold open_quote. destruct tail as [|t1 tail]; [reflexivity|].
      rewrite N.eqb_refl. cbn [andb].
      replace (t1 =? q) with false; [reflexivity|]. symmetry. apply N.eqb_neq. eapply Ht. reflexivity.
    - cbn [flat_map]. destruct (esc_head c Hc) as (x & tl & E & Hx). rewrite E. cbn [app].
      apply open_quote_single. exact Hx.
  Qed.

  Lemma rt_read_item : forall s tail, Forall valid s -> (forall t r, tail = t :: r -> t <> q) ->
    read_item ((q :: flat_map esc s ++ [q]) ++ tail) = ItOk s tail.
  Proof.
    intros s tail H Ht. cbn [app]. unfold read_item.
    replace (is_quote q) with true by (destruct q_quote as [E|E]; rewrite E; reflexivity).
    rewrite rt_head_tail, rt_body_tail by assumption. reflexivity.
  Qed.
End RoundtripTail.

Lemma repr_read_item : forall printable s tail, Forall (repr_valid printable) s ->
  (forall t r, tail = t :: r -> t <> 34 /\ t <> 39) ->
  read_item (py_repr printable s ++ tail) = ItOk s tail.
Proof.
  intros printable s tail H Ht. unfold py_repr.
  pose proof (repr_quote_is_quote s) as Hq.
  apply (rt_read_item (repr_quote s) (repr_char printable (repr_quote s)) (repr_valid printable)); auto.
  - intros c rest Hc. apply shape_body; auto using repr_char_shape.
  - intros c Hc. apply shape_head with (c := c); auto using repr_char_shape.
  - intros t r E. destruct (Ht t r E) as [A B]. destruct Hq as [Hq|Hq]; rewrite Hq; assumption.
Qed.

(* a quoting function good enough for list displays *)
Definition item_quoter (quote : text -> text) (ok : text -> Prop) : Prop :=
  forall s, ok s ->
    (forall tail, (forall t r, tail = t :: r -> t <> 34 /\ t <> 39) -> read_item (quote s ++ tail) = ItOk s tail) /\
    (exists q rest, quote s = q :: rest /\ is_quote q = true) /\
    forallb clean_char (quote s) = true.

Lemma quote_not_blank : forall q, is_quote q = true -> is_blank q = false /\ q <> 93 /\ q <> 44.
Proof.
  intros q H. unfold is_quote in H. apply orb_true_iff in H.
  destruct H as [H|H]; apply N.eqb_eq in H; subst q; repeat split; discriminate.
Qed.

Section ListDisplay.
  Variable quote : text -> text.
  Variable ok : text -> Prop.
  Hypothesis Q : item_quoter quote ok.

  Definition display_tail (items : list text) : text := join_with [44; 32] (map quote items) ++ [93].

  Lemma display_tail_head : forall x l, ok x -> exists q rest, display_tail (x :: l) = q :: rest /\ is_quote q = true.
  Proof.
    intros x l Hx. destruct (Q x Hx) as (_ & (q & rest & E & Hq) & _). unfold display_tail.
    destruct l as [|y l]; cbn [map join_with]; rewrite E; cbn [app]; eauto.
  Qed.

  Lemma skip_ws_quote : forall q rest, is_quote q = true -> skip_ws (q :: rest) = q :: rest.
  Proof. intros q rest H. cbn [skip_ws]. destruct (quote_not_blank q H) as (E & _). rewrite E. reflexivity. Qed.

  Lemma list_items_display : forall items fuel acc s, Forall ok items -> (length items < fuel)%nat ->
    skip_ws s = display_tail items ->
    list_items fuel s acc = LsOk (rev acc ++ items).
  Proof.
    induction items as [|x items IH]; intros fuel acc s Hok Hf Hs.
    - destruct fuel as [|f]; [lia|]. cbn [list_items]. rewrite Hs. unfold display_tail. cbn.
      rewrite app_nil_r. reflexivity.
    - destruct fuel as [|f]; [lia|]. cbn [list_items]. rewrite Hs.
      inversion Hok as [|? ? Hx Hitems]; subst.
      destruct (display_tail_head x items Hx) as (q & rest & E & Hq).
      destruct (quote_not_blank q Hq) as (Hb & H93 & H44).
      rewrite E. replace (q =? 93) with false by (symmetry; apply N.eqb_neq; exact H93).
      rewrite <- E. clear E rest.
      destruct (Q x Hx) as (Hread & _ & _).
      unfold display_tail. destruct items as [|y items].
      + cbn [map join_with]. rewrite Hread by (intros t r E; inversion E; subst; split; discriminate).
        reflexivity.
      + change (join_with [44; 32] (map quote (x :: y :: items)))
          with (quote x ++ [44; 32] ++ join_with [44; 32] (map quote (y :: items))).
        rewrite <- !app_assoc. rewrite Hread by (intros t r E; inversion E; subst; split; discriminate).
        cbn [app skip_ws]. change (is_blank 44) with false. cbv iota.
        change (44 =? 44) with true. cbv iota.

        rewrite (IH f (x :: acc)).
        * cbn [rev]. rewrite <- app_assoc. reflexivity.
        * exact Hitems.
        * cbn [length] in Hf |- *. lia.
        * inversion Hitems as [|? ? Hy _]; subst.
          destruct (display_tail_head y items Hy) as (q' & rest' & E' & Hq').
          fold (display_tail (y :: items)). rewrite E'.
          change (skip_ws (32 :: q' :: rest')) with (skip_ws (q' :: rest')).
          apply skip_ws_quote. exact Hq'.
  Qed.
End ListDisplay.

Lemma ends_with_snoc : forall c l, ends_with c (l ++ [c]) = true.
Proof.
  induction l as [|x l IH]; cbn [app ends_with]; [apply N.eqb_refl|].
  destruct (l ++ [c]) eqn:E; [destruct l; discriminate | exact IH].
Qed.

Section ListDisplayTop.
  Variable quote : text -> text.
  Variable ok : text -> Prop.
  Hypothesis Q : item_quoter quote ok.

  Lemma join_clean : forall items, Forall ok items ->
    forallb clean_char (join_with [44; 32] (map quote items)) = true.
  Proof.
    induction items as [|x items IH]; intros H; [reflexivity|].
    inversion H as [|? ? Hx Hr]; subst. destruct (Q x Hx) as (_ & _ & Hc).
    destruct items as [|y items]; [exact Hc|].
    change (join_with [44; 32] (map quote (x :: y :: items)))
      with (quote x ++ [44; 32] ++ join_with [44; 32] (map quote (y :: items))).
    rewrite !forallb_app, Hc, IH by exact Hr. reflexivity.
  Qed.

  Lemma join_length : forall items, Forall ok items ->
    Nat.le (length items) (length (join_with [44; 32] (map quote items))).
  Proof.
    induction items as [|x items IH]; intros H; [cbn; lia|].
    inversion H as [|? ? Hx Hr]; subst. destruct (Q x Hx) as (_ & (q & rest & E & _) & _).
    destruct items as [|y items]; [cbn [map join_with]; rewrite E; cbn; lia|].
    change (join_with [44; 32] (map quote (x :: y :: items)))
      with (quote x ++ [44; 32] ++ join_with [44; 32] (map quote (y :: items))).
    rewrite !app_length. specialize (IH Hr). rewrite E. cbn [length] in *. lia.
  Qed.

  Theorem list_display_eval : forall items, Forall ok items ->
    py_list_literal_eval (list_display quote items) = LsOk items.
  Proof.
    intros items H. unfold py_list_literal_eval, list_display.
    assert (Hc : forallb clean_char (91 :: join_with [44; 32] (map quote items) ++ [93]) = true).
    { cbn [forallb]. rewrite forallb_app, join_clean by exact H. reflexivity. }
    assert (Hbad : existsb bad_source_char (91 :: join_with [44; 32] (map quote items) ++ [93]) = false).
    { apply not_true_is_false. intros Hex. apply existsb_exists in Hex. destruct Hex as (x & Hin & Hx).
      rewrite forallb_forall in Hc. specialize (Hc x Hin). unfold clean_char in Hc. rewrite Hx in Hc. discriminate. }
    rewrite Hbad. rewrite normalize_no_cr.
    2:{ apply forallb_forall. intros x Hin. rewrite forallb_forall in Hc. specialize (Hc x Hin).
        unfold clean_char in Hc. apply andb_true_iff in Hc. destruct Hc as [Hc _].
        apply andb_true_iff in Hc. destruct Hc as [_ Hc]. exact Hc. }
    change (91 =? 91) with true. cbv iota.
    rewrite (list_items_display quote ok Q items); [reflexivity | exact H | |].
    - rewrite app_length. pose proof (join_length items H). cbn [length]. lia.
    - fold (display_tail quote items). destruct items as [|x items]; [reflexivity|].
      inversion H as [|? ? Hx _]; subst.
      destruct (display_tail_head quote ok Q x items Hx) as (q & rest & E & Hq). rewrite E.
      apply skip_ws_quote. exact Hq.
  Qed.

  Theorem ini_value_list_display : forall split items, Forall ok items ->
    ini_value split (list_display quote items) = IVal (VList items).
  Proof.
    intros split items H. unfold ini_value.
    rewrite (list_display_eval items H). unfold list_display.
    cbn [nonempty negb andb starts_with]. change (91 =? 91) with true.
    change (91 :: join_with [44; 32] (map quote items) ++ [93])
      with ((91 :: join_with [44; 32] (map quote items)) ++ [93]).
    rewrite ends_with_snoc. reflexivity.
  Qed.
End ListDisplayTop.

Lemma repr_item_quoter : forall printable, item_quoter (py_repr printable) (Forall (repr_valid printable)).
Proof.
  intros printable s H. split; [|split].
  - intros tail Ht. apply repr_read_item; assumption.
  - unfold py_repr. exists (repr_quote s). eexists. split; [reflexivity|].
    destruct (repr_quote_is_quote s) as [E|E]; rewrite E; reflexivity.
  - unfold py_repr. pose proof (repr_quote_is_quote s) as Hq.
    apply (rt_clean (repr_quote s) (repr_char printable (repr_quote s)) (repr_valid printable)); auto.
    + intros c rest Hc. apply shape_scan with (c := c); auto using repr_char_shape.
    + intros c rest Hc. apply shape_body; auto using repr_char_shape.
    + intros c Hc. apply shape_clean with (q := repr_quote s) (c := c); auto using repr_char_shape.
    + intros c Hc. apply shape_head with (c := c); auto using repr_char_shape.
Qed.

Theorem ini_value_repr_list : forall printable split items,
  Forall (Forall (repr_valid printable)) items ->
  ini_value split (list_display (py_repr printable) items) = IVal (VList items).
Proof.
  intros printable split items H.
  apply (ini_value_list_display (py_repr printable) (Forall (repr_valid printable)) (repr_item_quoter printable)). exact H.
Qed.

(* ------------------------------------------------------------------ no state between parses *)
Lemma composite_try_is_composite_parse : forall sections split f,
  composite_try sections split pydoctor_parsers f = composite_parse sections split f.
Proof.
  intros sections split f. unfold pydoctor_parsers, composite_parse. cbn [composite_try run_parser].
  destruct (fv_toml f) as [data|].
  - destruct (toml_parse sections data); try reflexivity.
    destruct (fv_ini f) as [secs|]; [destruct (ini_parse sections split secs)|]; reflexivity.
  - destruct (fv_ini f) as [secs|]; [destruct (ini_parse sections split secs)|]; reflexivity.
Qed.

Lemma parse_history_is_map : forall sections split ps files,
  parse_history sections split ps files = map (composite_try sections split ps) files.
Proof.
  intros sections split ps. induction files as [|f files IH]; [reflexivity|].
  cbn [parse_history composite_step map]. rewrite IH. reflexivity.
Qed.

(* what is read from a file does not depend on which files were read before it *)
Theorem parse_history_independent : forall sections split before f after,
  nth (length before) (parse_history sections split pydoctor_parsers (before ++ f :: after)) PError
  = composite_parse sections split f.
Proof.
  intros sections split before f after. rewrite parse_history_is_map, map_app.
  rewrite app_nth2 by (rewrite map_length; apply le_n).
  rewrite map_length, Nat.sub_diag. cbn [map nth]. apply composite_try_is_composite_parse.
Qed.
