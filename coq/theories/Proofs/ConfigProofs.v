(* Proofs/ConfigProofs.v -- lemmas for C20 (config values, unknown-key filter, merge contract, sections). *)
From Coq Require Import ZArith NArith List Bool Lia.
From PydoctorVerif Require Import Base.Sexp Model.ReDeriv Model.OptTypes Gen.TablesC20 Spec.PyStrLit Spec.PyListLit
     Model.Quote Model.IniValue Model.TomlValue Model.Validator Model.Merge Model.Options Proofs.QuoteProofs.
Import ListNotations.
Local Open Scope N_scope.

(* ------------------------------------------------------------------ texts *)
Lemma text_eqb_eq : forall a b, text_eqb a b = true <-> a = b.
Proof.
  induction a as [|x a IH]; destruct b as [|y b]; cbn; split; intros H; try discriminate; auto.
  - apply andb_true_iff in H. destruct H as [H1 H2]. apply N.eqb_eq in H1. apply IH in H2. congruence.
  - inversion H; subst. rewrite N.eqb_refl. cbn. apply IH. reflexivity.
Qed.

Lemma text_eqb_refl : forall a, text_eqb a a = true.
Proof. intros a. apply text_eqb_eq. reflexivity. Qed.

Lemma text_eqb_neq : forall a b, text_eqb a b = false <-> a <> b.
Proof.
  intros a b. split; intros H.
  - intros E. apply text_eqb_eq in E. congruence.
  - apply not_true_is_false. intros E. apply text_eqb_eq in E. auto.
Qed.

Lemma mem_text_In : forall t l, mem_text t l = true <-> In t l.
Proof.
  intros t l. unfold mem_text. rewrite existsb_exists. split.
  - intros (x & Hin & E). apply text_eqb_eq in E. subst. exact Hin.
  - intros H. exists t. split; auto using text_eqb_refl.
Qed.

(* ------------------------------------------------------------------ one INI value *)
Lemma triple_re_needs_quote : forall c r, c <> 34 -> c <> 39 -> re_match triple_re (c :: r) = false.
Proof.
  intros c r H1 H2. cbn [re_match].
  replace (deriv c triple_re) with Empty; [apply re_match_Empty|].
  unfold triple_re, triple_re_alts. cbn.
  apply N.eqb_neq in H1. apply N.eqb_neq in H2. rewrite H1, H2. reflexivity.
Qed.

Lemma not_quoted_without_quote : forall c r triple, c <> 34 -> c <> 39 -> is_quoted (c :: r) triple = false.
Proof.
  intros c r triple H1 H2. unfold is_quoted. rewrite quoted_regex_is_recogniser.
  unfold simple_rec.
  replace (c =? 34) with false by (symmetry; apply N.eqb_neq; exact H1).
  replace (c =? 39) with false by (symmetry; apply N.eqb_neq; exact H2).
  cbn [andb orb]. rewrite triple_re_needs_quote by assumption. apply andb_false_r.
Qed.

(* the decision tree, last branch: a value that is neither empty, nor [...], nor quoted, nor multi-line *)
Lemma ini_value_verbatim : forall split v,
  v <> [] ->
  starts_with 91 v && ends_with 93 v = false ->
  is_quoted v true = false ->
  existsb (N.eqb 10) (rstrip_nl v) = false ->
  ini_value split v = IVal (VStr v).
Proof.
  intros split v Hne Hl Hq Hnl. unfold ini_value.
  destruct v as [|c r]; [congruence|]. cbn [nonempty negb andb].
  rewrite Hl, Hq, Hnl. rewrite andb_false_r. reflexivity.
Qed.

Lemma rstrip_nl_sub : forall v x, In x (rstrip_nl v) -> In x v.
Proof.
  induction v as [|c r IH]; intros x H; [exact H|].
  cbn [rstrip_nl] in H. destruct (rstrip_nl r) as [|y r'] eqn:E.
  - destruct (c =? 10); [destruct H | destruct H as [H|[]]; left; exact H].
  - destruct H as [H|H]; [left; exact H | right; apply IH; exact H].
Qed.

(* a syntactic sufficient condition: starts with neither a quote nor `[`, has no LF *)
Lemma ini_value_plain : forall split c r,
  c <> 34 -> c <> 39 -> c <> 91 -> ~ In 10 (c :: r) ->
  ini_value split (c :: r) = IVal (VStr (c :: r)).
Proof.
  intros split c r H1 H2 H3 Hnl. apply ini_value_verbatim.
  - discriminate.
  - cbn [starts_with]. replace (c =? 91) with false by (symmetry; apply N.eqb_neq; exact H3). reflexivity.
  - apply not_quoted_without_quote; assumption.
  - apply not_true_is_false. intros H. apply existsb_exists in H. destruct H as (x & Hin & E).
    apply N.eqb_eq in E. subst x. apply Hnl. apply rstrip_nl_sub. exact Hin.
Qed.

(* what a quoting function emitted is read back *)
Lemma ini_value_quoted : forall split x s,
  (exists y, x = 34 :: y) \/ (exists y, x = 39 :: y) ->
  unquote_str x true = UOk s -> is_quoted x true = true ->
  ini_value split x = IVal (VStr s).
Proof.
  intros split x s Hx Hu Hq. unfold ini_value.
  destruct Hx as [[y ->] | [y ->]]; cbn [nonempty negb andb starts_with]; rewrite Hq, Hu; reflexivity.
Qed.

Lemma ini_value_repr : forall printable split s, Forall (repr_valid printable) s ->
  ini_value split (py_repr printable s) = IVal (VStr s).
Proof.
  intros printable split s H. apply ini_value_quoted.
  - unfold py_repr. destruct (repr_quote_is_quote s) as [E|E]; rewrite E; eauto.
  - apply unquote_repr. exact H.
  - apply (is_quoted_simple (repr_quote s)); auto using repr_quote_is_quote, repr_is_quoted.
Qed.

Lemma ini_value_dq_full : forall split s, Forall (fun c => c < 1114112) s ->
  ini_value split (dq_quote_full s) = IVal (VStr s).
Proof.
  intros split s H. apply ini_value_quoted.
  - left. unfold dq_quote_full. eauto.
  - apply unquote_dq_full. exact H.
  - apply (is_quoted_simple 34); auto.
    apply (dq_is_quoted dq_char_full (fun c => c < 1114112)); auto using dq_char_full_shape.
Qed.

Lemma ini_value_dq : forall split s, Forall (fun c => raw_ok c = true) s ->
  ini_value split (dq_quote s) = IVal (VStr s).
Proof.
  intros split s H. apply ini_value_quoted.
  - left. unfold dq_quote. eauto.
  - apply unquote_dq. exact H.
  - apply (is_quoted_simple 34); auto.
    apply (dq_is_quoted dq_char (fun c => raw_ok c = true)); auto using dq_char_shape.
Qed.
