(* Proofs/SiteIRProofs.v -- the interpretation (Model/SiteIR.v) of the bodies translated from the CURRENT
   pydoctor/model.py and pydoctor/linker.py (Gen/SiteCode.v) is the hand-written Model/Site.v, for every registry.
   The proofs are symbolic executions: case analysis on the registry facts the model itself inspects, then
   computation; they do not depend on the shape of the generated terms. *)
From Coq Require Import NArith List Bool Arith Lia.
From PydoctorVerif Require Import Base.Sexp Model.SiteTable Model.Site Model.SiteIR Gen.SiteCode Gen.Listings
     Spec.SiteSpec Proofs.SiteProofs.
Import ListNotations.

(* ------------------------------------------------------------------ the model functions, one step unfolded *)
Lemma fullname_f_mono : forall r n i t, fullname_f n r i = Some t -> forall m, n <= m -> fullname_f m r i = Some t.
Proof.
  intros r n. induction n as [|n IH]; intros i t H m Hm; [discriminate|].
  destruct m as [|m]; [lia|]. cbn [fullname_f] in *. destruct (get r i) as [o|]; [|discriminate].
  destruct (o_parent o) as [p|]; [|exact H].
  destruct (fullname_f n r p) as [tp|] eqn:E; [|discriminate]. rewrite (IH p tp E m ltac:(lia)). exact H.
Qed.

Lemma fullname_f_total : forall r, wf r -> forall n i, i < n -> valid r i -> exists t, fullname_f n r i = Some t.
Proof.
  intros r Hwf n. induction n as [|n IH]; intros i Hi Hv; [lia|].
  destruct (valid_get r i Hv) as [o Ho]. cbn [fullname_f]. rewrite Ho.
  destruct (o_parent o) as [p|] eqn:Hp; [|eauto].
  assert (Hlt : p < i) by (apply (wf_parent_lt r Hwf); rewrite (parent_of_get r i o Ho); exact Hp).
  destruct (IH p ltac:(lia) ltac:(unfold valid in *; lia)) as [tp Htp]. rewrite Htp. eauto.
Qed.

Lemma fullname_unfold : forall r i o, wf r -> get r i = Some o ->
  fullname r i = match o_parent o with None => o_name o | Some p => fullname r p ++ [c_dot] ++ o_name o end.
Proof.
  intros r i o Hwf Ho. pose proof (get_valid r i o Ho) as Hv. unfold fullname at 1. unfold fuel_of. cbn [fullname_f]. rewrite Ho.
  destruct (o_parent o) as [p|] eqn:Hp; [|reflexivity].
  assert (Hlt : p < i) by (apply (wf_parent_lt r Hwf); rewrite (parent_of_get r i o Ho); exact Hp).
  destruct (fullname_f_total r Hwf (length (r_objs r)) p ltac:(unfold valid in Hv; lia) ltac:(unfold valid in *; lia)) as [tp Htp].
  rewrite Htp. unfold fullname, fuel_of. now rewrite (fullname_f_mono r _ p tp Htp (S (length (r_objs r))) ltac:(lia)).
Qed.

Lemma visible_f_mono : forall r n i b, visible_f n r i = Some b -> forall m, n <= m -> visible_f m r i = Some b.
Proof.
  intros r n. induction n as [|n IH]; intros i b H m Hm; [discriminate|].
  destruct m as [|m]; [lia|]. cbn [visible_f] in *. destruct (get r i) as [o|]; [|discriminate].
  destruct (is_hidden (eff_priv o)); [exact H|]. destruct (o_parent o) as [p|]; [|exact H].
  exact (IH p b H m ltac:(lia)).
Qed.

Lemma visible_unfold : forall r i o, wf r -> get r i = Some o ->
  visible r i = if is_hidden (eff_priv o) then false
                else match o_parent o with None => true | Some p => visible r p end.
Proof.
  intros r i o Hwf Ho. pose proof (get_valid r i o Ho) as Hv. unfold visible at 1. unfold fuel_of. cbn [visible_f]. rewrite Ho.
  destruct (is_hidden (eff_priv o)); [reflexivity|]. destruct (o_parent o) as [p|] eqn:Hp; [|reflexivity].
  assert (Hlt : p < i) by (apply (wf_parent_lt r Hwf); rewrite (parent_of_get r i o Ho); exact Hp).
  destruct (visible_f_total r Hwf (length (r_objs r)) p ltac:(unfold valid in Hv; lia) ltac:(unfold valid in *; lia)) as [b Hb].
  rewrite Hb. unfold visible, fuel_of. now rewrite (visible_f_mono r _ p b Hb (S (length (r_objs r))) ltac:(lia)).
Qed.

Section Code.
Variable quote : text -> text.
Variable r : registry.
Notation run' := (run_fn quote site_code r).

Ltac unfold_code := unfold site_code, code_Documentable_fullName, code_Documentable_privacyClass, code_Module_privacyClass,
  code_Documentable_isVisible, code_Documentable_isPrivate, code_Documentable_page_object, code_Documentable_url, code_taglink.

(* x.privacyClass: Module.privacyClass for modules / packages, Documentable.privacyClass otherwise *)
Lemma code_privacy : forall n i o, 2 <= n -> get r i = Some o ->
  run' n (privacy_impl r i) i env0 = Val (VPriv (eff_priv o)).
Proof.
  intros n i o Hn Ho. destruct n as [|[|n]]; try lia. change (run_privacy quote site_code r (S (S n)) i = Val (VPriv (eff_priv o))).
  replace (eff_priv o) with (priv_of r i) by (unfold priv_of; now rewrite Ho). unfold run_privacy, privacy_impl, priv_of, kind_of, eff_priv, t_main. rewrite Ho.
  destruct (is_module_kind (o_kind o)) eqn:Hk; cbn; rewrite ?Ho; cbn; [|reflexivity].
  match goal with |- context [text_eqb (o_name o) ?m] => destruct (text_eqb (o_name o) m) eqn:E end;
    cbn; rewrite ?Ho; reflexivity.
Qed.

Hypothesis Hwf : wf r.

Lemma add_sub_same : forall n k, n + k - n = k.
Proof. intros. lia. Qed.

(* normal forms: arithmetic on slice bounds, s[0:] *)
Ltac sym Ho := cbn -[fullname visible url page_url page_obj priv_of is_private taglink is_nil starts_with skipn firstn length text_eqb chain_up];
               rewrite ?Ho, ?add_sub_same, ?Nat.sub_0_r, ?skipn_O;
               cbn -[fullname visible url page_url page_obj priv_of is_private taglink is_nil starts_with skipn firstn length text_eqb chain_up].

Lemma parent_lt : forall i o p, get r i = Some o -> o_parent o = Some p -> p < i /\ valid r p.
Proof.
  intros i o p Ho Hp. assert (Hlt : p < i) by (apply (wf_parent_lt r Hwf); rewrite (parent_of_get r i o Ho); exact Hp).
  split; [exact Hlt|]. pose proof (get_valid r i o Ho). unfold valid in *. lia.
Qed.

(* Documentable.fullName *)
Theorem code_fullname : forall fuel i, i < fuel -> valid r i ->
  run' fuel FFullName i env0 = Val (VStr (fullname r i)).
Proof.
  induction fuel as [|n IH]; intros i Hi Hv; [lia|]. destruct (valid_get r i Hv) as [o Ho].
  rewrite (fullname_unfold r i o Hwf Ho).
  destruct (o_parent o) as [p|] eqn:Hp.
  - destruct (parent_lt i o p Ho Hp) as [Hlt Hvp]. sym Ho. rewrite Hp. sym Ho.
    rewrite (IH p ltac:(lia) Hvp). sym Ho. rewrite <- ?app_assoc. reflexivity.
  - sym Ho. rewrite Hp. sym Ho. reflexivity.
Qed.

(* ---- the iterative spelling: a search loop over the chain of containers *)
Lemma for_loop_search : forall (step : ival -> env -> sres) (P : ival -> bool) (a : ival) l en,
  (forall v en0, In v l -> (P v = true /\ step v en0 = SRet a) \/ (P v = false /\ exists en1, step v en0 = SNorm en1)) ->
  (existsb P l = true /\ for_loop step l en = SRet a) \/ (existsb P l = false /\ exists en1, for_loop step l en = SNorm en1).
Proof.
  intros step P a l. induction l as [|v l IH]; intros en H.
  - right. split; [reflexivity|]. exists en. reflexivity.
  - cbn [for_loop existsb]. destruct (H v en (or_introl eq_refl)) as [[Hp Hs]|[Hp [en1 Hs]]]; rewrite Hs, Hp.
    + left. split; reflexivity.
    + cbn [orb]. apply IH. intros w en0 Hw. apply H. now right.
Qed.

Lemma chain_up_valid : forall fuel i x, valid r i -> In x (chain_up fuel r i) -> valid r x.
Proof.
  induction fuel as [|n IH]; intros i x Hv Hin; [contradiction|]. cbn [chain_up] in Hin. destruct Hin as [E|Hin]; [now subst x|].
  destruct (parent_of r i) as [p|] eqn:Hp; [|contradiction].
  apply (IH p x); [|exact Hin]. pose proof (wf_parent_lt r Hwf i p Hp). unfold valid in *. lia.
Qed.

Lemma chain_hidden : forall fuel i, i < fuel -> valid r i ->
  existsb (fun a => is_hidden (priv_of r a)) (chain_up fuel r i) = negb (visible r i).
Proof.
  induction fuel as [|n IH]; intros i Hi Hv; [lia|]. destruct (valid_get r i Hv) as [o Ho].
  cbn [chain_up existsb]. rewrite (visible_unfold r i o Hwf Ho). rewrite (priv_of_get r i o Ho). rewrite (parent_of_get r i o Ho).
  destruct (is_hidden (eff_priv o)); [reflexivity|]. cbn [orb]. destruct (o_parent o) as [p|] eqn:Hp; [|reflexivity].
  destruct (parent_lt i o p Ho Hp) as [Hlt Hvp]. exact (IH p ltac:(lia) Hvp).
Qed.

Lemma existsb_map : forall {X Y} (f : X -> Y) (P : Y -> bool) l, existsb P (map f l) = existsb (fun x => P (f x)) l.
Proof. intros X Y f P l. induction l as [|x l IH]; [reflexivity|]. cbn. now rewrite IH. Qed.

(* Documentable.isVisible: recursion on the parent's property, or a search loop over the chain of containers *)
Theorem code_is_visible : forall fuel i, i + 3 < fuel -> valid r i ->
  run' fuel FIsVisible i env0 = Val (VBool (visible r i)).
Proof.
  induction fuel as [|n IH]; intros i Hi Hv; [lia|]. destruct (valid_get r i Hv) as [o Ho].
  first
  [ (* recursive spelling *)
    rewrite (visible_unfold r i o Hwf Ho);
    pose proof (code_privacy n i o ltac:(lia) Ho) as Hpriv;
    destruct (o_parent o) as [p|] eqn:Hp;
    [ destruct (parent_lt i o p Ho Hp) as [Hlt Hvp]; pose proof (IH p ltac:(lia) Hvp) as Hpar;
      destruct (eff_priv o) eqn:He; repeat (sym Ho; rewrite ?Hpriv, ?Hp, ?Hpar); try reflexivity;
        destruct (visible r p); reflexivity
    | destruct (eff_priv o) eqn:He; repeat (sym Ho; rewrite ?Hpriv, ?Hp); reflexivity ]
  | (* iterative spelling *)
    sym Ho;
    match goal with |- context [for_loop ?st (map VObj (chain_up ?fu r i)) ?en] =>
      destruct (for_loop_search st (fun v => match v with VObj x => is_hidden (priv_of r x) | _ => false end) (VBool false)
                                (map VObj (chain_up fu r i)) en) as [[Hex Hr]|[Hex [en1 Hr]]];
      [ intros v en0 Hin; apply in_map_iff in Hin; destruct Hin as [x [E Hx]]; subst v;
        pose proof (chain_up_valid fu i x Hv Hx) as Hvx; destruct (valid_get r x Hvx) as [ox Hox];
        pose proof (code_privacy n x ox ltac:(lia) Hox) as Hpx; rewrite (priv_of_get r x ox Hox);
        cbn beta iota; rewrite Hpx; destruct (eff_priv ox); cbn;
        first [ left; split; reflexivity | right; split; [reflexivity|eexists; reflexivity] ]
      | | ];
      rewrite Hr; rewrite existsb_map in Hex; rewrite (chain_hidden fu i ltac:(unfold fuel_of; pose proof Hv; unfold valid in *; lia) Hv) in Hex;
      cbn; destruct (visible r i); try discriminate Hex; reflexivity
    end ].
Qed.

(* Documentable.isPrivate *)
Theorem code_is_private : forall fuel i, 3 <= fuel -> valid r i ->
  run' fuel FIsPrivate i env0 = Val (VBool (is_private r i)).
Proof.
  intros fuel i Hf Hv. destruct fuel as [|n]; [lia|]. destruct (valid_get r i Hv) as [o Ho].
  pose proof (code_privacy n i o ltac:(lia) Ho) as Hpriv.
  unfold is_private, priv_of. rewrite Ho.
  destruct (eff_priv o) eqn:He; repeat (sym Ho; rewrite ?Hpriv); reflexivity.
Qed.

(* Documentable.privacyClass / Module.privacyClass, as the attribute access x.privacyClass *)
Theorem code_privacy_class : forall fuel i, 2 <= fuel -> valid r i ->
  run_privacy quote site_code r fuel i = Val (VPriv (priv_of r i)).
Proof.
  intros fuel i Hf Hv. destruct (valid_get r i Hv) as [o Ho]. unfold run_privacy, priv_of. rewrite Ho.
  exact (code_privacy fuel i o Hf Ho).
Qed.

(* Documentable.page_object: the object itself, its parent, or an AssertionError exactly where the model has no page *)
Theorem code_page_object : forall fuel i, 1 <= fuel -> valid r i ->
  run' fuel FPageObject i env0 = match page_obj r i with Some p => Val (VObj p) | None => Err end.
Proof.
  intros fuel i Hf Hv. destruct fuel as [|n]; [lia|]. destruct (valid_get r i Hv) as [o Ho].
  unfold page_obj. rewrite Ho.
  destruct (own_kind (o_kind o)) eqn:Hk; destruct (o_parent o) as [p|] eqn:Hp;
    repeat (sym Ho; rewrite ?Hk, ?Hp); try reflexivity; rewrite ?Nat.eqb_refl; reflexivity.
Qed.

Lemma page_obj_le : forall i p, page_obj r i = Some p -> p <= i /\ valid r p.
Proof.
  intros i p H. unfold page_obj in H. destruct (get r i) as [o|] eqn:Ho; [|discriminate].
  destruct (own_kind (o_kind o)).
  - inversion H; subst p. split; [lia|exact (get_valid r i o Ho)].
  - destruct (parent_lt i o p Ho H). split; [lia|assumption].
Qed.

(* the slice spelling of `u.startswith(p + c)`:  u[len(p):len(p)+1] == c and u[:len(p)] == p *)
Lemma prefix_slice : forall p u, text_eqb (firstn (length p) u) p = starts_with p u.
Proof.
  induction p as [|x p IH]; intros u; [reflexivity|]. destruct u as [|y u]; [reflexivity|].
  cbn [length firstn text_eqb starts_with]. rewrite IH. now rewrite N.eqb_sym.
Qed.

Lemma slices_prefix : forall p u c,
  text_eqb (firstn 1 (skipn (length p) u)) [c] && text_eqb (firstn (length p) u) p = starts_with (p ++ [c]) u.
Proof.
  induction p as [|x p IH]; intros u c.
  - cbn [length skipn firstn app]. destruct u as [|y u]; cbn; [reflexivity|]. now rewrite N.eqb_sym, !andb_true_r.
  - destruct u as [|y u]; [reflexivity|]. cbn [length skipn firstn app text_eqb starts_with].
    rewrite <- IH. rewrite (N.eqb_sym y x). destruct (N.eqb x y); [reflexivity|]. cbn. now rewrite andb_false_r.
Qed.

(* Documentable.url *)
Theorem code_url : forall fuel i, i + 3 < fuel -> valid r i ->
  run' fuel FUrl i env0 = match page_obj r i with Some _ => Val (VStr (url quote r i)) | None => Err end.
Proof.
  intros fuel i Hf Hv. destruct fuel as [|n]; [lia|]. destruct (valid_get r i Hv) as [o Ho].
  pose proof (code_page_object n i ltac:(lia) Hv) as Hpg. unfold url.
  destruct (page_obj r i) as [p|] eqn:Hpo.
  - destruct (page_obj_le i p Hpo) as [Hle Hvp]. pose proof (code_fullname n p ltac:(lia) Hvp) as Hfn.
    unfold page_url, single_root_is, name_of. rewrite Ho.
    destruct (r_root_names r) as [|x [|y l]] eqn:Hrn; destruct (Nat.eqb p i) eqn:Hpi;
      repeat (sym Ho; rewrite ?Hpg, ?Hfn, ?Hrn, ?Hpi, ?andb_true_r);
      try (destruct (text_eqb x (fullname r p)) eqn:Hx); repeat (sym Ho; rewrite ?Hpi, ?Hx);
      rewrite <- ?app_assoc; reflexivity.
  - sym Ho. rewrite Hpg. reflexivity.
Qed.

(* linker.taglink(o, page_url, label): the tag the model's taglink describes *)
Definition taglink_tag (o : nat) (ctx : text) (label : ival) : ival :=
  let lab := match label with VNone => VStr (fullname r o) | _ => label end in
  match taglink quote table_now r o ctx with
  | None => VTag lab None None
  | Some h => VTag lab (Some h) (if veq lab (VStr (fullname r o)) then None else Some (VStr (fullname r o)))
  end.

Theorem code_taglink : forall fuel o ctx label, o + 5 < fuel -> valid r o -> page_obj r o <> None ->
  (label = VNone \/ exists t, label = VStr t) ->
  run' fuel FTaglink o (taglink_args ctx label) = Val (taglink_tag o ctx label).
Proof.
  intros fuel o ctx label Hf Hv Hpo Hlab. destruct fuel as [|n]; [lia|]. destruct (valid_get r o Hv) as [ob Ho].
  pose proof (code_is_visible n o ltac:(lia) Hv) as Hvis.
  pose proof (code_fullname n o ltac:(lia) Hv) as Hfn.
  pose proof (code_url n o ltac:(lia) Hv) as Hurl. destruct (page_obj r o) as [pp|]; [|congruence].
  unfold taglink_tag, taglink, shorten, taglink_args.
  assert (Hflag : t_taglink_drops_hidden table_now = true) by reflexivity. rewrite Hflag.
  unfold c_hash.
  pose proof (slices_prefix ctx (url quote r o) 35%N) as Hsl.
  assert (Hnil' : is_nil ctx = true -> ctx = []) by (destruct ctx; [reflexivity|discriminate]).
  destruct (is_nil ctx) eqn:Hnil; destruct (starts_with (ctx ++ [35%N]) (url quote r o)) eqn:Hsw;
    destruct (text_eqb (firstn 1 (skipn (length ctx) (url quote r o))) [35%N]) eqn:HA;
    destruct (text_eqb (firstn (length ctx) (url quote r o)) ctx) eqn:HB; cbn [andb] in Hsl; try discriminate Hsl;
    destruct Hlab as [E|[t E]]; subst label; destruct (visible r o) eqn:Hvo;
    repeat (sym Ho; rewrite ?Hvis, ?Hfn, ?Hurl, ?Hnil, ?Hsw, ?HA, ?HB, ?text_eqb_refl);
    try match goal with |- context [text_eqb ?a ?b] => destruct (text_eqb a b) eqn:Hte end;
    repeat (sym Ho; rewrite ?Hfn, ?Hurl, ?Hnil, ?Hsw, ?HA, ?HB, ?Hte);
    try reflexivity;
    (* page_url = '': the slice tests were not what decided *)
    try (rewrite (Hnil' eq_refl) in *; cbn [length skipn firstn] in *; reflexivity).
Qed.
End Code.
