(* Proofs/VisitorIRProofs.v -- the interpretation of the bodies translated from the CURRENT pydoctor/visitor.py
   (Gen/VisitorCode.v) is the hand-written Model/Visitor.v, for every tree, extension list and pruning function. *)
From Coq Require Import NArith List Bool.
From PydoctorVerif Require Import Model.Visitor Model.VisitorIR Gen.VisitorCode Proofs.VisitorProofs.
Import ListNotations.

Definition esc_of (b : bool) : option exc := if b then Some XSkipSiblings else None.
Definition conv (r : list event * bool) : list event * option exc := (fst r, esc_of (snd r)).

Ltac norm_lists := repeat (progress (rewrite ?map_app, ?app_nil_r, <- ?app_assoc; cbn [map app])).

Section WithConfig.
  Variable exts : list ext.
  Variable prune : N -> option action.

  (* Visitor.visit: the events are visit_ev, and what escapes is exactly what the main handler raised *)
  Lemma visit_ir_eq n :
    visit_ir visitor_code exts prune n = (visit_ev exts n, option_map exc_of_action (prune n)).
  Proof.
    unfold visit_ir, call_sem0, visit_ev, before_, after_, inner_, outter_.
    destruct (prune n) as [[| | |]|]; cbn; unfold ext_sem_at; cbn; norm_lists; reflexivity.
  Qed.

  Lemma depart_ir_eq n b :
    depart_ir visitor_code exts prune n b = (depart_ev exts n b, None).
  Proof.
    unfold depart_ir, depart_ev, before_, after_, inner_, outter_.
    destruct b; cbn; unfold ext_sem_at; cbn; norm_lists; reflexivity.
  Qed.

  (* the children loop: Model.Visitor.kids_loop keeps the trace only, the exception that stopped the loop is SkipSiblings *)
  Lemma loop_eq (f : tree -> list event * option exc) (g : tree -> list event * bool) kids :
    Forall (fun k => f k = conv (g k)) kids ->
    exists b, loop f kids = (kids_loop g kids, esc_of b).
  Proof.
    induction kids as [|k ks IH]; intros HF.
    - exists false. reflexivity.
    - inversion HF as [|? ? Hk Hks]; subst. destruct (IH Hks) as [b Hb].
      cbn [loop kids_loop]. fold (loop f). rewrite Hk. unfold conv. destruct (g k) as [tr [|]]; cbn [fst snd esc_of].
      + exists true. reflexivity.
      + rewrite Hb. exists b. reflexivity.
  Qed.

  Theorem walkabout_ir_eq t :
    walkabout_ir visitor_code exts prune t = conv (walkabout exts prune t).
  Proof.
    induction t as [n kids IH] using tree_ind'.
    destruct (loop_eq _ _ kids IH) as [b Hb].
    cbn [walkabout_ir walkabout]. rewrite Hb.
    unfold visitor_code, code_walkabout. cbn [c_walkabout].
    unfold conv.
    destruct (prune n) as [[| | |]|] eqn:Hp, b;
      cbn -[visit_ir depart_ir]; rewrite ?visit_ir_eq, ?Hp; cbn -[visit_ir depart_ir];
      rewrite ?depart_ir_eq; cbn; norm_lists; reflexivity.
  Qed.

  Theorem walk_ir_eq t :
    walk_ir visitor_code exts prune t = conv (walk exts prune t).
  Proof.
    induction t as [n kids IH] using tree_ind'.
    destruct (loop_eq _ _ kids IH) as [b Hb].
    cbn [walk_ir walk]. rewrite Hb.
    unfold visitor_code, code_walk. cbn [c_walk].
    unfold conv.
    destruct (prune n) as [[| | |]|] eqn:Hp, b;
      cbn -[visit_ir depart_ir]; rewrite ?visit_ir_eq, ?Hp; cbn -[visit_ir depart_ir];
      norm_lists; reflexivity.
  Qed.
End WithConfig.

From PydoctorVerif Require Import Spec.Walk.

Lemma code_walkabout_projection :
  forall (exts : list ext) (prune : N -> option action) (t : tree) (p : N),
    NoDup (main_id :: map ext_id exts) -> In p (main_id :: map ext_id exts) ->
    filter (who_is p) (fst (walkabout_ir visitor_code exts prune t)) = dfs p (leaves_of prune p) (traversed prune t)
    /\ (snd (walkabout_ir visitor_code exts prune t) <> None <-> skips_siblings prune (root t) = true).
Proof.
  intros exts prune t p Hnd Hin. rewrite walkabout_ir_eq. unfold conv. cbn [fst snd]. split.
  - apply walkabout_projection; assumption.
  - rewrite walkabout_escape. destruct (skips_siblings prune (root t)); cbn; split; intros H; try discriminate; try reflexivity.
    exfalso. apply H. reflexivity.
Qed.

